#!/bin/sh
# Builds the framework from files on disk only (offline): regenerate Gen from /repo, build all Lean
# libraries (Spec, Gen, Model, Proofs, Props) and the two executables (judge, model).
set -e
cd "$(dirname "$0")"
/venv/bin/python tools/gen.py "${SEGNO_REPO:-/repo}" lean
cd lean
lake build judge model
lake build Spec Gen Model Proofs Props
