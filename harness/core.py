"""Check driver core: regenerate Gen (Tie A), build + audit the property's theorems, run the
property's correspondence / judging harness (Tie B + judge), decide, write evidence and replays."""
import fcntl
import glob
import re
import shutil
import traceback

from common import *

TRUSTED_AXIOMS = {'propext', 'Classical.choice', 'Quot.sound'}
FORBIDDEN = re.compile(r'\b(sorry|admit|native_decide|bv_decide|implemented_by|unsafe)\b|^\s*axiom\s|maxHeartbeats\s+0\b')

# which Lean modules carry the property theorems of each property
PROP_MODULES = {
    'C01': ['Props.C01', 'Props.C01Stream', 'Props.C01Placement', 'Props.EndToEnd', 'Props.TieA3', 'Props.TieA3Kanji', 'Props.TieA5'], 'C02': ['Props.C02', 'Props.C02Model', 'Props.C01Placement', 'Props.TieA', 'Props.TieA2', 'Props.TieA3', 'Props.TieA4'], 'C03': ['Props.C03Tables', 'Props.C03', 'Props.C03Message', 'Props.C03Distance', 'Props.TieA2', 'Props.TieA3'], 'C04': ['Props.C04', 'Props.EncodeLevel', 'Props.TieA', 'Props.TieA2', 'Props.TieA6'],
    'C05': ['Props.C05', 'Props.EncodeLevel', 'Props.TieA', 'Props.TieA2'], 'C06': ['Props.C06', 'Props.EncodeLevel', 'Props.TieA2', 'Props.TieA3'], 'C07': ['Props.C07', 'Props.EncodeLevel', 'Props.TieA', 'Props.TieA2', 'Props.TieA3', 'Props.TieA3Kanji', 'Props.TieA6'], 'C08': ['Props.C08', 'Props.C08Roundtrip', 'Props.TieA', 'Props.TieA2'], 'C09': ['Props.C09', 'Props.C09Png', 'Props.C09Docs', 'Props.TieA'],
    'C10': ['Props.C10', 'Props.C10Accept', 'Props.C10Docs'], 'C11': ['Props.C11Align1', 'Props.C11Align2', 'Props.C11Align3', 'Props.C11Align4', 'Props.C11Align5', 'Props.C11Align6',
            'Props.C11Align7', 'Props.C11Align8', 'Props.C11', 'Props.C11Colormap', 'Props.C09Png', 'Props.C11Svg', 'Props.TieA'], 'C12': ['Props.C12', 'Props.C12Routes'], 'C13': ['Props.C13', 'Props.TieA2', 'Props.TieA3', 'Props.TieA3Kanji', 'Props.TieA5'], 'C14': ['Props.C14', 'Props.C14NoCrash', 'Props.C14Colour', 'Props.C14Serializers', 'Props.C14Routes', 'Props.TieA'],
    'C15': ['Props.C15'], 'C16': ['Props.C16', 'Props.C16Epc'],
}


def log(*a):
    print(*a, flush=True)


class ProofStatus:
    def __init__(self):
        self.obligations = []      # theorem names
        self.discharged = []       # theorem names that compiled and passed the axiom audit
        self.axioms = {}           # name -> list
        self.broken = []           # (what, message) — broken proof obligations / ties
        self.model_ok = True
        self.judge_ok = True
        self.checker_cmd = ''
        self.gen = ''


def strip_comments(src):
    src = re.sub(r'/-.*?-/', '', src, flags=re.S)
    return re.sub(r'--.*', '', src)


def theorems_of(module):
    path = os.path.join(LEAN, *module.split('.')) + '.lean'
    if not os.path.exists(path):
        return None, path
    src = strip_comments(open(path).read())
    ns = None
    names = []
    for line in src.split('\n'):
        m = re.match(r'\s*namespace\s+(\S+)', line)
        if m:
            ns = m.group(1)
        m = re.match(r'\s*(?:private\s+|protected\s+)?theorem\s+([A-Za-z_][\w\.\']*)', line)
        if m:
            names.append((ns + '.' if ns else '') + m.group(1))
    return names, path


def forbidden_hits(modules):
    hits = []
    for pat in ('Spec', 'Model', 'Proofs', 'Props'):
        for path in glob.glob(os.path.join(LEAN, pat, '*.lean')):
            src = strip_comments(open(path).read())
            for n, line in enumerate(src.split('\n'), 1):
                if FORBIDDEN.search(line):
                    hits.append(f'{os.path.relpath(path, LEAN)}:{n}: {line.strip()[:80]}')
    return hits


def run(cmd, cwd=None, timeout=3600):
    p = subprocess.run(cmd, cwd=cwd, stdout=subprocess.PIPE, stderr=subprocess.STDOUT, timeout=timeout)
    return p.returncode, p.stdout.decode('utf-8', 'replace')


def prepare(prop, thorough=False):
    """Tie A + proof obligations.  Never raises for a broken proof: records it."""
    st = ProofStatus()
    t_prep = time.time()
    os.makedirs(os.path.join(VERIF, '.cache'), exist_ok=True)
    with open(os.path.join(LEAN, '..', '.lock') if os.environ.get('SEGNO_VERIF_LEAN') else os.path.join(VERIF, '.lock'), 'w') as lock:
        fcntl.flock(lock, fcntl.LOCK_EX)
        rc, out = run(['/venv/bin/python', os.path.join(VERIF, 'tools', 'gen.py'), REPO, LEAN])
        st.gen = out.strip()[-300:]
        if rc != 0:
            st.broken.append(('translator tools/gen.py', out[-1500:]))
        # executables first (judge imports Spec only and survives a broken Gen)
        rc, out = run(['lake', 'build', 'judge'], cwd=LEAN)
        if rc != 0:
            st.judge_ok = False
            st.broken.append(('build of judge', out[-1500:]))
        rc, out = run(['lake', 'build', 'model'], cwd=LEAN)
        if rc != 0:
            st.model_ok = False
            st.broken.append(('build of the model (Gen/Model no longer type-check against the regenerated tables)', errors_of(out)))
        modules = [m for m in PROP_MODULES[prop] if theorems_of(m)[0] is not None]
        if len(modules) > 1:
            run(['lake', 'build'] + modules, cwd=LEAN)   # all at once (lake builds them in parallel); judged per module below
        for m in modules:
            names, path = theorems_of(m)
            st.obligations += names
            rc, out = run(['lake', 'build', m], cwd=LEAN)
            if rc != 0:
                failing = failing_theorems(out, m, names)
                for f in failing or ['<module ' + m + '>']:
                    st.broken.append((f'theorem {f}', errors_of(out)))
                continue
            # axiom audit
            audit = os.path.join(VERIF, '.cache', f'Audit_{m.replace(".", "_")}.lean')
            with open(audit, 'w') as f:
                f.write(f'import {m}\n' + ''.join(f'#print axioms {n}\n' for n in names))
            rc, out = run(['lake', 'env', 'lean', audit], cwd=LEAN)
            ax = parse_axioms(out)
            for n in names:
                if n not in ax:
                    st.broken.append((f'theorem {n}', 'axiom audit produced no answer: ' + out[-300:]))
                    continue
                st.axioms[n] = ax[n]
                if set(ax[n]) <= TRUSTED_AXIOMS:
                    st.discharged.append(n)
                else:
                    st.broken.append((f'theorem {n}', f'depends on untrusted axioms {ax[n]}'))
            if thorough:
                rc, out = run(['lake', 'env', 'leanchecker', m], cwd=LEAN, timeout=1800)
                if rc != 0:
                    st.broken.append((f'leanchecker {m}', out[-800:]))
        hits = forbidden_hits(modules)
        if hits:
            st.broken.append(('forbidden construct in proof sources', '; '.join(hits[:10])))
        st.checker_cmd = ('cd lean && lake build ' + ' '.join(modules) + ' && lake env lean <#print axioms of every theorem>'
                          + (' && lake env leanchecker ' + ' '.join(modules) if thorough else ''))
    st.prepare_s = round(time.time() - t_prep, 1)
    return st


def errors_of(out):
    lines = [l for l in out.split('\n') if 'error' in l.lower()]
    return '\n'.join(lines[:12])[-1500:] or out[-800:]


def failing_theorems(out, module, names):
    """maps `error: File.lean:LINE:` to the theorem whose statement starts at or before LINE"""
    path = os.path.join(LEAN, *module.split('.')) + '.lean'
    rel = os.path.relpath(path, LEAN)
    src = open(path).read().split('\n')
    starts = []
    for n, line in enumerate(src, 1):
        m = re.match(r'\s*(?:private\s+|protected\s+)?theorem\s+([A-Za-z_][\w\.\']*)', line)
        if m:
            starts.append((n, m.group(1)))
    res = []
    for m in re.finditer(re.escape(rel) + r':(\d+):', out):
        ln = int(m.group(1))
        cand = [nm for (s, nm) in starts if s <= ln]
        if cand and cand[-1] not in res:
            res.append(cand[-1])
    return res


def parse_axioms(out):
    res = {}
    for m in re.finditer(r"'([^']+)' depends on axioms: \[([^\]]*)\]", out.replace('\n', ' ')):
        res[m.group(1)] = [a.strip() for a in m.group(2).split(',') if a.strip()]
    for m in re.finditer(r"'([^']+)' does not depend on any axioms", out):
        res[m.group(1)] = []
    return res


# ---------------------------------------------------------------------------------- known findings
def load_known():
    known, fixed = [], []
    path = os.path.join(VERIF, 'KNOWN_FINDINGS.txt')
    if os.path.exists(path):
        for line in open(path):
            line = line.strip()
            if line.startswith('known:'):
                d = dict(re.findall(r'(\w+)=(\S+)', line.split('::')[0]))
                d['text'] = line.split('::', 1)[1].strip() if '::' in line else ''
                known.append(d)
            elif line.startswith('fixed:'):
                fixed.append(line)
    return known, fixed


class Result:
    """what a property harness reports"""

    def __init__(self):
        self.evaluations = 0
        self.nontrivial = set()        # canonical keys of distinct non-trivial cases
        self.rule = ''
        self.samples = []
        self.violations = []           # dicts: what, call, impl, judge, model
        self.known_hits = {}           # known id -> count
        self.known_example = {}
        self.corr_checked = 0
        self.corr_diffs = []           # dicts: call, impl, model
        self.distribution = {}
        self.notes = []
        self.exhaustive = False

    def count(self, key, n=1):
        self.distribution[key] = self.distribution.get(key, 0) + n


OUT = os.environ.get('SEGNO_VERIF_OUT', VERIF)   # where evidence/ and replays/ go (scratch runs against mutants)


def write_replay(prop, kind, payload):
    os.makedirs(os.path.join(OUT, 'replays'), exist_ok=True)
    body = json.dumps(payload, indent=1, sort_keys=True, default=str)
    h = hashlib.sha1(body.encode()).hexdigest()[:12]
    path = os.path.join('replays', f'{prop}-{kind}-{h}.json')
    with open(os.path.join(OUT, path), 'w') as f:
        f.write(body)
    return path


def decide_and_report(prop, tier, seed, st, res, t0, level_text, extra_assumptions=()):
    """Applies DESIGN §5 step 4, writes evidence, prints VIOLATION / KNOWN-FINDING lines; returns exit code."""
    known, _ = load_known()
    known_ids = {k['id'] for k in known if k.get('property') == prop}
    exit_code = 0
    lines = []
    # 1. demonstrated violations on the real code
    real = []
    for v in res.violations:
        kid = v.get('known_id')
        if kid and kid in known_ids:
            res.known_hits[kid] = res.known_hits.get(kid, 0) + 1
            res.known_example.setdefault(kid, v)
        else:
            real.append(v)
    for kid, n in sorted(res.known_hits.items()):
        k = [k for k in known if k['id'] == kid and k.get('property') == prop]
        text = k[0]['text'] if k else ''
        lines.append(f'KNOWN-FINDING: property={prop} {kid}: {text} ({n} inputs of this run)')
    if real:
        v = real[0]
        path = write_replay(prop, 'violation', dict(property=prop, tier=tier, seed=seed, kind='violation-on-implementation',
                                                    total_violations=len(real), first=v, more=real[1:10]))
        lines.append(f'VIOLATION property={prop} replay={path}')
        exit_code = 1
    else:
        # 2. broken proof obligation / correspondence without a failing input
        broken = list(st.broken)
        if res.corr_diffs:
            broken.append(('correspondence model/implementation', json.dumps(res.corr_diffs[0], default=str)[:1500]))
        if broken:
            path = write_replay(prop, 'broken', dict(property=prop, tier=tier, seed=seed, kind='no-failing-input-found',
                                                     broken=[dict(what=w, message=m) for w, m in broken],
                                                     correspondence_diffs=res.corr_diffs[:5],
                                                     searched=dict(evaluations=res.evaluations, rule=res.rule)))
            lines.append(f'VIOLATION property={prop} replay={path} no-failing-input-found')
            exit_code = 1
    ev = dict(
        property_id=prop, tier=tier, seed=seed, level='proof',
        coverage=dict(
            obligations=max(1, len(st.obligations)), discharged=len(st.discharged),
            checker_cmd=st.checker_cmd or 'cd lean && lake build',
            trusted_base=['Lean 4.33 kernel', 'axioms: ' + ', '.join(sorted({a for v in st.axioms.values() for a in v}) or ['none']),
                          'tools/gen.py (translator, Tie A)', 'harness/*.py (correspondence + drivers, Tie B)',
                          'frozen ISO tables in lean/Spec/Tables.lean'] + list(extra_assumptions),
            theorems={n: st.axioms.get(n, 'NOT-DISCHARGED') for n in st.obligations},
            broken=[w for w, _ in st.broken],
            evaluations=res.evaluations, distinct_nontrivial=len(res.nontrivial), rule=res.rule,
            samples=res.samples[:8] or ['<none>'], exhaustive=res.exhaustive,
            correspondence_checked=res.corr_checked, correspondence_diffs=len(res.corr_diffs),
            judged_violations=len(real), known_findings_hit=res.known_hits, distribution=res.distribution,
            notes=res.notes, gen=st.gen, prepare_seconds=getattr(st, 'prepare_s', None)),
        assumptions=[level_text] + list(extra_assumptions),
        wall_s=round(time.time() - t0, 2), violations=len(real))
    os.makedirs(os.path.join(OUT, 'evidence'), exist_ok=True)
    with open(os.path.join(OUT, 'evidence', f'{prop}.json'), 'w') as f:
        json.dump(ev, f, indent=1, sort_keys=True, default=str)
    for dct in res.corr_diffs[:3]:
        log('CORRESPONDENCE-DIFF ' + json.dumps(dct, default=str)[:600])
    for dct in real[:3]:
        log('FAILING-INPUT ' + json.dumps({k: dct[k] for k in dct if k != 'replay'}, default=str)[:600])
    for l in lines:
        log(l)
    log(f'{prop} {tier}: obligations={len(st.obligations)} discharged={len(st.discharged)} evaluations={res.evaluations} '
        f'distinct_nontrivial={len(res.nontrivial)} corr={res.corr_checked} diffs={len(res.corr_diffs)} '
        f'violations={len(real)} known={res.known_hits} wall={ev["wall_s"]}s exit={exit_code}')
    return exit_code
