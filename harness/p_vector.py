"""C10 — vector outputs (SVG, EPS, PDF, LaTeX/PGF) paint exactly the dark modules.

Drives the real serialisers through the public API (`segno.make(...).save(out, kind=..., **options)`),
splits the documents into tokens (vecparse.py: XML, PostScript tokens, PDF objects + inflate, PGF macros)
and hands them to the Lean judge (`svg` / `eps` / `pdf` / `tex` commands of Spec/Vector.lean), which
interprets the drawing with the document's own transform and rasterises it on the module grid.
Correspondence: the token stream of the module path (relative moves of SVG / EPS, absolute of PDF) and
the recovered absolute runs are compared with the Lean model of `matrix_to_lines` + emitters; PDF object
offsets with the model's prefix sums.  Synthetic (non-QR) matrices go through `segno.writers.save` and
are used for the correspondence only (the property speaks about symbols)."""
import io
import re

import random
from core import *
from enc import *          # segno, consts, matrix_str …
import vecparse
from segno import writers

SCALES = [1, 2, 10, 0.5, 0.25, 1.5, 3.3, 7.25]
EXTRA_SCALES = [1.0, 3, 4, 0.1, 2.5, 12.75, 100, 0.75, 5.5, 1.25, 20, 0.3, 1e-05, 33.33]
NAMES = ['red', 'blue', 'green', 'yellow', 'darkblue', 'tan', 'white', 'black', 'navy', 'orange', 'lightgrey', 'Red', 'DARKGREEN',
         'aliceblue', 'teal', 'gold', 'silver', 'fuchsia', 'lime', 'aqua']
HEXES = ['#000', '#fff', '#FFF', '#abc', '#ABCDEF', '#a1b2c3', '#ff0000', '#d2b48c', '#112233', '#0a0B0c', '#808080', '#fffffe',
         '#36c', '#000000', '#FFFFFF', '#123456']
HEXES_ALPHA = ['#11223380', '#abcf', '#00000080', '#ff000040', '#1234', '#ffffff00', '#0a141e20']
UNITS = [None, None, 'mm', 'cm', 'px', 'pt', 'in', 'em', 'pc', '%']
TEX_UNITS = [None, 'pt', 'mm', 'cm', 'bp', 'in', 'ex', 'sp']
TEX_COLORS = [None, 'black', 'blue', 'red', 'red!50!black', 'darkgray', 'MyColor', '']
URLS = [None, None, 'https://example.org/', 'http://x.org/a%20b?c=d&e=f#g', 'mailto:me@example.org', 'https://example.org/~u/_x']
TITLES = [None, None, 'QR', 'a<&"b', '<script>&amp;"\'', 'Tom & "Jerry" <3', 'ünï©ode ✓', ']]>', '']


def color_spec(c):
    """the requested colour in the judge's notation (no resolution here: the judge owns the colour rules)"""
    if c is None:
        return 'none'
    if isinstance(c, tuple):
        return 'tuple:' + ','.join(repr(x) for x in c)
    if c.startswith('#'):
        return 'hex:' + c[1:]
    return 'name:' + c


def rgb_key(c):
    """only to keep the generator from asking for the same colour twice (dark == light is not a sensible request)"""
    try:
        return writers._color_to_rgba(c)[:3] if c is not None else None
    except Exception:  # noqa
        return repr(c)


def rand_color(rnd, kind, allow_none=False, allow_alpha=False):
    r = rnd.random()
    if allow_none and r < 0.25:
        return None
    if r < 0.5:
        return rnd.choice(NAMES)
    if r < 0.75:
        return rnd.choice(HEXES_ALPHA) if allow_alpha and rnd.random() < 0.25 else rnd.choice(HEXES)
    if kind in ('eps', 'pdf') and rnd.random() < 0.35:
        return tuple(rnd.choice([0.0, 1.0, 0.5, 0.25, 0.125, 0.2, 0.75, round(rnd.random(), 3)]) for _ in range(3))
    t = tuple(rnd.choice([0, 255, 128, 17, 34, 200, 2, 254, rnd.randrange(256)]) for _ in range(3))
    if allow_alpha and rnd.random() < 0.3:
        t = t + (rnd.choice([0.5, 0.25, 0.3, 1.0, 128, 64, 255, 200, 77, 0.125]),)
    return t


class Doc:
    __slots__ = ('sym', 'kind', 'kw', 'tag', 'data', 'exc', 'fields', 'judge', 'jkv', 'model', 'synthetic')

    def __init__(self, sym, kind, kw, tag):
        self.sym, self.kind, self.kw, self.tag = sym, kind, kw, tag
        self.data = self.exc = self.fields = self.judge = self.jkv = self.model = None
        self.synthetic = sym.get('qr') is None

    def call(self):
        kws = ', '.join(f'{k}={v!r}' for k, v in sorted(self.kw.items()))
        if self.synthetic:
            return f"segno.writers.save(matrix={self.sym['desc']}, ({self.sym['size']}, {self.sym['size']}), out, kind={self.kind!r}, {kws})"
        return f"segno.make({self.sym['content']!r}, {self.sym['mkstr']}).save(out, kind={self.kind!r}, {kws})"

    def replay(self):
        return dict(content=self.sym.get('content'), make_kw=self.sym.get('mk'), matrix=None if not self.synthetic else self.sym['m'],
                    kind=self.kind, kw={k: (list(v) if isinstance(v, tuple) else v) for k, v in self.kw.items()})


def make_pool(rnd, tier):
    from symbols import content_for, max_chars, levels_of, modes_of, vname, LEVEL_NAME
    if tier == 'quick':
        versions = [-3, -2, -1, 0, 1, 2, 3, 4, 5, 6, 7, 9, 10, 13, 14, 18, 20, 25, 27, 33, 40]
    else:
        versions = [-3, -2, -1, 0] + list(range(1, 41))
    pool = []
    for v in versions:
        for rep in range(1 if (tier == 'quick' and v > 7) else 2):
            e = rnd.choice(levels_of(v))
            mode = rnd.choice(modes_of(v))
            n = max(1, rnd.randint(1, max(1, max_chars(v, e, mode))))
            mk = dict(version=vname(v), mask=rnd.randrange(4 if v < 1 else 8), boost_error=False)
            if e is not None:
                mk['error'] = LEVEL_NAME[e]
            if mode in (8, 13):
                mk['mode'] = {8: 'kanji', 13: 'hanzi'}[mode]
            content = content_for(rnd, mode, n)
            qr = segno.make(content, **mk)
            m = [list(r) for r in qr.matrix]
            pool.append(dict(qr=qr, content=content, mk=mk, mkstr=', '.join(f'{k}={x!r}' for k, x in sorted(mk.items())),
                             m=m, mstr=matrix_str(m), size=len(m), v=v))
    return pool


def synthetic_pool(rnd, tier):
    """square 0/1 matrices with the row shapes real symbols seldom have: entirely light / dark rows, rows that
    start or end with a light module, single modules, alternating modules"""
    out = []
    sizes = [1, 2, 3, 5, 8, 11, 17, 18, 21, 30] if tier == 'quick' else [1, 2, 3, 4, 5, 7, 8, 11, 13, 17, 18, 21, 25, 30, 45, 60]
    for n in sizes:
        for rep in range(2 if tier == 'quick' else 5):
            rows = []
            for i in range(n):
                k = rnd.randrange(8)
                if k == 0:
                    row = [0] * n
                elif k == 1:
                    row = [1] * n
                elif k == 2:
                    row = [(j + i) % 2 for j in range(n)]
                elif k == 3:
                    row = [0] * n
                    row[rnd.randrange(n)] = 1
                elif k == 4:
                    row = [1] * n
                    row[rnd.randrange(n)] = 0
                else:
                    row = [int(rnd.random() < 0.5) for _ in range(n)]
                rows.append(row)
            if rep % 2 == 0:
                rows[0][0] = 1      # as in every real symbol (finder pattern)
            if not any(any(r) for r in rows):
                rows[0][0] = 1
            out.append(dict(qr=None, m=rows, mstr=matrix_str(rows), size=n, desc=f'<{n}x{n} synthetic {matrix_str(rows)[:40]}…>', v=None))
    return out


def gen_docs(rnd, tier, pool, syn):
    docs = []
    reps = 12 if tier == 'quick' else 50
    kinds = ['svg', 'eps', 'pdf', 'tex']
    k = 0
    for sym in pool:
        big = sym['size'] > 60
        for kind in kinds:
            for rep in range(reps if not big else max(2, reps // 3)):
                k += 1
                docs.append(Doc(sym, kind, rand_kw(rnd, kind, sym, k), 'symbol'))
    for sym in syn:
        for kind in kinds:
            k += 1
            kw = rand_kw(rnd, kind, sym, k)
            docs.append(Doc(sym, kind, kw, 'synthetic'))
    return docs


def rand_kw(rnd, kind, sym, k):
    kw = {}
    scale = SCALES[k % len(SCALES)] if rnd.random() < 0.8 else rnd.choice(EXTRA_SCALES)
    if scale != 1 or rnd.random() < 0.7:
        kw['scale'] = scale
    b = rnd.choice([None, None, 0, 1, 2, 3, 4, 5, 6])
    if b is not None or rnd.random() < 0.3:
        kw['border'] = b
    if kind == 'tex':
        d = rnd.choice(TEX_COLORS)
        if d is not None or rnd.random() < 0.2:
            kw['dark'] = d
        u = rnd.choice(TEX_UNITS)
        if u is not None:
            kw['unit'] = u
        url = rnd.choice(URLS)
        if url is not None or rnd.random() < 0.2:
            kw['url'] = url
        return kw
    alpha = kind == 'svg'
    if rnd.random() < 0.7:
        kw['dark'] = rand_color(rnd, kind, allow_none=(kind == 'svg' and rnd.random() < 0.3), allow_alpha=alpha)
    if rnd.random() < 0.7:
        for _ in range(20):
            light = rand_color(rnd, kind, allow_none=True, allow_alpha=alpha)
            if light is None or rgb_key(light) != rgb_key(kw.get('dark', '#000')):
                kw['light'] = light
                break
    if kind == 'pdf':
        if rnd.random() < 0.6:
            kw['compresslevel'] = rnd.choice([0, 1, 6, 9])
    if kind == 'svg':
        u = rnd.choice(UNITS)
        if u is not None:
            kw['unit'] = u
        if rnd.random() < (0.3 if u is None else 0.04):
            kw['omitsize'] = rnd.random() < 0.9
        if rnd.random() < 0.4:
            kw['svgversion'] = rnd.choice([None, 1.1, 1.2, 2.0, 2, 1.0])
        if rnd.random() < 0.25:
            kw['draw_transparent'] = rnd.random() < 0.8
        if rnd.random() < 0.3:
            kw['xmldecl'] = rnd.random() < 0.5
        if rnd.random() < 0.3:
            kw['svgns'] = rnd.random() < 0.5
        if rnd.random() < 0.3:
            kw['nl'] = rnd.random() < 0.5
        t = rnd.choice(TITLES)
        if t is not None:
            kw['title'] = t
        t = rnd.choice(TITLES)
        if t is not None:
            kw['desc'] = t
        if rnd.random() < 0.15:
            kw['svgclass'] = rnd.choice([None, 'a b', 'x"y'])
        if rnd.random() < 0.15:
            kw['lineclass'] = rnd.choice([None, 'stroke', 'q<r'])
        if rnd.random() < 0.1:
            kw['svgid'] = rnd.choice(['id1', 'a&b'])
    return kw


def produce(doc):
    binary = doc.kind in ('svg', 'pdf')
    out = io.BytesIO() if binary else io.StringIO()
    try:
        if doc.synthetic:
            n = doc.sym['size']
            writers.save([bytearray(r) for r in doc.sym['m']], (n, n), out, kind=doc.kind, **doc.kw)
        else:
            doc.sym['qr'].save(out, kind=doc.kind, **doc.kw)
    except Exception as ex:  # noqa
        doc.exc = type(ex).__name__
        return
    doc.data = out.getvalue()


def request(i, doc):
    """judge request line of a produced document; raises vecparse.ParseError if it is no container at all"""
    kw = doc.kw
    sym = doc.sym
    base = f'id={i} m={sym["mstr"]} border={"-" if kw.get("border") is None else kw["border"]} scale={kw.get("scale", 1)!r}'
    if doc.kind == 'svg':
        f = vecparse.parse_svg(doc.data)
        f['unit'] = vecparse.esc(kw['unit']) if kw.get('unit') else '-'
        f['omitsize'] = str(int(bool(kw.get('omitsize'))))
        f['dt'] = str(int(bool(kw.get('draw_transparent'))))
        for key in ('title', 'desc'):
            f['w' + key] = '-' if kw.get(key) is None else 'x' + vecparse.hexs(kw[key])
        dark, light = kw.get('dark', '#000'), kw.get('light')
    elif doc.kind == 'eps':
        f = vecparse.parse_eps(doc.data)
        dark, light = kw.get('dark', '#000'), kw.get('light')
    elif doc.kind == 'pdf':
        f = vecparse.parse_pdf(doc.data)
        dark, light = kw.get('dark', '#000'), kw.get('light')
    else:
        f = vecparse.parse_tex(doc.data)
        f['unit'] = vecparse.esc(kw['unit']) if kw.get('unit') is not None else 'pt'
        doc.fields = f
        return f'tex {base} dark=tex:{vecparse.hexs(kw.get("dark", "black") or "")} ' + ' '.join(f'{k}={v}' for k, v in f.items())
    doc.fields = f
    return f'{doc.kind} {base} dark={color_spec(dark)} light={color_spec(light)} ' + ' '.join(f'{k}={v}' for k, v in f.items())


def impl_tokens(doc):
    """token stream of the module path as the real document has it (canonical form for the correspondence)"""
    f = doc.fields
    if doc.kind == 'svg':
        for el in f['els'].split(';'):
            d = [a for a in el.split('|') if a.startswith('d:')]
            if d and not d[0].endswith(',z') and not d[0].endswith(',Z'):
                return d[0][2:]
        return '-'
    if doc.kind == 'eps':
        t = f['prog'].split(',')
        if 'newpath' in t and 'stroke' in t:
            return ','.join(t[t.index('newpath') + 1:t.index('stroke')])
        return '-'
    if doc.kind == 'pdf':
        t = f['content'].split(',')
        idx = [i for i, x in enumerate(t) if x == 'cm']
        return ','.join(t[idx[-1] - 6:]) if idx and idx[-1] >= 6 else '-'
    return '-'


def known_c10(verdict, doc):
    """no known findings for C10: D14, D15 and the three defects found by this check (SVG background dropped with
    draw_transparent, alpha 16 -> 0.625, colour byte 1 -> 1.0 in EPS/PDF) are repaired in /repo (fixed: records)"""
    return None


def targeted(pool):
    """deterministic cases for the colour rules at their edges"""
    sym = pool[0]
    sym2 = pool[min(5, len(pool) - 1)]
    out = []
    for kind in ('eps', 'pdf'):
        out += [Doc(sym, kind, dict(dark='#010101'), 'colour-edge'), Doc(sym2, kind, dict(dark='#000001', light='#fe01ff', scale=2), 'colour-edge'),
                Doc(sym, kind, dict(dark='#020202', light='#fffffe'), 'colour-edge'), Doc(sym, kind, dict(dark=(0.0, 0.0, 1.0), light=(1.0, 1.0, 0.0)), 'colour-edge')]
    out += [Doc(sym, 'svg', dict(dark='#00000010'), 'colour-edge'), Doc(sym2, 'svg', dict(dark=(1, 2, 3, 16), light=(255, 254, 253, 16), svgversion=2.0), 'colour-edge'),
            Doc(sym, 'svg', dict(dark=(1, 2, 3, 32), light='#abcdef40'), 'colour-edge'), Doc(sym, 'svg', dict(dark='#000f', light='#ffffffff'), 'colour-edge'),
            Doc(sym, 'svg', dict(dark='tan', light='#d2b48b'), 'colour-edge'), Doc(sym, 'svg', dict(dark='#ff0000', light='#ff0001'), 'colour-edge'),
            Doc(sym, 'svg', dict(light='aqua', draw_transparent=True), 'colour-edge')]
    # call histories with colours that compare equal as Python values but mean different colours
    # ((1.0, 0.0, 0.0) = full red as floats, (1, 0, 0) = 8 bit values; alpha 1.0 = opaque, alpha 1 = 1/255)
    for kind in ('eps', 'pdf'):
        out += [Doc(sym, kind, dict(dark=(1.0, 0.0, 0.0)), 'colour-history'), Doc(sym, kind, dict(dark=(1, 0, 0)), 'colour-history'),
                Doc(sym, kind, dict(dark=(0, 1, 0), light=(1, 1, 1)), 'colour-history'), Doc(sym, kind, dict(dark=(0.0, 1.0, 0.0), light=(1.0, 1.0, 1.0)), 'colour-history')]
    out += [Doc(sym, 'svg', dict(dark=(255, 0, 0, 1.0)), 'colour-history'), Doc(sym, 'svg', dict(dark=(255, 0, 0, 1)), 'colour-history'),
            Doc(sym, 'svg', dict(dark=(255, 0, 0, 1), light=(0, 0, 255, 1.0)), 'colour-history'), Doc(sym, 'svg', dict(dark=(255, 0, 0, 1.0), light=(0, 0, 255, 1)), 'colour-history')]
    return out


def run_C10(tier, rnd, st, res):
    pool = make_pool(rnd, tier)
    syn = synthetic_pool(rnd, tier)
    docs = targeted(pool) + gen_docs(rnd, tier, pool, syn)
    for sym in pool:
        if any(not any(r) for r in sym['m']):
            res.count('symbol-with-entirely-light-row')
        if any(r[0] and r[-1] for r in sym['m']):
            res.count('symbol-with-row-starting-and-ending-dark')
    for d in docs:
        produce(d)
    res.evaluations += len(docs)
    # ---------------------------------------------------------------- judge
    lines, idx = [], []
    for i, d in enumerate(docs):
        res.count('kind:' + d.kind)
        res.count('tag:' + d.tag)
        if d.exc:
            res.count('exc:' + d.kind + ':' + d.exc)
            # documented refusal: unit together with omitsize
            if d.kind == 'svg' and d.kw.get('unit') and d.kw.get('omitsize') and d.exc == 'ValueError':
                continue
            if not d.synthetic:
                res.violations.append(dict(property_field='c10', verdict=f'serialiser-raised-{d.exc}', call=d.call(), replay=d.replay(),
                                           known_id=None))
            continue
        sc = d.kw.get('scale', 1)
        res.count('scale:' + ('1' if sc == 1 else '<1' if sc < 1 else 'integer>1' if sc == int(sc) else 'fraction>1'))
        res.count('border:' + str(d.kw.get('border')))
        res.count('light:' + ('none' if d.kw.get('light') is None else type(d.kw['light']).__name__))
        if d.kind != 'tex':
            res.count('dark:' + ('default' if 'dark' not in d.kw else 'none' if d.kw['dark'] is None else type(d.kw['dark']).__name__))
        try:
            lines.append(request(i, d))
            idx.append(i)
        except vecparse.ParseError as ex:
            if not d.synthetic:
                res.violations.append(dict(property_field='c10', verdict=f'not-well-formed-{ex}', call=d.call(), replay=d.replay(), known_id=None))
    if st.judge_ok:
        outs = run_lines_parallel(JUDGE, lines, jobs=16)
        for i, o in zip(idx, outs):
            d = docs[i]
            d.judge = o[:400]
            d.jkv = parse_kv(o)
            v = d.jkv.get('c10', 'missing')
            if v != 'ok':
                if d.synthetic:
                    # not a symbol: reported through the correspondence only
                    res.count('synthetic-judged-not-ok')
                    res.notes.append('synthetic: ' + v[:80] + ' | ' + d.call()[:200])
                    continue
                res.violations.append(dict(property_field='c10', verdict=v, call=d.call(), replay=d.replay(), judge=o[:300],
                                           known_id=known_c10(v, d)))
            else:
                key = (d.kind, d.sym['mstr'][:64], d.sym['size'], repr(sorted(d.kw.items())))
                res.nontrivial.add(key)
    # ---------------------------------------------------------------- correspondence with the model
    if st.model_ok:
        mlines, midx = [], []
        for i, d in enumerate(docs):
            if d.data is None or d.fields is None:
                continue
            b = d.kw.get('border')
            mlines.append(f'lines id={i} kind={d.kind} m={d.sym["mstr"]} border={"-" if b is None else b}')
            midx.append(i)
        outs = run_lines_parallel(MODEL, mlines, jobs=16)
        for i, o in zip(midx, outs):
            d = docs[i]
            mkv = parse_kv(o)
            res.corr_checked += 1
            if d.kind != 'tex' and not (d.kind == 'svg' and d.kw.get('dark', '#000') is None and not d.kw.get('draw_transparent')):
                it = impl_tokens(d)
                if it != mkv.get('toks'):
                    res.corr_diffs.append(dict(call=d.call(), replay=d.replay(), what='token stream of the module path',
                                               impl=first_diff(it, mkv.get('toks', ''))[0], model=first_diff(it, mkv.get('toks', ''))[1]))
                    continue
            if d.jkv and d.jkv.get('c10') == 'ok' and int(d.jkv.get('nsegs', '0')) > 0:
                if d.jkv.get('segs') != mkv.get('segs'):
                    a, b2 = first_diff(d.jkv.get('segs', ''), mkv.get('segs', ''), ';')
                    res.corr_diffs.append(dict(call=d.call(), replay=d.replay(), what='absolute runs recovered from the document', impl=a, model=b2))
        # PDF object offsets
        plines, pidx = [], []
        for i, d in enumerate(docs):
            if d.kind == 'pdf' and d.fields and d.fields.get('mediabox', '-') != '-' and d.fields.get('streamlen', '-') != '-':
                mb = d.fields['mediabox'].split(',')
                m = re.search(rb'/CreationDate\(D:([^)]*)\)', d.data)
                if len(mb) == 4 and m:
                    plines.append(f'pdfpos id={i} wlen={len(mb[2])} hlen={len(mb[3])} glen={d.fields["streamlen"]} dlen={len(m.group(1))} '
                                  f'clen={len(writers.CREATOR)}')
                    pidx.append(i)
        for i, o in zip(pidx, run_lines_parallel(MODEL, plines, jobs=4)):
            d = docs[i]
            want = parse_kv(o).get('pos', '')
            got = ','.join(e.split(':')[0] for e in d.fields['xref'].split(',')[1:])
            res.corr_checked += 1
            if want != got or d.fields.get('startxref') != want.split(',')[-1]:
                res.corr_diffs.append(dict(call=d.call(), replay=d.replay(), what='PDF object offsets (xref) / startxref',
                                           impl=got + ' startxref=' + str(d.fields.get('startxref')), model=want))
    # whole documents against the document models (Model/SvgDoc.lean, Model/Tex.lean, Model/VectorDocs.lean)
    import vecdocs
    vecdocs.correspond_c10_docs(docs, pool, rnd, tier, st, res)
    multicolour_and_histories(tier, rnd, st, res)
    res.rule = ('documents written by the real serialisers for symbols of %d sizes (Micro M1 … version 40) x kinds svg/eps/pdf/tex x scale cycling through '
                '1, 2, 10, 0.5, 0.25, 1.5, 3.3, 7.25 (+ extra values) x border 0..6/None x colour forms (names, #hex, tuples, float tuples, alpha, None) x '
                'format options; non-trivial = the judge interpreted the whole document and found every module painted as requested; distinct by '
                '(kind, matrix, options)') % len({s['size'] for s in pool})
    for d in docs[:3] + docs[-2:]:
        res.samples.append(dict(call=d.call()[:300], judge=(d.judge or d.exc or '')[:120]))
    res.notes.append('synthetic matrices (entirely light/dark rows, rows starting with a light module) are compared with the model only')


def _inline_hist(args):
    out = []
    for content, kw, call_kw in args:
        q = segno.make(content, **kw)
        try:
            out.append(('ok', q.svg_inline(**call_kw)))
        except Exception as ex:  # noqa
            out.append(('exc', type(ex).__name__))
    return out


def _inline_one(arg):
    return _inline_hist([arg])[0]


def multicolour_and_histories(tier, rnd, st, res):
    """(1) SVG with per-type colours (several paths; transparent types next to coloured ones): every module judged by the Lean spec
    (`c11c`) and the path elements compared with the document model — the dark modules, and only they, must be painted also then;
    (2) `svg_inline` call histories (a refused call, then an accepted one) and the vector serialisers under the deterministic
    scheduler against fresh-process references"""
    import multiprocessing
    import raster
    import p_raster
    import vecdocs
    syms = raster.Sym(rnd)
    cases = [c for c in raster.gen_c11(rnd, syms, 'quick') if c.fmt == 'svg']
    extra = []
    for i, opt in enumerate(['finder_dark', 'data_dark', 'timing_dark', 'alignment_dark', 'version_dark', 'format_dark', 'dark_module']):
        v = raster.ALL_VERSIONS[(5 * i + 9) % len(raster.ALL_VERSIONS)]
        q, mk = syms.get(v, 0)
        for kw in ({opt: 'red'}, {opt: 'red', 'separator': None, 'quiet_zone': None}, {opt: '#12c', 'light': 'white', 'data_light': None}):
            extra.append(raster.RCase(v, q, mk, 'svg', dict(kw, border=rnd.choice([0, 1, None])), 'multicolour-with-transparent'))
    for c in extra:
        c.cmd = 'c11c'
    cases += extra
    before = len(res.violations)
    p_raster.judge_cases(cases, st, res, 'C10', known=lambda v, c: 'D8' if v == 'd8' else None)
    # D8 (the one module of C11's recorded finding) is not a C10 matter
    res.violations[before:] = [v for v in res.violations[before:] if v.get('known_id') != 'D8']
    vecdocs.correspond_c11_docs(cases, rnd, syms, 'quick', st, res)
    p_raster.concurrency_pass(cases + [c for c in raster.gen_c09(rnd, syms, 'quick') if c.fmt in ('svg', 'eps', 'pdf', 'tex')][:0], random.Random(rnd.random()), res, 'c10')
    # svg_inline histories
    hist = []
    for _ in range(6):
        content, kw = str(rnd.randint(1, 9999)), dict(version=rnd.choice([1, 2, 'M2', 5]))
        hist += [(content, kw, dict(encoding=None)), (content, kw, {}), (str(rnd.randint(1, 99)), kw, dict(scale=2, dark='navy')),
                 (content, kw, dict(scale=0)), (content, kw, dict(border=0))]
    here = _inline_hist(hist)
    with multiprocessing.get_context('fork').Pool(6, maxtasksperchild=1) as pool:
        alone = pool.map(_inline_one, hist, chunksize=1)
    for k, (h, a, b) in enumerate(zip(hist, here, alone)):
        res.evaluations += 1
        if a != b:
            res.violations.append(dict(property_field='c10', verdict='svg_inline-depends-on-earlier-calls', call=f'segno.make({h[0]!r}, **{h[1]!r}).svg_inline(**{h[2]!r})  [call {k} of a history]',
                                       replay=dict(history=[repr(x) for x in hist[:k + 1]][-6:]), known_id=None))
    res.count('multicolour-svg-documents', len(cases))


def first_diff(a, b, sep=','):
    x, y = a.split(sep), (b or '').split(sep)
    for k in range(max(len(x), len(y))):
        if k >= len(x) or k >= len(y) or x[k] != y[k]:
            return (f'token {k}: ' + sep.join(x[max(0, k - 4):k + 6])[:200], f'token {k}: ' + sep.join(y[max(0, k - 4):k + 6])[:200])
    return a[:100], (b or '')[:100]


RUNNERS = {'C10': run_C10}
