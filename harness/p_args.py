"""C14 — arguments are honoured or refused with ValueError; nothing else escapes.

* make / make_qr / make_micro / make_sequence: pairwise-complete product (plus random k-wise rows) of boundary and
  malformed values over all parameters, every call under a 10 s alarm.  The outcome (exception class with its bases,
  or the symbol) goes to the Lean judge (`args`: which exceptions may escape, which combinations must be refused);
  returned symbols are judged by `sym` (C01–C03); the exception class is compared with Model.Args.api (Tie B).
* alternative spellings vs the canonical spelling: `same`.
* serialisers with malformed colours / scale / border / kind: `ser`.
* segno.cli.main in-process: `cli` (exit status, output file, stderr).
"""
import codecs
import contextlib
import io
import sys
import shutil
import signal
import tempfile

from core import *
from symbols import *
from segno import cli
import p_routes
from p_routes import pyv, cli_run, TEXT_KINDS, COLOURS

LONG_OVERFLOW = '1' * 7100          # longer than the largest symbol holds
LONG_FIT = 'segno ' * 100           # byte mode, a large symbol

DOMAIN = dict(
    content=['', 'a', b'', 0, LONG_OVERFLOW, '123', 'HELLO WORLD', 'ä', '点', b'\x82\xa0', b'\xff', 12345, LONG_FIT, '漢字', b'a',
             b'\xeb\xc0', b'\xfc\xfc', '12\n'],
    version=[None, 0, 41, 'M5', 'm1', '1', 1.0, True, 1, 40, 'M4', 'M1', 'm3', -1, 'abc', '', '40', '07', 2, 'M2', '10', 'M0',
             '0', '-1', '-2', '-3', '-0', ' 0', '00', '+1', '1_0', ' 7 ', -3, '41', '-4'],
    error=[None, 'x', 'l', 'H', 'L', 'm', 'q', 'h', '', 'LL', 'M'],
    mode=[None, 'Numeric', 'foo', 1, 'byte', 'kanji', 'hanzi', 'ALPHANUMERIC', 'BYTE', '', 'Kanji', 'numeric', 'HANZI', 'alphanumeric'],
    mask=[None, -1, 4, 8, '3', 'a', 0, 3, 7, '7', '', '-1', 5, '8'],
    micro=[True, False, None],
    eci=[True, False],
    boost_error=[True, False],
    encoding=[None, 'utf-8', 'nope', 'latin1', 'shift_jis', 'ascii', 'UTF-8', '', 'iso-8859-15'],
    symbol_count=[None, 0, 1, 16, 17, 2, -1, 3],
)
PARAMS = {'make': ['content', 'version', 'error', 'mode', 'mask', 'micro', 'eci', 'boost_error', 'encoding'],
          'make_qr': ['content', 'version', 'error', 'mode', 'mask', 'eci', 'boost_error', 'encoding'],
          'make_micro': ['content', 'version', 'error', 'mode', 'mask', 'boost_error', 'encoding'],
          'make_sequence': ['content', 'version', 'error', 'mode', 'mask', 'boost_error', 'encoding', 'symbol_count']}
DEFAULTS = dict(version=None, error=None, mode=None, mask=None, micro=None, eci=False, boost_error=True, encoding=None, symbol_count=None)


def pairwise(rnd, params, domain):
    """greedy pairwise-complete rows over `params`; values are indices into domain[param]"""
    idx = {p: list(range(len(domain[p]))) for p in params}
    uncovered = set()
    for i, a in enumerate(params):
        for b in params[i + 1:]:
            for x in idx[a]:
                for y in idx[b]:
                    uncovered.add((a, x, b, y))
    rows = []
    while uncovered:
        # seed the row with one uncovered pair, then fill greedily
        a, x, b, y = next(iter(uncovered)) if rnd.random() < 0.5 else rnd.choice(list(uncovered)[:50])
        row = {a: x, b: y}
        rest = [p for p in params if p not in row]
        rnd.shuffle(rest)
        for p in rest:
            best, best_gain = None, -1
            cand = idx[p][:]
            rnd.shuffle(cand)
            for v in cand:
                gain = 0
                for q, w in row.items():
                    key = (p, v, q, w) if params.index(p) < params.index(q) else (q, w, p, v)
                    if key in uncovered:
                        gain += 1
                if gain > best_gain:
                    best, best_gain = v, gain
            row[p] = best
        for i, a2 in enumerate(params):
            for b2 in params[i + 1:]:
                uncovered.discard((a2, row[a2], b2, row[b2]))
        rows.append({p: domain[p][row[p]] for p in params})
    return rows


class Timeout(Exception):
    pass


def _alarm(signum, frame):
    raise Timeout()


def with_alarm(f, seconds=10):
    old = signal.signal(signal.SIGALRM, _alarm)
    signal.alarm(seconds)
    try:
        return f()
    finally:
        signal.alarm(0)
        signal.signal(signal.SIGALRM, old)


def mro_of(ex):
    return ','.join(c.__name__ for c in type(ex).__mro__ if c not in (object, BaseException))


def tolerant_mode(mode):
    """the harness' own reading of a mode argument for the text -> bytes policy (hanzi => GB2312)"""
    if isinstance(mode, str):
        return MODES.get(mode.lower())
    if isinstance(mode, int) and not isinstance(mode, bool) and mode in MODES.values():
        return mode
    return None


def content_parts(content, mode, encoding):
    """documented text -> bytes policy; returns ('parts', str) or ('converr', class name)"""
    m = tolerant_mode(mode)
    try:
        b, enc = text_to_bytes(content, m, encoding)
    except UnicodeError:
        return 'converr', 'UnicodeError'
    except LookupError:
        return 'converr', 'LookupError'
    return 'parts', f'{hexs(b)}:-:{enc}'


def codec_known(encoding, mode):
    if tolerant_mode(mode) == 13 or encoding is None:
        return True
    try:
        codecs.lookup(encoding)
        return True
    except LookupError:
        return False


class Call:
    def __init__(self, fn, row, tag):
        self.fn, self.row, self.tag = fn, row, tag
        self.kw = {k: v for k, v in row.items() if k != 'content'}
        self.content = row['content']
        self.outcome = self.qr = self.seq = None
        self.exc_text = ''

    def call(self):
        c = self.content
        rc = repr(c) if len(repr(c)) < 80 else repr(c[:20]) + f'*<{len(c)} chars>'
        return f'segno.{self.fn}({rc}, ' + ', '.join(f'{k}={v!r}' for k, v in self.kw.items()) + ')'

    def replay(self):
        c = self.content
        return dict(fn=self.fn, content=({'bytes': c.hex()} if isinstance(c, bytes) else c), kw={k: repr(v) for k, v in self.kw.items()})

    def run(self):
        f = getattr(segno, self.fn)
        try:
            r = with_alarm(lambda: f(self.content, **self.kw))
        except Timeout:
            self.outcome = 'timeout'
            return
        except Exception as ex:  # noqa
            self.outcome = mro_of(ex)
            self.exc_text = str(ex)[:150]
            return
        self.outcome = 'ok'
        if self.fn == 'make_sequence':
            self.seq = list(r)
        else:
            self.qr = r

    def impl_line(self):
        if self.outcome == 'timeout':
            return 'err=Timeout'
        if self.outcome != 'ok':
            names = self.outcome.split(',')
            for n in ('DataOverflowError', 'UnicodeError', 'ValueError', 'LookupError', 'IndexError', 'KeyError', 'TypeError', 'AssertionError'):
                if n in names and not (n == 'LookupError' and ('IndexError' in names or 'KeyError' in names)):
                    return 'err=' + n
            return 'err=' + names[0]
        if self.qr is not None:
            q = self.qr
            v = MICRO.get(q.version, q.version)
            e = None if q.error is None else LEVELS[q.error]
            return f'ok=1 v={v} e={opt(e)} mask={q.mask} m={matrix_str(q.matrix)}'
        return 'seq=' + str(len(self.seq))

    def value(self, k):
        return self.kw.get(k, DEFAULTS[k])

    def model_line(self, i):
        kind, val = content_parts(self.content, self.value('mode'), self.value('encoding'))
        enc = self.value('encoding')
        canon = []
        for e in {enc, 'iso-8859-1', 'shift_jis', 'utf-8', 'gb2312'}:
            try:
                if e is not None:
                    canon.append(f'{e}:{codecs.lookup(e).name}')
            except LookupError:
                pass
        unknown = '' if codec_known(enc, None) else f' unknowncodec={enc.encode().hex()}'
        return (f'api id={i} fn={self.fn} {kind}={val} version={pyv(self.value("version"))} error={pyv(self.value("error"))} '
                f'mode={pyv(self.value("mode"))} mask={pyv(self.value("mask"))} micro={pyv(self.value("micro"))} '
                f'eci={pyv(bool(self.value("eci")))} boost={pyv(bool(self.value("boost_error")))} count={pyv(self.value("symbol_count"))} '
                f'canon={",".join(sorted(canon))}{unknown}')

    def judge_line(self, i):
        c = self.content
        cv = 's' + c.encode('utf-8').hex()[:40] if isinstance(c, str) else 'b' + c.hex()[:40] if isinstance(c, bytes) else pyv(c)
        rv = '-'
        if self.qr is not None:
            rv = MICRO.get(self.qr.version, self.qr.version)
        elif self.seq:
            rv = self.seq[0].version if isinstance(self.seq[0].version, int) else MICRO[self.seq[0].version]
        known = codec_known(self.value('encoding'), self.value('mode'))
        return (f'args id={i} fn={self.fn} content={cv} version={pyv(self.value("version"))} error={pyv(self.value("error"))} '
                f'mode={pyv(self.value("mode"))} mask={pyv(self.value("mask"))} micro={pyv(self.value("micro"))} eci={pyv(self.value("eci"))} '
                f'boost={pyv(self.value("boost_error"))} encoding={pyv(self.value("encoding"))} count={pyv(self.value("symbol_count"))} '
                f'codec={"known" if known else "unknown"} outcome={self.outcome} rv={rv}')


def sym_case(call):
    """the returned symbol as a `sym` request (C01–C03) with the expected payload of the documented policy"""
    kw = {}
    for k in ('version', 'error', 'mode', 'mask', 'encoding', 'eci', 'boost_error'):
        if k in call.kw:
            kw[k] = call.kw[k]
    if call.fn == 'make_qr':
        kw['micro'] = False
    elif call.fn == 'make_micro':
        kw['micro'] = True
    elif 'micro' in call.kw:
        kw['micro'] = call.kw['micro']
    kw['mode'] = tolerant_mode(kw.get('mode'))
    kw['mode'] = MODE_NAME.get(kw['mode'])
    c = Case(call.content, kw, call.tag)
    c.qr = call.qr
    return c


def run_make_family(tier, rnd, st, res):
    calls = []
    for fn, params in PARAMS.items():
        for row in pairwise(rnd, params, DOMAIN):
            calls.append(Call(fn, row, 'pairwise'))
        # every value alone in an otherwise valid call (an excluded value must be refused on its own)
        for p in params:
            for v in DOMAIN[p]:
                row = {q: DEFAULTS[q] for q in params if q != 'content'}
                row['content'] = rnd.choice(['a', '123', 'HELLO WORLD', 12345, b'\x82\xa0', b'\xeb\xc0', b'\xfc\xfc', b'\xa0\x40', '12\n'])
                if fn == 'make_sequence':
                    row['content'] = rnd.choice(['ABCDEFGHIJKLMNOPQRSTUVWX', '123456789012345678901234'])
                    row['symbol_count'] = rnd.choice([2, 3])
                row[p] = v
                calls.append(Call(fn, {q: row[q] for q in params}, 'one-value-alone'))
                if p in ('error', 'mode', 'mask', 'eci') and fn in ('make', 'make_sequence'):
                    # the same value together with a Micro / QR version
                    row2 = dict(row, version=rnd.choice(['M1', 'M2', 'M3', 'M4', 'm2', 1, '2']))
                    calls.append(Call(fn, {q: row2[q] for q in params}, 'one-value-with-version'))
        # random k-wise rows: mostly valid values with one to three boundary / malformed ones
        for _ in range(600 if tier == 'quick' else 12000):
            row = {p: DEFAULTS[p] for p in params if p != 'content'}
            row['content'] = rnd.choice(DOMAIN['content'][:4] + DOMAIN['content'][5:12] + DOMAIN['content'][13:])
            for p in rnd.sample(params, rnd.randint(1, min(4, len(params)))):
                row[p] = rnd.choice(DOMAIN[p])
            if fn == 'make_sequence' and row.get('version') is None and row.get('symbol_count') is None and rnd.random() < 0.8:
                row['symbol_count'] = rnd.choice([1, 2, 3, 16])
            calls.append(Call(fn, {p: row[p] for p in params}, 'random-k-wise'))
    for c in calls:
        c.run()
    res.evaluations += len(calls)
    # ---- judge: escaping exceptions, excluded combinations
    if st.judge_ok:
        outs = run_lines_parallel(JUDGE, [c.judge_line(i) for i, c in enumerate(calls)], jobs=8)
        for c, o in zip(calls, outs):
            kv = parse_kv(o)
            verdict = kv.get('c14', 'missing')
            res.count('fn:' + c.fn)
            res.count('outcome:' + (c.outcome.split(',')[0]))
            if verdict == '-':
                res.count('not-judged:undocumented-argument-type')
                continue
            res.nontrivial.add((c.fn, c.impl_line()[:24], tuple(sorted((k, repr(v)[:12]) for k, v in c.kw.items() if v != DEFAULTS.get(k)))))
            if verdict != 'ok':
                res.violations.append(dict(property_field='c14', verdict=verdict, call=c.call(), replay=c.replay(), judge=kv,
                                           exception=c.exc_text, known_id=None))
        # returned symbols satisfy C01–C03
        sym_cases, lines = [], []
        for c in calls:
            if c.qr is not None:
                sc = sym_case(c)
                try:
                    lines.append(sym_line(len(lines), sc, want_c06=False))
                    sym_cases.append((c, sc))
                except Exception as ex:  # noqa  (arguments the harness cannot read: undocumented types)
                    res.count('sym-not-judged:' + type(ex).__name__)
            elif c.seq:
                for q in c.seq:
                    sc = Case(c.content, {}, 'sequence-symbol')
                    sc.qr = q
                    v = MICRO.get(q.version, q.version)
                    e = -1 if q.error is None else LEVELS[q.error]
                    lines.append(f'sym id={len(lines)} m={matrix_str(q.matrix)} ev={v} ee={e} em={q.mask} ismicro={int(q.is_micro)}')
                    sym_cases.append((c, sc))
        outs = run_lines_parallel(JUDGE, lines, jobs=16)
        res.evaluations += len(lines)
        for (c, sc), o in zip(sym_cases, outs):
            kv = parse_kv(o)
            for fld in ('c01', 'c02', 'c03'):
                verdict = kv.get(fld, 'missing')
                if verdict in ('ok', '-'):
                    continue
                # D16 (recorded for C08): make_sequence with a version and without symbol_count may cut a symbol's stream at the capacity
                kid = ('D16' if fld == 'c01' and verdict == 'parse-overrun' and c.fn == 'make_sequence'
                       and c.value('version') is not None and c.value('symbol_count') is None else None)
                res.violations.append(dict(property_field=fld + '-of-returned-symbol', verdict=verdict, call=c.call(), replay=c.replay(),
                                           judge={k: kv[k] for k in kv if k not in ('cw', 'bytes')}, known_id=kid))
    # ---- correspondence: exception class / symbol vs the model
    if st.model_ok:
        lines = [c.model_line(i) for i, c in enumerate(calls)]
        outs = run_lines_parallel(MODEL, lines, jobs=16)
        for c, o in zip(calls, outs):
            got = o.split(' ', 1)[1] if ' ' in o else o
            impl = c.impl_line()
            res.corr_checked += 1
            if got == 'seqargs=ok':
                # the splitting itself is not modelled here: any documented outcome agrees
                if impl.startswith('seq=') or impl in ('err=ValueError', 'err=DataOverflowError', 'err=UnicodeError'):
                    continue
            if got != impl:
                res.corr_diffs.append(dict(call=c.call(), replay=c.replay(), impl=impl[:200], model=got[:200]))
    return calls


# ------------------------------------------------------------------------------------------------ spellings
def spell(rnd, s):
    return ''.join(ch.upper() if rnd.random() < 0.5 else ch.lower() for ch in s)


def run_spellings(tier, rnd, st, res):
    lines, meta = [], []
    for _ in range(400 if tier == 'quick' else 4000):
        v = rnd.choice(['M1', 'M2', 'M3', 'M4', 1, 2, 5, 9, 10, 27, 40, None])
        content = rnd.choice(['1', '12345', 'AB', 'HELLO', 'abc', 'Märchen'])
        canon, alt = {}, {}
        if v is not None:
            canon['version'] = v
            alt['version'] = spell(rnd, v) if isinstance(v, str) else rnd.choice([str(v), str(v), '0' + str(v)])
        if rnd.random() < 0.7:
            e = rnd.choice('LMQH')
            canon['error'], alt['error'] = e, rnd.choice([e.lower(), e])
        if rnd.random() < 0.6:
            m = rnd.choice(['numeric', 'alphanumeric', 'byte', 'kanji', 'hanzi'])
            canon['mode'], alt['mode'] = m, spell(rnd, m)
            if rnd.random() < 0.8:
                content = {'numeric': '2024', 'alphanumeric': 'AB 12', 'byte': 'abc', 'kanji': '点茗', 'hanzi': '书读'}[m]
        if rnd.random() < 0.7:
            k = rnd.randrange(8)
            canon['mask'], alt['mask'] = k, str(k)
        if rnd.random() < 0.3:
            canon['micro'] = alt['micro'] = rnd.choice([True, False])
        if canon == alt:
            continue
        ca, cb = Case(content, canon, 'canonical'), Case(content, alt, 'alternative')
        impl_make(ca)
        impl_make(cb)
        res.evaluations += 2

        def fields(prefix, impl):
            kv = parse_kv(impl)
            return ' '.join(f'{prefix}.{k}={v}' for k, v in kv.items())
        lines.append(f'same id={len(lines)} {fields("a", ca.impl)} {fields("b", cb.impl)}')
        meta.append((ca, cb))
        res.count('spelling-outcome:' + ('symbol' if ca.qr is not None else ca.exc or '?'))
        res.nontrivial.add(('spelling', tuple(sorted(alt.items(), key=str)).__repr__()))
    for (ca, cb), o in zip(meta, run_lines_parallel(JUDGE, lines, jobs=4)):
        kv = parse_kv(o)
        if kv.get('c14') != 'ok':
            res.violations.append(dict(property_field='c14', verdict=kv.get('c14', 'missing'), call=cb.call() + ' vs ' + ca.call(),
                                       replay=dict(alternative=cb.replay(), canonical=ca.replay()), known_id=None))


# ------------------------------------------------------------------------------------------------ serialisers
BAD_COLOURS = ['#12', '#12345g', '', 'nocolor', (1, 2), (256, 0, 0), (0, 0, 0, 2.0), '#', '#1', '#12345', '#1234567', '#123456789',
               'notacolour', (1, 2, 3, 4, 5), (-1, 0, 0), (0, 0, 256), (0, 0, 0, -1), (0, 0, 0, 256), (0, 0, 0, 1.5), (0, 0, 0, -0.5),
               (), '#ggg', 'rgb(1,2,3)', ' red', '#12 34 56', '#1 2', '#12  34', '# 123', '#12 3', '12 34 56', '#1234 5678']
# decimal digits of other scripts are not hexadecimal digits (str.isalnum / int(x, 16) accept them): wave 10, C14f-2
UNICODE_DIGIT_COLOURS = ['#\u0663\u0663\u0663', '#\uff11\uff12\uff13\uff14\uff15\uff16', '#ff\u0660\u0660ff', '\u0663\u0663\u0663', '#\u0967\u0968\u0969\u096a']
GOOD_COLOURS = [None, '#123', '#a1b2c3', 'Red', 'darkblue', (1, 2, 3), (0, 0, 0, 255), (9, 8, 7, 0.5), '#00000080', '#1238']
COLOUR_KEYS = {'svg': COLOURS, 'png': COLOURS, 'ppm': COLOURS, 'eps': ['dark', 'light'], 'pdf': ['dark', 'light'], 'pam': ['dark', 'light'],
               'xpm': ['dark', 'light'], 'svgz': ['dark', 'light', 'quiet_zone']}
KINDS = p_routes.KINDS


def tval(x):
    if isinstance(x, tuple):
        return 't' + ';'.join(pyv(e) for e in x)
    return pyv(x)


def run_serializers(tier, rnd, st, res):
    qrs = [segno.make('C14', micro=False), segno.make('14', micro=True), segno.make('version 7 symbol', version=7)]
    lines, meta = [], []

    def attempt(qr, kind, opt, val, how='save'):
        def go():
            if how == 'svg_data_uri':
                qr.svg_data_uri(**{opt: val})
            elif how == 'png_data_uri':
                qr.png_data_uri(**{opt: val})
            elif how == 'svg_inline':
                qr.svg_inline(**{opt: val})
            elif opt == 'kind':
                qr.save(io.BytesIO(), kind=val)
            else:
                buff = io.StringIO() if kind in TEXT_KINDS else io.BytesIO()
                qr.save(buff, kind=kind, **{opt: val})
        try:
            with_alarm(go)
            outcome = 'ok'
        except Timeout:
            outcome = 'timeout'
        except Exception as ex:  # noqa
            outcome = mro_of(ex)
        call = f'qr.{how}(kind={kind!r}, {opt}={val!r})'
        lines.append(f'ser id={len(lines)} kind={kind} opt={opt} val={tval(val)} outcome={outcome}')
        meta.append((call, kind, opt, val, outcome))
        res.count('serializer-outcome:' + outcome.split(',')[0])
        res.nontrivial.add(('ser', kind, opt, repr(val), how))

    for kind in KINDS:
        # colours of module types a symbol does not have are ignored by the serialisers (not claimed either way):
        # the version 7 symbol has every module type
        qr = qrs[2]
        for key in COLOUR_KEYS.get(kind, []):
            bad = (BAD_COLOURS if tier != 'quick' and True else BAD_COLOURS[:7] + rnd.sample(BAD_COLOURS[7:], 6)) + UNICODE_DIGIT_COLOURS
            for val in bad + (GOOD_COLOURS if key in ('dark', 'light') or tier != 'quick' else [None] + rnd.sample(GOOD_COLOURS[1:], 2)):
                attempt(qr, kind, key, val)
        # call histories: a valid colour first, then a malformed one that compares equal as a Python value
        # ((0, 0, 0, 2) is alpha 2/255, (0, 0, 0, 2.0) is out of range; True == 1; 1 == 1.0)
        for key in COLOUR_KEYS.get(kind, [])[:1]:
            for good, bad_eq in (((0, 0, 0, 2), (0, 0, 0, 2.0)), ((7, 7, 7, 255), (7, 7, 7, 255.0)), ((1, 2, 3), (1.0, 2.0, 3.0, 4.0, 5.0))):
                attempt(qrs[2], kind, key, good)
                attempt(qrs[2], kind, key, bad_eq)
        qr = rnd.choice(qrs)
        if kind not in ('txt', 'ans'):
            for val in (0, -1, -0.5, 0.0, -3, 1, 2):
                attempt(qr, kind, 'scale', val)
        for val in (-1, 1.5, -0.5, -2, 0.25, 0, 3):
            attempt(qr, kind, 'border', val)
    # two colour options in one call that compare equal as Python values: a valid one and a malformed one
    for kind in ('svg', 'png', 'ppm', 'pam', 'xpm', 'eps', 'pdf'):
        for good, bad_eq in (((0, 0, 0, 2), (0, 0, 0, 2.0)), ((9, 9, 9, 255), (9, 9, 9, 255.0))):
            buff = io.StringIO() if kind in TEXT_KINDS else io.BytesIO()
            try:
                with_alarm(lambda: qrs[0].save(buff, kind=kind, dark=good, light=bad_eq))
                outcome = 'ok'
            except Timeout:
                outcome = 'timeout'
            except Exception as ex:  # noqa
                outcome = mro_of(ex)
            lines.append(f'ser id={len(lines)} kind={kind} opt=light val={tval(bad_eq)} outcome={outcome}')
            meta.append((f'qr.save(kind={kind!r}, dark={good!r}, light={bad_eq!r})', kind, ('dark', 'light'), bad_eq, outcome))
            res.nontrivial.add(('ser-pair', kind, repr(good)))
    for how, kind in (('svg_data_uri', 'svg'), ('svg_inline', 'svg'), ('png_data_uri', 'png')):
        for key in ('dark', 'light', 'finder_dark'):
            for val in BAD_COLOURS[:8]:
                attempt(qrs[0], kind, key, val, how)
        for opt, vals in (('scale', (0, -1, -0.5)), ('border', (-1, 1.5))):
            for val in vals:
                attempt(qrs[0], kind, opt, val, how)
    for val in ('foo', 'svgx', '', 'PNG ', 'jpeg', 'PnG', 'SVG', 'pdf ', 'p', 'svgzz'):
        attempt(qrs[0], '-', 'kind', val)
    res.evaluations += len(lines)
    for (call, kind, opt, val, outcome), o in zip(meta, run_lines_parallel(JUDGE, lines, jobs=4)):
        kv = parse_kv(o)
        if kv.get('c14') != 'ok':
            res.violations.append(dict(property_field='c14', verdict=kv.get('c14', 'missing'), call=call, replay=dict(call=call), judge=kv,
                                       known_id=known_ser(kind, opt, val, outcome, kv.get('c14'))))


def has_alpha(val):
    if isinstance(val, tuple):
        return len(val) == 4
    if isinstance(val, str):
        h = val[1:] if val.startswith('#') else val
        return len(h) in (4, 8) and all(ch in '0123456789abcdefABCDEF' for ch in h)
    return False


def known_ser(kind, opt, val, outcome, verdict):
    """D28: write_svg groups the modules by colour VALUE; a malformed colour that compares equal to a valid colour of another option
    ((0, 0, 0, 2.0) == (0, 0, 0, 2)) is never looked at and therefore accepted"""
    if kind in ('svg', 'svgz') and isinstance(opt, tuple) and outcome == 'ok' and 'malformed-colour' in str(verdict):
        return 'D28'
    return None


# ------------------------------------------------------------------------------------------------ command line tool
CLI_DOMAIN = dict(
    content=['a', '123', 'HELLO', 'x' * 3000, '1' * 7100],
    version=[None, 'M5', '0', '41', 'm1', '1', 'M4', 'abc', '40', 'M1'],
    error=[None, 'h', 'L', 'x', '-', 'q'],
    mode=[None, 'numeric', 'KANJI', 'hanzi', 'foo', 'byte'],
    pattern=[None, '-1', '4', '8', '3', 'a', '0'],
    micro=[None, '--micro', '--no-micro'],
    seq=[None, None, '0', '1', '16', '17', '2', 'version-only'],
    boost=[None, '--no-error-boost'],
    output=[None, 'out.png', 'out.svg', 'OUT.TXT', 'out.pdf', 'out.foo', 'out.svgz', 'out'],
    scale=[None, '2', '0', '-1', '1.5'],
    border=[None, '0', '3', '-1'],
)
CLI_PARAMS = list(CLI_DOMAIN)


def run_cli(tier, rnd, st, res):
    tmp = tempfile.mkdtemp(prefix='c14-')
    lines, meta = [], []
    rows = pairwise(rnd, CLI_PARAMS, CLI_DOMAIN)
    for _ in range(400 if tier == 'quick' else 5000):
        row = {p: None for p in CLI_PARAMS}
        row['content'] = rnd.choice(CLI_DOMAIN['content'][:3])
        for p in rnd.sample(CLI_PARAMS, rnd.randint(1, 4)):
            row[p] = rnd.choice(CLI_DOMAIN[p])
        rows.append(row)
    try:
        for n, row in enumerate(rows):
            argv, kw = [], {}
            if row['version'] is not None:
                argv += ['--version', row['version']]
                kw['version'] = row['version']
            if row['error'] is not None:
                argv += ['--error', row['error']]
                kw['error'] = None if row['error'] == '-' else row['error']
            if row['mode'] is not None:
                argv += ['--mode', row['mode']]
                kw['mode'] = row['mode']
            if row['pattern'] is not None:
                argv += ['--pattern', row['pattern']]
                kw['mask'] = row['pattern']
            if row['boost']:
                argv += [row['boost']]
                kw['boost_error'] = False
            if row['micro']:
                argv += [row['micro']]
            is_seq = row['seq'] is not None
            if is_seq:
                argv += ['--seq']
                if row['seq'] != 'version-only':
                    argv += ['--symbol-count', row['seq']]
                    kw['symbol_count'] = int(row['seq'])
            else:
                # documented CLI behaviour: Micro QR Codes only with --micro or an explicit Micro version
                vname_ = str(row['version']).upper() if row['version'] is not None else None
                kw['micro'] = True if row['micro'] == '--micro' else (None if vname_ in ('M1', 'M2', 'M3', 'M4') else False)
            for k in ('scale', 'border'):
                if row[k] is not None:
                    argv += ['--' + k, row[k]]
            out_path = None
            if row['output'] is not None:
                d = os.path.join(tmp, str(n))
                os.makedirs(d)
                out_path = os.path.join(d, row['output'])
                argv += ['--output', out_path]
            argv.append(row['content'])
            # what the library says to the same request
            lib, msg = 'ok', ''
            try:
                with_alarm(lambda: (segno.make_sequence if is_seq else segno.make)(row['content'], **kw))
            except ValueError as ex:
                lib, msg = 'refused', str(ex)
            except LookupError:
                lib = 'lookup'
            except Timeout:
                lib = 'timeout'
            except Exception as ex:  # noqa
                lib = 'other-' + type(ex).__name__
            try:
                rc, out, err = with_alarm(lambda: cli_run(argv))
            except Timeout:
                rc, out, err = 'timeout', '', ''
            except Exception as ex:  # noqa
                rc, out, err = 'exc-' + type(ex).__name__, '', ''
            rc_s = str(rc)[5:] if str(rc).startswith('exit-') else str(rc)
            size = '-'
            if out_path is not None:
                d = os.path.dirname(out_path)
                files = [f for f in os.listdir(d)]
                if is_seq and files:
                    size = min(os.path.getsize(os.path.join(d, f)) for f in files)
                elif os.path.exists(out_path):
                    size = os.path.getsize(out_path)
            lines.append(f'cli id={len(lines)} rc={rc_s} want={int(out_path is not None)} outsize={size} stdout={len(out)} lib={lib} '
                         f'libmsg={msg.encode("utf-8").hex()} stderr={err.encode("utf-8")[-4000:].hex()}')
            shown = [a if len(a) < 60 else a[:20] + f'*<{len(a)}>' for a in argv]
            meta.append(f'segno.cli.main({shown!r})')
            res.count('cli-rc:' + rc_s)
            res.count('cli-lib:' + lib)
            res.nontrivial.add(('cli', rc_s, lib, tuple(k for k in CLI_PARAMS if row[k] is not None)))
        res.evaluations += len(lines)
        for call, o in zip(meta, run_lines_parallel(JUDGE, lines, jobs=4)):
            kv = parse_kv(o)
            if kv.get('c14') != 'ok':
                res.violations.append(dict(property_field='c14', verdict=kv.get('c14', 'missing'), call=call, replay=dict(call=call), judge=kv, known_id=None))
    finally:
        shutil.rmtree(tmp, ignore_errors=True)


def run_cli_honoured(tier, rnd, st, res, field='c14'):
    """the command line tool honours its symbol arguments: the symbol written for --pattern / --version / --error (falsy values such
    as pattern 0 included) is read back from a txt output and judged (mask, version and level as requested)"""
    import tempfile
    from segno import cli
    lines, meta = [], []
    with tempfile.TemporaryDirectory(prefix='c14-cli-') as tmp:
        cases = [(p, v, e) for p in range(8) for v, e in ((None, None), ('1', 'h'), ('3', 'M'))]
        cases += [(p, 'M4', 'L') for p in range(4)] + [(0, None, 'q'), (0, '2', None)]
        for n, (pattern, version, error) in enumerate(cases):
            out = os.path.join(tmp, f'{n}.txt')
            argv = ['--pattern', str(pattern), '--border', '0', '--output', out]
            if version:
                argv += ['--version', version]
            if error:
                argv += ['--error', error, '--no-error-boost']
            content = rnd.choice(['Hello', '0123456', 'SEGNO', 'cli honours arguments'][: 3 if version == 'M4' else 4])
            argv.append(content)
            try:
                with contextlib.redirect_stderr(io.StringIO()), contextlib.redirect_stdout(io.StringIO()):
                    rc = cli.main(argv)
            except SystemExit as ex:
                rc = ex.code
            res.evaluations += 1
            if rc != 0 or not os.path.exists(out):
                continue     # refusals are judged by run_cli
            rows = [r for r in open(out).read().split('\n') if r]
            req = f'reqmask={pattern}'
            if version:
                req += f' micro=- reqver={norm_version(version)}'
            if error:
                req += f' reqerr={norm_error(error)} boost=0'
            lines.append(f'sym id={len(lines)} m={"/".join(rows)} {req}')
            meta.append('segno.cli.main(' + repr(argv[:-3] + ['<file>.txt', content]) + ')')
    if field == 'c14':
        # serialiser options given on the command line are honoured whatever the letter case of the output extension: the file must
        # be the one the API writes with these options (the API's outputs are judged by C09 / C10)
        with tempfile.TemporaryDirectory(prefix='c14-cli-') as tmp:
            n = 0
            for ext, kind in (('pbm', 'pbm'), ('PBM', 'pbm'), ('Pbm', 'pbm'), ('PNG', 'png'), ('Svg', 'svg'), ('XPM', 'xpm'), ('Txt', 'txt'), ('pNg', 'png')):
                for flags, kw in ((['--scale', '3'], dict(scale=3)), (['--border', '1'], dict(border=1)), (['--scale', '2', '--border', '0'], dict(scale=2, border=0)),
                                  (['--dark', 'navy', '--light', 'yellow'], dict(dark='navy', light='yellow'))):
                    if kind == 'txt' and ('--scale' in flags or '--dark' in flags):
                        continue
                    if kind == 'pbm' and '--dark' in flags:
                        continue
                    n += 1
                    out = os.path.join(tmp, f'o{n}.{ext}')
                    argv = flags + ['--output', out, 'SEGNO 14']
                    try:
                        with contextlib.redirect_stderr(io.StringIO()), contextlib.redirect_stdout(io.StringIO()):
                            rc = cli.main(argv)
                    except SystemExit as ex:
                        rc = ex.code
                    res.evaluations += 1
                    if rc != 0 or not os.path.exists(out):
                        continue
                    refp = os.path.join(tmp, f'ref{n}.{kind}')
                    cli.make_code(cli.parse(['SEGNO 14'])).save(refp, **kw)      # the symbol the tool makes without options
                    res.nontrivial.add(('cli-serializer-options', ext, tuple(flags)))
                    if open(out, 'rb').read() != open(refp, 'rb').read():
                        res.violations.append(dict(property_field='c14', verdict='cli-argument-not-honoured:file-differs-from-the-file-the-API-writes-with-these-options',
                                                   call='segno.cli.main(' + repr(flags + ['--output', f'<file>.{ext}', 'SEGNO 14']) + ')', known_id=None))
    if field == 'c14':
        # the tool run as a script (`python -m segno.cli`): a refusal raised while creating the symbol is exit status 1 with the
        # library message on stderr and no traceback; a successful run is status 0
        import subprocess
        env = dict(os.environ, PYTHONPATH=os.path.dirname(os.path.dirname(os.path.abspath(segno.__file__))))
        for argv, want in ((['--version', 'M2', '--error', 'H', 'x'], 1), (['--version', '41', 'x'], 1), (['--pattern', '8', 'x'], 1),
                           (['--version', 'M1', '--seq', 'x'], 1), (['--version', '1', 'ok'], 0)):
            pr = subprocess.run([sys.executable, '-m', 'segno.cli'] + argv, env=env, capture_output=True, text=True, timeout=60)
            res.evaluations += 1
            res.nontrivial.add(('cli-as-script', tuple(argv)))
            bad = None
            if want == 1 and pr.returncode != 1:
                bad = f'refusal-reported-with-exit-status-{pr.returncode}'
            elif want == 1 and ('Traceback' in pr.stderr or not pr.stderr.strip()):
                bad = 'refusal-without-message-or-with-traceback'
            elif want == 0 and pr.returncode != 0:
                bad = f'accepted-call-exit-status-{pr.returncode}'
            if bad:
                res.violations.append(dict(property_field='c14', verdict='cli-as-script:' + bad, call='python -m segno.cli ' + ' '.join(argv), known_id=None))
    for call, o in zip(meta, run_lines_parallel(JUDGE, lines, jobs=2)):
        kv = parse_kv(o)
        bad = [f'{k}={kv.get(k)}' for k in (('c06', 'c04', 'c05') if field == 'c14' else (field,)) if kv.get(k, '-') not in ('ok', '-')]
        res.nontrivial.add(('cli-honoured', call))
        if bad:
            res.violations.append(dict(property_field=field, verdict='cli-argument-not-honoured:' + ','.join(bad), call=call,
                                       judge={k: kv[k] for k in kv if k not in ('cw', 'bytes')}, known_id=None))


def run_C14(tier, rnd, st, res):
    calls = run_make_family(tier, rnd, st, res)
    run_spellings(tier, rnd, st, res)
    run_serializers(tier, rnd, st, res)
    # serializer arguments: outcome class of the real serialisers vs the whole-document models (Props/C14Serializers.lean)
    import ser_model
    ser_model.correspond_serializers(rnd, tier, st, res)
    res.notes.append(ser_model.NOTE)
    run_cli(tier, rnd, st, res)
    run_cli_honoured(tier, rnd, st, res)
    res.rule = ('pairwise-complete product + random k-wise rows of boundary / malformed values over all parameters of make, make_qr, make_micro, '
                'make_sequence (10 s alarm per call); alternative spellings vs canonical; serialisers x malformed colours / scale / border / kind '
                'for all 13 kinds; cli.main in-process (pairwise over its options). non-trivial = judged calls, distinct by (function, outcome, '
                'non-default arguments) / (kind, option, value) / (exit status, library outcome, options used)')
    for c in calls[:3] + calls[-2:]:
        res.samples.append(dict(call=c.call()[:300], outcome=c.outcome[:80]))


RUNNERS = {'C14': run_C14}
