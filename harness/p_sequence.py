"""C08 — Structured Append sequences reassemble.

Generator of `segno.make_sequence` calls (public API), correspondence with the Lean model
(`model seq`), judging of every returned symbol (`judge sym`: c02, c03, c04 capacity fit, c13) and of the
sequence (`judge seq`: positions, total, parity = XOR of the message bytes as converted by the harness's
independent text -> bytes policy of enc.py, reassembly, count / version requests)."""
import random
from core import *
from symbols import *

SJIS_TEXT = '点茗荷漢字日本語東京都営地下鉄浅草線'      # every character is a double byte Shift JIS character in 8140..9FFC / E040..EBBF
HANZI_TEXT = '书读百遍其义自现学而时习之不亦说乎'        # GB2312 level 1 characters
LATIN1_TEXT = 'abcdefghijklmnopqrstuvwxyzäöüßéèàçñ!?,;# '
UTF8_TEXT = 'abcdefghij€žšŒ‰€'                           # not Latin-1, not Shift JIS -> UTF-8 by the documented policy


class SeqCase:
    __slots__ = ('content', 'kw', 'tag', 'seq', 'exc', 'impl', 'model', 'mkv', 'syms', 'seqj', 'msg', 'extra')

    def __init__(self, content, kw, tag=''):
        self.content, self.kw, self.tag = content, kw, tag
        self.seq = self.exc = self.impl = self.model = self.mkv = self.seqj = self.msg = None
        self.syms = []
        self.extra = {}

    def call(self):
        c = self.content
        rc = repr(c)
        if len(rc) >= 200:
            rc = (rc[:90] + f'...<{len(rc)} chars of repr, exact content in the replay file>') if isinstance(c, int) else repr(c[:80]) + f'...<{len(c)} items>'
        return ('segno.QRCodeSequence(map(segno.QRCode, segno.encoder.encode_sequence(' if 'eci' in self.kw else 'segno.make_sequence(') + f'{rc}, ' + ', '.join(f'{k}={v!r}' for k, v in sorted(self.kw.items())) + ')'

    def replay(self):
        c = self.content
        return {'function': 'make_sequence', 'content': {'bytes': c.hex()} if isinstance(c, bytes) else c, 'kw': self.kw}


_BITS = bytes.maketrans(bytes(range(10)), b'0123456789')


def matrix_str(matrix):
    """same text as common.matrix_str, built with bytes.translate (5x faster)"""
    return b'/'.join(bytes(r).translate(_BITS) for r in matrix).decode('ascii')


def run_balanced(exe, lines, jobs=16):
    """run_lines_parallel splits the requests into contiguous parts; the generator emits the large versions last, so
    the requests are dealt round-robin first (answers are put back in request order)"""
    n = len(lines)
    if n < 200:
        return run_lines_parallel(exe, lines)
    order = [i for r in range(jobs) for i in range(r, n, jobs)]
    outs = run_lines_parallel(exe, [lines[i] for i in order], jobs)
    res = [None] * n
    for i, o in zip(order, outs):
        res[i] = o
    return res


def seq_str(codes):
    """canonical form shared with Model.showCodes (without the model-only fields)"""
    out = []
    for i, q in enumerate(codes):
        v = MICRO.get(q.version, q.version)
        e = None if q.error is None else LEVELS[q.error]
        out.append(f's{i}={v}:{opt(e)}:{q.mask}:{matrix_str(q.matrix)}')
    return f'ok=1 n={len(codes)} ' + ' '.join(out)


def impl_sequence(case):
    try:
        if 'eci' in case.kw:   # make_sequence has no eci parameter: the encoder level function behind it, wrapped as make_sequence wraps it
            s = segno.QRCodeSequence(map(segno.QRCode, segno.encoder.encode_sequence(case.content, **case.kw)))
        else:
            s = segno.make_sequence(case.content, **case.kw)
    except Exception as ex:  # noqa
        case.exc = exc_name(ex)
        case.extra['exc_text'] = str(ex)[:200]
        case.impl = f'err={case.exc}'
        return
    case.seq = s
    case.impl = seq_str(s)


def model_seq_line(idx, case):
    kw = case.kw
    parts = parts_of(case.content, kw.get('mode'), kw.get('encoding'))
    ps = ','.join(f'{hexs(b)}:{opt(m)}:{enc}' for b, m, enc in parts)
    sc = kw.get('symbol_count')
    return (f'seq id={idx} parts={ps} error={opt(norm_error(kw.get("error")))} version={opt(norm_version(kw.get("version")))} '
            f'mask={opt(kw.get("mask"))} eci={int(bool(kw.get("eci", False)))} boost={int(bool(kw.get("boost_error", True)))} count={"-" if sc is None else int(sc)}')


def strip_model(line):
    """model answer -> (comparable string, kv of the model-only fields)"""
    kv = parse_kv(line)
    rest = line.split(' ', 1)[1] if ' ' in line else line
    if 'ok' in kv:
        toks = [t for t in rest.split(' ') if not (t.startswith('sa=') or t.startswith('over='))]
        rest = ' '.join(toks)
    return rest, kv


def sym_line(idx, q, kw):
    v = MICRO.get(q.version, q.version)
    e = -1 if q.error is None else LEVELS[q.error]
    return (f'sym id={idx} m={matrix_str(q.matrix)} ev={v} ee={e} em={q.mask} ismicro={int(q.is_micro)} '
            f'dborder={q.default_border_size} symsize={q.symbol_size()[0]} desig={q.designator} eci=0 micro=0 '
            f'reqerr={opt(norm_error(kw.get("error")))} reqver={v}')


def chars_per_symbol(v, level, mode):
    """characters that fit one Structured Append symbol (20 bit header)"""
    return max_chars(v, level, mode, extra=20)


def text_for(rnd, kind, n):
    """content of n characters of the given kind; returns (content, kw additions)"""
    if kind == 'numeric-int' and n > 4000:   # int -> str conversion limit of CPython (4300 digits)
        kind = 'numeric-str'
    if kind == 'numeric-str':
        return content_for(rnd, 1, n), {}
    if kind == 'numeric-int':
        s = content_for(rnd, 1, n)
        s = (rnd.choice('123456789') + s[1:]) if s else s
        return int(s) if s else 0, {}
    if kind == 'numeric-bytes':
        return content_for(rnd, 1, n).encode('ascii'), {}
    if kind == 'alnum-str':
        return content_for(rnd, 2, n), {}
    if kind == 'alnum-bytes':
        return content_for(rnd, 2, n).encode('ascii'), {}
    if kind == 'byte-bytes':
        b = bytes(rnd.randrange(256) for _ in range(n))
        if n and (b.isdigit() or all(chr(x) in ALNUM for x in b) or encoder.is_kanji(b)):
            b = b'\x0a' + b[1:]
        return b, {}
    if kind == 'byte-latin1':
        s = ''.join(rnd.choice(LATIN1_TEXT) for _ in range(n))
        return (s if not s.isdigit() else 'a' + s[1:]), {}
    if kind == 'byte-utf8-auto':          # n bytes of UTF-8 (chosen by the policy because neither Latin-1 nor Shift JIS fit)
        s = '€'
        while len(s.encode('utf-8')) < n:
            ch = rnd.choice(UTF8_TEXT)
            if len((s + ch).encode('utf-8')) <= n:
                s += ch
            else:
                s += 'a'
        return s, {}
    if kind == 'byte-utf8-explicit':
        s = ''
        while len(s.encode('utf-8')) < n:
            ch = rnd.choice(LATIN1_TEXT + UTF8_TEXT)
            s += ch if len((s + ch).encode('utf-8')) <= n else 'b'
        return s, {'encoding': rnd.choice(['utf-8', 'UTF-8', 'utf8'])}
    if kind == 'byte-sjis-forced':        # Shift JIS text in byte mode: chunks may split a double byte character
        s = ''.join(rnd.choice(SJIS_TEXT) for _ in range(n // 2)) + ('a' if n % 2 else '')
        return s, {'mode': 'byte'}
    if kind == 'byte-explicit-latin':
        s = ''.join(rnd.choice(LATIN1_TEXT) for _ in range(n))
        return s, {'encoding': rnd.choice(['iso-8859-1', 'latin1', 'iso-8859-15', 'cp1252']), 'mode': 'byte'}
    if kind == 'kanji-str':
        return ''.join(rnd.choice(SJIS_TEXT) for _ in range(n)), rnd.choice([{}, {'mode': 'kanji'}])
    if kind == 'kanji-bytes':
        return kanji_bytes(rnd, n), rnd.choice([{}, {'mode': 'kanji'}])
    if kind == 'hanzi-str':
        return ''.join(rnd.choice(HANZI_TEXT) for _ in range(n)), {'mode': 'hanzi'}
    if kind == 'hanzi-bytes':
        return hanzi_bytes(rnd, n), {'mode': 'hanzi'}
    raise AssertionError(kind)


KINDS = {1: ['numeric-str', 'numeric-str', 'numeric-int', 'numeric-bytes'],
         2: ['alnum-str', 'alnum-str', 'alnum-bytes'],
         4: ['byte-bytes', 'byte-latin1', 'byte-latin1', 'byte-utf8-auto', 'byte-utf8-explicit', 'byte-sjis-forced', 'byte-explicit-latin'],
         8: ['kanji-str', 'kanji-bytes'],
         13: ['hanzi-str', 'hanzi-bytes']}


def common_kw(rnd, level, small):
    kw = {}
    if level is not None:
        kw['error'] = LEVEL_NAME[level] if rnd.random() < 0.8 else LEVEL_NAME[level].lower()
    kw['boost_error'] = rnd.random() < 0.5
    r = rnd.random()
    if r < 0.8 or not small:
        kw['mask'] = rnd.randrange(8)
    elif r < 0.9:
        kw['mask'] = str(rnd.randrange(8))
    return kw


def gen_sequences(rnd, tier):
    quick = tier == 'quick'
    versions = list(range(1, 11)) if quick else list(range(1, 41))
    levels = [None, 1, 0, 3, 2]
    modes = [1, 2, 4, 8, 13]
    # ---- version= path: lengths dense around multiples of the per-symbol capacity
    for v in versions:
        for mode in modes:
            for level in levels:
                sparse = quick or v > 10          # thorough: every (version <= 10, mode, level) with all t, larger versions sampled
                if sparse and rnd.random() < (0.6 if quick else 0.88):
                    continue
                lvl = 1 if level is None else level
                per = chars_per_symbol(v, lvl, mode)
                one = max_chars(v, lvl, mode)
                if per < 1:
                    continue
                ts = sorted(set([2, 3, rnd.randint(4, 8), rnd.randint(9, 15), 16]))
                if sparse:
                    ts = rnd.sample(ts, 2)
                lens = {one, one + 1}                                 # single symbol / first sequence
                for t in ts:
                    for d in rnd.sample([-3, -2, -1, 0, 1, 2, 3, 4], 3 if sparse else 4):
                        lens.add(t * per + d)
                lens.add(16 * per + rnd.choice([1, 2, 3]))           # more than 16 symbols
                for n in sorted(x for x in lens if x >= 1):
                    if mode == 1 and quick and v > 8 and n > 12 * per:
                        continue
                    content, extra = text_for(rnd, rnd.choice(KINDS[mode]), n)
                    kw = dict(common_kw(rnd, level, v <= 4), version=v if rnd.random() < 0.9 else str(v))
                    kw.update(extra)
                    yield SeqCase(content, kw, 'by-version')
    # ---- version= path, content far shorter than the requested version holds: one symbol of exactly version v, whose minimal
    #      version lies in another character count indicator range (1-9 / 10-26 / 27-40) — wave 10, C08f-2
    for v in ([9, 10, 26, 27, 40] if quick else [2, 5, 9, 10, 11, 20, 26, 27, 28, 33, 40]):
        for mode in modes:
            content, extra = text_for(rnd, rnd.choice(KINDS[mode]), rnd.randint(1, 12))
            kw = dict(common_kw(rnd, rnd.choice(levels), False), version=v)
            kw.update(extra)
            yield SeqCase(content, kw, 'by-version')
    # ---- symbol_count= path
    for k in range(1, 17):
        for mode in modes:
            for rep in range(3 if quick else 8):
                level = rnd.choice(levels)
                lvl = 1 if level is None else level
                v = rnd.choice(versions if not quick else versions[:8])
                per = chars_per_symbol(v, lvl, mode)
                if per < 1:
                    continue
                r = rnd.random()
                if r < 0.55:
                    n = k * per + rnd.choice([-2, -1, 0, 0, 1, 2])  # longest chunk exactly fills / just exceeds version v
                elif r < 0.7:
                    n = k + rnd.choice([-1, 0, 1])                    # fewer characters than symbols
                else:
                    n = rnd.randint(k, max(k, k * per))
                if n < 1:
                    continue
                content, extra = text_for(rnd, rnd.choice(KINDS[mode]), n)
                kw = dict(common_kw(rnd, level, v <= 4), symbol_count=k)
                kw.update(extra)
                yield SeqCase(content, kw, 'by-count')
    # ---- all residues mod 3 / mod 2 of the chunk lengths for small counts
    for mode in (1, 2):
        for k in (2, 3, 4):
            for n in range(k, k + (13 if quick else 37)):
                content, extra = text_for(rnd, KINDS[mode][0], n)
                yield SeqCase(content, dict(symbol_count=k, mask=rnd.randrange(8), boost_error=rnd.random() < 0.5, **extra), 'residues')
    # ---- both requests, malformed requests
    for _ in range(40 if quick else 400):
        mode = rnd.choice(modes)
        v = rnd.choice(versions[:6])
        per = max(1, chars_per_symbol(v, 1, mode))
        content, extra = text_for(rnd, rnd.choice(KINDS[mode]), rnd.randint(1, 6 * per))
        kw = dict(common_kw(rnd, rnd.choice(levels), True), version=v, symbol_count=rnd.randint(1, 16))
        kw.update(extra)
        yield SeqCase(content, kw, 'both')
    for _ in range(30 if quick else 200):
        mode = rnd.choice([1, 2, 4])
        content, extra = text_for(rnd, rnd.choice(KINDS[mode]), rnd.randint(1, 60))
        kw = dict(extra)
        r = rnd.randrange(6)
        if r == 0:
            kw['version'] = rnd.choice(['M1', 'M2', 'm3', 'M4', 0])
        elif r == 1:
            kw['symbol_count'] = rnd.choice([0, 17, -1, 33])
        elif r == 2:
            pass                                                       # neither version nor symbol_count
        elif r == 3:
            kw.update(version=rnd.choice([1, 2]), mask=rnd.choice([8, 9, '8']))
        elif r == 4:
            kw.update(symbol_count=2, mode=rnd.choice(['numeric', 'alphanumeric', 'kanji', 'hanzi']))   # mode may not apply
        else:
            content = ''
            kw.update(rnd.choice([dict(version=1), dict(symbol_count=1), dict(symbol_count=2)]))
        yield SeqCase(content, kw, 'malformed')
    # falsy but valid messages: the integer 0, '0', b'0', a single space
    for content in (0, '0', b'0', ' ', 7, '00'):
        for kw in (dict(version=1), dict(symbol_count=1), dict(version=2, symbol_count=1), dict(symbol_count=2)):
            yield SeqCase(content, dict(kw), 'falsy-content')


def _seq_call(content, kw):
    return segno.make_sequence(content, **kw)


def _seq_snap(seq):
    return tuple((q.version, q.error, q.mask, tuple(bytes(r) for r in q.matrix)) for q in seq)


def _seq_sequential(args):
    out = []
    for content, kw in args:
        try:
            out.append(('ok', _seq_snap(_seq_call(content, kw))))
        except Exception as ex:  # noqa
            out.append(('exc', exc_name(ex)))
    return out


def concurrency_pass(rnd, res):
    """the same `make_sequence` calls under the deterministic scheduler (8 threads, one at a time, seeded; groups of 8 calls of
    one version, every version used for the first time by 8 threads at once) must give the sequences of a sequential fresh process,
    at return and after all calls (sequences are held)"""
    import multiprocessing
    import symbols
    seed = int(os.environ.get('VERIF_SEED', '1'))
    calls = []
    for v in (1, 2, 3, 5, 7, 10, 14):
        for _ in range(8):
            mode = rnd.choice([1, 2, 4])
            n = rnd.randint(2, 3) * max_chars(v, 1, mode, 20) - rnd.randint(0, 5)
            kw = dict(version=v, error='L', boost_error=False) if rnd.random() < 0.5 else dict(symbol_count=rnd.randint(2, 3), error='L', boost_error=False)
            if rnd.random() < 0.5:
                kw['mask'] = rnd.randrange(8)
            calls.append((content_for(rnd, mode, max(2, n)), kw))
    ctx = multiprocessing.get_context('fork')
    with ctx.Pool(1) as pool:
        ref = pool.apply(_seq_sequential, (calls,))
    with ctx.Pool(1) as pool:
        outs = pool.apply(symbols._scheduled_child, (calls, seed, 8, 0.1, _seq_call, _seq_snap))
    for (content, kw), r, o in zip(calls, ref, outs):
        res.evaluations += 1
        if r[0] != 'ok':
            continue
        bad = None
        if o[0] != 'ok':
            bad = f'concurrent-call-raised-{o[1]}-sequential-call-returned-a-sequence'
        elif o[1] != r[1]:
            bad = 'sequence-differs-from-sequential-result-at-return'
        elif o[2] != r[1]:
            bad = 'sequence-changed-after-it-was-returned'
        if bad:
            res.violations.append(dict(property_field='c08', verdict=bad, call=f'segno.make_sequence({content!r}, **{kw!r})  [deterministic scheduler, 8 threads]',
                                       replay=dict(content=content if not isinstance(content, bytes) else {'bytes': content.hex()}, kw=kw, schedule=dict(seed=seed)), known_id=None))
    res.count('concurrency-pass:scheduled-calls', len(calls))


def run_C08(tier, rnd, st, res):
    concurrency_pass(random.Random(rnd.random()), res)
    cases = list(gen_sequences(rnd, tier))
    for c in cases:
        impl_sequence(c)
    res.evaluations += len(cases)
    # ---------------- correspondence with the model
    if st.model_ok:
        lines, idxs = [], []
        for i, c in enumerate(cases):
            try:
                lines.append(model_seq_line(i, c))
                idxs.append(i)
            except (UnicodeError, LookupError) as ex:
                want = 'UnicodeError' if isinstance(ex, UnicodeError) else 'LookupError'
                if c.exc != want and c.exc not in ('ValueError', 'DataOverflowError'):
                    res.corr_diffs.append(dict(call=c.call(), impl=c.impl[:200], model=f'err={want} (policy)'))
            except Exception as ex:  # noqa   malformed spelling that the model does not take (C14's business)
                c.extra['unmodelled'] = repr(ex)[:100]
        outs = run_balanced(MODEL, lines)
        for i, o in zip(idxs, outs):
            c = cases[i]
            c.model, c.mkv = strip_model(o)
            res.corr_checked += 1
            if c.model != c.impl:
                res.corr_diffs.append(dict(call=c.call(), replay=c.replay(), impl=c.impl[:300], model=c.model[:300]))
    # ---------------- judge: every symbol
    if not st.judge_ok:
        return
    lines, owners = [], []
    for i, c in enumerate(cases):
        if c.seq is None:
            continue
        for j, q in enumerate(c.seq):
            lines.append(sym_line(f'{i}.{j}', q, c.kw))
            owners.append((i, j))
    outs = run_balanced(JUDGE, lines)
    for (i, j), o in zip(owners, outs):
        cases[i].syms.append(parse_kv(o))
    # ---------------- judge: the sequence
    lines, idxs = [], []
    for i, c in enumerate(cases):
        if c.seq is None:
            continue
        try:
            parts = parts_of(c.content, c.kw.get('mode'), c.kw.get('encoding'))
            c.msg = parts[0][0]
        except Exception:  # noqa
            c.msg = None
        if c.msg is None or not all(s.get('parse') == 'ok' for s in c.syms):
            continue
        sc, ver = c.kw.get('symbol_count'), c.kw.get('version')
        lines.append(f'seq id={i} sa={",".join(s["sa"] for s in c.syms)} bytes={",".join(s.get("bytes", "") for s in c.syms)} '
                     f'msg={hexs(c.msg)} vs={",".join(s["v"] for s in c.syms)} '
                     f'count={sc if sc is not None and ver is None else "-"} ver={norm_version(ver) if ver is not None and sc is None else "-"}')
        idxs.append(i)
    for i, o in zip(idxs, run_balanced(JUDGE, lines)):
        cases[i].seqj = parse_kv(o)
    # ---------------- verdicts
    for i, c in enumerate(cases):
        if c.seq is None:
            res.count('exc:' + c.exc)
            res.count('tag:' + c.tag)
            continue
        agrees = (c.model == c.impl) if c.model is not None else None
        over = set()
        if c.mkv and c.mkv.get('over'):
            over = {int(x) for x in c.mkv['over'].split(',') if x}
        by_version_only = c.kw.get('version') is not None and c.kw.get('symbol_count') is None
        d16_seq = False
        for j, s in enumerate(c.syms):
            for fld in ('c02', 'c03', 'c04', 'c13'):
                verdict = s.get(fld, 'missing')
                if verdict in ('ok', '-'):
                    continue
                if fld == 'c13' and verdict == 'd1':
                    res.count('c13-d1-tolerated (finding D1 belongs to C13)')
                    continue
                kid = None
                # D16: only the version= path, only a symbol the model itself predicts to overflow, and only if the
                # model reproduces the implementation's (cut) symbols exactly
                overflow_verdict = (fld == 'c04' and (verdict == 'parse' or (verdict.startswith('content-') and 'exceeds-capacity' in verdict))) \
                    or (fld == 'c13' and verdict.startswith('parse-'))
                if overflow_verdict and by_version_only and agrees and j in over and len(c.seq) > 1:
                    kid = 'D16'
                    d16_seq = True
                    if fld == 'c13':
                        continue                     # same defect, reported once through c04
                res.violations.append(dict(property_field=fld, verdict=f'symbol-{j}-of-{len(c.seq)}:{verdict}', call=c.call(), replay=c.replay(),
                                           judge={k: s[k] for k in s if k not in ('cw', 'bytes', 'm')}, model_agrees=agrees, known_id=kid))
        if c.seqj is not None:
            verdict = c.seqj.get('c08', 'missing')
            if verdict != 'ok':
                res.violations.append(dict(property_field='c08', verdict=verdict, call=c.call(), replay=c.replay(), judge=c.seqj,
                                           model_agrees=agrees, known_id=None))
        elif c.msg is None:
            res.violations.append(dict(property_field='c08', verdict='symbols-returned-although-the-documented-text-to-bytes-policy-fails',
                                       call=c.call(), replay=c.replay(), known_id=None))
        elif not d16_seq and all(s.get('c04') not in ('parse',) for s in c.syms):
            res.violations.append(dict(property_field='c08', verdict='sequence-not-judged', call=c.call(), replay=c.replay(), known_id=None))
        # measured distribution
        n = len(c.seq)
        modes = sorted({(s.get('segs') or '?').split(':')[0] for s in c.syms})
        res.count('tag:' + c.tag)
        res.count(f'symbols:{n if n < 3 else "3-8" if n <= 8 else "9-16"}')
        res.count('mode:' + '+'.join(modes))
        res.count('version-class:' + ('qr<10' if int(c.syms[0].get('v', 1)) < 10 else 'qr<27' if int(c.syms[0]['v']) < 27 else 'qr>=27'))
        res.count('content-type:' + type(c.content).__name__)
        if d16_seq:
            res.count('d16-sequences')
        if n > 1:
            res.nontrivial.add((c.tag, n, c.syms[0].get('v'), c.syms[0].get('lvl'), tuple(s.get('segs') for s in c.syms)))
    res.rule = ('make_sequence over (version 1..10 quick / 1..40 thorough) x mode x level with lengths t*per+d (per = characters per SA symbol, '
                't in 2..16, d in -3..4), single-symbol and 17-symbol boundaries; symbol_count 1..16 with lengths k*per+d, k+-1, random; '
                'all residues mod 3 / mod 2; both requests; malformed requests; str/int/bytes, Latin-1/UTF-8/Shift JIS/GB2312; '
                'non-trivial = a sequence of >= 2 symbols was returned; distinct by (path, count, version, level, per-symbol segment shapes)')
    for c in cases[:2] + cases[len(cases) // 2:len(cases) // 2 + 2] + cases[-1:]:
        res.samples.append(dict(call=c.call()[:240], impl=(c.impl or '')[:50], judge=str(c.seqj)[:120]))


RUNNERS = {'C08': run_C08}
