"""Property harnesses C09 (raster and text outputs depict the symbol with its quiet zone) and C11 (module iteration
and per-type colouring)."""
import time
import random
from concurrent.futures import ThreadPoolExecutor
from core import *
from raster import *


def run_balanced(exe, lines, jobs=16):
    """like run_lines_parallel, but balances the parts by request size (requests differ by 4 orders of magnitude)"""
    if not lines:
        return []
    order = sorted(range(len(lines)), key=lambda i: -len(lines[i]))
    bins = [[] for _ in range(min(jobs, len(lines)))]
    load = [0] * len(bins)
    for i in order:
        k = load.index(min(load))
        bins[k].append(i)
        load[k] += len(lines[i]) + 2000
    with ThreadPoolExecutor(len(bins)) as ex:
        outs = list(ex.map(lambda b: run_lines(exe, [lines[i] for i in b]), bins))
    res = [None] * len(lines)
    for b, o in zip(bins, outs):
        for i, x in zip(b, o):
            res[i] = x
    return res


def judge_cases(cases, st, res, prop, known=None):
    """real code -> judge; records violations (verdict field `c09` / `c11`)"""
    for c in cases:
        execute(c)
    res.evaluations += len(cases)
    if not st.judge_ok:
        return
    lines = []
    for i, c in enumerate(cases):
        c.line = judge_line(i, c)
        lines.append(c.line)
    outs = run_balanced(JUDGE, lines)
    for c, o in zip(cases, outs):
        c.judge = o
        c.jkv = parse_kv(o)
        fld = 'c11' if c.cmd.startswith('c11') else 'c09'
        verdict = c.jkv.get(fld, 'missing:' + o[:80])
        if verdict == 'ok':
            continue
        kid = known(verdict, c) if known else None
        res.violations.append(dict(property_field=prop.lower(), verdict=verdict, call=c.call(), replay=c.replay(),
                                   outcome=c.outcome, exc_text=c.exc_text, judge=o[:300], known_id=kid))


def info_of(c):
    d = {}
    for tok in (c.jkv or {}).get('info', '').split(','):
        if '=' in tok:
            k, v = tok.split('=', 1)
            d[k] = v
    return d


def effective(c):
    """(n, s, b) of a case, for the measured input distribution only"""
    n = len(c.q.matrix)
    kw = c.kw
    try:
        s = int(kw.get('scale', 1))
        b = kw.get('border')
        b = (2 if n < 21 else 4) if b is None else int(b)
    except Exception:  # noqa
        return n, None, None
    return n, s, b


def account(res, cases, rule):
    for c in cases:
        res.count('tag:' + c.tag)
        res.count('format:' + c.fmt)
        res.count('outcome:' + c.outcome)
        n, s, b = effective(c)
        res.count('size-class:' + ('micro' if n < 21 else 'qr<10' if n < 57 else 'qr<27' if n < 125 else 'qr>=27'))
        inf = info_of(c)
        if c.outcome == 'ok' and s is not None and s >= 1 and b is not None and b >= 0:
            W = (n + 2 * b) * s
            if c.fmt == 'png' and 'depth' in inf:
                res.count(f'png-depth{inf["depth"]}-ctype{inf["ctype"]}')
                res.count(f'png-depth{inf["depth"]}-width-mod-8={W % 8}')
            elif c.fmt in ('pbm', 'xbm') and not c.kw.get('plain'):
                res.count(f'{c.fmt}-width-mod-8={W % 8}')
            res.count(f'scale={s}')
            res.count(f'border={c.kw.get("border", "default")}')
            # non-trivial: a picture was produced and judged; distinct by (format, size, scale, border, image type / colours)
            res.nontrivial.add((c.fmt, n, s, b, c.tag, inf.get('depth'), inf.get('ctype'), inf.get('plte'),
                                repr(sorted((k, repr(v)) for k, v in c.kw.items() if k not in ('scale', 'border')))))
    res.rule = rule
    for c in cases[:3] + cases[-2:]:
        res.samples.append(dict(call=c.call()[:300], outcome=c.outcome, judge=(c.judge or '')[:160]))


def known_c11(verdict, c):
    return 'D8' if verdict.split(' ')[0] == 'd8' else None


def _render_call(spec, kw):
    make, fmt = spec
    c = RCase(0, segno.make(make['content'], **{k: v for k, v in make.items() if k != 'content'}), make, fmt, kw, 'concurrent')
    execute(c)
    if c.outcome != 'ok':
        raise ValueError(c.outcome)
    return c.data


def _render_snap(x):
    return x


def _render_sequential(args):
    out = []
    for spec, kw in args:
        try:
            out.append(('ok', _render_call(spec, kw)))
        except Exception as ex:  # noqa
            out.append(('exc', str(ex)))
    return out


def concurrency_pass(cases, rnd, res, field):
    """serialisers are pure functions of (symbol, options): the same calls under the deterministic scheduler (8 threads, one at a
    time, seeded) — neighbouring calls of DIFFERENT symbol sizes, so that anything remembered from "the last symbol" is wrong for
    the next — must give the documents of a sequential fresh process"""
    import multiprocessing
    import symbols
    seed = int(os.environ.get('VERIF_SEED', '1'))
    ok = [c for c in cases if c.outcome == 'ok' and len(c.q.matrix) <= 77]
    rnd.shuffle(ok)
    by_fmt = {}
    for c in ok:
        by_fmt.setdefault(c.fmt, []).append(c)
    sample = []
    for fmt, lst in sorted(by_fmt.items()):
        sample += lst[:40 if fmt in ('ppm', 'iterv') else 24 if fmt in ('png', 'svg') else 8]
    sample = sample[: len(sample) - len(sample) % 8]
    # groups that repeat TWO calls of different symbol sizes (a memo of "the last size" written in two steps serves the other size)
    for fmt in ('ppm', 'iterv', 'png', 'svg'):
        lst = by_fmt.get(fmt, [])
        for g in range(min(6, len(lst) // 2)):
            a, b = lst[2 * g], lst[2 * g + 1]
            if len(a.q.matrix) != len(b.q.matrix):
                sample += [a, b, a, b, b, a, b, a]
    calls = [((c.make, c.fmt), c.kw) for c in sample]
    ctx = multiprocessing.get_context('fork')
    with ctx.Pool(1) as pool:
        ref = pool.apply(_render_sequential, (calls,))
    with ctx.Pool(1) as pool:
        outs = pool.apply(symbols._scheduled_child, (calls, seed, 8, 0.1, _render_call, _render_snap))
    for c, r, o in zip(sample, ref, outs):
        res.evaluations += 1
        if r[0] != 'ok':
            continue
        if o[0] != 'ok' or o[1] != r[1]:
            what = ('raised-' + str(o[1])) if o[0] != 'ok' else 'document-differs'
            res.violations.append(dict(property_field=field, verdict=f'under-concurrent-calls-{what}-sequential-call-gave-the-judged-document',
                                       call=c.call() + '  [deterministic scheduler, 8 threads]', replay=dict(c.replay(), schedule=dict(seed=seed)), known_id=None))
    res.count('concurrency-pass:scheduled-calls', len(calls))


def run_C09(tier, rnd, st, res):
    syms = Sym(rnd)
    cases = gen_c09(rnd, syms, tier)
    judge_cases(cases, st, res, 'C09', known=lambda v, c: 'D8' if v == 'd8' and c.cmd == 'c11c' else None)
    # D8 (C11) shows in per-type coloured pictures as well; it is C11's finding, not a C09 violation
    res.violations = [v for v in res.violations if v.get('known_id') != 'D8']
    concurrency_pass(cases, random.Random(rnd.random()), res, 'c09')
    from raster_model import correspond_c09, correspond_png
    correspond_c09(cases, st, res)
    correspond_png(cases, st, res, rnd, syms, tier)
    from raster_docs import correspond_docs, reader_equivalence, NOTES_DOCS
    reader_equivalence(correspond_docs(cases, st, res, rnd, syms, tier), st, res, rnd, tier)
    res.notes += NOTES_DOCS
    res.notes += ['png_stream_rows / png_stream_reconstructs / png_palette_sound / png_standin_and_trns / png_model_picture (Props/C09Png.lean): '
                  'the former OPEN obligations PngStreamRows and png_palette are proved for the model Model.writePng / Model.savePng',
                  'Tie B (model = code) covers matrix_iter through the raster of pbm P4/P1, xbm, the complete txt / ansi / compact documents, and '
                  'EVERY png of the generator + an extra stream (palette corners, dropped keys, alpha ties, float alpha): IHDR fields, PLTE, tRNS and '
                  'the inflated IDAT byte for byte; ppm raster with per-type colours; not modelled: pHYs (dpi), zlib, CRCs (judged), pam / xpm colour paths (judged)',
                  'runtime service supplied to the model: iteration order of set() where two colours share R, G, B and differ in alpha']
    account(res, cases, 'all 44 symbol sizes x {png (grey, grey+tRNS, 1/2/4-bit palettes, alpha, transparent), pbm P4/P1, pam (4 tuple types), '
            'ppm, xbm, xpm, txt, ansi, compact} x scale 1..12 (+ fractional) x border None/0..6 x colours x dpi/compresslevel/plain/name; explicit '
            'sweep of all widths mod 8 per packing (png depth 1/2/4, pbm, xbm); refusals (scale < 1, border < 0 or fractional, unreadable '
            'colours); non-trivial = a file was produced and every pixel judged; distinct by (format, size, scale, border, image type, options)')


def run_C11(tier, rnd, st, res):
    syms = Sym(rnd)
    cases = gen_c11(rnd, syms, tier)
    judge_cases(cases, st, res, 'C11', known=known_c11)
    concurrency_pass(cases, random.Random(rnd.random()), res, 'c11')
    from raster_model import correspond_c11, correspond_png
    correspond_c11(cases, st, res)
    correspond_png(cases, st, res, rnd, syms, tier)
    import vecdocs
    vecdocs.correspond_c11_docs(cases, rnd, syms, tier, st, res)
    res.notes += ['colormap_fallback / colormap_keys / dropped_keys_unused / version_key_exact / darkmodule_key_exact / alignment_key '
                  '(Props/C11Colormap.lean) and png_model_picture_types (Props/C09Png.lean) are proved for Model.makeColormap / Model.writePng',
                  'Tie B (model = code): matrix_iter and matrix_iter(verbose=True) of all 44 versions, cell by cell; every colourful png (IHDR, PLTE, '
                  'tRNS, inflated IDAT byte for byte) and ppm raster of the generator + the extra stream; SVG run emission is judged only']
    res.exhaustive = True
    account(res, cases, 'matrix_iter(verbose=True) and matrix_iter() of all 44 versions (every module of every size; exhaustive over sizes) with '
            'default and random scale/border; refusals; png / ppm with random subsets of the 15 per-type colour options (incl. two-tone maps that are '
            'not uniform per class); non-trivial = grid / picture produced and every cell judged; distinct by (format, size, scale, border, options)')


RUNNERS = {'C09': run_C09, 'C11': run_C11}
