"""Property harness of C16: the payloads of the `segno.helpers` factories parse back.

Per factory (WIFI, MeCard, vCard, geo, mailto, EPC) the harness generates adversarial, mostly valid
arguments (all randomness from `rnd`), calls the REAL `helpers.make_*_data` function in-process, sends
the same arguments to the Lean `model` (Tie B: payloads must be identical, refusals must coincide) and
sends arguments + returned payload to the Lean `judge`, which evaluates the property (Spec/Helpers.lean).
For a sample, the symbols of the `make_*` factories are decoded by the reference decoder (`c16sym`).
Python only drives, encodes arguments for the line protocol and supplies runtime services
(`str(float)`, date formatting, "can codec k encode this text", `bytes.decode(codec k)`, exact values
of numbers)."""
import datetime
import decimal
import fractions
import math
import string

from core import *
from enc import text_to_bytes
import segno
from segno import helpers

CODECS = ['utf-8', 'iso-8859-1', 'iso-8859-2', 'iso-8859-4', 'iso-8859-5', 'iso-8859-7', 'iso-8859-10', 'iso-8859-15']


# ------------------------------------------------------------------------------------- line protocol
def cps(s):
    return 's' + '.'.join(str(ord(c)) for c in s)


def opt(s):
    return '-' if s is None else cps(s)


def arg(v):
    if v is None:
        return '-'
    if isinstance(v, str):
        return cps(v)
    return 'l' + ''.join(',' + cps(x) for x in v)


def rat(x):
    """exact value of a number as `[-]num/den` (sign bit kept for -0.0)"""
    if isinstance(x, bool):
        x = int(x)
    if isinstance(x, int):
        return f'{x}/1' if x >= 0 else f'-{-x}/1'
    if isinstance(x, float):
        neg = math.copysign(1.0, x) < 0
        n, d = abs(x).as_integer_ratio()
        return f'{"-" if neg else ""}{n}/{d}'
    d = decimal.Decimal(x)
    f = fractions.Fraction(d)
    neg = d.is_signed()
    return f'{"-" if neg else ""}{abs(f.numerator)}/{f.denominator}'


def exc_class(ex):
    return 'ValueError' if isinstance(ex, ValueError) else type(ex).__name__


# ------------------------------------------------------------------------------------- value generators
PIECES = [';', ':', ',', '\\', '"', '\r', '\n', '\r\n', '\\;', '\\\\', '\\:', '\\"', ';;', '\\n', ' ', 'N:', 'END:VCARD',
          'BEGIN:VCARD', ';P:x', ';;S:x;', 'T:WPA', 'H:true', '\\\\;', ':\\', '";', ',,', '\n\r', 'ADR:', 'TEL:1', 'WIFI:',
          'MECARD:', '\t', '%', '&', '?', '=', '#', '+', '/', '~', "'", '<', '>', '\x00', '\x7f']
UNI = ['\u037e', 'a\u037eb', '\u212b', 'e\u0301', '\u1e9b\u0323', 'ä', 'ö', 'ß', 'é', '€', 'Ω', 'ж', '漢', '字', 'ｱ', '😀', '\xa0', '\u2028', '\u0085', 'ő', 'ķ', 'ð', 'ā', '\u200b', 'ﬁ']
PLAIN = string.ascii_letters + string.digits


def adv(rnd, lo=0, hi=10, uni=0.25, special=0.55):
    """adversarial text: pieces rich in delimiters / escapes / line breaks, plain runs, some Unicode"""
    out = []
    for _ in range(rnd.randint(lo, hi)):
        r = rnd.random()
        if r < special:
            out.append(rnd.choice(PIECES))
        elif r < special + uni:
            out.append(rnd.choice(UNI))
        else:
            out.append(''.join(rnd.choice(PLAIN) for _ in range(rnd.randint(1, 4))))
    return ''.join(out)


def plain(rnd, lo=1, hi=8):
    return ''.join(rnd.choice(PLAIN) for _ in range(rnd.randint(lo, hi)))


def opt_adv(rnd, p_none=0.4, p_empty=0.08, **kw):
    r = rnd.random()
    if r < p_none:
        return None
    if r < p_none + p_empty:
        return ''
    s = adv(rnd, 1, 8, **kw)
    return s


class OneShot(list):
    """a multi-valued argument handed over as a one-shot iterable (iterator / generator / map object); `fresh()` makes a new one
    for every call, the model and the judge see the list"""
    kind = 'iter'

    def fresh(self):
        if self.kind == 'gen':
            return (x for x in list(self))
        if self.kind == 'map':
            return map(str, list(self))
        return iter(list(self))

    def __repr__(self):
        return {'gen': '(x for x in %s)', 'map': 'map(str, %s)', 'iter': 'iter(%s)'}[self.kind] % list.__repr__(self)


def multi_adv(rnd, gen=None):
    gen = gen or (lambda: adv(rnd, 0, 6))
    r = rnd.random()
    if r < 0.35:
        return None
    if r < 0.40:
        return ''
    if r < 0.45:
        return []
    if r < 0.65:
        return gen() or 'x'
    n = rnd.randint(1, 4)
    vals = [gen() for _ in range(n)]
    if rnd.random() < 0.15:
        o = OneShot(vals)
        o.kind = rnd.choice(['iter', 'gen', 'map'])
        return o
    return tuple(vals) if rnd.random() < 0.5 else vals


class HCase:
    __slots__ = ('factory', 'kw', 'line', 'impl', 'exc', 'out', 'model', 'judge', 'extra', 'nontrivial')

    def __init__(self, factory, kw, line, nontrivial=True):
        self.factory, self.kw, self.line = factory, kw, line
        self.impl = self.exc = self.out = self.model = self.judge = None
        self.extra = {}
        self.nontrivial = nontrivial

    def call(self):
        fn = {'wifi': 'make_wifi_data', 'mecard': 'make_mecard_data', 'vcard': 'make_vcard_data', 'geo': 'make_geo_data',
              'mailto': 'make_make_email_data', 'epc': '_make_epc_qr_data'}[self.factory]
        return f'helpers.{fn}(' + ', '.join(f'{k}={v!r}' for k, v in self.kw.items()) + ')'

    def replay(self):
        return dict(factory=self.factory, kwargs={k: repr(v) for k, v in self.kw.items()})


# ------------------------------------------------------------------------------------- WIFI
SECURITY = [None, None, '', 'WEP', 'WPA', 'wep', 'wpa', 'Wpa', 'nopass', 'WPA2', 'SAE', 'wpa2-eap']


def gen_wifi(rnd, n):
    for i in range(n):
        kw = dict(ssid=adv(rnd, 0, 8))
        r = rnd.random()
        if r < 0.75:
            kw['password'] = opt_adv(rnd, 0.15, 0.1)
        if rnd.random() < 0.8:
            kw['security'] = rnd.choice(SECURITY)
        if rnd.random() < 0.5:
            kw['hidden'] = rnd.random() < 0.6
        line = (f'ssid={cps(kw["ssid"])} password={opt(kw.get("password"))} security={opt(kw.get("security"))} '
                f'hidden={int(bool(kw.get("hidden", False)))}')
        yield HCase('wifi', kw, line)


# ------------------------------------------------------------------------------------- MeCard
def date_or_text(rnd, fmt_compact):
    """a date object or its text; returns (python value, text the factory must write)"""
    y, m, d = rnd.randint(1000, 9999), rnd.randint(1, 12), rnd.randint(1, 28)
    text = f'{y:04d}{m:02d}{d:02d}' if fmt_compact else f'{y:04d}-{m:02d}-{d:02d}'
    r = rnd.random()
    if r < 0.4:
        return datetime.date(y, m, d), text
    if r < 0.5:
        return datetime.datetime(y, m, d, rnd.randint(0, 23), rnd.randint(0, 59)), text
    return text, text


def gen_mecard(rnd, n):
    single = ('reading', 'memo', 'nickname', 'pobox', 'roomno', 'houseno', 'city', 'prefecture', 'zipcode', 'country')
    multi = ('email', 'phone', 'videophone', 'url')
    for i in range(n):
        kw = dict(name=adv(rnd, 0, 8))
        texts = {}
        for k in single:
            if rnd.random() < (0.35 if k in ('reading', 'memo', 'nickname') else 0.2):
                kw[k] = opt_adv(rnd, 0.1, 0.1)
        for k in multi:
            if rnd.random() < 0.45:
                kw[k] = multi_adv(rnd)
        if rnd.random() < 0.3:
            kw['birthday'], texts['birthday'] = date_or_text(rnd, True)
        f = [f'name={cps(kw["name"])}']
        for k in single:
            f.append(f'{k}={opt(kw.get(k))}')
        for k in multi:
            f.append(f'{k}={arg(kw.get(k))}')
        f.append(f'birthday={opt(texts.get("birthday"))}')
        yield HCase('mecard', kw, ' '.join(f))


# ------------------------------------------------------------------------------------- vCard
BAD_DATES = ['2020-1-1', '20200101', 'abc', '2020-01-01 ', ' 2020-01-01', '2020-01-01\n', '2020-01-01\r\n', '2020-01-01\nEND:VCARD',
             '2020-01-01T10:00', '2020/01/01', '2020-01-01T10:00:00+01:00', '2020-01-01Z', '\n2020-01-01']
TIMED_DATES = ['2020-01-01T10:00:00', '1999-12-31T23:59:59Z', '2020-01-01T10:00:00-05:00', '2020-01-01T10:00:0005:00']


def vcard_date(rnd):
    r = rnd.random()
    if r < 0.6:
        return date_or_text(rnd, False)
    if r < 0.75:
        t = rnd.choice(TIMED_DATES)
        return t, t
    t = rnd.choice(BAD_DATES)
    return t, t


def gen_vcard(rnd, n):
    single = ('memo', 'nickname', 'pobox', 'street', 'city', 'region', 'zipcode', 'country', 'org', 'source')
    multi = ('email', 'phone', 'fax', 'videophone', 'url', 'title', 'photo_uri', 'cellphone', 'homephone', 'workphone')
    for i in range(n):
        kw = dict(name=adv(rnd, 0, 8), displayname=adv(rnd, 0, 8))
        texts = {}
        for k in single:
            if rnd.random() < 0.25:
                kw[k] = opt_adv(rnd, 0.1, 0.1)
        for k in multi:
            if rnd.random() < 0.3:
                kw[k] = multi_adv(rnd)
        for k in ('birthday', 'rev'):
            if rnd.random() < 0.3:
                kw[k], texts[k] = vcard_date(rnd)
        r = rnd.random()
        if r < 0.3:
            kw['lat'], kw['lng'] = geo_number(rnd), geo_number(rnd)
        elif r < 0.36:
            kw[rnd.choice(['lat', 'lng'])] = geo_number(rnd)
        elif r < 0.4:
            kw['lat'], kw['lng'] = rnd.choice([(0.0, 12.5), (3.25, 0), (0, 0), (0.0, 0.0)])
        f = [f'name={cps(kw["name"])} displayname={cps(kw["displayname"])}']
        for k in single:
            f.append(f'{k}={opt(kw.get(k))}')
        for k in multi:
            f.append(f'{k}={arg(kw.get(k))}')
        for k in ('birthday', 'rev'):
            f.append(f'{k}={opt(texts.get(k))}')
        for k in ('lat', 'lng'):
            v = kw.get(k)
            f.append(f'{k}={opt(None if v is None else str(v))} {k}true={int(bool(v))}')
        yield HCase('vcard', kw, ' '.join(f))


# ------------------------------------------------------------------------------------- geo
GEO_FIXED = [0, 0.0, -0.0, 1, -1, 90, -180, 38.8976763, -77.0365297, 1e-9, -1e-9, 5e-9, -5e-9, 4.9e-9, 5.1e-9, 1.5e-8, 2.5e-8,
             0.000000015, 0.1, 0.5, 0.125, 1e15, -1e15, 123456789.123456789, 0.1 + 0.2, 1 / 3, 2 / 3, 99.999999995, 99.999999994,
             0.999999995, 0.9999999949, 179.99999999, 1e-8, 1e-7, 12.00000001, 12.10, 100, 1000000, 2 ** 53, 1e20, 1e22,
             0.30000000000000004, 45.123456785, 45.123456775, 7.000000005, 8.000000015]


def geo_number(rnd):
    r = rnd.random()
    if r < 0.25:
        return rnd.choice(GEO_FIXED)
    if r < 0.35:
        return rnd.randint(-180, 180)
    if r < 0.6:
        return round(rnd.uniform(-180, 180), rnd.randint(0, 10))
    if r < 0.75:
        # decimal ties and near-ties at the 8th / 9th decimal
        return rnd.randint(-10 ** 6, 10 ** 6) + rnd.randint(0, 10 ** 9) / 10 ** 9 + rnd.choice([0, 5e-9, -5e-9])
    if r < 0.85:
        return rnd.uniform(-1, 1) * 10 ** rnd.randint(-12, 12)
    return rnd.uniform(-90, 90)


def gen_geo(rnd, n):
    for i in range(n):
        lat, lng = geo_number(rnd), geo_number(rnd)
        yield HCase('geo', dict(lat=lat, lng=lng), f'lat={rat(lat)} lng={rat(lng)}')


# ------------------------------------------------------------------------------------- mailto
def address(rnd):
    loc = ''.join(rnd.choice(PLAIN + '._-+') for _ in range(rnd.randint(1, 8)))
    return loc + '@' + plain(rnd, 1, 6).lower() + rnd.choice(['.org', '.com', '.example', '-x.de'])


def addr_multi(rnd, allow_empty=True):
    r = rnd.random()
    if allow_empty and r < 0.3:
        return None
    if allow_empty and r < 0.36:
        return rnd.choice(['', [], ()])
    if r < 0.7:
        return address(rnd)
    vals = [address(rnd) for _ in range(rnd.randint(1, 3))]
    return tuple(vals) if rnd.random() < 0.5 else vals


def gen_mailto(rnd, n):
    for i in range(n):
        kw = {}
        kw['to'] = addr_multi(rnd, allow_empty=rnd.random() < 0.2)
        if rnd.random() < 0.6:
            kw['cc'] = addr_multi(rnd)
        if rnd.random() < 0.5:
            kw['bcc'] = addr_multi(rnd)
        if rnd.random() < 0.6:
            kw['subject'] = opt_adv(rnd, 0.25, 0.1, uni=0.35, special=0.5)
        if rnd.random() < 0.7:
            kw['body'] = opt_adv(rnd, 0.2, 0.1, uni=0.35, special=0.5)
        line = (f'to={arg(kw.get("to"))} cc={arg(kw.get("cc"))} bcc={arg(kw.get("bcc"))} subject={opt(kw.get("subject"))} '
                f'body={opt(kw.get("body"))}')
        yield HCase('mailto', kw, line)


# ------------------------------------------------------------------------------------- EPC
# text that only the k-th character set (and UTF-8) can represent, in the order of the automatic search
EPC_ALPHABETS = {1: 'abc漢字ｱ', 2: 'abcäöüßéñ', 3: 'abcőčłźş', 4: 'abcķļņāē', 5: 'abcжщияб', 6: 'abcΩλπσ€', 7: 'abðāþēū', 8: 'abé€œŠž'}
EPC_WS = [' ', '  ', '\t', '\xa0', '\x0b', '\x0c', '\x1c', '\x85', ' \t ']
AMOUNT_FIXED = [1, 20, 999999999, 1000000000, 0, -1, '0.01', '999999999.99', '1000000000', '1000000000.00', '999999999.990',
                '999999999.991', '0.009', '0.0099', '0.005', '0.0051', '13.05', '1.5', '1.50', '1e2', '1E+1', '0.010', '00012.30', '100',
                '100.00', '10.10', '1.005', '1.015', '1.025', '0.014999', '0.015', '0.025', '999999999.985', '999999999.9949',
                0.01, 13.05, 0.1 + 0.2, 999999999.99, 999999999.98, 0.0099999, 0.005, 0.0051, 1e9, 0.015, 2.675, 1.005, 0.07, 0.29,
                1.1, 4.35, 999999999.985, 100.0, 0.1, 0.5, 1e-3, 5e8, 0.009999999999999998, 0.010000000000000002]


def epc_amount(rnd):
    r = rnd.random()
    if r < 0.2:
        v = rnd.choice(AMOUNT_FIXED)
        if isinstance(v, str) and rnd.random() < 0.4:
            return decimal.Decimal(v)
        return v
    cents = rnd.choice([rnd.randint(1, 99999999999), rnd.randint(1, 100000), rnd.randint(1, 999) * 10, rnd.randint(1, 99) * 100,
                        99999999999 - rnd.randint(0, 200), rnd.randint(1, 200)])
    k = rnd.random()
    if k < 0.25:
        return decimal.Decimal(cents) / 100
    if k < 0.5:
        return str(decimal.Decimal(cents) / 100)
    if k < 0.75:
        return cents / 100
    if k < 0.85 and cents % 100 == 0:
        return cents // 100
    # more than two decimals
    return decimal.Decimal(cents * 10 + rnd.choice([0, 1, 4, 5, 6, 9])) / 1000


def epc_text(rnd, alphabet, n):
    return ''.join(rnd.choice(alphabet + ';:,\\" -+/.') for _ in range(n))


def pad_ws(rnd, s, both=True):
    if not s or rnd.random() > 0.15:
        return s
    if both and rnd.random() < 0.5:
        s = rnd.choice(EPC_WS) + s
    return s + rnd.choice(EPC_WS)


def gen_epc(rnd, n):
    for i in range(n):
        k = rnd.choice([1, 2, 2, 3, 4, 5, 6, 7, 8, 0, 0, 0])
        alphabet = PLAIN if k == 0 else EPC_ALPHABETS[k]
        ln = lambda normal, edges: rnd.choice(edges) if rnd.random() < 0.1 else rnd.randint(*normal)  # noqa: E731
        kw = dict(name=pad_ws(rnd, epc_text(rnd, alphabet, ln((1, 40), [0, 1, 69, 70, 71, 72]))),
                  iban=epc_text(rnd, PLAIN, ln((15, 30), [0, 4, 5, 34, 35, 36])),
                  amount=epc_amount(rnd))
        r = rnd.random()
        if r < 0.5:
            kw['text'] = pad_ws(rnd, epc_text(rnd, alphabet, ln((1, 60), [1, 139, 140, 141, 142])), both=False)
        elif r < 0.88:
            kw['reference'] = pad_ws(rnd, epc_text(rnd, PLAIN, ln((1, 25), [1, 34, 35, 36])), both=False)
        elif r < 0.91:
            kw['text'], kw['reference'] = epc_text(rnd, alphabet, 5), 'RF18539007547034'
        elif r < 0.94:
            kw['text'], kw['reference'] = rnd.choice([('', ''), (None, None), ('', None), ('  ', None), (None, ' '), ('x', ''), ('', 'x')])
        else:
            kw['text'] = epc_text(rnd, alphabet, rnd.randint(1, 20))
        if rnd.random() < 0.4:
            kw['bic'] = pad_ws(rnd, epc_text(rnd, PLAIN, rnd.choice([8, 11] * 8 + [0, 7, 9, 10, 12])))
        if rnd.random() < 0.4:
            kw['purpose'] = epc_text(rnd, PLAIN, rnd.choice([4] * 12 + [0, 3, 5]))
        r = rnd.random()
        if r < 0.25:
            kw['encoding'] = rnd.randint(1, 8) if rnd.random() < 0.7 else (k or 2)
        elif r < 0.45:
            nm = CODECS[rnd.randrange(8)] if rnd.random() < 0.6 else CODECS[(k or 2) - 1]
            kw['encoding'] = rnd.choice([nm, nm.upper(), nm.title()])
        elif r < 0.48:
            kw['encoding'] = rnd.choice([0, 9, -1, 100, 'foo', '', 'iso-8859-3', 'ascii'])
        if rnd.random() < 0.03:
            kw[rnd.choice(['name', 'iban'])] = None
        yield epc_case(kw)
    # payload lengths 29..34 and 45..48 bytes: the only EPC sizes at which a version chosen for level M also has room for
    # level Q (Table 7: Q(3) = 34 > M(2) = 28, Q(4) = 48 > M(3) = 44), i.e. where boosting would become visible in the symbol
    for n in (1, 2, 3, 4, 15, 16, 17, 18):
        c = epc_case(dict(name='N' * n, iban='DE123', amount=1, text='x'))
        c.extra['force_symbol'] = True
        yield c
    # the 331 byte limit: UTF-8 requested, two-byte characters, text length tuned to 329..334 bytes
    for total in (329, 330, 331, 332, 333, 334):
        for amount in (1, '12.5', '999999999.99'):
            kw = dict(name='ä' * 70, iban='D' * 34, amount=amount, encoding=rnd.choice([1, 'utf-8', 'UTF-8']))
            astr = len(('EUR%.2f' % float(amount)).rstrip('0').rstrip('.'))
            fixed = 3 + 3 + 1 + 3 + 0 + 140 + 34 + astr + 0 + 0 + 10
            rest = total - fixed
            kw['text'] = 'ß' * (rest // 2) + ('x' if rest % 2 else '')
            yield epc_case(kw)


def epc_case(kw):
    fields = ''.join(kw.get(k) or '' for k in ('name', 'iban', 'text', 'reference', 'bic', 'purpose'))
    can = ''
    for c in CODECS:
        try:
            fields.encode(c)
            can += '1'
        except UnicodeError:
            can += '0'
    e = kw.get('encoding')
    es = '-' if e is None else (cps(e) if isinstance(e, str) else f'n{int(e)}')
    line = (f'name={opt(kw.get("name"))} iban={opt(kw.get("iban"))} amount={rat(kw["amount"])} text={opt(kw.get("text"))} '
            f'reference={opt(kw.get("reference"))} bic={opt(kw.get("bic"))} purpose={opt(kw.get("purpose"))} encoding={es} can={can}')
    return HCase('epc', kw, line)


# ------------------------------------------------------------------------------------- execution
FUNCS = {'wifi': helpers.make_wifi_data, 'mecard': helpers.make_mecard_data, 'vcard': helpers.make_vcard_data,
         'geo': helpers.make_geo_data, 'mailto': helpers.make_make_email_data, 'epc': helpers._make_epc_qr_data}
SYMBOL_FUNCS = {'wifi': helpers.make_wifi, 'mecard': helpers.make_mecard, 'vcard': helpers.make_vcard, 'geo': helpers.make_geo,
                'mailto': helpers.make_email, 'epc': helpers.make_epc_qr}


def run_impl(c):
    try:
        out = FUNCS[c.factory](**{k: (v.fresh() if isinstance(v, OneShot) else v) for k, v in c.kw.items()})
    except Exception as ex:  # noqa
        c.exc = exc_class(ex)
        c.extra['exc_text'] = str(ex)[:160]
        c.impl = f'err={c.exc}'
        return
    c.out = out
    if c.factory == 'epc':
        # container parsing: the declared character set number (line 3) selects the codec for decoding
        lines = bytes(out).split(b'\n')
        k = lines[2] if len(lines) > 2 else b''
        dec = None
        if k in (b'1', b'2', b'3', b'4', b'5', b'6', b'7', b'8'):
            try:
                dec = bytes(out).decode(CODECS[int(k) - 1])
            except UnicodeError:
                dec = None
        c.extra['dec'] = dec
        c.impl = f'ok=1 k={k.decode("latin1")} text={opt(dec)}'
    else:
        c.impl = f'ok={cps(out)}'


def judge_line(i, c):
    if c.exc:
        return f'{c.factory} id={i} outcome={c.exc} {c.line}'
    if c.factory == 'epc':
        return f'epc id={i} outcome=ok raw={bytes(c.out).hex()} dec={opt(c.extra.get("dec"))} {c.line}'
    return f'{c.factory} id={i} outcome=ok out={cps(c.out)} {c.line}'


def is_nontrivial(c):
    """non-default branch: refusal, a value that needs escaping / encoding, a multi-valued or optional field, EPC non-ASCII"""
    if c.exc:
        return True
    text = c.out if isinstance(c.out, str) else bytes(c.out).decode('latin1')
    if c.factory in ('wifi', 'mecard', 'vcard'):
        return '\\' in text or len(c.kw) > 2
    if c.factory == 'geo':
        return '.' in text or '-' in text
    if c.factory == 'mailto':
        return '?' in text
    return True


def sweep_helpers(cases, st, res, tier, rnd, symbols_per_factory):
    for c in cases:
        run_impl(c)
    res.evaluations += len(cases)
    # Tie B
    if st.model_ok:
        lines = [f'h{c.factory} id={i} {c.line}' for i, c in enumerate(cases)]
        for c, o in zip(cases, run_lines_parallel(MODEL, lines)):
            c.model = o.split(' ', 1)[1] if ' ' in o else o
            res.corr_checked += 1
            if c.model != c.impl:
                res.corr_diffs.append(dict(call=c.call()[:500], replay=c.replay(), impl=c.impl[:300], model=c.model[:300]))
    # judge
    if st.judge_ok:
        lines = [judge_line(i, c) for i, c in enumerate(cases)]
        for c, o in zip(cases, run_lines_parallel(JUDGE, lines)):
            c.judge = o
            verdict = parse_kv(o).get('c16', 'missing')
            if verdict != 'ok':
                res.violations.append(dict(property_field='c16', verdict=verdict, call=c.call()[:800], replay=c.replay(),
                                           impl=(c.impl or '')[:300], model_agrees=(c.model == c.impl) if c.model else None,
                                           known_id=None))
    for c in cases:
        res.count('factory:' + c.factory)
        res.count(f'outcome:{c.factory}:' + (c.exc or 'ok'))
        if c.factory == 'epc' and not c.exc:
            res.count('epc-charset:' + bytes(c.out).split(b'\n')[2].decode('latin1'))
            res.count('epc-amount-type:' + type(c.kw['amount']).__name__)
        if is_nontrivial(c):
            key = (c.factory, c.exc or (c.out if isinstance(c.out, str) else bytes(c.out)))
            res.nontrivial.add(key)
    # symbols of the make_* factories (sample): decoded by the reference decoder
    if st.judge_ok and symbols_per_factory:
        by = {}
        for c in cases:
            if not c.exc and len(c.out) <= 300:
                by.setdefault(c.factory, []).append(c)
        lines, meta = [], []
        for fac, cs in by.items():
            rnd.shuffle(cs)
            forced = [c for c in cs if c.extra.get('force_symbol')]
            for c in forced + [c for c in cs if not c.extra.get('force_symbol')][:symbols_per_factory]:
                try:
                    qr = SYMBOL_FUNCS[fac](**c.kw)
                except Exception as ex:  # noqa
                    res.violations.append(dict(property_field='c16', verdict=f'symbol-factory-raised-{exc_class(ex)}',
                                               call=c.call().replace('_data(', '(')[:800], replay=c.replay(), known_id=None))
                    continue
                exp = bytes(c.out) if fac == 'epc' else text_to_bytes(c.out, None, None)[0]
                lines.append(f'c16sym id={len(lines)} m={matrix_str(qr.matrix)} exp={exp.hex()} epc={int(fac == "epc")}')
                meta.append(c)
        res.evaluations += len(lines)
        for c, o in zip(meta, run_lines_parallel(JUDGE, lines, jobs=16)):
            res.count('symbols:' + c.factory)
            verdict = parse_kv(o).get('c16', 'missing')
            if verdict != 'ok':
                res.violations.append(dict(property_field='c16', verdict='symbol-' + verdict,
                                           call=c.call().replace('_data(', '(').replace('helpers._make_epc_qr(', 'helpers.make_epc_qr(')[:800],
                                           replay=c.replay(), known_id=None))
    return cases


def _helper_call(factory, kw):
    return FUNCS[factory](**{k: (v.fresh() if isinstance(v, OneShot) else v) for k, v in kw.items()})


def _helper_snap(x):
    return bytes(x) if isinstance(x, (bytes, bytearray)) else x


def _helpers_sequential(args):
    out = []
    for factory, kw in args:
        try:
            out.append(('ok', _helper_snap(_helper_call(factory, kw))))
        except Exception as ex:  # noqa
            out.append(('exc', exc_class(ex)))
    return out


def concurrency_pass(cases, res, per_factory=64):
    """the factories are pure: the same calls under a deterministic scheduler (8 threads, seeded, one thread at a time, switches
    at function starts / calls inside segno) and under the operating system's threads must give the sequential results"""
    import multiprocessing, symbols
    seed = int(os.environ.get('VERIF_SEED', '1'))
    sample = []
    for f in ('wifi', 'mecard', 'vcard', 'geo', 'mailto', 'epc'):
        sample += [c for c in cases if c.factory == f and c.exc is None][:per_factory]
    args = [(c.factory, c.kw) for c in sample]
    ctx = multiprocessing.get_context('fork')
    with ctx.Pool(1) as pool:
        ref = pool.apply(_helpers_sequential, (args,))
    with ctx.Pool(1) as pool:
        outs = pool.apply(symbols._scheduled_child, (args, seed, 8, 0.15, _helper_call, _helper_snap))
    for how, got in (('deterministic scheduler, 8 threads', outs),):
        for c, r, o in zip(sample, ref, got):
            res.evaluations += 1
            if r[0] == 'ok' and (o[0] != 'ok' or o[1] != r[1]):
                res.violations.append(dict(property_field='c16', verdict='payload-under-concurrent-calls-differs-from-the-sequential-payload:' +
                                           (repr(o[1])[:120] if o[0] == 'ok' else 'raised-' + str(o[1])), call=c.call() + f'  [{how}]',
                                           replay=dict(c.replay(), schedule=dict(seed=seed)), known_id=None))
    res.count('concurrency-pass:scheduled-calls', len(sample))


def decimal_context_block(cases, res):
    """the payload does not depend on the ambient `decimal` context of the calling thread (precision, rounding)"""
    sample = [c for c in cases if c.factory == 'epc' and c.exc is None][:120]
    for c in sample:
        ref = bytes(FUNCS['epc'](**c.kw))
        # precision only: the rounding MODE of the context is the caller's explicit choice and does show in `format(amount, '.2f')`
        # (ROUND_DOWN turns the float 96.6 into EUR96.59) — observed, not claimed either way
        for ctx in (decimal.Context(prec=5), decimal.Context(prec=3), decimal.Context(prec=1)):
            with decimal.localcontext(ctx):
                try:
                    got = bytes(FUNCS['epc'](**c.kw))
                except Exception as ex:  # noqa
                    got = 'raised ' + exc_class(ex)
            res.evaluations += 1
            if got != ref:
                res.violations.append(dict(property_field='c16', verdict='payload-depends-on-the-ambient-decimal-context', call=c.call() + f'  [decimal context prec={ctx.prec} rounding={ctx.rounding}]',
                                           replay=c.replay(), known_id=None))
                break


def run_C16(tier, rnd, st, res):
    f = 1 if tier == 'quick' else 100
    sizes = dict(wifi=900 * f, mecard=800 * f, vcard=800 * f, geo=700 * f, mailto=700 * f, epc=1800 * f)
    cases = []
    cases += list(gen_wifi(rnd, sizes['wifi']))
    cases += list(gen_mecard(rnd, sizes['mecard']))
    cases += list(gen_vcard(rnd, sizes['vcard']))
    cases += list(gen_geo(rnd, sizes['geo']))
    cases += list(gen_mailto(rnd, sizes['mailto']))
    cases += list(gen_epc(rnd, sizes['epc']))
    cases = sweep_helpers(cases, st, res, tier, rnd, 50 if tier == 'quick' else 1000)
    concurrency_pass(cases, res, 64 if tier == 'quick' else 400)
    decimal_context_block(cases, res)
    if tier == 'quick' and (st.broken or res.corr_diffs) and not res.violations:
        # directed search (DESIGN §5 step 4): a proof obligation or the correspondence broke but no judged input failed:
        # run the larger generator through the judge
        more = []
        more += list(gen_wifi(rnd, 3000)) + list(gen_mecard(rnd, 2500)) + list(gen_vcard(rnd, 2500))
        more += list(gen_geo(rnd, 2000)) + list(gen_mailto(rnd, 2000)) + list(gen_epc(rnd, 6000))
        res.notes.append('directed search: larger generator after a broken obligation / correspondence')
        cases += sweep_helpers(more, st, res, tier, rnd, 60)
    res.rule = ('per factory: adversarial argument values built from pieces rich in ; : , \\ " CR LF and forged field texts, empty / None / '
                'multi-valued fields, Unicode; EPC: eight character sets (requested by number / name or searched), field lengths at the '
                'documented limits, amounts as int / str / Decimal / float at cent and range boundaries, 331 byte limit; non-trivial = '
                'refusal, or payload with an escape / optional / multi-valued field / fraction / query / any EPC payload; distinct by '
                '(factory, payload)')
    for c in cases[:2] + [x for x in cases if x.factory == 'vcard'][:2] + [x for x in cases if x.factory == 'epc'][:2] + cases[-2:]:
        res.samples.append(dict(call=c.call()[:300], impl=(c.impl or '')[:80], judge=(c.judge or '')[:120]))


RUNNERS = {'C16': run_C16}
