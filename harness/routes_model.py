"""C12 — correspondence (Tie B) of the ROUTE layer (lean/Model/Routes.lean, driver lean/Model/RoutesDriver.lean).

For generated calls of `QRCode.save` (file name / binary stream / text stream, with and without `name` and `kind`),
`svg_inline`, `svg_data_uri`, `png_data_uri`, `QRCode.terminal`, `QRCodeSequence.save` and `segno.cli.main` the real code
runs in this process with RECORDING WRAPPERS around the serialiser functions (`writers._VALID_SERIALIZERS[...]`,
`writers.write_svg`, `write_png`, `write_terminal`, `write_terminal_compact`) and around `gzip.open` as `segno.writers`
sees it.  The wrappers are installed in the harness process only and removed afterwards; /repo is not touched.

Compared with the model, per call:
  * plan      : which serialiser was called, the keyword map that really reached it, the map completed with the defaults
                (Python's own binding: `inspect.signature(...).bind`), and what its `out` argument was (the caller's
                object, a GzipFile with which compresslevel, a fresh BytesIO, sys.stdout);
  * result    : the file content / stream content / returned string / exception class against the model's execution of
                the plan, given as runtime services what the real serialiser handed to `writable` (captured by calling
                it once more with a probe stream under a frozen clock), the codec's bytes, `bytes.decode`, and gzip
                (identity in the model; the real file is gunzipped here).
Post-processing alone (`b64`, `pct`, `rq`) is compared with `base64.b64encode`, `urllib.parse.quote`,
`writers._replace_quotes` on random and structured byte strings; the judge's reference decoders (`b64dec`, `pctdec`,
lean/Spec/Decoders.lean) with `base64.b64decode(validate=True)` and `urllib.parse.unquote_to_bytes`.
"""
import base64
import binascii
import contextlib
import gzip as real_gzip
import inspect
import io
import locale
import os
import time as real_time
import types
from urllib.parse import quote, unquote_to_bytes

from common import *
import segno
from segno import writers, cli
from raster import col_token

FIXED = real_time.struct_time((2024, 2, 29, 13, 14, 15, 3, 60, 0))


class FrozenTime:
    """`time` as segno.writers sees it while the wrappers are installed: the clock stands still"""
    timezone = real_time.timezone

    def strftime(self, fmt, *a):
        return real_time.strftime(fmt, FIXED)

    def __getattr__(self, name):
        return getattr(real_time, name)


def norm_exc(ex):
    """exception class as the model names it (Model.PyErr); None = a class outside the model"""
    if isinstance(ex, UnicodeError):
        return 'UnicodeError'
    n = type(ex).__name__
    if n in ('KeyError', 'IndexError', 'ValueError', 'TypeError', 'LookupError'):
        return n
    if n == 'AttributeError':
        return 'TypeError'
    if isinstance(ex, LookupError):
        return 'LookupError'
    return None


def pyv(x):
    if x is None:
        return 'N'
    if x is True:
        return 'T'
    if x is False:
        return 'F'
    if isinstance(x, int):
        return f'i{x}'
    if isinstance(x, float):
        n, d = x.as_integer_ratio()
        return f'f{n}/{d}'
    if isinstance(x, str):
        return 's' + x.encode('utf-8').hex()
    if isinstance(x, tuple):
        t = col_token(x)
        if not t.startswith('x:'):
            return 'o' + t.encode().hex()
    return 'o' + repr(x).encode('utf-8').hex()


def config_str(cfg):
    return ';'.join(f'{k}:{pyv(v)}' for k, v in sorted(cfg.items())) or '-'


class Probe:
    """stands in for `out`: collects what the serialiser writes"""

    def __init__(self):
        self.parts = []
        self.n = 0

    def write(self, data):
        self.parts.append(data)
        self.n += len(data)
        return len(data)

    def tell(self):
        return self.n


def probe(orig, key, args, kw):
    """what the serialiser hands to `writable`: ('b', bytes) | ('t', str, None) | ('t', str, encoding, bytes) | ('err', name)"""
    p = Probe()
    try:
        orig(args[0], args[1], p, *args[3:], **kw)
    except Exception as ex:  # noqa
        return ('err', norm_exc(ex) or 'Other' + type(ex).__name__)
    if p.parts and all(isinstance(x, (bytes, bytearray, memoryview)) for x in p.parts):
        data = b''.join(bytes(x) for x in p.parts)
        if key == 'svg':
            enc = kw.get('encoding', 'utf-8') or 'utf-8'
            return ('t', data.decode(enc), enc, data)
        return ('b', data)
    if all(isinstance(x, str) for x in p.parts):
        return ('t', ''.join(p.parts), None)
    return ('err', 'OtherMixedWrites')


class Recorder:
    """installs the recording wrappers (this process only) and freezes the clock of segno.writers"""
    ATTRS = (('write_svg', 'svg'), ('write_png', 'png'), ('write_terminal', 'ans'), ('write_terminal_compact', 'compact'))

    def __enter__(self):
        self.calls, self.gz = [], []
        self.saved_table = dict(writers._VALID_SERIALIZERS)
        self.saved_attrs = {n: getattr(writers, n) for n, _ in self.ATTRS}
        self.saved_time, self.saved_gzip = writers.time, writers.gzip
        for key, f in self.saved_table.items():
            writers._VALID_SERIALIZERS[key] = self.wrap(key, f)
        for name, key in self.ATTRS:
            setattr(writers, name, self.wrap(key, self.saved_attrs[name]))
        writers.time = FrozenTime()
        rec = self

        def gz_open(filename, mode='rb', compresslevel=9, *a, **k):
            entry = dict(out=filename, mode=mode, level=compresslevel, err=None)
            rec.gz.append(entry)
            try:
                return real_gzip.open(filename, mode, compresslevel, *a, **k)
            except Exception as ex:  # noqa
                entry['err'] = norm_exc(ex) or 'Other' + type(ex).__name__
                raise
        writers.gzip = types.SimpleNamespace(open=gz_open)
        return self

    def __exit__(self, *exc):
        writers._VALID_SERIALIZERS.clear()
        writers._VALID_SERIALIZERS.update(self.saved_table)
        for n, f in self.saved_attrs.items():
            setattr(writers, n, f)
        writers.time, writers.gzip = self.saved_time, self.saved_gzip
        return False

    def wrap(self, key, orig):
        calls = self.calls

        def wrapper(*args, **kw):
            rec = dict(key=key, orig=orig, args=args, kw=dict(kw), stdout=len(args) > 2 and args[2] is sys.stdout)
            calls.append(rec)
            if len(args) >= 3:
                rec['so'] = probe(orig, key, args, kw)
            return orig(*args, **kw)
        return wrapper


def varkw_name(sig):
    for n, p in sig.parameters.items():
        if p.kind == p.VAR_KEYWORD:
            return n
    return None


def passed_kw(call):
    """the keyword map that reached the serialiser (positional extras under their parameter names)"""
    sig = inspect.signature(call['orig'], follow_wrapped=False)
    names = list(sig.parameters)
    kw = dict(call['kw'])
    for i, v in enumerate(call['args'][3:]):
        kw[names[3 + i]] = v
    return kw


def completed_kw(call):
    """Python's own binding of the call: every keyword parameter with the value it receives, or 'err:TypeError'"""
    orig, args, kw = call['orig'], call['args'], call['kw']
    try:
        sig = inspect.signature(orig, follow_wrapped=False)
        ba = sig.bind(*args, **kw)
        ba.apply_defaults()
        d = dict(ba.arguments)
        inner = getattr(orig, '__wrapped__', None)
        if inner is not None:
            rest = d.pop(varkw_name(sig), {})
            isig = inspect.signature(inner, follow_wrapped=False)
            ba2 = isig.bind(d['matrix'], d['matrix_size'], d['out'], None, **rest)
            ba2.apply_defaults()
            for k, v in ba2.arguments.items():
                d.setdefault(k, v)
        for k in ('matrix', 'matrix_size', 'out', 'colormap'):
            d.pop(k, None)
        return config_str(d)
    except TypeError:
        return 'err:TypeError'


def sink_of(out):
    if isinstance(out, str):
        return 'file'
    if isinstance(out, io.TextIOBase):
        return 'txt'
    return 'bin'


def observed_target(call, real_out, gz):
    out = call['args'][2]
    if real_out is not None and (out is real_out or (isinstance(out, str) and out == real_out)):
        return 'out:' + sink_of(real_out)
    if isinstance(out, real_gzip.GzipFile):
        return f'gz:{pyv(gz[-1]["level"]) if gz else "?"}:{sink_of(real_out)}'
    if call['stdout']:
        return 'stdout'
    if isinstance(out, io.BytesIO):
        return 'buffer'
    return 'other:' + type(out).__name__


class NamedBytesIO(io.BytesIO):
    pass


class NamedStringIO(io.StringIO):
    pass


class Case:
    """one call of a route.  route: save | inline | svguri | pnguri | terminal | cli.
    out: ('p', name) | ('b', name|None) | ('t', name|None) | None"""

    def __init__(self, route, qr, kw, out=None, kind=None, border=None, compact=False, argv=None, call=''):
        self.route, self.qr, self.kw, self.out, self.kind = route, qr, kw, out, kind
        self.border, self.compact, self.argv, self.call = border, compact, argv, call


def make_out(ctx, spec):
    """the real `out` object and its token for the model"""
    if spec is None:
        return None, '-'
    t, name = spec
    if t == 'p':
        path = ctx.path(name) if name else ''
        return path, 'p:' + path.encode('utf-8').hex()
    cls = {'b': NamedBytesIO, 't': NamedStringIO}[t]
    o = cls()
    if name is not None:
        o.name = name
        return o, f'{t}:{name.encode("utf-8").hex()}'
    return o, t


def read_out(out):
    if isinstance(out, str):
        with open(out, 'rb') as f:
            return f.read()
    return out.getvalue()


def result_token(value, gz=False):
    if isinstance(value, str):
        return 'w:c:' + value.encode('utf-8').hex()
    if gz:
        value = real_gzip.decompress(value)
    return 'w:b:' + value.hex()


def service_fields(case, call):
    """runtime services for the model's execution of the plan"""
    so = call.get('so')
    if so is None:
        return ['so=err:OtherNoProbe']
    f = []
    if so[0] == 'err':
        f.append('so=err:' + so[1])
        return f
    if so[0] == 'b':
        f.append('so=b:' + so[1].hex())
        raw = so[1]
    elif so[2] is None:
        f.append('so=t:' + so[1].encode('utf-8').hex())
        raw = None
        try:
            f.append('enc=' + so[1].encode(locale.getpreferredencoding(False)).hex())
        except Exception as ex:  # noqa
            f.append('encerr=' + (norm_exc(ex) or 'Other'))
    else:
        f.append(f'so=t:{so[1].encode("utf-8").hex()}:{so[2].encode("utf-8").hex()}')
        f.append('enc=' + so[3].hex())
        raw = so[3]
    if case.route == 'inline' and raw is not None:
        try:
            f.append('dec=' + raw.decode(case.kw.get('encoding', 'utf-8')).encode('utf-8').hex())
        except Exception as ex:  # noqa
            f.append('decerr=' + (norm_exc(ex) or 'Other'))
    return f


def png_idat_payload(data):
    """the concatenated IDAT chunk data of a PNG file (the zlib stream: runtime service of the model)"""
    pos, out = 8, b''
    while pos + 8 <= len(data):
        n = int.from_bytes(data[pos:pos + 4], 'big')
        if data[pos + 4:pos + 8] == b'IDAT':
            out += data[pos + 8:pos + 8 + n]
        pos += 12 + n
    return out


def palette_tie(kw):
    """two colours with the same R, G, B and different alpha: the palette order would depend on `set()` iteration"""
    seen = {}
    for k, v in kw.items():
        if k in ('dark', 'light') or k.endswith('_dark') or k.endswith('_light') or k in ('separator', 'dark_module', 'quiet_zone'):
            if v is None or v is False:
                continue
            try:
                r, g, b, a = writers._color_to_rgba(v, alpha_float=False)
            except Exception:  # noqa
                continue
            if seen.setdefault((r, g, b), a) != a:
                return True
    return False


def doc_line(i, case, out_tok, call, gz=()):
    """END TO END request: the same route executed by the model with the whole-document models as serialisers"""
    from vecdocs import eff_border
    kw = case.kw
    for v in kw.values():
        if isinstance(v, str):
            try:
                v.encode('utf-8')
            except UnicodeEncodeError:
                return None
        elif isinstance(v, float) and (v != v or v in (float('inf'), float('-inf'))):
            return None
    size = len(case.qr.matrix)
    f = [f'rdoc id={i} route={case.route} out={out_tok} m={matrix_str(case.qr.matrix)} kw={config_str(kw)}']
    if case.kind is not None:
        f.append('kind=' + case.kind.encode('utf-8').hex())
    if case.route == 'terminal':
        f.append(f'border={pyv(case.border)} compact={pyv(case.compact)}')
    if gz and gz[-1]['err']:
        f.append('gzerr=' + gz[-1]['err'])       # runtime service: gzip.open refuses the compresslevel / the stream
    fs, ms = [], []
    for k, v in kw.items():
        if isinstance(v, float):
            n, d = v.as_integer_ratio()
            fs.append(f'{n}/{d}~{repr(v).encode().hex()}')
            if k == 'scale':
                b = kw.get('border')
                if b is None or (isinstance(b, int) and not isinstance(b, bool) and b >= 0):
                    kk = size + 2 * eff_border(size, b)
                    ms.append(f'{kk}*{n}/{d}~{repr(kk * v).encode().hex()}')
    if fs:
        f.append('fs=' + ','.join(fs))
    if ms:
        f.append('ms=' + ','.join(ms))
    if call is not None and call['key'] == 'png':
        if palette_tie(kw):
            return None
        so = call.get('so')
        if so and so[0] == 'b':
            f.append('comp=' + png_idat_payload(so[1]).hex())
        dpi = kw.get('dpi')
        if isinstance(dpi, int) and not isinstance(dpi, bool) and dpi >= 0:
            f.append(f'ppm={int(int(dpi) // 0.0254)}')
    return ' '.join(f)


def run_case(ctx, case, lines, metas, docs=None):
    """runs the real route under the recorder and queues the model request"""
    out, out_tok = make_out(ctx, case.out)
    captured = io.StringIO()
    parsed = None
    with Recorder() as rec:
        try:
            if case.route == 'save':
                case.qr.save(out, kind=case.kind, **case.kw) if case.kind is not None else case.qr.save(out, **case.kw)
                value = None
            elif case.route == 'inline':
                value = case.qr.svg_inline(**case.kw)
            elif case.route == 'svguri':
                value = case.qr.svg_data_uri(**case.kw)
            elif case.route == 'pnguri':
                value = case.qr.png_data_uri(**case.kw)
            elif case.route == 'terminal':
                with contextlib.redirect_stdout(captured):
                    case.qr.terminal(out=out, border=case.border, compact=case.compact)
                value = None
            elif case.route == 'cli':
                parsed = dict(cli.parse(list(case.argv)))
                out, out_tok = parsed.get('output'), '-'
                with contextlib.redirect_stdout(captured):
                    cli.main(list(case.argv))
                value = None
            outcome = None
        except SystemExit as ex:
            outcome = 'OtherSystemExit'
        except Exception as ex:  # noqa
            outcome = norm_exc(ex) or 'Other' + type(ex).__name__
    calls, gz = rec.calls, rec.gz
    if len(calls) > 1:
        ctx.res.corr_diffs.append(dict(what='route layer: more than one serialiser call', call=case.call, impl=str(len(calls)), model='1'))
        return
    req = [f'rroute id={len(lines)} route={case.route} out={out_tok}']
    if case.kind is not None:
        req.append('kind=' + case.kind.encode('utf-8').hex())
    if case.route == 'terminal':
        req.append(f'border={pyv(case.border)} compact={pyv(case.compact)}')
    try:
        req.append('kw=' + (config_str(parsed) if case.route == 'cli' else config_str(case.kw)))
    except Exception:  # noqa
        ctx.res.count('route-correspondence-skipped:inexpressible-keyword-map')
        return
    is_gz = bool(gz)
    if gz and gz[-1]['err']:
        req.append('gzerr=' + gz[-1]['err'])
    observed = None
    if calls:
        call = calls[0]
        req += service_fields(case, call)
        try:
            observed = dict(key=call['key'], kw=config_str(passed_kw(call)), full=completed_kw(call),
                            target=observed_target(call, out if case.route != 'cli' or out else None, gz))
        except Exception as ex:  # noqa
            ctx.res.count('route-correspondence-skipped:' + type(ex).__name__)
            return
    else:
        req.append('so=err:OtherNoCall')
    # the real result
    if outcome is not None:
        real = 'err:' + outcome
    elif case.route in ('inline', 'svguri', 'pnguri'):
        real = 'v:' + value.encode('utf-8').hex()
    else:
        try:
            if calls and observed['target'] == 'stdout':
                real = result_token(captured.getvalue())
            else:
                real = result_token(read_out(out), gz=is_gz)
        except Exception as ex:  # noqa
            real = 'unreadable:' + type(ex).__name__
    lines.append(' '.join(req))
    metas.append(dict(case=case, observed=observed, real=real))
    ctx.res.count('route-correspondence:' + case.route)
    ctx.res.count('route-outcome:' + ('value' if real[0] in 'vw' else real))
    if docs is not None and case.route != 'cli' and locale.getpreferredencoding(False).lower().replace('-', '') == 'utf8':
        dl = doc_line(len(docs[0]), case, out_tok, calls[0] if calls else None, gz)
        if dl is None:
            ctx.res.count('route-documents-skipped:inexpressible')
        else:
            docs[0].append(dl)
            docs[1].append(dict(case=case, real=real))


def compare(ctx, outs, metas):
    res = ctx.res
    for o, meta in zip(outs, metas):
        kv = parse_kv(o)
        case, obs, real = meta['case'], meta['observed'], meta['real']
        res.corr_checked += 1
        if 'planerr' in kv:
            # the model refuses before any serialiser is called
            if obs is not None or real != 'err:' + kv['planerr']:
                res.corr_diffs.append(dict(what='route layer: refusal before the serialiser call', call=case.call, impl=f'{real} serialiser-called={obs is not None}',
                                           model=o[:300]))
            continue
        if kv.get('plan') != 'ok':
            res.corr_diffs.append(dict(what='route layer: request not understood', call=case.call, impl=real[:80], model=o[:300]))
            continue
        if obs is not None:
            for field in ('key', 'kw', 'full', 'target'):
                if kv.get(field) != obs[field]:
                    res.corr_diffs.append(dict(what=f'route layer: {field} of the serialiser call', call=case.call, impl=obs[field][:600], model=kv.get(field, '')[:600]))
                    break
            else:
                field = None
            if field is not None:
                continue
        model = kv.get('result', '')
        if real == 'skip':
            continue
        if real.startswith('err:Other') or real.startswith('unreadable'):
            res.count('route-correspondence:exception-outside-the-model')
            continue
        if obs is None and not model.startswith('err:'):
            res.corr_diffs.append(dict(what='route layer: no serialiser call', call=case.call, impl=real[:200], model=o[:300]))
            continue
        if model != real:
            k = next((i for i, (a, b) in enumerate(zip(model, real)) if a != b), min(len(model), len(real)))
            res.corr_diffs.append(dict(what='route layer: result (file / stream content, returned string or exception)', call=case.call,
                                       first_difference_at=k, impl=real[max(0, k - 40):k + 120], model=model[max(0, k - 40):k + 120]))


# ------------------------------------------------------------------------------------------------ generators
SVG_FLAGS = ('xmldecl', 'svgns', 'nl')
ENCODINGS = ['utf-8', 'UTF-8', 'ascii', 'latin-1', 'utf-16', 'iso-8859-15', None, 'no-such-codec']
FLAGISH = [True, False, 1, 0, 'x', '', None]


def small_symbols(rnd):
    specs = [('12345', dict(version='M2')), ('AB', dict(micro=True)), ('Hello', dict(micro=False)), ('route layer', dict(micro=False, error='h')),
             ('x' * rnd.randint(20, 60), dict(micro=False, mask=rnd.randrange(8)))]
    return [segno.make(c, **k) for c, k in specs]


def out_forms(rnd, kind, text):
    """(out spec, kind argument) pairs for one output kind; `text` = the serialiser writes str"""
    from p_routes import mixed_case
    good = 't' if text else 'b'
    bad = 'b' if text else 't'
    mk = mixed_case(rnd, kind)
    forms = [(('p', 'r.' + kind), None), (('p', 'R.' + mk), None), (('p', 'two.dots.v1.' + kind), None), (('p', 'noext'), kind),
             (('p', 'other.png'), mk), ((good, None), kind), ((good, None), mk), ((good, 'n.' + mk), None), ((good, 'n.dat'), kind),
             ((bad, None), kind), ((bad, 'm.' + kind), None), ((good, None), None), (('p', 'r.' + kind + '.bak'), None), (('b', 'n.' + kind), mk)]
    return forms


def route_cases(rnd, tier):
    from p_routes import option_sets, KINDS, TEXT_KINDS
    syms = small_symbols(rnd)
    n_sets = 6 if tier == 'quick' else 16
    cases = []

    def sym():
        return rnd.choice(syms)

    def add(route, kw, **k):
        qr = k.pop('qr', None) or sym()
        parts = []
        if 'out' in k:
            parts.append(f'out={k["out"]!r}')
        if k.get('kind') is not None:
            parts.append(f'kind={k["kind"]!r}')
        if route == 'terminal':
            parts.append(f'border={k.get("border")!r}, compact={k.get("compact")!r}')
        desc = f'{route}(' + ', '.join(parts) + f', **{kw!r}) on {qr.designator}'
        cases.append(Case(route, qr, kw, call=desc, **k))

    # QRCode.save: every kind x forms of `out` / `kind` x option sets
    for kind in KINDS:
        sets = option_sets(kind, rnd, 6)
        picks = [sets[0]] + rnd.sample(sets[1:], min(len(sets) - 1, n_sets))
        forms = out_forms(rnd, kind, kind in TEXT_KINDS)
        for i, o in enumerate(picks):
            for form in ([forms[0]] + rnd.sample(forms[1:], 2 if tier == 'quick' else 5)) if i else forms:
                add('save', dict(o.kw), out=form[0], kind=form[1])
    # keyword collisions and unknown keywords
    for kw in (dict(matrix=1), dict(matrix_size=(1, 1)), dict(colormap={}), dict(nosuch=1), dict(self=1), dict(out='x'), dict(scale=0), dict(border=-1),
               dict(scale=2, matrix=1), dict(unit='mm', omitsize=True)):
        for kind in rnd.sample(['svg', 'png', 'eps', 'txt', 'svgz', 'pbm'], 2):
            add('save', kw, out=('p', 'c.' + kind))
            add('save', kw, out=('b', None), kind=kind)
    # the codec runs before anything reaches the stream: refusals of the codec win over the text-stream TypeError
    for kw in (dict(encoding='ascii', title='é'), dict(encoding='no-such-codec'), dict(encoding='latin-1', desc='点'), dict(encoding='ascii'),
               dict(encoding=None, title='é')):
        for out in (('t', None), ('b', None), ('p', 'enc.svg'), ('t', 'm.svg')):
            add('save', kw, out=out, kind=None if out[1] else 'svg')
    add('save', dict(matrix=1), out=('p', 'c.foo'))
    add('save', {}, out=('p', 'c.foo'))
    add('save', {}, out=('b', None), kind='')
    add('save', {}, out=('p', ''), kind='svg')
    # svgz: compresslevel is taken out of the keyword map
    for lvl in (0, 1, 5, 9, -1, 10, -2, None, '3', 2.0, True):
        add('save', dict(compresslevel=lvl, scale=rnd.choice([1, 2])), out=('p', 'z.' + rnd.choice(['svgz', 'SVGZ', 'SvgZ'])))
        add('save', dict(compresslevel=lvl), out=(rnd.choice('bt'), None), kind=rnd.choice(['svgz', 'SVGZ']))
    add('save', dict(compresslevel=3), out=('b', 'n.svgz'))     # a NAMED stream: no gzip, unknown extension
    add('save', dict(compresslevel=3), out=('p', 'plain.svg'))  # not svgz: compresslevel reaches write_svg
    # svg_inline
    svg_sets = option_sets('svg', rnd, 10)
    for o in [svg_sets[0]] + rnd.sample(svg_sets[1:], 16 if tier == 'quick' else 40):
        kw = {k: v for k, v in o.kw.items() if k not in SVG_FLAGS or rnd.random() < 0.3}
        add('inline', kw)
    for enc in ENCODINGS:
        add('inline', dict(encoding=enc, title=rnd.choice(['t', 'Ünï€ode — 点', 'é'])))
    for kw in (dict(xmldecl=True), dict(svgns=False), dict(nl=False), dict(kind='svg'), dict(out=1), dict(matrix=1), dict(self=1), dict(nosuch=1),
               dict(scale=-1), dict(compresslevel=2), dict(title='é'), dict(desc='点 Ünï€ode'), dict(title='é', svgclass='ü', lineclass=None)):
        add('inline', kw)
    # svg_data_uri
    for o in [svg_sets[0]] + rnd.sample(svg_sets[1:], 24 if tier == 'quick' else 50):
        kw = dict(o.kw)
        for flag in ('encode_minimal', 'omit_charset', 'xmldecl', 'nl'):
            if rnd.random() < 0.35:
                kw[flag] = rnd.choice(FLAGISH)
        add('svguri', kw)
    for enc in ENCODINGS:
        add('svguri', dict(encoding=enc, omit_charset=rnd.choice([True, False]), desc=rnd.choice(['d', 'Ünï', 'a"b=\'c\'', 'x="y" z=""'])))
    for kw in (dict(out=1), dict(matrix=1), dict(matrix_size=1), dict(self=1), dict(colormap=1), dict(nosuch=1), dict(scale=0), dict(unit=None),
               dict(unit='mm'), dict(unit='mm', omitsize=True), dict(title='a="b"', encode_minimal=True), dict(title=' :/=\'"%~_.-<>&', encode_minimal=True),
               dict(title=' :/=\'"%~_.-<>&'), dict(title='é'), dict(desc='点 Ünï€ode', encode_minimal=True), dict(svgclass='', lineclass=''), dict(svgclass='x"y'), dict(draw_transparent=True, light=None)):
        add('svguri', kw)
    # png_data_uri
    png_sets = option_sets('png', rnd, 8)
    for o in [png_sets[0]] + rnd.sample(png_sets[1:], 14 if tier == 'quick' else 40):
        add('pnguri', dict(o.kw))
    for kw in (dict(out=1), dict(matrix=1), dict(self=1), dict(nosuch=1), dict(scale=0), dict(compresslevel=0), dict(compresslevel=1, dpi=300),
               dict(border=0, scale=3), dict(colormap=1), dict(kind='png')):
        add('pnguri', kw)
    # terminal
    for out in (None, ('p', ''), ('t', None), ('b', None), ('p', 'term.txt'), ('t', 'n.x')):
        for border, compact in ((None, False), (0, True), (3, 1), (1, 0), (-1, False), (2, 'yes'), (None, None)):
            if rnd.random() < (0.6 if tier == 'quick' else 1):
                add('terminal', {}, out=out, border=border, compact=compact)
    # the command line tool
    from p_routes import Sym
    cli_syms = [Sym('CLI', dict(micro=False), []), Sym('123', dict(version='M1'), ['--version', 'M1']), Sym('Quiet zone', dict(micro=False, error='q'), ['-e', 'q'])]
    for kind in KINDS:
        sets = [o for o in option_sets(kind, rnd, 6) if o.cli is not None]
        for o in [sets[0]] + rnd.sample(sets[1:], min(len(sets) - 1, 3 if tier == 'quick' else 10)):
            s = rnd.choice(cli_syms)
            cases.append(Case('cli', s.qr, dict(o.kw), argv=(s, list(o.cli), kind), call=f'segno.cli.main({s.cli_args + list(o.cli)!r} + [-o x.{kind}, {s.content!r}])'))
    for s in cli_syms:
        for extra in ([], ['--border', '0'], ['--compact'], ['--border', '2', '--compact']):
            cases.append(Case('cli', s.qr, {}, argv=(s, extra, None), call=f'segno.cli.main({s.cli_args + extra!r} + [{s.content!r}])'))
    return cases


def run_sequences(ctx, rnd, tier, lines, metas, seq_checks):
    """QRCodeSequence.save: which `out` every symbol is saved to, and each symbol's call / file like a single `save`"""
    seqs = [segno.make_sequence('ABCDEFGH' * 6, symbol_count=3), segno.make_sequence('one', symbol_count=1),
            segno.make_sequence('0123456789' * 8, symbol_count=rnd.choice([2, 11, 16])), segno.make_sequence('Structured Append', symbol_count=2, error='m')]
    forms = [(('p', 'seq.svg'), None, {}), (('p', 'S.e.q.PNG'), None, dict(scale=2)), (('p', 'x{0}.txt'), None, {}), (('p', 'noext'), 'pbm', {}),
             (('p', 'a.dat'), 'SVG', dict(nl=False)), (('b', None), 'png', {}), (('b', 'n.svg'), None, dict(xmldecl=False)), (('t', None), 'txt', dict(border=1)),
             (('p', 'q.svgz'), None, dict(compresslevel=2)), (('p', 'bad.foo'), None, {}), (('p', '.eps'), None, {}), (('p', 'c.xpm'), None, dict(matrix=1))]
    for seq in seqs:
        for spec, kind, kw in (forms if tier != 'quick' else rnd.sample(forms, 5)):
            out, out_tok = make_out(ctx, spec)
            call = f'make_sequence(… {len(seq)} symbols).save({spec!r}, kind={kind!r}, **{kw!r})'
            with Recorder() as rec:
                try:
                    seq.save(out, kind=kind, **kw) if kind is not None else seq.save(out, **kw)
                    outcome = None
                except Exception as ex:  # noqa
                    outcome = norm_exc(ex) or 'Other' + type(ex).__name__
            calls = rec.calls
            # the `out` of every serialiser call
            toks = []
            for i, c in enumerate(calls):
                o = c['args'][2]
                if isinstance(o, real_gzip.GzipFile):
                    o = rec.gz[i]['out'] if i < len(rec.gz) else None
                toks.append('p:' + o.encode('utf-8').hex() if isinstance(o, str) else out_tok if o is out else '?')
            seq_checks.append((f'rseq id={len(seq_checks)} out={out_tok} m={len(seq)}', toks, outcome, call, len(seq)))
            ctx.res.count('route-correspondence:sequence')
            # every call like a single save to the model's n-th `out`
            for i, c in enumerate(calls):
                o = c['args'][2]
                real_o = rec.gz[i]['out'] if isinstance(o, real_gzip.GzipFile) and i < len(rec.gz) else o
                if not isinstance(real_o, str):
                    continue     # a shared stream holds the concatenation: compared by the judge part of the check
                case = Case('save', seq[i], kw, call=call + f' -> symbol {i + 1}')
                req = [f'rroute id={len(lines)} route=save out=p:{real_o.encode("utf-8").hex()} kw={config_str(kw)}']
                if kind is not None:
                    req.append('kind=' + kind.encode().hex())
                req += service_fields(case, c)
                gzs = [g for g in rec.gz if g['out'] == real_o]
                try:
                    observed = dict(key=c['key'], kw=config_str(passed_kw(c)), full=completed_kw(c), target=observed_target(c, real_o, gzs))
                    later = [rec.gz[j]['out'] if isinstance(d['args'][2], real_gzip.GzipFile) and j < len(rec.gz) else d['args'][2]
                             for j, d in enumerate(calls) if j > i]
                    if real_o in later:
                        real = 'skip'       # a name without a dot: every symbol goes to the same file, the last one stays
                    else:
                        real = result_token(read_out(real_o), gz=bool(gzs)) if (outcome is None or i < len(calls) - 1) else 'err:' + outcome
                except Exception as ex:  # noqa
                    ctx.res.count('route-correspondence-skipped:' + type(ex).__name__)
                    continue
                lines.append(' '.join(req))
                metas.append(dict(case=case, observed=observed, real=real))


def post_processing(ctx, rnd, tier):
    """the encoders of the model and the judge's reference decoders against the standard library"""
    res = ctx.res
    samples = [bytes(range(256)), b'', b'a', b'ab', b'abc', b'abcd', b'\x00', b'\xff\xfe', b'="x"', b'=""', b'="', b'a="b" c="" d="e"f="g"', b'=="x""y"',
               b'<svg width="3" height="3" class="a b"><path d="M0 0h1"/></svg>', b'x="\n"', b'="="="', b'=\'a\' ="b\'c"', b'% :/=\'~_.-', b'"="a"="']
    for _ in range(60 if tier == 'quick' else 400):
        n = rnd.choice([0, 1, 2, 3, 4, 5, 30, 31, 32, 100])
        alphabet = rnd.choice([bytes(range(256)), b'="ab \'', b'="', b'%41Gg~ '])
        samples.append(bytes(rnd.choice(alphabet) for _ in range(n)))
    model_lines, want = [], []
    for s in samples:
        model_lines.append(f'b64 id={len(model_lines)} raw={s.hex()}')
        want.append(('b64encode', s, base64.b64encode(s).decode('ascii').encode().hex()))
        for minimal in (0, 1):
            model_lines.append(f'pct id={len(model_lines)} raw={s.hex()} minimal={minimal}')
            want.append((f'quote(safe={"minimal" if minimal else "empty"})', s, quote(s, safe=b" :/='" if minimal else b'').encode().hex()))
        model_lines.append(f'rq id={len(model_lines)} raw={s.hex()}')
        want.append(('_replace_quotes', s, writers._replace_quotes(s).hex()))
    if ctx.st.model_ok:
        for o, (what, s, w) in zip(run_lines_parallel(MODEL, model_lines, jobs=4), want):
            res.corr_checked += 1
            if parse_kv(o).get('value') != w:
                res.corr_diffs.append(dict(what='post-processing ' + what, call=f'{what}({s!r})', impl=w[:300], model=o[:300]))
    # reference decoders of the judge vs the standard library
    judge_lines, want = [], []
    texts = [base64.b64encode(s) for s in samples] + [b'QQ==', b'QUI=', b'QQ=', b'QQQ', b'Q', b'QQ==QQ==', b'Q===', b'QQ=Q', b'Q@==', b'QUJD\n', b' QUJD', b'QR==', b'QUJ=']
    for t in texts:
        try:
            w = 'ok=1 bytes=' + base64.b64decode(t, validate=True).hex()
        except (binascii.Error, ValueError):
            w = 'err=1'
        judge_lines.append(f'b64dec id={len(judge_lines)} text={t.hex()}')
        want.append(('base64.b64decode(validate=True)', t, w))
    for s in samples:
        for t in (quote(s, safe=b''), quote(s, safe=b" :/='"), s.decode('latin-1').encode('ascii', 'ignore').decode()):
            judge_lines.append(f'pctdec id={len(judge_lines)} text={t.encode().hex()}')
            want.append(('unquote_to_bytes', t, 'ok=1 bytes=' + unquote_to_bytes(t).hex()))
    for t in ('%', '%%', '%4', '%4g', '%g4', '%41%', 'a%2', '%%41', '%c3%A9', '%zz%41'):
        judge_lines.append(f'pctdec id={len(judge_lines)} text={t.encode().hex()}')
        want.append(('unquote_to_bytes', t, 'ok=1 bytes=' + unquote_to_bytes(t).hex()))
    if ctx.st.judge_ok:
        for o, (what, t, w) in zip(run_lines_parallel(JUDGE, judge_lines, jobs=4), want):
            res.corr_checked += 1
            got = o.split(' ', 1)[1] if ' ' in o else o
            if got != w:
                res.corr_diffs.append(dict(what='reader-equivalence: ' + what, field='reader-equivalence', call=f'{what}({t!r})', impl=w[:300], model=o[:300]))
    res.count('route-correspondence:post-processing', len(model_lines))
    res.count('route-correspondence:reference-decoders', len(judge_lines))


def correspond_routes(ctx, rnd, tier):
    """entry point (called from p_routes.run_C12)"""
    if not ctx.st.model_ok:
        return
    lines, metas, seq_checks = [], [], []
    docs = ([], [])
    for case in route_cases(rnd, tier):
        if case.route == 'cli':
            s, flags, kind = case.argv
            if kind is None:
                case.argv = s.cli_args + flags + [s.content]
            else:
                from p_routes import mixed_case
                ext = kind if rnd.random() < 0.6 else mixed_case(rnd, kind)
                case.argv = s.cli_args + flags + ['--output', ctx.path('cli.' + ext), s.content]
        run_case(ctx, case, lines, metas, docs)
    run_sequences(ctx, rnd, tier, lines, metas, seq_checks)
    from p_raster import run_balanced
    outs = run_balanced(MODEL, lines)
    compare(ctx, outs, metas)
    for o, (_, toks, outcome, call, m) in zip(run_lines(MODEL, [c[0] for c in seq_checks]), seq_checks):
        ctx.res.corr_checked += 1
        want = parse_kv(o).get('outs', '').split(',')
        # a refused call stops the loop: the calls made are a prefix
        if toks != want[:len(toks)] or (outcome is None and len(toks) != m):
            ctx.res.corr_diffs.append(dict(what='route layer: `out` of the symbols of a sequence', call=call, impl=','.join(toks)[:400], model=o[:400]))
    # END TO END: the same routes with the whole-document models as serialisers (Model/RoutesDocs.lean)
    for o, meta in zip(run_balanced(MODEL, docs[0]), docs[1]):
        model, real, case = parse_kv(o).get('result', ''), meta['real'], meta['case']
        if model == 'err:AssertionError' or real.startswith('err:Other') or real.startswith('unreadable'):
            ctx.res.count('route-documents:outside-the-document-models')
            continue
        ctx.res.corr_checked += 1
        ctx.res.count('route-documents:' + case.route + (':refusal' if real.startswith('err:') else ':whole-result'))
        if model != real:
            k = next((i for i, (a, b) in enumerate(zip(model, real)) if a != b), min(len(model), len(real)))
            ctx.res.corr_diffs.append(dict(what='route layer END TO END (document models as serialisers): file / stream content, returned string or exception',
                                           call=case.call, first_difference_at=k, impl=real[max(0, k - 40):k + 120], model=model[max(0, k - 40):k + 120]))
    post_processing(ctx, rnd, tier)
