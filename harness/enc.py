"""Encoder cases: calling the real segno, building `model` / `judge` request lines."""
import codecs
from common import *
import segno
from segno import consts, encoder

MICRO = {'M1': -3, 'M2': -2, 'M3': -1, 'M4': 0}
MODES = {'numeric': 1, 'alphanumeric': 2, 'byte': 4, 'kanji': 8, 'hanzi': 13}
LEVELS = {'L': 1, 'M': 0, 'Q': 3, 'H': 2}


def text_to_bytes(content, mode, encoding):
    """The documented text -> bytes policy, written independently of segno:
    bytes are taken as given, ints as their decimal digits, text in the requested encoding, else in
    the first of ISO-8859-1, Shift JIS, UTF-8 that can represent it (GB2312 for hanzi).
    Returns (bytes, encoding name) or raises UnicodeError / LookupError."""
    if mode == 'hanzi' or mode == 13:
        encoding = 'gb2312'
    if isinstance(content, bytes):
        return content, encoding or 'iso-8859-1'
    text = str(content)
    if encoding is not None:
        return text.encode(encoding), encoding
    for enc in ('iso-8859-1', 'shift_jis', 'utf-8'):
        try:
            return text.encode(enc), enc
        except UnicodeError:
            continue
    raise AssertionError('utf-8 cannot fail')


def norm_version(v):
    if v is None:
        return None
    if isinstance(v, str) and v.upper() in MICRO:
        return MICRO[v.upper()]
    return int(v)


def norm_mode(m):
    if m is None:
        return None
    return MODES[m.lower()] if isinstance(m, str) else m


def norm_error(e):
    if e is None:
        return None
    return LEVELS[e.upper()] if isinstance(e, str) else e


def opt(x):
    return '-' if x is None else str(int(x))


def parts_of(content, mode, encoding):
    """content -> list of (bytes, mode, encoding-name) as prepare_data splits it"""
    if isinstance(content, (str, bytes, int)):
        items = [(content, mode, encoding)]
    else:
        items = []
        for item in content:
            c, m, e = item, mode, encoding
            if isinstance(item, tuple):
                c = item[0]
                if len(item) > 1:
                    m = item[1] or mode
                if len(item) > 2:
                    e = item[2] or encoding
            items.append((c, m, e))
    res = []
    for c, m, e in items:
        b, enc = text_to_bytes(c, m, e)
        res.append((b, norm_mode(m), enc))
    return res


def model_line(idx, content, error=None, version=None, mode=None, mask=None, encoding=None, eci=False,
               micro=None, boost_error=True):
    parts = parts_of(content, mode, encoding)
    canon = []
    for _, _, enc in parts:
        try:
            canon.append(f'{enc}:{codecs.lookup(enc).name}')
        except LookupError:
            pass
    ps = ','.join(f'{hexs(b)}:{opt(m)}:{enc}' for b, m, enc in parts)
    return (f'enc id={idx} parts={ps} error={opt(norm_error(error))} version={opt(norm_version(version))} '
            f'gmode={opt(norm_mode(mode))} mask={opt(mask)} eci={int(bool(eci))} micro={"-" if micro is None else int(bool(micro))} '
            f'boost={int(bool(boost_error))} canon={",".join(sorted(set(canon)))}')


def exc_name(ex):
    if isinstance(ex, encoder.DataOverflowError):
        return 'DataOverflowError'
    if isinstance(ex, UnicodeError):
        return 'UnicodeError'
    for cls in (ValueError, LookupError, IndexError, KeyError, TypeError, AssertionError):
        if isinstance(ex, cls):
            return cls.__name__
    return type(ex).__name__


def impl_encode(content, **kw):
    """Calls the real encoder; returns a canonical result line (without id)."""
    try:
        c = encoder.encode(content, **kw)
    except Exception as ex:  # noqa
        return f'err={exc_name(ex)}', None
    return f'ok=1 v={c.version} e={opt(c.error)} mask={c.mask} m={matrix_str(c.matrix)}', c
