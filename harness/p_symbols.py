"""Property harnesses that work on whole symbols: C01, C02, C03, C04, C05, C06, C07, C13."""
import random
from core import *
from symbols import *


def nontrivial_key(c):
    """distinct + non-trivial: a symbol was produced; key = (version, level, mask, segment shapes, end position)"""
    if c.jkv is None:
        return None
    return (c.jkv.get('v'), c.jkv.get('lvl'), c.jkv.get('mask'), c.jkv.get('segs'), c.jkv.get('end'))


def finish(res, cases, rule):
    for c in cases:
        k = nontrivial_key(c)
        if k:
            res.nontrivial.add(k)
        res.count('tag:' + c.tag)
        if c.exc:
            res.count('exc:' + c.exc)
        elif c.jkv and 'v' in c.jkv:
            res.count('version-class:' + ('micro' if int(c.jkv.get('v', '1')) < 1 else 'qr<10' if int(c.jkv['v']) < 10 else 'qr<27' if int(c.jkv['v']) < 27 else 'qr>=27'))
            for s in (c.jkv.get('segs') or '').split(','):
                if s:
                    res.count('mode:' + s.split(':')[0])
    res.rule = rule
    for c in cases[:3] + cases[-2:]:
        res.samples.append(dict(call=c.call()[:300], impl=(c.impl or '')[:60], judge=(c.judge or '')[:200]))


def known_c13(fld, verdict, c):
    return 'D1' if fld == 'c13' and verdict == 'd1' else None


def overflow_cases(cases, st, res, prop):
    """C04/C07/C14: calls that raised — was refusing right?  (`fit` command of the judge, single-part content)"""
    lines, idx = [], []
    for i, c in enumerate(cases):
        if c.qr is None and c.exc in ('DataOverflowError', 'ValueError') and isinstance(c.content, (str, bytes, int)):
            try:
                parts = parts_of(c.content, c.kw.get('mode'), c.kw.get('encoding'))
                b, m, enc = parts[0]
                latin1 = int(enc == 'iso-8859-1')
                micro = c.kw.get('micro')
                lines.append(f'fit id={i} content={hexs(b)} reqmode={opt(m)} micro={"-" if micro is None else int(bool(micro))} '
                             f'reqerr={opt(norm_error(c.kw.get("error")))} reqver={opt(norm_version(c.kw.get("version")))} '
                             f'eci={int(bool(c.kw.get("eci")))} latin1={latin1}')
                idx.append(i)
            except Exception:  # noqa
                pass
    for i, o in zip(idx, run_lines_parallel(JUDGE, lines)):
        kv = parse_kv(o)
        c = cases[i]
        c.extra['fit'] = o
        # refusals the documentation prescribes regardless of size: ValueError of any kind is right
        kw = c.kw
        v = norm_version(kw.get('version'))
        micro_sym = kw.get('micro') is True or (v is not None and v < 1)
        if micro_sym and (norm_error(kw.get('error')) == 2 or kw.get('eci') or norm_mode(kw.get('mode')) == 13):
            continue
        if kw.get('micro') is False and v is not None and v < 1:
            continue
        if kw.get('micro') is True and v is not None and v >= 1:
            continue
        if kv.get('expect') == 'version':
            res.violations.append(dict(property_field=prop, verdict=f'refused-with-{c.exc}-but-{o}', call=c.call(),
                                       replay=c.replay(), judge=kv, known_id=None))
        elif kv.get('expect') == 'overflow' and c.exc != 'DataOverflowError':
            res.violations.append(dict(property_field=prop, verdict=f'nothing-fits-but-raised-{c.exc}', call=c.call(),
                                       replay=c.replay(), judge=kv, known_id=None))


def run_C02(tier, rnd, st, res):
    cases = list(gen_triples(rnd, per=1 if tier == 'quick' else 6))
    cases += list(gen_random(rnd, 300 if tier == 'quick' else 10000))
    cases += list(gen_tie_history(120 if tier == 'quick' else 2000))
    cases = sweep(cases, st, res, ['c02'], want_c06=False)
    # every symbol of a Structured Append sequence carries its own function patterns, format and version information
    sequence_block(tier, rnd, res, 'c02', auto_mask=True, versions=[1, 6, 7, 8, 10] if tier == 'quick' else None)
    res.exhaustive = True
    finish(res, cases, 'all 1312 (version, level, mask) triples with seeded content (exhaustive over triples) + random make() calls; '
           'non-trivial = a symbol was returned; distinct by (version, level, mask, segment shapes, stream end)')


def run_C03(tier, rnd, st, res):
    cases = list(gen_triples(rnd, per=1 if tier == 'quick' else 5))
    # every block layout with short content in a requested version (pad-only blocks) and full content
    for v in ALL_VERSIONS:
        for e in levels_of(v):
            kw = dict(version=vname(v), boost_error=False, mask=rnd.randrange(4))
            if e is not None:
                kw['error'] = LEVEL_NAME[e]
            cases.append(Case(content_for(rnd, 1, rnd.randint(1, 4)), dict(kw), 'short-in-big'))
            mode = rnd.choice(modes_of(v))
            cases.append(Case(content_for(rnd, mode, max_chars(v, e, mode)), dict(kw, mode=MODE_NAME[mode]), 'full'))
    cases += list(gen_minimal(rnd))
    cases += list(gen_tie_history(120 if tier == 'quick' else 2000))
    cases = sweep(cases, st, res, ['c03'], want_c06=False)
    res.exhaustive = True
    finish(res, cases, 'all 168 block layouts x all masks (triples) + per layout a nearly empty symbol (pad-only blocks) and a full one; '
           'non-trivial = symbol returned; distinct by (version, level, mask, segments, end)')


def run_C01(tier, rnd, st, res):
    cases = list(gen_triples(rnd, per=1))
    cases += list(gen_random(rnd, 2500 if tier == 'quick' else 20000))
    cases += list(gen_boundaries(rnd, frac=0.25 if tier == 'quick' else 1.0))
    cases += list(gen_multipart_boundaries(rnd, 150 if tier == 'quick' else 2000))
    cases += list(gen_requested_version_gap(rnd, 30 if tier == 'quick' else 300))
    cases += list(gen_merge_histories(rnd, 25 if tier == 'quick' else 250))
    cases += list(gen_encoding_histories(rnd))
    cases += list(gen_minimal(rnd))
    cases += list(gen_tie_history(120 if tier == 'quick' else 2000))
    cases += list(gen_eci_boundaries(rnd, range(1, 5) if tier == 'quick' else range(1, 41)))
    if tier != 'quick':
        cases += [Case(bytes([a, b]), {}, 'two-bytes') for a in range(0, 256) for b in range(0, 256, 1)]
    else:
        cases += [Case(bytes([a, b]), {}, 'two-bytes') for a in range(0x7e, 0xa2) for b in (0x30, 0x3f, 0x40, 0x7e, 0x7f, 0x80, 0xfc, 0xfd)]
        # both ends of the second Shift JIS range E040-EBBF (lead bytes EC-EF must stay byte mode: wave 10, C01f-1)
        cases += [Case(bytes([a, b]), {}, 'two-bytes') for a in range(0xde, 0xf2) for b in (0x3f, 0x40, 0x7e, 0x7f, 0x80, 0xbf, 0xc0, 0xfc, 0xfd)]
    cases = sweep(cases, st, res, ['c01'], want_c06=False)
    finish(res, cases, 'all (version, level, mask) triples + random make() calls (text/bytes/int/multi-part, encodings, eci, micro, boost) + '
           'capacity boundaries + two-byte contents; non-trivial = symbol returned and decoded; distinct by (version, level, mask, segments, end)')


def sequence_block(tier, rnd, res, field, known_map=None, auto_mask=False, versions=None):
    """every symbol of a Structured Append sequence is a symbol: `make_sequence(content, symbol_count=n)` with chunk lengths at the
    capacity boundaries (n chunks of k characters where k fills version v exactly, plus r < n extra characters: the longer
    chunks need the next version), and with a requested version"""
    lines, info = [], []
    for v in (versions or ([1, 2, 3, 5, 9, 10] if tier == 'quick' else range(1, 28))):
        for e in (0, 1, 2, 3):
            for mode in (1, 2, 4):
                k = max_chars(v, e, mode, 20)       # 20 bits Structured Append header
                if k < 1:
                    continue
                n = rnd.randint(2, 5)
                for total in {n * k, n * k + rnd.randint(1, n - 1), n * k - rnd.randint(1, n - 1), n * k + n}:
                    content = content_for(rnd, mode, total)
                    kw = dict(symbol_count=n, error=LEVEL_NAME[e], boost_error=False, mask=rnd.randrange(8))
                    if auto_mask:
                        del kw['mask']
                    try:
                        seq = segno.make_sequence(content, **kw)
                    except ValueError:
                        continue
                    res.evaluations += 1
                    for q in seq:
                        lines.append(f'sym id={len(lines)} m={matrix_str(q.matrix)} reqmask={kw.get("mask", "-")}')
                        info.append((content, kw))
    # encoder.encode_sequence(..., eci=True) — the function behind make_sequence, which has no eci parameter: the ECI header (12 bits)
    # and the Structured Append header (20 bits) both count when the version is chosen (wave 10, C13f-1 / C13f-2)
    for v in ((1, 2, 3, 4) if tier == 'quick' else range(1, 15)):
        for e in (0, 1, 2, 3):
            k = max_chars(v, e, 4, 32)
            if k < 2:
                continue
            for n in (2, 3):
                for total in (n * k, n * k + 1, n * k + n):
                    content = ''.join(rnd.choice('abcdefghijklmnopqrstuvwxyz') for _ in range(total))
                    kw = dict(symbol_count=n, error=LEVEL_NAME[e], boost_error=rnd.random() < 0.3, encoding='utf-8', eci=True)
                    if not auto_mask:
                        kw['mask'] = rnd.randrange(8)
                    try:
                        seq = segno.QRCodeSequence(map(segno.QRCode, segno.encoder.encode_sequence(content, **kw)))
                    except ValueError:
                        continue
                    res.evaluations += 1
                    for q in seq:
                        lines.append(f'sym id={len(lines)} m={matrix_str(q.matrix)} reqmask={kw.get("mask", "-")}')
                        info.append((content, dict(kw, api='encoder.encode_sequence')))
    if auto_mask:
        # periodic contents: every symbol of the sequence carries the SAME segment and differs only in its Structured Append
        # header (position) — the mask must still be chosen per symbol (wave 10, C06f-1: a mask memo keyed by the segments)
        for rep in range(60 if tier == 'quick' else 600):
            mode = rnd.choice((1, 2, 2, 4, 4))
            n = rnd.randint(2, 4)
            unit = content_for(rnd, mode, rnd.randint(1, 12))
            content = unit * n
            kw = dict(symbol_count=n, error=rnd.choice('lmqh'), boost_error=False)
            try:
                seq = segno.make_sequence(content, **kw)
            except ValueError:
                continue
            res.evaluations += 1
            for q in seq:
                lines.append(f'sym id={len(lines)} m={matrix_str(q.matrix)} reqmask=-')
                info.append((content, kw))
        res.count('sequence-block:periodic', 1)
    for o, (content, kw) in zip(run_lines_parallel(JUDGE, lines), info):
        kv = parse_kv(o)
        verdict = kv.get(field, 'missing')
        res.nontrivial.add(('sequence', kv.get('v'), kv.get('lvl'), kv.get('segs'), kv.get('end')))
        if verdict not in ('ok', '-'):
            kid = known_map(field, verdict, None) if known_map else None
            res.violations.append(dict(property_field=field, verdict=verdict, call=(f'segno.encoder.encode_sequence({content!r}, **{ {k: w for k, w in kw.items() if k != "api"}!r})' if kw.get('api') else f'segno.make_sequence({content!r}, **{kw!r})'),
                                       replay=dict(content=content if not isinstance(content, bytes) else {'bytes': content.hex()}, kw=kw, api=kw.get('api', 'make_sequence')),
                                       judge={k2: kv[k2] for k2 in kv if k2 not in ('cw', 'bytes')}, known_id=kid))
    res.count('sequence-block:symbols', len(lines))


def run_C13(tier, rnd, st, res):
    cases = []
    # numeric lengths give every residue of the stream length mod 8 and every distance to capacity
    dense = set(ALL_VERSIONS if tier != 'quick' else [-3, -2, -1, 0, 1, 2, 3, 5, 7, 10, 14, 21, 27, 34, 40])
    for v in ALL_VERSIONS:
        for e in levels_of(v):
            nmax = max_chars(v, e, 1)
            if v in dense:
                lens = sorted(set(list(range(1, min(nmax, 14) + 1)) + list(range(max(1, nmax - 12), nmax + 1))))
            else:   # every version / level is still visited at both ends (table cells!)
                lens = sorted({1, 2, 3, max(1, nmax - 2), max(1, nmax - 1), nmax})
            kw = dict(version=vname(v), boost_error=False, mask=rnd.randrange(4))
            if e is not None:
                kw['error'] = LEVEL_NAME[e]
            for n in lens:
                cases.append(Case(content_for(rnd, 1, n), dict(kw), 'numeric-residues'))
            for mode in [m for m in modes_of(v) if m != 1]:
                nm = max_chars(v, e, mode)
                for n in (sorted({1, 2, max(1, nm - 1), nm}) if v in dense else [nm]):
                    if n >= 1 and nm >= 1:
                        cases.append(Case(content_for(rnd, mode, n), dict(kw, mode=MODE_NAME[mode]), 'other-modes'))
    cases += list(gen_minimal(rnd))
    cases += list(gen_merge_histories(rnd, 15 if tier == 'quick' else 150))
    cases += list(gen_requested_version_gap(rnd, 40 if tier == 'quick' else 400))
    # symbols of different kinds with the SAME capacity (1-M, 2-H, M4-L: 128 bits) and the same stream length, alternating: what
    # fills the rest of the stream depends on the kind of symbol (terminator 4 vs 9 bits), never on what was encoded before
    for n in range(1, 13):
        for m in range(1, 13):
            a = Case(content_for(rnd, 2, n), dict(version=1, error='M', boost_error=False, mask=0), 'capacity-collision')
            b = Case(content_for(rnd, 2, m), dict(version='M4', error='L', boost_error=False, mask=0), 'capacity-collision')
            c = Case(content_for(rnd, 2, n), dict(version=2, error='H', boost_error=False, mask=0), 'capacity-collision')
            cases += [a, b, c] if (n + m) % 2 else [b, c, a]
    cases += list(gen_random(rnd, 300 if tier == 'quick' else 3000))
    cases = sweep(cases, st, res, ['c13'], want_c06=False, known_map=known_c13)
    sequence_block(tier, rnd, res, 'c13', known_c13)
    finish(res, cases, 'per version/level the 14 shortest and 13 longest numeric contents (all residues mod 8, all distances to capacity) + '
           'other modes at 1, 2, max-1, max characters + random calls; distinct by (version, level, mask, segments, end)')


def run_C04(tier, rnd, st, res):
    cases = list(gen_boundaries(rnd, micro_opts=(None,) if tier == 'quick' else (None, True, False)))
    cases += list(gen_multipart_boundaries(rnd, 250 if tier == 'quick' else 2500))
    cases += list(gen_requested_version_gap(rnd, 120 if tier == 'quick' else 800))
    cases += list(gen_eci_boundaries(rnd, range(1, 8) if tier == 'quick' else range(1, 41)))
    if tier == 'quick':
        cases += list(gen_boundaries(rnd, micro_opts=(True, False), frac=0.34))
    cases += list(gen_boundaries(rnd, with_version=True, frac=0.3 if tier == 'quick' else 1.0))
    # requested version one too small / one too large
    for c in list(gen_boundaries(rnd, frac=0.15 if tier == 'quick' else 0.6)):
        for dv in (-1, 1):
            pass
    # Micro / QR-1 transition, all lengths
    for mode in (1, 2, 4, 8):
        for n in range(0 if tier != 'quick' else 1, 61 if tier != 'quick' else 40):
            for e in (None, 'L', 'M', 'Q') if tier != 'quick' else (None, rnd.choice(['L', 'M', 'Q'])):
                kw = dict(mask=0)
                if e:
                    kw['error'] = e
                if rnd.random() < 0.5:
                    kw['boost_error'] = False
                cases.append(Case(content_for(rnd, mode, n), kw, 'micro-transition'))
    cases += list(gen_merge_histories(rnd, 15 if tier == 'quick' else 150))
    cases += list(gen_random(rnd, 400 if tier == 'quick' else 4000))
    cases = sweep(cases, st, res, ['c04'], want_c06=False)
    overflow_cases(cases, st, res, 'c04')
    finish(res, cases, 'both sides (n*, n*+1 characters) of every (version, level, mode) capacity boundary for micro in {None,True,False}, '
           'with and without requested version; all lengths 0..60 per mode around the Micro/QR transition; random calls; '
           'refusals judged by the spec (`fit`); distinct by (version, level, mask, segments, end)')


def run_C05(tier, rnd, st, res):
    cases = []
    # exact-fit lengths for every level of every version (boost on and off)
    for v in ALL_VERSIONS:
        for e in levels_of(v):
            if e is None:
                continue
            for mode in modes_of(v):
                if tier == 'quick' and rnd.random() > 0.35:
                    continue
                nm = max_chars(v, e, mode)
                for n in (nm, nm + 1, max(1, nm - 1)):
                    for req in (None, 'L', 'M', 'Q', 'H') if tier != 'quick' else (None, rnd.choice(['L', 'M', 'Q', 'H'])):
                        kw = dict(mask=1, boost_error=rnd.random() < 0.7)
                        if req:
                            kw['error'] = req
                        if rnd.random() < 0.5:
                            kw['version'] = vname(v)
                        if rnd.random() < 0.2:
                            kw['micro'] = rnd.choice([True, False])
                        if mode in (8, 13):
                            kw['mode'] = MODE_NAME[mode]
                        cases.append(Case(content_for(rnd, mode, n), kw, 'exact-fit'))
    # complete boost grid (deterministic): every version x every requested level (spelled as text and as the integer constant) x
    # every level above it: numeric content that fits the higher level exactly / by one digit not, boost on, version requested or
    # (Micro) chosen — each of the (request, result) pairs of every version occurs in every run
    for v in ALL_VERSIONS:
        lv = [e for e in levels_of(v) if e is not None]
        for req in lv:
            for hi in [e for e in lv if [1, 0, 3, 2].index(e) >= [1, 0, 3, 2].index(req)]:      # L < M < Q < H
                nm = max_chars(v, hi, 1)
                if nm < 1:
                    continue
                for n in (nm, nm + 1):
                    for err in (LEVEL_NAME[req], LEVEL_NAME[req].lower()):
                        cases.append(Case(content_for(rnd, 1, n), dict(error=err, version=vname(v), mask=0), 'boost-grid'))
    # ECI header (12 bits) counted in boosting: byte content in a non-default encoding at exact-fit lengths
    for v in (range(1, 6) if tier == 'quick' else range(1, 41)):
        for e in levels_of(v):
            for enc, extra in (('utf-8', 12), ('iso-8859-1', 0), ('shift_jis', 12)):
                nm = max_chars(v, e, 4, extra)
                for n in (nm, nm + 1, max(1, nm - 1)):
                    kw = dict(eci=True, encoding=enc, mode='byte', mask=0, micro=False)
                    if rnd.random() < 0.5:
                        kw['error'] = rnd.choice('LMQH')
                    if rnd.random() < 0.3:
                        kw['version'] = v
                    cases.append(Case(''.join(rnd.choice('abcdefghijklmnopqrstuvwxyz') for _ in range(n)), kw, 'eci-exact-fit'))
                    if n >= 3 and enc != 'iso-8859-1':
                        # the same length as adjacent parts which are merged into ONE segment with ONE ECI header (boosting counts it once)
                        text = ''.join(rnd.choice('abcdefghijklmnopqrstuvwxyz') for _ in range(n))
                        cut = rnd.randint(1, n - 1)
                        cases.append(Case([text[:cut], text[cut:]], dict(kw), 'eci-merged-exact-fit'))
    cases += list(gen_merge_histories(rnd, 15 if tier == 'quick' else 150))
    cases += list(gen_random(rnd, 400 if tier == 'quick' else 4000))
    cases = sweep(cases, st, res, ['c05'], want_c06=False)
    # the single-symbol path of make_sequence must honour boost_error / the requested level as well
    seq_lines, seq_info = [], []
    for _ in range(60 if tier == 'quick' else 600):
        v = rnd.choice([1, 2, 3, 5, 9])
        boost = rnd.random() < 0.5
        req = rnd.choice([None, 'L', 'M', 'Q', 'H'])
        mode = rnd.choice([1, 2, 4])
        content = content_for(rnd, mode, rnd.randint(1, max(1, max_chars(v, 2, mode))))
        kw = dict(version=v, boost_error=boost, mask=1)
        if req:
            kw['error'] = req
        try:
            seq = segno.make_sequence(content, **kw)
        except ValueError:
            continue
        res.evaluations += 1
        if len(seq) == 1:
            q = seq[0]
            seq_lines.append(f'sym id={len(seq_lines)} m={matrix_str(q.matrix)} micro=0 reqver={v} reqerr={opt(norm_error(req))} boost={int(boost)}')
            seq_info.append((content, kw))
    # every symbol of a real sequence is boosted on its own (uneven chunks: the shorter ones may reach a higher level)
    for _ in range(40 if tier == 'quick' else 400):
        n = rnd.randint(2, 4)
        mode = rnd.choice([1, 2, 4])
        req = rnd.choice([None, 'L', 'M', 'Q'])
        v = rnd.choice([1, 2, 3])
        per = max_chars(v, norm_error(req) if req else 1, mode, 20)
        total = max(n, n * per - rnd.randint(0, n * per // 2)) if rnd.random() < 0.6 else rnd.randint(n, max(n, 3 * n))
        if total % n == 0:
            total += 1
        content = content_for(rnd, mode, total)
        kw = dict(symbol_count=n, mask=1)
        if req:
            kw['error'] = req
        try:
            seq = segno.make_sequence(content, **kw)
        except ValueError:
            continue
        res.evaluations += 1
        for q in seq:
            seq_lines.append(f'sym id={len(seq_lines)} m={matrix_str(q.matrix)} micro=0 reqver={q.version} reqerr={opt(norm_error(req))} boost=1')
            seq_info.append((content, kw))
    for o, (content, kw) in zip(run_lines_parallel(JUDGE, seq_lines), seq_info):
        kv = parse_kv(o)
        if kv.get('c05') != 'ok':
            res.violations.append(dict(property_field='c05', verdict=kv.get('c05'), call=f'segno.make_sequence({content!r}, **{kw!r})',
                                       replay=dict(content=content, kw=kw, api='make_sequence'), judge={k2: kv[k2] for k2 in kv if k2 not in ('cw', 'bytes')}, known_id=None))
    # version invariance under boosting: re-run each boosted call without boosting
    extra = []
    for c in cases:
        if c.qr is not None and c.kw.get('boost_error', True) and len(extra) < (400 if tier == 'quick' else 5000):
            kw = dict(c.kw, boost_error=False)
            try:
                q2 = segno.make(c.content, **kw)
                res.evaluations += 1
                if q2.version != c.qr.version:
                    res.violations.append(dict(property_field='c05', verdict=f'version-{c.qr.version}-with-boost-{q2.version}-without',
                                               call=c.call(), replay=c.replay(), known_id=None))
            except Exception as ex:  # noqa
                res.violations.append(dict(property_field='c05', verdict=f'refused-without-boost-{exc_name(ex)}', call=c.call(),
                                           replay=c.replay(), known_id=None))
            extra.append(c)
    finish(res, cases, 'exact-fit lengths (n*-1, n*, n*+1) of every (version, level, mode) x requested level x boost x micro x requested version; '
           'boosted calls repeated without boosting (same version); distinct by (version, level, mask, segments, end)')


def run_C06(tier, rnd, st, res):
    cases = []
    # requested masks: all of them on several sizes
    for v in ([-3, -2, -1, 0, 1, 2, 7, 14, 40] if tier == 'quick' else ALL_VERSIONS):
        for mask in range(4 if v < 1 else 8):
            e = rnd.choice(levels_of(v))
            kw = dict(version=vname(v), mask=mask if rnd.random() < 0.7 else str(mask))
            if e is not None:
                kw['error'] = LEVEL_NAME[e]
            mode = rnd.choice(modes_of(v))
            cases.append(Case(content_for(rnd, mode, rnd.randint(1, max(1, max_chars(v, e, mode)))), kw, 'requested-mask'))
    # automatic masks: many small symbols, every version at least once
    n_small = 500 if tier == 'quick' else 25000
    for _ in range(n_small):
        mode = rnd.choice([1, 2, 4, 4])
        kw = {}
        if rnd.random() < 0.5:
            kw['micro'] = rnd.choice([True, False])
        if rnd.random() < 0.3:
            kw['error'] = rnd.choice('LMQH')
        cases.append(Case(content_for(rnd, mode, rnd.randint(1, 60)), kw, 'auto-small'))
    for v in ALL_VERSIONS:
        if tier == 'quick' and v > 12 and v % 4:
            continue
        e = rnd.choice(levels_of(v))
        kw = dict(version=vname(v))
        if e is not None:
            kw['error'] = LEVEL_NAME[e]
        mode = rnd.choice(modes_of(v))
        cases.append(Case(content_for(rnd, mode, rnd.randint(1, max(1, max_chars(v, e, mode)))), kw, 'auto-version'))
    # contents rich in 1011101 runs (byte 0x5d = 01011101, 0xba, 0x17 0x45 ...)
    for _ in range(60 if tier == 'quick' else 6000):
        n = rnd.randint(4, 60)
        b = bytes(rnd.choice([0x5d, 0xba, 0x17, 0x45, 0xd1, 0x74, 0x2e, 0x8b, 0xa2, 0xe8, 0x00, 0xff]) for _ in range(n))
        cases.append(Case(b, dict(mode='byte', micro=False), 'n3-rich'))
    # many symbols of one size in a row with automatic mask: exact ties of the minimal penalty occur for a few per cent of small
    # symbols — the lowest-numbered pattern must win whatever was encoded before
    cases += list(gen_tie_history(250 if tier == 'quick' else 4000))
    cases = sweep(cases, st, res, ['c06'], want_c06=True)
    sequence_block(tier, rnd, res, 'c06', auto_mask=True, versions=[1, 2, 3, 7] if tier == 'quick' else None)
    # requested masks through make_sequence (single-symbol shortcut and real sequences)
    seq_lines, seq_info = [], []
    for _ in range(40 if tier == 'quick' else 400):
        v = rnd.choice([1, 2, 3, 5, 7])
        k = rnd.randrange(8)
        n = rnd.choice([3, 8, 15, rnd.randint(1, 60 * v)])
        content = content_for(rnd, rnd.choice([1, 2]), n)
        kw = dict(version=v, mask=k) if rnd.random() < 0.7 else dict(symbol_count=rnd.randint(1, 3), mask=k)
        try:
            seq = segno.make_sequence(content, **kw)
        except ValueError:
            continue
        res.evaluations += 1
        for q in seq:
            seq_lines.append(f'sym id={len(seq_lines)} m={matrix_str(q.matrix)} reqmask={k}')
            seq_info.append((content, kw))
    for o, (content, kw) in zip(run_lines_parallel(JUDGE, seq_lines), seq_info):
        kv = parse_kv(o)
        if kv.get('c06') != 'ok':
            res.violations.append(dict(property_field='c06', verdict=kv.get('c06'), call=f'segno.make_sequence({content!r}, **{kw!r})',
                                       replay=dict(content=content, kw=kw, api='make_sequence'), judge={k2: kv[k2] for k2 in kv if k2 not in ('cw', 'bytes')}, known_id=None))
    import p_args
    p_args.run_cli_honoured(tier, rnd, st, res, field='c06')
    finish(res, cases, 'all requested masks on several sizes (also through make_sequence and the command line tool); automatic mask on small symbols, every version, and contents rich in 1:1:3:1:1 '
           'patterns; every candidate re-scored by the ISO spec; distinct by (version, level, mask, segments, end)')


def run_C07(tier, rnd, st, res):
    cases = []
    for a in range(256):
        cases.append(Case(bytes([a]), {}, 'one-byte'))
        for m in ('numeric', 'alphanumeric', 'byte', 'kanji', 'hanzi'):
            cases.append(Case(bytes([a]), dict(mode=m), 'one-byte-req'))
    if tier == 'quick':
        pairs = [(a, b) for a in list(range(0x2e, 0x3b)) + list(range(0x7f, 0xa2)) + list(range(0xde, 0xee)) + [0, 0x41, 0x5a, 0x61, 0xff]
                 for b in (0x00, 0x20, 0x2c, 0x30, 0x39, 0x3a, 0x3f, 0x40, 0x41, 0x5b, 0x7e, 0x7f, 0x80, 0xa0, 0xa1, 0xbf, 0xc0, 0xfc, 0xfd, 0xfe, 0xff)]
    else:
        pairs = [(a, b) for a in range(256) for b in range(256)]
    for a, b in pairs:
        cases.append(Case(bytes([a, b]), {}, 'two-bytes'))
        if tier != 'quick' or rnd.random() < 0.5:
            cases.append(Case(bytes([a, b]), dict(mode=rnd.choice(['numeric', 'alphanumeric', 'byte', 'kanji', 'hanzi'])), 'two-bytes-req'))
        if a >= 0x80 and (tier != 'quick' or b in (0x40, 0x7f, 0xbf, 0xc0, 0xfc, 0xfd, 0xa1, 0xfe)):
            cases.append(Case(bytes([a, b]), dict(mode='kanji'), 'two-bytes-kanji'))
            cases.append(Case(bytes([a, b]), dict(mode='hanzi'), 'two-bytes-hanzi'))
    # line feed / other control characters next to digits and alphanumerics (regex anchors!)
    for base in ('1', '12', '123', '1234', 'A', 'AB', 'A1', '0 '):
        for tail in ('\n', '\r', '\r\n', '\n\n', '\x00', '\x0b', '\x0c', '\x1c', '\x85'):
            for m in (None, 'numeric', 'alphanumeric'):
                for c in (base + tail, tail + base):
                    cases.append(Case(c.encode('latin1') if rnd.random() < 0.5 else c, dict(mode=m) if m else {}, 'control-chars'))
    for _ in range(600 if tier == 'quick' else 6000):
        m = rnd.choice([1, 2, 4, 8, 13])
        c = content_for(rnd, m, rnd.randint(1, 40))
        kw = {}
        if rnd.random() < 0.6:
            kw['mode'] = rnd.choice(['numeric', 'alphanumeric', 'byte', 'kanji', 'hanzi', 'BYTE', 'Kanji'])
        if rnd.random() < 0.3:
            kw['version'] = rnd.choice(['M1', 'M2', 'M3', 'M4', 1, 5])
        if rnd.random() < 0.4:
            kw['error'] = rnd.choice(['L', 'M', 'Q', 'H'])
        if rnd.random() < 0.3:
            kw['micro'] = rnd.choice([True, False])
        cases.append(Case(c, kw, 'stratified'))
    # every mode with every level and micro flag on short contents (mode / version-class interplay)
    for m in (1, 2, 4, 8, 13):
        for e in (None, 'L', 'M', 'Q', 'H'):
            for micro in (None, True, False):
                for n in (1, 2, 8):
                    kw = dict(mode=MODE_NAME[m])
                    if e:
                        kw['error'] = e
                    if micro is not None:
                        kw['micro'] = micro
                    cases.append(Case(content_for(rnd, m, n), kw, 'mode-level-micro'))
    cases += list(gen_encoding_histories(rnd))
    cases += list(gen_merge_histories(rnd, 15 if tier == 'quick' else 150))
    # integers (also negative ones and zero) with and without a requested mode
    for n in (-1234, -1, 0, 7, 12345678901234567890, -0):
        for m in (None, 'numeric', 'alphanumeric', 'byte', 'kanji'):
            cases.append(Case(n, dict(mode=m) if m else {}, 'integers'))
    # Chinese / Japanese text with a requested mode and an explicit encoding (which codec produces the bytes that are judged?)
    for t in ('汉字', '中文', '书读百遍其义自现', '恻惆', '漢字', '点茗', 'テスト'):
        for m in ('hanzi', 'kanji', 'byte', None):
            for enc in (None, 'utf-8', 'gb2312', 'gbk', 'big5', 'shift_jis', 'euc_jp', 'latin-1', 'utf-16-be'):
                kw = {}
                if m:
                    kw['mode'] = m
                if enc:
                    kw['encoding'] = enc
                cases.append(Case(t, kw, 'cjk-mode-encoding'))
    for t in TEXTS:
        for m in (None, 'byte', 'kanji', 'hanzi', 'alphanumeric'):
            cases.append(Case(t, dict(mode=m) if m else {}, 'texts'))
    cases = sweep(cases, st, res, ['c07'], want_c06=False)
    overflow_cases(cases, st, res, 'c07')
    # the most compact mode also through make_sequence: kanji text (no mode requested) split into symbols, odd character counts
    lines, info = [], []
    for t in ('漢字外', '点茗点茗点', '書読百遍義自', 'テストテスト漢', '茗荷茗'):
        for n in (2, 3):
            kw = dict(symbol_count=n)
            try:
                seq = segno.make_sequence(t, **kw)
            except Exception as ex:  # noqa
                res.violations.append(dict(property_field='c07', verdict=f'kanji-content-refused-by-make_sequence:{exc_name(ex)}', call=f'segno.make_sequence({t!r}, **{kw!r})',
                                           replay=dict(content=t, kw=kw, api='make_sequence'), known_id=None))
                continue
            res.evaluations += 1
            for q in seq:
                lines.append(f'sym id={len(lines)} m={matrix_str(q.matrix)}')
                info.append((t, kw))
    for o, (t, kw) in zip(run_lines_parallel(JUDGE, lines), info):
        kv = parse_kv(o)
        if not (kv.get('segs') or '').startswith('8:'):
            res.violations.append(dict(property_field='c07', verdict='sequence-symbol-of-kanji-content-not-in-kanji-mode:' + str(kv.get('segs')), call=f'segno.make_sequence({t!r}, **{kw!r})',
                                       replay=dict(content=t, kw=kw, api='make_sequence'), judge={k2: kv[k2] for k2 in kv if k2 not in ('cw', 'bytes')}, known_id=None))
    finish(res, cases, 'all one-byte contents in auto mode and in each requested mode; two-byte contents (quick: class-stratified, thorough: all 65536); '
           'class-stratified longer contents; Unicode texts; refusals judged by the spec; distinct by (version, level, mask, segments, end)')


RUNNERS = {'C01': run_C01, 'C02': run_C02, 'C03': run_C03, 'C04': run_C04, 'C05': run_C05, 'C06': run_C06, 'C07': run_C07,
           'C13': run_C13}
