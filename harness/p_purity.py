"""C15 — purity: deterministic, history-free, thread-safe, idempotent.

EXPLORATION part of C15 (the proof part is Props/C15.lean): history correspondence.  A pool of operations
(make / make_qr / make_micro / make_sequence / save of every kind / matrix_iter / terminal / svg_inline /
data URIs, on fresh and on shared symbols) is evaluated in two fresh single-threaded passes BEFORE any
history (forward and reverse order, they must agree) and — for the encoding operations — by the stateless
Lean model.  Then random histories (permuted, repeated operations, split over 1..8 threads with a 1 µs
switch interval) are executed; every result is compared with the reference, and deep snapshots of all
module-level state, of the arguments, of previously returned matrices and of each symbol around each
serialisation are taken.  The comparison itself is made by the Lean judge (`hist`, Spec/Purity.lean) on
digests; Python only drives and hashes."""
import copy
import gc
import hashlib
import io
import pickle
import re
import sys
import threading
import types

from core import *
from symbols import *
import p_sequence
from segno import writers, utils, helpers, cli

MODULES = {'segno': segno, 'consts': consts, 'writers': writers, 'encoder': encoder, 'utils': utils, 'helpers': helpers, 'cli': cli}


# ------------------------------------------------------------------------------------------ digests
def canon(o, depth=0):
    """order-independent canonical text of a value (dict / set order does not matter, everything else does)"""
    if depth > 12:
        return '<deep>'
    if isinstance(o, dict):
        return '{' + ','.join(sorted(canon(k, depth + 1) + ':' + canon(v, depth + 1) for k, v in o.items())) + '}'
    if isinstance(o, (set, frozenset)):
        return 'set(' + ','.join(sorted(canon(x, depth + 1) for x in o)) + ')'
    if isinstance(o, (list, tuple)):
        return type(o).__name__ + '(' + ','.join(canon(x, depth + 1) for x in o) + ')'
    if isinstance(o, (bytes, bytearray)):
        return type(o).__name__ + ':' + bytes(o).hex()
    if isinstance(o, (int, float, str, bool, type(None))):
        return type(o).__name__ + ':' + repr(o)
    if isinstance(o, re.Pattern):
        return 're:' + repr(o.pattern) + str(o.flags)
    return '<' + type(o).__name__ + '>'


def digest(x):
    if isinstance(x, str):
        x = x.encode('utf-8', 'surrogatepass')
    return hashlib.sha1(bytes(x)).hexdigest()[:20]


def matrix_digest(m):
    return digest(b'/'.join(bytes(r) for r in m))


def fast_digest(val):
    """digest of a module-level value: pickle for plain data (fast), canonical text otherwise"""
    try:
        return digest(pickle.dumps(val, protocol=4))
    except Exception:  # noqa
        return digest(canon(val))


TABLE_TYPES = (dict, list, set, frozenset, tuple, bytearray, bytes, str)


def state_snapshot():
    """(tables, other): name -> digest.  `tables` = module-level containers (the lookup tables of the library,
    judged); `other` = scalars, function defaults / caches, class attributes (reported as a note only: the property
    statement speaks about arguments, lookup tables and returned symbols)"""
    tables, other = {}, {}
    for mname, mod in MODULES.items():
        for name, val in sorted(vars(mod).items()):
            if name.startswith('__') and name not in ('__all__', '__version__'):
                continue
            key = f'{mname}.{name}'
            if isinstance(val, types.ModuleType):
                continue
            if isinstance(val, (types.FunctionType, types.BuiltinFunctionType)) or hasattr(val, '__wrapped__') or callable(val) and not isinstance(val, type):
                parts = [canon(getattr(val, '__defaults__', None)), canon(getattr(val, '__kwdefaults__', None))]
                if hasattr(val, 'cache_info'):
                    parts.append('cache:' + repr(val.cache_info()))
                d = getattr(val, '__dict__', None)
                if d:
                    parts.append(canon({k: v for k, v in d.items() if k != '__wrapped__'}))
                other[key] = digest('|'.join(parts))
            elif isinstance(val, type):
                if getattr(val, '__module__', '').startswith('segno'):
                    # (`__slotnames__` is a cache that copy / pickle of the harness itself attach to a class)
                    other[key] = digest(canon({k: v for k, v in vars(val).items()
                                               if k != '__slotnames__' and isinstance(v, (dict, list, set, tuple, bytearray, int, str, bytes, type(None)))}))
            elif isinstance(val, TABLE_TYPES):
                tables[key] = fast_digest(val)
            else:
                other[key] = fast_digest(val)
    return tables, other


def deep_state():
    """deep copies of all module-level containers (second, independent mechanism: copy.deepcopy + equality)"""
    out = {}
    for mname, mod in MODULES.items():
        for name, val in vars(mod).items():
            if isinstance(val, (dict, list, set, bytearray, tuple)) and not name.startswith('__'):
                try:
                    out[f'{mname}.{name}'] = copy.deepcopy(val)
                except Exception:  # noqa  (a dict of functions etc. still deep-copies; anything else is skipped)
                    pass
    return out


TIME_STAMPS = [re.compile(rb'/CreationDate\(D:[^)]*\)'), re.compile(rb'%%CreationDate: [^\r\n]*'), re.compile(rb'% Date:     [^\r\n]*')]


def strip_time(b):
    for p in TIME_STAMPS:
        b = p.sub(b'<time>', b)
    return b


# ------------------------------------------------------------------------------------------ operations
_BITS = bytes.maketrans(bytes(range(10)), b'0123456789')


def fast_matrix_str(matrix):
    """same text as common.matrix_str, built with bytes.translate"""
    return b'/'.join(bytes(r).translate(_BITS) for r in matrix).decode('ascii')


def enc_line(q):
    v = MICRO.get(q.version, q.version)
    e = None if q.error is None else LEVELS[q.error]
    return f'ok=1 v={v} e={opt(e)} mask={q.mask} m={fast_matrix_str(q.matrix)}'


class Op:
    """one call of the public API; `run` returns (canonical result bytes, snapshot pairs, returned symbols)"""

    def __init__(self, kind, content=None, kw=None, sym=None, ser=None, fresh=True):
        self.kind, self.content, self.kw, self.sym, self.ser, self.fresh = kind, content, kw or {}, sym, ser or {}, fresh
        self.expected = None
        self.model = None

    def describe(self):
        rc = repr(self.content)
        rc = rc if len(rc) < 120 else rc[:100] + '...'
        base = f'{self.kind}({rc}, ' + ', '.join(f'{k}={v!r}' for k, v in sorted(self.kw.items())) + ')'
        if self.sym is not None:
            base = f'shared[{self.sym}]' if not self.fresh else base
        if self.kind == 'churn':
            return f'churn: {len(self.ser["discard"])} discarded symbols of the same size, then ' + base
        if self.ser:
            base += '.' + self.ser['method'] + '(' + ', '.join(f'{k}={v!r}' for k, v in sorted(self.ser.get('kw', {}).items())) + ')'
        return base

    def symbol(self, shared):
        if not self.fresh:
            return shared[self.sym]
        fn = {'make': segno.make, 'make_qr': segno.make_qr, 'make_micro': segno.make_micro}[self.kind if self.kind.startswith('make') else 'make']
        return fn(self.content, **self.kw)

    def run(self, shared):
        snaps = []
        kept = []
        arg_before = canon(self.content) + canon(self.kw) if self.fresh else ''
        try:
            if self.kind in ('make', 'make_qr', 'make_micro'):
                q = self.symbol(shared)
                kept.append(q)
                out = enc_line(q)
            elif self.kind == 'make_sequence':
                s = segno.make_sequence(self.content, **self.kw)
                kept.extend(s)
                out = p_sequence.seq_str(s)
            elif self.kind == 'churn':
                # create and discard symbols of one size, then create the one we look at: recycled objects must not leak
                ids = set()
                for c in self.ser['discard']:
                    t = segno.make(c, **self.kw)
                    ids.add(id(t.matrix[0]))
                    del t
                q = segno.make(self.content, **self.kw)
                self.reused = id(q.matrix[0]) in ids
                kept.append(q)
                out = enc_line(q)
            else:  # a serialisation / iteration of a symbol
                q = self.symbol(shared)
                before = matrix_digest(q.matrix)
                meta_before = f'{q.version}|{q.error}|{q.mask}|{q.mode}'
                out = serialise(q, self.ser)
                snaps.append(('symbol-around-' + self.ser['method'] + '-' + str(self.ser.get('kind', '')), before, matrix_digest(q.matrix)))
                snaps.append(('symbol-metadata-around-' + self.ser['method'], digest(meta_before), digest(f'{q.version}|{q.error}|{q.mask}|{q.mode}')))
        except Exception as ex:  # noqa
            out = 'err=' + exc_name(ex)
        if self.fresh:
            snaps.append(('arguments-of-' + self.kind, digest(arg_before), digest(canon(self.content) + canon(self.kw))))
        return out, snaps, kept


def serialise(q, ser):
    method, kw = ser['method'], dict(ser.get('kw', {}))
    if method == 'save':
        buff = io.StringIO() if ser.get('text') else io.BytesIO()
        q.save(buff, kind=ser['kind'], **kw)
        v = buff.getvalue()
        return strip_time(v.encode('utf-8') if isinstance(v, str) else v)
    if method == 'matrix_iter':
        return b'/'.join(bytes(r) if not kw.get('verbose') else ','.join(map(str, r)).encode() for r in q.matrix_iter(**kw))
    if method == 'terminal':
        buff = io.StringIO()
        q.terminal(out=buff, **kw)
        return buff.getvalue()
    if method == 'svg_inline':
        return q.svg_inline(**kw)
    if method == 'svg_data_uri':
        return q.svg_data_uri(**kw)
    if method == 'png_data_uri':
        return q.png_data_uri(**kw)
    if method == 'symbol_size':
        return repr(q.symbol_size(**kw))
    raise AssertionError(method)


SAVE_KINDS = [('svg', False), ('png', False), ('eps', True), ('txt', True), ('pdf', False), ('ans', True), ('pbm', False), ('pam', False),
              ('ppm', False), ('tex', True), ('xbm', True), ('xpm', True)]
COLORS = ['#000', 'darkblue', '#ff0000', (10, 20, 30), '#abc', 'green', None]


def ser_variants(rnd):
    """a serialisation argument set"""
    r = rnd.random()
    if r < 0.62:
        kind, text = rnd.choice(SAVE_KINDS)
        kw = {}
        if rnd.random() < 0.6 and kind != 'txt':
            kw['scale'] = rnd.choice([1, 2, 3, 5] if kind in ('png', 'pbm', 'pam', 'ppm', 'xbm', 'xpm', 'ans') else [1, 2, 1.5, 4, 0.5])
        if kind == 'ans':
            kw = {}
        if rnd.random() < 0.5:
            kw['border'] = rnd.choice([0, 1, 2, 4, 7])
        if kind in ('svg', 'png', 'eps', 'pdf', 'ppm', 'pam', 'xpm') and rnd.random() < 0.6:
            kw['dark'] = rnd.choice([c for c in COLORS if c is not None])
            if rnd.random() < 0.5:
                kw['light'] = rnd.choice(COLORS if kind in ('svg', 'png', 'eps', 'pdf', 'xpm') else [c for c in COLORS if c is not None])
        if kind in ('svg', 'png', 'ppm') and rnd.random() < 0.4:
            kw[rnd.choice(['finder_dark', 'data_dark', 'data_light', 'timing_dark', 'alignment_light', 'quiet_zone', 'separator', 'dark_module'])] = \
                rnd.choice([c for c in COLORS if c is not None])
        if kind in ('svg', 'png', 'ppm') and rnd.random() < 0.4:
            # one fixed multi-colour argument set, used again and again on symbols of different size classes
            kw = dict(finder_dark='darkred', data_dark='navy', version_dark='teal', alignment_dark='gold', dark_module='lime', timing_dark='indigo')
        if kind == 'png' and rnd.random() < 0.3:
            kw['dpi'] = rnd.choice([72, 300])
        if kind == 'svg' and rnd.random() < 0.5:
            kw.update(rnd.choice([dict(xmldecl=False), dict(svgns=False, nl=False), dict(title='t', desc='d'), dict(svgclass=None, lineclass=None),
                                  dict(omitsize=True), dict(unit='mm'), dict(draw_transparent=True)]))
        if kind == 'txt' and rnd.random() < 0.5:
            kw.update(dark='X', light='.')
        if kind == 'tex' and rnd.random() < 0.5:
            kw.update(url='http://example.org/', dark='red')
        if kind in ('xbm', 'xpm') and rnd.random() < 0.5:
            kw['name'] = 'sym'
        return dict(method='save', kind=kind, text=text, kw=kw)
    if r < 0.74:
        return dict(method='matrix_iter', kw=dict(scale=rnd.choice([1, 1, 2, 3]), border=rnd.choice([None, 0, 1, 4]), verbose=False))
    if r < 0.84:
        return dict(method='matrix_iter', kw=dict(scale=rnd.choice([1, 1, 2]), border=rnd.choice([None, 0, 2]), verbose=True))
    if r < 0.90:
        return dict(method='terminal', kw=dict(border=rnd.choice([None, 0, 1]), compact=rnd.random() < 0.5))
    if r < 0.95:
        return dict(method='svg_inline', kw=rnd.choice([{}, dict(scale=3), dict(dark='darkred', light='#eee'), dict(border=0, omitsize=True)]))
    if r < 0.975:
        return dict(method='svg_data_uri', kw=rnd.choice([{}, dict(scale=2, encode_minimal=True), dict(xmldecl=True, omit_charset=True)]))
    return dict(method='png_data_uri', kw=rnd.choice([{}, dict(scale=2, dark='blue'), dict(light=None)]))


EQUAL_OPS = 6


def build_pool(rnd, tier):
    """(operations, shared symbols)"""
    quick = tier == 'quick'
    ops = []
    argsets = []
    # encoder argument sets: the symbol sweep generators (text / bytes / int / multi-part, encodings, eci, micro, boost, levels, masks)
    for c in gen_random(rnd, 70 if quick else 260):
        argsets.append(('make', c.content, c.kw))
    for v in ([-3, -2, -1, 0, 1, 2, 3, 6, 7, 10, 14] if quick else [-3, -2, -1, 0] + list(range(1, 41, 2))):
        e = rnd.choice(levels_of(v))
        mode = rnd.choice(modes_of(v))
        kw = dict(version=vname(v))
        if e is not None:
            kw['error'] = LEVEL_NAME[e]
        if rnd.random() < 0.6 or v > 8:
            kw['mask'] = rnd.randrange(4)
        if mode in (8, 13):
            kw['mode'] = MODE_NAME[mode]
        argsets.append(('make', content_for(rnd, mode, max(1, max_chars(v, e, mode) - rnd.randint(0, 3))), kw))
    for _ in range(12 if quick else 40):
        mode = rnd.choice([1, 2, 4])
        n = rnd.randint(1, 30)
        kw = {}
        if rnd.random() < 0.5:
            kw['error'] = rnd.choice('LMQ')
        argsets.append((rnd.choice(['make_qr', 'make_micro']), content_for(rnd, mode, n if mode != 4 else min(n, 12)), kw))
    # lists of parts (mutable arguments)
    for _ in range(10 if quick else 40):
        parts = [content_for(rnd, rnd.choice([1, 2, 4]), rnd.randint(1, 9)) for _ in range(rnd.randint(2, 4))]
        parts = [(p, None) if rnd.random() < 0.3 else p for p in parts]
        argsets.append(('make', parts if rnd.random() < 0.7 else tuple(parts), dict(rnd.choice([{}, {'micro': False}, {'error': 'M'}, {'boost_error': False}]))))
    # contents that compare (and hash) equal as Python values but are different contents: 1 / True / '1' / b'1', 0 / False — a memo keyed
    # by the content must not confuse them (wave 10, C15f-1); they stay together at the front of the pool (see EQUAL_OPS)
    equal = [('make', 1, {}), ('make', True, {}), ('make', 0, {}), ('make', False, {}), ('make', '1', {}), ('make', b'1', {})]
    argsets = equal + argsets
    for kind, content, kw in argsets:
        ops.append(Op(kind, content, kw))
    # sequences
    seqs = [c for c in p_sequence.gen_sequences(rnd, 'quick') if c.tag in ('by-count', 'by-version', 'both')
            and (c.kw.get('version') is None or int(c.kw['version']) <= 4)]
    for c in rnd.sample(seqs, 25 if quick else 100):
        if c.kw.get('symbol_count', 0) > 6 or len(repr(c.content)) > 700:
            continue
        ops.append(Op('make_sequence', c.content, c.kw))
    # serialisations: on fresh symbols and on shared ones
    makeable = [a for a in argsets if a[0] == 'make']
    shared = []
    for kind, content, kw in rnd.sample(makeable, 14 if quick else 40):
        try:
            shared.append(segno.make(content, **kw))
        except Exception:  # noqa
            pass
    for _ in range(110 if quick else 500):
        ser = ser_variants(rnd)
        if rnd.random() < 0.5:
            ops.append(Op('serialise', sym=rnd.randrange(len(shared)), ser=ser, fresh=False))
        else:
            kind, content, kw = rnd.choice(makeable)
            ops.append(Op('serialise', content, kw, sym=-1, ser=ser, fresh=True))
    # one fixed multi-colour argument set on fresh symbols of every size class (Micro / version < 7 / version >= 7), per colourful writer
    fixed = dict(finder_dark='darkred', data_dark='navy', version_dark='teal', alignment_dark='gold', dark_module='lime', timing_dark='indigo')
    for kind in ('png', 'svg', 'ppm'):
        for content, kw in (('123', dict(version='M2')), ('SIZE CLASS', dict(version=2, micro=False)), ('size class seven', dict(version=7)),
                            ('1', dict(version='M1')), ('x', dict(version=10))):
            ops.append(Op('serialise', content, kw, sym=-1, ser=dict(method='save', kind=kind, text=False, kw=dict(fixed)), fresh=True))
    # churn: discarded symbols of the same size before the observed one
    for _ in range(10 if quick else 40):
        v = rnd.choice([1, 2, 3, 5])
        e = rnd.choice([1, 0, 3, 2])
        kw = dict(version=v, error=LEVEL_NAME[e], mask=rnd.randrange(8), boost_error=False)
        n = max_chars(v, e, 4)
        ops.append(Op('churn', content_for(rnd, 4, rnd.randint(1, n)), kw, ser=dict(discard=[content_for(rnd, 4, rnd.randint(1, n)) for _ in range(rnd.randint(1, 4))])))
    return ops, shared


def model_request(i, op):
    if op.kind == 'make_sequence':
        return p_sequence.model_seq_line(i, p_sequence.SeqCase(op.content, op.kw))
    kw = dict(op.kw)
    if op.kind == 'make_qr':
        kw['micro'] = False
    if op.kind == 'make_micro':
        kw['micro'] = True
    return model_line(i, op.content, **kw)


# ------------------------------------------------------------------------------------------ histories
def run_history(ops, idxs, shared, nthreads, switch):
    """executes ops[idxs] split over nthreads; returns observed results, snapshot pairs, kept symbols"""
    results = [None] * len(idxs)
    snaps_all = [None] * len(idxs)
    kept_all = [None] * len(idxs)

    def worker(slots):
        for s in slots:
            out, snaps, kept = ops[idxs[s]].run(shared)
            results[s] = out
            snaps_all[s] = snaps
            kept_all[s] = [(q, matrix_digest(q.matrix)) for q in kept]
    if nthreads <= 1:
        worker(range(len(idxs)))
    else:
        old = sys.getswitchinterval()
        sys.setswitchinterval(switch)
        try:
            ts = [threading.Thread(target=worker, args=(range(t, len(idxs), nthreads),)) for t in range(nthreads)]
            for t in ts:
                t.start()
            for t in ts:
                t.join()
        finally:
            sys.setswitchinterval(old)
    return results, snaps_all, kept_all


def reencode_pairs(rnd, tier, res):
    """idempotence on the real code: the automatically configured symbol vs. the explicitly configured one"""
    quick = tier == 'quick'
    cases = list(gen_random(rnd, 600 if quick else 8000))
    cases += list(gen_boundaries(rnd, versions=[v for v in ALL_VERSIONS if v <= 12] if quick else None, frac=0.2 if quick else 1.0, micro_opts=(None, False)))
    for v in ALL_VERSIONS if not quick else [v for v in ALL_VERSIONS if v <= 16 or v % 6 == 4]:   # versions chosen automatically
        e = rnd.choice(levels_of(v))
        mode = rnd.choice(modes_of(v))
        kw = {} if e is None else {'error': LEVEL_NAME[e]}
        if mode in (8, 13):
            kw['mode'] = MODE_NAME[mode]
        if v > 10:
            kw['mask'] = rnd.randrange(8) if rnd.random() < 0.8 else None
        if v >= 1 and rnd.random() < 0.5:
            kw['micro'] = False
        cases.append(Case(content_for(rnd, mode, max(1, max_chars(v, e, mode) - rnd.randint(0, 2))), kw, 'auto-version'))
    # a global mode next to parts that carry their own mode (finding D26 lives here)
    for _ in range(12 if tier == 'quick' else 80):
        parts = [(content_for(rnd, m, rnd.randint(1, 4)), m) for m in (rnd.choice([1, 2]) for _ in range(rnd.randint(1, 2)))]
        cases.append(Case(parts, dict(mode=rnd.choice(['kanji', 'byte', 'hanzi', 'alphanumeric'])), 'global-mode-unused'))
    pairs, owners = [], []
    for c in cases:
        try:
            q = segno.make(c.content, **c.kw)
        except Exception:  # noqa
            continue
        res.evaluations += 1
        kw2 = dict(c.kw, version=q.version, error=q.error, mask=q.mask, boost_error=False)
        try:
            q2 = segno.make(c.content, **kw2)
            second = digest(enc_line(q2))
            note = ''
        except Exception as ex:  # noqa
            second = 'err-' + exc_name(ex)
            note = str(ex)[:120]
        pairs.append((digest(enc_line(q)), second))
        owners.append((c, kw2, q, note))
        res.count('reencode:auto-' + '+'.join(k for k in ('version', 'error', 'mask') if c.kw.get(k) is None))
        if c.kw.get('boost_error', True) and q.error is not None and LEVELS[q.error] != (norm_error(c.kw.get('error')) if c.kw.get('error') else 1):
            res.count('reencode:level-was-boosted')
        res.nontrivial.add(('reencode', q.version, q.error, q.mask, c.tag, type(c.content).__name__))
    return pairs, owners


def classify_reencode(c, kw2, q, note):
    """D26: a global `mode` that no part uses (every part carries its own mode) is not available in the automatically
    chosen Micro version; only the explicit-version call checks it"""
    if 'is not available in version' in note and c.kw.get('mode') is not None and c.kw.get('version') is None \
            and isinstance(c.content, (list, tuple)) and all(isinstance(p, tuple) and len(p) > 1 and p[1] for p in c.content) and q.is_micro:
        return 'D26'
    return None


_ISO_OPS, _ISO_SHARED = None, None


def _iso_run(i):
    return digest(_ISO_OPS[i].run(_ISO_SHARED)[0])


def run_C15(tier, rnd, st, res):
    quick = tier == 'quick'
    deep0 = deep_state()
    state0, other0 = state_snapshot()
    prev = state0
    ops, shared = build_pool(rnd, tier)
    shared_digests = [matrix_digest(q.matrix) for q in shared]
    # ---- stateless reference 0: every operation alone in a fresh process (forked before anything else has run here), so that
    #      state a first use leaves behind (caches keyed too coarsely, lazily filled tables) cannot hide in "both passes agree"
    global _ISO_OPS, _ISO_SHARED
    _ISO_OPS, _ISO_SHARED = ops, shared
    import multiprocessing
    with multiprocessing.get_context('fork').Pool(8, maxtasksperchild=1) as pool:
        iso = pool.map(_iso_run, range(len(ops)), chunksize=1)
    res.evaluations += len(ops)
    # ---- stateless reference: two fresh single-threaded passes before any history (forward / reverse)
    fwd = [op.run(shared)[0] for op in ops]
    bwd = [op.run(shared)[0] for op in reversed(ops)][::-1]
    for op, a in zip(ops, fwd):
        op.expected = digest(a)
        op.expected_raw = a
    lines = [f'hist id=reference exp={",".join(digest(a) for a in fwd)} obs={",".join(digest(b) for b in bwd)}']
    meta = [('reference', list(range(len(ops))), 1)]
    lines.append(f'hist id=isolated exp={",".join(iso)} obs={",".join(digest(a) for a in fwd)}')
    meta.append(('isolated-process reference vs. first pass in this process', list(range(len(ops))), 1))
    res.evaluations += 2 * len(ops)
    # ---- the Lean model as stateless reference of the encoding operations
    if st.model_ok:
        mlines, midx = [], []
        for i, op in enumerate(ops):
            if op.kind in ('make', 'make_qr', 'make_micro', 'make_sequence', 'churn'):
                try:
                    mlines.append(model_request(i, op) if op.kind != 'churn' else model_line(i, op.content, **op.kw))
                    midx.append(i)
                except Exception:  # noqa  (policy failure / malformed spelling: not modelled)
                    pass
        for i, o in zip(midx, run_lines_parallel(MODEL, mlines)):
            ops[i].model = p_sequence.strip_model(o)[0] if ops[i].kind == 'make_sequence' else (o.split(' ', 1)[1] if ' ' in o else o)
    # ---- histories
    n_hist = 300 if quick else 5000
    hist_ops = 0
    reuse = 0
    for h in range(n_hist):
        k = rnd.randint(8, 16)
        r = rnd.random()
        if r < 0.25:                                  # a permutation of a pool slice
            idxs = rnd.sample(range(len(ops)), k)
        elif r < 0.5:                                 # few operations repeated many times
            base = rnd.sample(range(len(ops)), rnd.randint(2, 4))
            idxs = [rnd.choice(base) for _ in range(k)]
        elif r < 0.75:                                # the same operations forwards and backwards
            base = rnd.sample(range(len(ops)), k // 2)
            idxs = base + base[::-1]
        else:
            idxs = [rnd.randrange(len(ops)) for _ in range(k)]
        if h < 4:                                     # the equal-but-different contents in both orders, single-threaded and threaded
            idxs = (list(range(EQUAL_OPS)) if h % 2 == 0 else list(range(EQUAL_OPS))[::-1]) + idxs[:4]
        nthreads = rnd.choice([1, 2, 2, 3, 4, 4, 8] if not quick else [1, 2, 2, 3, 4, 8])
        if h < 2:
            nthreads = 1
        results, snaps_all, kept_all = run_history(ops, idxs, shared, nthreads, 1e-6)
        hist_ops += len(idxs)
        snap = []
        after, _ = state_snapshot()                   # module-level tables before (= after the previous history) / after
        for name in sorted(set(prev) | set(after)):
            snap.append((name, prev.get(name, 'absent'), after.get(name, 'absent')))
        prev = after
        for s, ss in enumerate(snaps_all):
            for (what, a, b) in ss or []:
                snap.append((f'call-{s}-{what}', a, b))
        for s, ks in enumerate(kept_all):
            for j, (q, d) in enumerate(ks or []):
                snap.append((f'matrix-returned-by-call-{s}-{j}', d, matrix_digest(q.matrix)))
        for j, q in enumerate(shared):
            snap.append((f'shared-symbol-{j}', shared_digests[j], matrix_digest(q.matrix)))
        lines.append(f'hist id={h} exp={",".join(ops[i].expected for i in idxs)} obs={",".join(digest(x) for x in results)} '
                     + 'snap=' + ','.join(f'{n.replace(":", ";").replace(",", ";").replace(" ", "")}:{a}:{b}' for n, a, b in snap))
        meta.append((h, idxs, nthreads))
        # correspondence of the encoding results inside the history with the stateless Lean model
        for s, i in enumerate(idxs):
            op = ops[i]
            if op.model is not None:
                res.corr_checked += 1
                if results[s] != op.model:
                    res.corr_diffs.append(dict(call=op.describe(), history=h, position=s, threads=nthreads,
                                               impl=str(results[s])[:300], model=op.model[:300]))
            if op.kind == 'churn' and getattr(op, 'reused', False):
                reuse += 1
        res.count(f'threads:{nthreads}')
        res.nontrivial.add(('history', tuple(idxs), nthreads))
        del kept_all
        if h % 50 == 0:
            gc.collect()
    res.evaluations += hist_ops
    res.count('history-operations', hist_ops)
    res.count('churn-operations-with-recycled-row-object', reuse)
    for op in ops:
        res.count('pool:' + (op.kind if op.kind != 'serialise' else 'serialise-' + op.ser['method'] + '-' + op.ser.get('kind', '')))
    # ---- second mechanism for the tables: deep copies compared with == after everything
    deep1 = deep_state()
    lines.append('hist id=deepcopy exp=- obs=- snap=' + ','.join(
        f'{n}:{"same" if n in deep1 and type(deep1[n]) is type(deep0[n]) and deep1[n] == deep0[n] else "original"}:same' for n in sorted(deep0)))
    meta.append(('deepcopy', [], 1))
    final, other1 = state_snapshot()
    changed_other = sorted(n for n in set(other0) | set(other1) if other0.get(n) != other1.get(n))
    if changed_other:
        res.notes.append('module-level state that is not a table changed during the run (scalars, function defaults / caches, class attributes; '
                         'not judged, see effects_empty): ' + ', '.join(changed_other[:12]))
    lines.append('hist id=whole-run exp=- obs=- snap=' + ','.join(f'{n}:{state0.get(n, "absent")}:{final.get(n, "absent")}' for n in sorted(set(state0) | set(final))))
    meta.append(('whole-run', [], 1))
    # ---- idempotence on the real code
    pairs, owners = reencode_pairs(rnd, tier, res)
    if st.judge_ok:
        outs = run_lines_parallel(JUDGE, lines)
        for (h, idxs, nthreads), o in zip(meta, outs):
            kv = parse_kv(o)
            verdict = kv.get('c15', 'missing')
            if verdict == 'ok':
                continue
            detail = {}
            m = re.match(r'result-(\d+)-differs', verdict)
            if m and idxs:
                op = ops[idxs[int(m.group(1))]]
                detail = dict(operation=op.describe(), expected=str(op.expected_raw)[:200])
            res.violations.append(dict(property_field='c15', verdict=verdict, call=f'history {h} ({nthreads} threads): ' +
                                       ' ; '.join(ops[i].describe()[:160] for i in idxs[:16]), replay=dict(history=h, threads=nthreads,
                                       operations=[ops[i].describe() for i in idxs], seed_note='rerun with the same VERIF_SEED'),
                                       judge=kv, detail=detail, known_id=None))
        # one judge request per re-encoded pair so that each failing call is reported and classified on its own
        outs = run_lines_parallel(JUDGE, [f'hist id=r{i} exp=- obs=- reenc={a}:{b}' for i, (a, b) in enumerate(pairs)])
        for (c, kw2, q, note), o in zip(owners, outs):
            kv = parse_kv(o)
            if kv.get('c15') != 'ok':
                res.violations.append(dict(property_field='c15', verdict=f'{kv.get("c15")}:{note or "matrix differs"}',
                                           call=c.call() + '  then  segno.make(<same content>, ' + ', '.join(f'{k}={v!r}' for k, v in sorted(kw2.items())) + ')',
                                           replay=dict(c.replay(), kw2=kw2), judge=kv, known_id=classify_reencode(c, kw2, q, note)))
    res.rule = ('EXPLORATION: pool of operations (make/make_qr/make_micro/make_sequence, save of all 12 kinds to BytesIO/StringIO, matrix_iter plain/verbose, '
                'terminal, svg_inline, data URIs; on fresh and on shared symbols; create-and-discard churn) evaluated twice single-threaded before the '
                'histories (reference) and by the Lean model; 300 (quick) / 5000 histories of 8..16 operations (permutation / repetition / palindrome / random) '
                'over 1..8 threads with switch interval 1e-6; module state, arguments, returned matrices, symbols around serialisation snapshotted; '
                're-encoding with the chosen version/level/mask on the real code; distinct non-trivial = distinct (history, thread count) + distinct re-encoded symbol shapes')
    for h, idxs, nthreads in meta[1:4]:
        res.samples.append(dict(history=h, threads=nthreads, operations=[ops[i].describe()[:100] for i in idxs[:4]]))
    res.notes.append('C15 is labelled partial: reencode_idempotent / effects_empty are proofs; history-freedom and thread-safety of the implementation are explored, not proved')


RUNNERS = {'C15': run_C15}
