"""Correspondence (Tie B) of C09 / C11: the same calls sent to the Lean `model` executable (Model/Iter.lean,
Model/Colormap.lean, Model/Png.lean); outputs canonicalised (grid rows / raster bytes / text / PNG chunk contents) and
compared."""
import re
import struct
from raster import *

WHITE = ('#fff', 'white', 'WHITE', (255, 255, 255), '#FFFFFF', '#ffffff')
BLACK = ('#000', 'black', (0, 0, 0), '#000000')


def _sb(c):
    f = []
    if 'scale' in c.kw:
        f.append('scale=' + dec_token(c.kw['scale']))
    if 'border' in c.kw:
        f.append('border=' + dec_token(c.kw['border']))
    return ' '.join(f)


def _run(lines):
    from p_raster import run_balanced
    return run_balanced(MODEL, lines)


def _compare(pairs, res):
    """pairs: (case, model request line, canonical implementation output)"""
    outs = _run([p[1] for p in pairs])
    for (c, line, impl), o in zip(pairs, outs):
        model = o.split(' ', 1)[1] if ' ' in o else o
        res.corr_checked += 1
        if model != impl:
            k = next((i for i, (a, b) in enumerate(zip(model, impl)) if a != b), min(len(model), len(impl)))
            res.corr_diffs.append(dict(call=c.call(), replay=c.replay(), first_difference_at=k, impl=impl[max(0, k - 40):k + 80],
                                       model=model[max(0, k - 40):k + 80]))


def correspond_c11(cases, st, res):
    if not st.model_ok:
        return
    pairs = []
    for i, c in enumerate(cases):
        if c.fmt not in ('iter', 'iterv'):
            continue
        line = f'{c.fmt} id={i} m={matrix_str(c.q.matrix)} {_sb(c)}'
        if c.outcome != 'ok':
            impl = f'err={c.outcome}'
        elif c.fmt == 'iter':
            impl = 'ok=1 rows=' + '/'.join(''.join(chr(48 + x) for x in row) for row in c.data)
        else:
            impl = 'ok=1 rows=' + '/'.join(','.join(str(int(x)) for x in row) for row in c.data)
        pairs.append((c, line, impl))
    _compare(pairs, res)


def correspond_c09(cases, st, res):
    if not st.model_ok:
        return
    pairs = []
    for i, c in enumerate(cases):
        kw = c.kw
        fmt = None
        extra = ''
        if c.fmt == 'pbm':
            fmt = 'pbm-plain' if kw.get('plain') else 'pbm'
        elif c.fmt == 'xbm':
            fmt = 'xbm'
        elif c.fmt in ('ans', 'ans-terminal'):
            fmt = 'ans'
        elif c.fmt == 'compact':
            fmt = 'compact'
        elif c.fmt == 'txt':
            fmt = 'txt'
            if 'dark' in kw:
                extra += ' tdark=' + str(kw['dark']).encode('utf-8').hex()
            if 'light' in kw:
                extra += ' tlight=' + str(kw['light']).encode('utf-8').hex()
        elif c.fmt == 'png' and not any(k in kw for k in TYPE_OPTIONS):
            if 'dark' not in kw and 'light' not in kw:
                fmt = 'png-grey'
            elif kw.get('dark') in WHITE and kw.get('light') in BLACK:
                fmt, extra = 'png-grey', ' inv=1'
        if fmt is None:
            continue
        line = f'pack id={i} fmt={fmt} m={matrix_str(c.q.matrix)} {_sb(c)}{extra}'
        if c.outcome != 'ok':
            impl = f'err={c.outcome}'
        else:
            try:
                if fmt in ('pbm', 'pbm-plain'):
                    raw = c.data.split(b'\n', 3)[3]            # magic, comment, dimensions, raster
                elif fmt == 'xbm':
                    raw = bytes(int(x, 16) for x in re.findall(r'0x([0-9a-fA-F]{2})', c.data.split('{', 1)[1]))
                elif fmt == 'png-grey':
                    raw = png_idat(c.data)
                else:
                    raw = c.data.encode('utf-8')
                impl = 'ok=1 bytes=' + raw.hex()
            except Exception as ex:  # noqa
                impl = f'unparsable {ex!r}'
        pairs.append((c, line, impl))
    _compare(pairs, res)


# ------------------------------------------------------------------------------ PNG / PPM with all colour options

def colour_fields(kw):
    """the colour keywords as request tokens; None if one of them cannot be expressed in the protocol"""
    f = []
    for k in ('dark', 'light'):
        if k in kw:
            f.append(f'{k}={col_token(kw[k])}')
    for k in TYPE_OPTIONS:
        if k in kw and kw[k] is not False:
            f.append(f'o.{k}={col_token(kw[k])}')
    if any('=x:' in t for t in f):
        return None
    return f


def png_fields(data):
    """container parsing of the real file: IHDR fields, contents of PLTE and tRNS, the inflated IDAT stream"""
    if data[:8] != b'\x89PNG\r\n\x1a\n':
        return 'unparsable signature'
    pos, chunks = 8, {}
    while pos + 12 <= len(data):
        ln = struct.unpack('>I', data[pos:pos + 4])[0]
        name = data[pos + 4:pos + 8].decode('latin-1')
        if name != 'IDAT':
            if name in chunks:
                return 'unparsable duplicate chunk ' + name
            chunks[name] = data[pos + 8:pos + 8 + ln]
        pos += 12 + ln
    raw = png_idat(data)
    if raw is None or 'IHDR' not in chunks or len(chunks['IHDR']) != 13:
        return 'unparsable IHDR / IDAT'
    w, h, depth, ctype, cm, fm, il = struct.unpack('>2I5B', chunks['IHDR'])
    if (cm, fm, il) != (0, 0, 0):
        return f'unparsable methods {cm} {fm} {il}'
    return (f'ok=1 w={w} h={h} depth={depth} ctype={ctype} plte={chunks.get("PLTE", b"").hex() or "-"} '
            f'trns={chunks.get("tRNS", b"").hex() or "-"} idat={raw.hex()}')


def _ptuple(t):
    return (-1, -1, -1, -1) if t == 'T' else tuple(int(x) for x in t.split('.'))


def _ptoken(c):
    return 'T' if c == (-1, -1, -1, -1) else '.'.join(str(x) for x in c)


def _field_diff(impl, model):
    a, b = parse_kv(impl), parse_kv(model)
    for k in ('err', 'ok', 'w', 'h', 'depth', 'ctype', 'plte', 'trns', 'idat', 'bytes'):
        if a.get(k) != b.get(k):
            x, y = a.get(k) or '', b.get(k) or ''
            j = next((i for i, (p, q) in enumerate(zip(x, y)) if p != q), min(len(x), len(y)))
            return k, j, x[max(0, j - 40):j + 80], y[max(0, j - 40):j + 80]
    return 'other', 0, impl[:120], model[:120]


def png_extra_cases(rnd, syms, tier):
    """calls for the correspondence only (the judge stream is unchanged): corners of the palette assembly and of
    `_make_colormap` that the judged generators reach rarely or never"""
    cases = []

    def add(v, fmt, kw, tag):
        q, mk = syms.get(v, 0)
        cases.append(RCase(v, q, mk, fmt, kw, 'extra:' + tag))

    def sb(kw, n):
        s, b = pick_scale_border(rnd, n, 300)
        return add_sb(kw, s, b, rnd)
    reps = 1 if tier == 'quick' else 4
    # the versions on both sides of every size class boundary of _make_colormap (M4 | 1: 17 | 21 modules, 6 | 7: 41 | 45)
    for v in (0, 1, 6, 7):
        for opt in ('version_dark', 'version_light', 'alignment_dark', 'alignment_light', 'dark_module'):
            add(v, 'png', {opt: rnd.choice(['red', '#00f', (1, 2, 3), (9, 9, 9, 9)])}, 'size-class-boundary')
    for _ in range(reps):
        vs = [rnd.choice([-3, -2, -1, 0]), rnd.choice([1, 2, 3, 6]), rnd.choice([7, 8, 10]), rnd.choice(ALL_VERSIONS)]
        for v in vs:
            n = 17 + 4 * v if v > 0 else 9 + 2 * (v + 4)
            # a colour map without any colour (the stand-in selection looks at palette[1])
            add(v, 'png', sb(dict(dark=None, light=None), n), 'all-transparent')
            add(v, 'png', sb({k: None for k in TYPE_OPTIONS}, n), 'all-transparent')
            # two colours with the same R, G, B and different alpha: their order in the palette is the order of the set
            rgb = (rnd.randrange(256), rnd.randrange(256), rnd.randrange(256))
            a1, a2, a3 = rnd.sample([0, 1, 7, 64, 100, 128, 200, 254], 3)
            add(v, 'png', sb(dict(dark=rgb + (a1,), light=rgb + (a2,)), n), 'alpha-tie')
            add(v, 'png', sb(dict(dark=rgb + (a1,), light=rgb, data_dark=rgb + (a2,), finder_dark=rgb + (a3,), quiet_zone=rnd.choice([None, 'white'])), n),
                'alpha-tie')
            # float alpha values, the five arguments whose product with 255 ends in .5 included
            for a in (0.1, 0.3, 0.5, 0.7, 0.9, rnd.randrange(1001) / 1000, 1.0, 0.0, 0.998, 0.002):
                add(v, 'png', dict(dark=(rnd.randrange(256), rnd.randrange(256), rnd.randrange(256), a), scale=rnd.randint(1, 2)), 'float-alpha')
            # options for module types the size class does not have (dropped keys): colours, None, unreadable colours
            for opt in ('version_dark', 'version_light', 'alignment_dark', 'alignment_light', 'dark_module'):
                add(v, 'png', sb({opt: rnd.choice(['red', '#00f', (1, 2, 3), (9, 9, 9, 9), None])}, n), 'maybe-dropped-key')
                add(v, 'png', {opt: rnd.choice(['nocolor', '#12', (300, 0, 0), (0, 0)])}, 'maybe-dropped-key-unreadable')
                add(v, 'ppm', {opt: rnd.choice(['red', '#00f', (1, 2, 3), None, 'nocolor', (1, 2, 3, 4)])}, 'maybe-dropped-key')
            # number of colours around the bit depth boundaries (2 | 3, 4 | 5) and the maximum (15)
            for cnt in (1, 2, 3, 4, 14):
                opts = rnd.sample(TYPE_OPTIONS, cnt)
                cols = rnd.sample(NAMES[:2] + NAMES[3:], cnt)
                add(v, 'png', sb(dict(zip(opts, cols)), n), f'count-{cnt}')
            # a transparent type and the first colours of the CSS table as RGB / as RGBA with alpha 0 and others
            first = [(240, 248, 255), (250, 235, 215), (0, 255, 255), (127, 255, 212), (240, 255, 255)]
            kw = dict(light=None, dark=rnd.choice(first))
            for opt, c in zip(rnd.sample(TYPE_OPTIONS[:12], 4), rnd.sample(first, 4)):
                kw[opt] = c + (rnd.choice([0, 0, 5]),) if rnd.random() < 0.6 else c
            add(v, 'png', sb(kw, n), 'stand-in')
            # two-tone maps built from options (cheap iterator) and nearly two-tone maps (verbose iterator)
            c1, c2 = rnd.sample(NAMES, 2)
            dk = [o for o in TYPE_OPTIONS if o.endswith('dark') or o == 'dark_module']
            lt = [o for o in TYPE_OPTIONS if o not in dk]
            add(v, 'png', sb({**{o: c1 for o in dk}, **{o: c2 for o in lt}}, n), 'two-tone-by-options')
            skip = rnd.choice(dk)
            add(v, 'png', sb({**{o: c1 for o in dk if o != skip}, **{o: c2 for o in lt}, 'dark': c2}, n), 'two-colours-not-two-tone')
            add(v, 'png', sb({**{o: 'black' for o in dk if o != skip}, 'light': None}, n), 'grey-transparent-by-options')
            add(v, 'png', sb({rnd.choice(lt): 'black'}, n), 'grey-not-two-tone')
            # PPM: colours with an alpha value that counts as opaque / does not
            for col in ((1, 2, 3, 255), (1, 2, 3, 254), (1, 2, 3, 253), (1, 2, 3, 1.0), (1, 2, 3, 0.999), '#010203ff', '#010203fe', '#010203fd', '#123f', '#123e'):
                add(v, 'ppm', dict(dark=col), 'ppm-alpha')
    return cases


def correspond_png(cases, st, res, rnd=None, syms=None, tier='quick'):
    """every PNG (and PPM) call of the generators + the extra stream: IHDR fields, PLTE, tRNS and the inflated IDAT of
    the real file against the model's, byte for byte"""
    if not st.model_ok:
        return
    cases = [c for c in cases if c.fmt in ('png', 'ppm')]
    if rnd is not None:
        extra = png_extra_cases(rnd, syms, tier)
        for c in extra:
            execute(c)
            res.count('tag:' + c.tag)
            res.count('corr-extra-outcome:' + c.outcome)
        cases = cases + extra
    todo = []
    for i, c in enumerate(cases):
        cf = colour_fields(c.kw)
        if cf is None:
            res.count('png-correspondence-skipped:colour-not-expressible')
            continue
        line = f'{c.fmt} id={i} m={matrix_str(c.q.matrix)} {_sb(c)} {" ".join(cf)}'
        if c.outcome != 'ok':
            impl = f'err={c.outcome}'
        elif c.fmt == 'png':
            impl = png_fields(c.data)
        else:
            try:
                head = re.match(rb'P6 #[^\n]*\n(\d+) (\d+) 255\n', c.data)
                impl = 'ok=1 bytes=' + c.data[head.end():].hex()
            except Exception as ex:  # noqa
                impl = f'unparsable {ex!r}'
        todo.append((c, line, impl))
    outs = _run([t[1] for t in todo])
    # the iteration order of a Python set is a runtime service: where it shows (the model says so), the model is
    # asked again with the order `set` gives to the model's own colour values
    again = []
    for k, ((c, line, impl), o) in enumerate(zip(todo, outs)):
        kv = parse_kv(o)
        if kv.get('tie') == '1':
            vals = [_ptuple(t) for t in kv['vals'].split(';')]
            again.append((k, line + ' setorder=' + ';'.join(_ptoken(x) for x in set(vals))))
            res.count('png-correspondence:set-order-supplied')
    if again:
        for (k, _), o in zip(again, _run([a[1] for a in again])):
            outs[k] = o
    for (c, line, impl), o in zip(todo, outs):
        model = o.split(' ', 1)[1] if ' ' in o else o
        # enc.exc_name reports IndexError / KeyError of the real code under their common base class
        model = re.sub(r'^err=(IndexError|KeyError)$', 'err=LookupError', model)
        res.corr_checked += 1
        res.count(f'png-correspondence:{c.fmt}:' + ('refusal' if c.outcome != 'ok' else 'file'))
        if model != impl:
            fld, j, x, y = _field_diff(impl, model)
            res.corr_diffs.append(dict(call=c.call(), replay=c.replay(), field=fld, first_difference_at=j, impl=x, model=y))
