"""Correspondence (Tie B) of C09 / C11: the same calls sent to the Lean `model` executable (Model/Iter.lean);
outputs canonicalised (grid rows / raster bytes / text) and compared."""
import re
from raster import *

WHITE = ('#fff', 'white', 'WHITE', (255, 255, 255), '#FFFFFF', '#ffffff')
BLACK = ('#000', 'black', (0, 0, 0), '#000000')


def _sb(c):
    f = []
    if 'scale' in c.kw:
        f.append('scale=' + dec_token(c.kw['scale']))
    if 'border' in c.kw:
        f.append('border=' + dec_token(c.kw['border']))
    return ' '.join(f)


def _run(lines):
    from p_raster import run_balanced
    return run_balanced(MODEL, lines)


def _compare(pairs, res):
    """pairs: (case, model request line, canonical implementation output)"""
    outs = _run([p[1] for p in pairs])
    for (c, line, impl), o in zip(pairs, outs):
        model = o.split(' ', 1)[1] if ' ' in o else o
        res.corr_checked += 1
        if model != impl:
            k = next((i for i, (a, b) in enumerate(zip(model, impl)) if a != b), min(len(model), len(impl)))
            res.corr_diffs.append(dict(call=c.call(), replay=c.replay(), first_difference_at=k, impl=impl[max(0, k - 40):k + 80],
                                       model=model[max(0, k - 40):k + 80]))


def correspond_c11(cases, st, res):
    if not st.model_ok:
        return
    pairs = []
    for i, c in enumerate(cases):
        if c.fmt not in ('iter', 'iterv'):
            continue
        line = f'{c.fmt} id={i} m={matrix_str(c.q.matrix)} {_sb(c)}'
        if c.outcome != 'ok':
            impl = f'err={c.outcome}'
        elif c.fmt == 'iter':
            impl = 'ok=1 rows=' + '/'.join(''.join(chr(48 + x) for x in row) for row in c.data)
        else:
            impl = 'ok=1 rows=' + '/'.join(','.join(str(int(x)) for x in row) for row in c.data)
        pairs.append((c, line, impl))
    _compare(pairs, res)


def correspond_c09(cases, st, res):
    if not st.model_ok:
        return
    pairs = []
    for i, c in enumerate(cases):
        kw = c.kw
        fmt = None
        extra = ''
        if c.fmt == 'pbm':
            fmt = 'pbm-plain' if kw.get('plain') else 'pbm'
        elif c.fmt == 'xbm':
            fmt = 'xbm'
        elif c.fmt in ('ans', 'ans-terminal'):
            fmt = 'ans'
        elif c.fmt == 'compact':
            fmt = 'compact'
        elif c.fmt == 'txt':
            fmt = 'txt'
            if 'dark' in kw:
                extra += ' tdark=' + str(kw['dark']).encode('utf-8').hex()
            if 'light' in kw:
                extra += ' tlight=' + str(kw['light']).encode('utf-8').hex()
        elif c.fmt == 'png' and not any(k in kw for k in TYPE_OPTIONS):
            if 'dark' not in kw and 'light' not in kw:
                fmt = 'png-grey'
            elif kw.get('dark') in WHITE and kw.get('light') in BLACK:
                fmt, extra = 'png-grey', ' inv=1'
        if fmt is None:
            continue
        line = f'pack id={i} fmt={fmt} m={matrix_str(c.q.matrix)} {_sb(c)}{extra}'
        if c.outcome != 'ok':
            impl = f'err={c.outcome}'
        else:
            try:
                if fmt in ('pbm', 'pbm-plain'):
                    raw = c.data.split(b'\n', 3)[3]            # magic, comment, dimensions, raster
                elif fmt == 'xbm':
                    raw = bytes(int(x, 16) for x in re.findall(r'0x([0-9a-fA-F]{2})', c.data.split('{', 1)[1]))
                elif fmt == 'png-grey':
                    raw = png_idat(c.data)
                else:
                    raw = c.data.encode('utf-8')
                impl = 'ok=1 bytes=' + raw.hex()
            except Exception as ex:  # noqa
                impl = f'unparsable {ex!r}'
        pairs.append((c, line, impl))
    _compare(pairs, res)
