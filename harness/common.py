"""Shared harness code: calls the real segno in-process (from /repo's working tree), talks to the
Lean executables (`judge`, `model`) through a line protocol, writes evidence / replay files."""
import os, sys, json, subprocess, time, hashlib, random

VERIF = os.path.dirname(os.path.dirname(os.path.abspath(__file__)))
REPO = os.environ.get('SEGNO_REPO', '/repo')
if REPO not in sys.path:
    sys.path.insert(0, REPO)
LEAN = os.environ.get('SEGNO_VERIF_LEAN', os.path.join(VERIF, 'lean'))
JUDGE = os.path.join(LEAN, '.lake', 'build', 'bin', 'judge')
MODEL = os.path.join(LEAN, '.lake', 'build', 'bin', 'model')


def matrix_str(matrix):
    return '/'.join(''.join(chr(48 + b) for b in row) for row in matrix)


def run_lines(exe, lines, timeout=3000):
    """Pipes `lines` to `exe`; returns the list of output lines (one per input line)."""
    if not lines:
        return []
    data = ('\n'.join(lines) + '\n').encode('utf-8')
    p = subprocess.run([exe], input=data, stdout=subprocess.PIPE, stderr=subprocess.PIPE, timeout=timeout)
    if p.returncode != 0:
        raise RuntimeError(f'{exe} failed: rc={p.returncode} {p.stderr[-2000:]!r}')
    out = p.stdout.decode('utf-8').split('\n')
    if out and out[-1] == '':
        out.pop()
    if len(out) != len(lines):
        raise RuntimeError(f'{exe}: {len(lines)} requests but {len(out)} answers')
    return out


def run_lines_parallel(exe, lines, jobs=None, timeout=3000):
    jobs = jobs or min(16, max(1, len(lines) // 50))
    if jobs <= 1:
        return run_lines(exe, lines, timeout)
    from concurrent.futures import ThreadPoolExecutor
    n = len(lines)
    step = (n + jobs - 1) // jobs
    parts = [lines[i:i + step] for i in range(0, n, step)]
    with ThreadPoolExecutor(len(parts)) as ex:
        res = list(ex.map(lambda p: run_lines(exe, p, timeout), parts))
    return [x for r in res for x in r]


def parse_kv(line):
    d = {}
    for tok in line.split(' '):
        if '=' in tok:
            k, v = tok.split('=', 1)
            d[k] = v
    return d


def hexs(b):
    return bytes(b).hex()
