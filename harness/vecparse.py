"""Container parsing for the vector outputs (C10): SVG (XML), EPS (PostScript tokens), PDF (objects,
xref, inflate, content tokens), TeX (PGF macros).  No property logic here: the functions only split
the documents into tokens / attribute strings; numbers stay the decimal strings the writer printed.
Everything is turned into `key=value` fields of a judge request (see lean/Spec/Vector.lean)."""
import re
import zlib
import xml.etree.ElementTree as ET

NUM = r'[-+]?(?:\d+\.?\d*|\.\d+)(?:[eE][-+]?\d+)?'


class ParseError(Exception):
    """the document is not even a well-formed container (reported as a violation: 'well-formed documents')"""


def esc(s):
    return ''.join(c if c not in ' %|;\t\r\n' and 32 < ord(c) < 127 else ''.join('%%%02x' % b for b in c.encode('utf-8')) for c in s)


def hexs(s):
    return s.encode('utf-8').hex()


# ----------------------------------------------------------------------------------------------- SVG
_PATH_TOK = re.compile(r'\s*(?:,\s*)?([A-Za-z]|' + NUM + r')')


def path_tokens(d):
    toks, pos = [], 0
    d = d.strip()
    while pos < len(d):
        m = _PATH_TOK.match(d, pos)
        if not m:
            toks.append('?' + hexs(d[pos:pos + 12]))
            break
        toks.append(m.group(1))
        pos = m.end()
    return toks


def transform_tokens(t):
    out, pos = [], 0
    t = t.strip()
    for m in re.finditer(r'\s*,?\s*([A-Za-z]+)\s*\(([^)]*)\)', t):
        if m.start() != pos:
            out.append('garbage:' + hexs(t[pos:m.start()]))
        args = [a for a in re.split(r'[\s,]+', m.group(2).strip()) if a]
        out.append(':'.join([m.group(1)] + args))
        pos = m.end()
    if pos != len(t):
        out.append('garbage:' + hexs(t[pos:]))
    return out


def local(tag):
    return tag.rsplit('}', 1)[-1]


def parse_svg(data):
    """bytes -> dict of judge fields"""
    try:
        root = ET.fromstring(data)
    except ET.ParseError as ex:
        raise ParseError(f'xml: {ex}')
    if local(root.tag) != 'svg':
        raise ParseError(f'root element {root.tag}')
    f = dict(w=esc(root.get('width', '-')) or '-', h=esc(root.get('height', '-')) or '-')
    vb = root.get('viewBox')
    f['vb'] = ','.join(re.split(r'[\s,]+', vb.strip())) if vb is not None else '-'
    f['ns'] = '1' if root.tag.startswith('{http://www.w3.org/2000/svg}') else '0'
    f['version'] = esc(root.get('version', '-'))
    els = []
    title = desc = None
    other = []

    def walk(el, xfs):
        nonlocal title, desc
        for ch in el:
            name = local(ch.tag)
            if name == 'g':
                walk(ch, xfs + transform_tokens(ch.get('transform', '')))
            elif name == 'path':
                a = []
                for k, key in (('stroke', 'stroke'), ('stroke-opacity', 'so'), ('fill', 'fill'), ('fill-opacity', 'fo'),
                               ('stroke-width', 'sw')):
                    if ch.get(k) is not None:
                        a.append(f'{key}:{esc(ch.get(k))}')
                x = xfs + transform_tokens(ch.get('transform', ''))
                if x:
                    a.append('xf:' + '/'.join(x))
                a.append('d:' + ','.join(path_tokens(ch.get('d', ''))))
                els.append('|'.join(a))
            elif name == 'title' and el is root:
                title = ch.text or ''
            elif name == 'desc' and el is root:
                desc = ch.text or ''
            else:
                other.append(name)
    walk(root, [])
    f['els'] = ';'.join(els) or '-'
    f['title'] = '-' if title is None else 'x' + hexs(title)
    f['desc'] = '-' if desc is None else 'x' + hexs(desc)
    f['other'] = ','.join(other) or '-'
    return f


# ----------------------------------------------------------------------------------------------- EPS
def parse_eps(text):
    lines = text.split('\n')
    f = dict(magic='1' if lines and lines[0].startswith('%!PS-Adobe-') and 'EPSF-' in lines[0] else '0', bb='-', hbb='-')
    prog = []
    for ln in lines:
        if ln.startswith('%'):
            m = re.match(r'%%(HiRes)?BoundingBox:\s*(.*)$', ln)
            if m:
                f['hbb' if m.group(1) else 'bb'] = ','.join(m.group(2).split())
            continue
        ln = ln.split('%', 1)[0]          # PostScript comment (the writer emits no strings)
        prog += re.findall(r'[{}\[\]]|[^\s{}\[\]]+', ln)
    f['prog'] = ','.join(esc(t).replace(',', '%2c') for t in prog) or '-'
    f['eof'] = '1' if text.rstrip('\n').endswith('%%EOF') else '0'
    return f


# ----------------------------------------------------------------------------------------------- PDF
_OBJ = re.compile(rb'(\d+) (\d+) obj\b')


def _dict_end(data, pos):
    """index just after the `>>` that closes the `<<` at pos"""
    depth, i = 0, pos
    while i < len(data) - 1:
        two = data[i:i + 2]
        if two == b'<<':
            depth += 1
            i += 2
        elif two == b'>>':
            depth -= 1
            i += 2
            if depth == 0:
                return i
        elif data[i:i + 1] == b'(':
            j = data.find(b')', i)
            i = j + 1 if j >= 0 else i + 1
        else:
            i += 1
    raise ParseError('unterminated dictionary')


def parse_pdf(data):
    if not data.startswith(b'%PDF-'):
        raise ParseError('no %PDF- header')
    f = {}
    objs = {}          # num -> (offset, dict bytes, stream bytes or None)
    pos = 0
    xrefpos = None
    while True:
        m = re.compile(rb'(\d+) (\d+) obj\b|xref\b').search(data, pos)
        if not m:
            break
        if m.group(0) == b'xref':
            if data[max(0, m.start() - 5):m.start()] == b'start':
                pos = m.end()
                continue
            xrefpos = m.start()
            break
        num = int(m.group(1))
        p = m.end()
        while data[p:p + 1] in b' \r\n\t' and p < len(data):
            p += 1
        dct, stream = b'', None
        if data[p:p + 2] == b'<<':
            e = _dict_end(data, p)
            dct = data[p:e]
            p = e
            q = p
            while data[q:q + 1] in b' \r\n\t' and q < len(data):
                q += 1
            if data[q:q + 6] == b'stream':
                s = q + 6
                if data[s:s + 2] == b'\r\n':
                    s += 2
                elif data[s:s + 1] == b'\n':
                    s += 1
                else:
                    raise ParseError('stream keyword not followed by EOL')
                e2 = data.find(b'endstream', s)
                if e2 < 0:
                    raise ParseError('no endstream')
                t = e2
                if data[t - 2:t] == b'\r\n':
                    t -= 2
                elif data[t - 1:t] in (b'\n', b'\r'):
                    t -= 1
                stream = data[s:t]
                p = e2 + 9
        if num in objs:
            raise ParseError(f'object {num} defined twice')
        objs[num] = (m.start(), dct, stream)
        pos = p
    f['objs'] = ','.join(f'{n}:{o[0]}' for n, o in sorted(objs.items())) or '-'
    f['xrefpos'] = '-' if xrefpos is None else str(xrefpos)
    # cross-reference table
    f['xref'], f['xfirst'], f['xcount'] = '-', '0', '-'
    if xrefpos is not None:
        m = re.compile(rb'xref\s+(\d+) (\d+)\s*\r?\n').match(data, xrefpos)
        if m:
            f['xfirst'], f['xcount'] = m.group(1).decode(), m.group(2).decode()
            ents = re.compile(rb'(\d{10}) (\d{5}) ([nf])[ \r]?[\r\n]').findall(data, m.end())
            # only the entries that directly follow the header
            body = data[m.end():]
            k = 0
            while re.compile(rb'\d{10} \d{5} [nf][ \r]?[\r\n]').match(body, 20 * k):
                k += 1
            ents = ents[:k]
            f['xref'] = ','.join(f'{int(a)}:{int(b)}:{c.decode()}' for a, b, c in ents) or '-'
    m = re.search(rb'startxref\s+(\d+)\s+%%EOF\s*$', data)
    f['startxref'] = m.group(1).decode() if m else '-'
    m = re.search(rb'trailer\s*<<(.*?)>>', data[xrefpos or 0:], re.S)
    tr = m.group(1) if m else b''
    m = re.search(rb'/Size (\d+)', tr)
    f['size'] = m.group(1).decode() if m else '-'
    m = re.search(rb'/Root (\d+) 0 R', tr)
    root = int(m.group(1)) if m else None
    # catalog -> pages -> page -> contents
    page = None
    for n, (off, dct, st) in objs.items():
        if re.search(rb'/Type\s*/Page\b', dct):
            page = (n, dct)
    f['mediabox'], f['length'], f['streamlen'], f['content'] = '-', '-', '-', '-'
    f['rootok'] = '1' if root in objs and re.search(rb'/Type\s*/Catalog\b', objs[root][1]) else '0'
    if page:
        m = re.search(rb'/MediaBox\s*\[([^\]]*)\]', page[1])
        if m:
            f['mediabox'] = ','.join(m.group(1).decode('latin-1').split())
        m = re.search(rb'/Contents (\d+) 0 R', page[1])
        if m and int(m.group(1)) in objs:
            off, dct, st = objs[int(m.group(1))]
            m = re.search(rb'/Length (\d+)', dct)
            if m:
                f['length'] = m.group(1).decode()
            if st is not None:
                f['streamlen'] = str(len(st))
                raw = st
                if re.search(rb'/Filter\s*/FlateDecode', dct):
                    try:
                        raw = zlib.decompress(st)
                    except zlib.error as ex:
                        raise ParseError(f'content stream does not inflate: {ex}')
                f['content'] = ','.join(esc(t).replace(',', '%2c') for t in raw.decode('latin-1').split()) or '-'
    return f


# ----------------------------------------------------------------------------------------------- TeX
_TEX = re.compile(r'\s*(?:'
                  r'\\pgfsetlinewidth\{([^{}]*)\}'
                  r'|\\color\{([^{}]*)\}'
                  r'|\\pgfpathmoveto\{\\pgfqpoint\{([^{}]*)\}\{([^{}]*)\}\}'
                  r'|\\pgfpathlineto\{\\pgfqpoint\{([^{}]*)\}\{([^{}]*)\}\}'
                  r'|\\pgfusepath\{([^{}]*)\})')


def parse_tex(text):
    f = {}
    b = text.find('\\begin{pgfpicture}')
    e = text.rfind('\\end{pgfpicture}')
    if b < 0 or e < b:
        raise ParseError('no pgfpicture environment')
    head = text[:b]
    head_lines = [ln for ln in head.split('\n') if not ln.startswith('%')]
    head_rest = '\n'.join(head_lines).strip()
    m = re.fullmatch(r'\\href\{(.*)\}\{', head_rest, re.S)
    f['href'] = 'x' + hexs(m.group(1)) if m else '-'
    tail = text[e + len('\\end{pgfpicture}'):].strip()
    f['wrap'] = '1' if (m and tail == '}') or (not m and head_rest == '' and tail == '') else '0'
    body = text[b + len('\\begin{pgfpicture}'):e]
    cmds, pos = ['begin'], 0
    while True:
        m = _TEX.match(body, pos)
        if not m:
            break
        lw, col, mx, my, lx, ly, use = m.groups()
        if lw is not None:
            cmds.append('lw:' + esc(lw))
        elif col is not None:
            cmds.append('color:' + hexs(col))
        elif mx is not None:
            cmds.append(f'mv:{esc(mx)}:{esc(my)}')
        elif lx is not None:
            cmds.append(f'ln:{esc(lx)}:{esc(ly)}')
        else:
            cmds.append('use:' + esc(use))
        pos = m.end()
    if body[pos:].strip():
        cmds.append('other:' + hexs(body[pos:].strip()[:20]))
    cmds.append('end')
    f['cmds'] = ','.join(c.replace(',', '%2c') for c in cmds)
    return f
