"""Raster / text outputs and module iteration (C09, C11): input generators, calls of the real segno through the
public API (QRCode.save / terminal / matrix_iter), container parsing (PNG chunk walk + zlib inflate, XML), request
lines for `judge` (c09, c11v, c11i, c11c) and `model` (iter, iterv, pack...)."""
import io
import fractions
import decimal
import re
import struct
import zlib
from enc import *
from symbols import ALL_VERSIONS, vname, levels_of, LEVEL_NAME

TEXT_FORMATS = ('txt', 'xbm', 'xpm', 'ans', 'compact')
TYPE_OPTIONS = ('finder_dark', 'finder_light', 'data_dark', 'data_light', 'version_dark', 'version_light', 'format_dark',
                'format_light', 'alignment_dark', 'alignment_light', 'timing_dark', 'timing_light', 'separator',
                'dark_module', 'quiet_zone')

# colour names used by the generator (a fixed list, not taken from segno)
NAMES = ['red', 'Blue', 'darkred', 'navy', 'gray', 'grey', 'tan', 'ORANGE', 'lime', 'teal', 'gold', 'indigo', 'khaki', 'peru',
         'aliceblue', 'lightgoldenrodyellow', 'mediumvioletred', 'silver', 'olive', 'aqua', 'fuchsia', 'maroon', 'yellow',
         'green', 'purple', 'cyan', 'magenta', 'brown', 'pink', 'coral']


class Sym:
    """one symbol per version, made through the public API"""

    def __init__(self, rnd):
        self.rnd = rnd
        self.cache = {}

    def get(self, v, k=0):
        key = (v, k)
        if key not in self.cache:
            rnd = self.rnd
            e = rnd.choice(levels_of(v))
            content = ''.join(rnd.choice('0123456789') for _ in range(rnd.randint(1, 5 if v < -2 else 8)))
            kw = dict(version=vname(v), mask=rnd.randrange(4), boost_error=False)
            if e is not None:
                kw['error'] = LEVEL_NAME[e]
            q = segno.make(content, **kw)
            self.cache[key] = (q, dict(content=content, **kw))
        return self.cache[key]


def dec_token(x):
    """scale / border as the caller wrote it: ints as digits, floats with a decimal point, None as '-'"""
    if x is None:
        return '-'
    if isinstance(x, bool):
        return str(int(x))
    if isinstance(x, int):
        return str(x)
    s = repr(float(x))
    if 'e' in s or 'n' in s:
        raise ValueError('unsupported float for the protocol: ' + s)
    return s


def col_token(c):
    """colour argument: None -> '-', str -> s:<hex utf-8>, int tuple -> t:..., tuple with float alpha -> f:r,g,b,permille"""
    if c is None:
        return '-'
    if isinstance(c, str):
        return 's:' + c.encode('utf-8').hex()
    if isinstance(c, tuple):
        if len(c) == 4 and isinstance(c[3], float):
            k = c[3] * 1000
            if all(isinstance(x, int) for x in c[:3]) and abs(k - round(k)) < 1e-9:
                return 'f:' + ','.join(str(x) for x in c[:3]) + f',{int(round(k))}' if 0 <= k <= 1000 else 'x:float-alpha-out-of-range'
            return 'x:float'
        if all(isinstance(x, int) and x >= 0 for x in c):
            return 't:' + ','.join(str(x) for x in c)
    return 'x:unsupported'


def svg_fields(data):
    """container parsing: XML attributes of the root and of every path in document order (a group transform is
    handed down to its paths)"""
    import xml.etree.ElementTree as ET

    def hx(t):
        return '-' if t is None else (t.encode('utf-8').hex() or '-')

    def local(t):
        return t.rsplit('}', 1)[-1]
    root = ET.fromstring(data)
    paths = []

    def walk(el, gtrans):
        for ch in el:
            if local(ch.tag) == 'g':
                walk(ch, ch.get('transform') or gtrans)
            elif local(ch.tag) == 'path':
                vals = [ch.get(a) for a in ('stroke', 'stroke-opacity', 'fill', 'fill-opacity', 'transform', 'd')]
                if vals[4] is None:
                    vals[4] = gtrans
                paths.append(';'.join(hx(x) for x in vals))
    walk(root, None)
    return f'svgw={hx(root.get("width"))} svgh={hx(root.get("height"))} paths={"|".join(paths)}'


def png_idat(data):
    """container parsing: concatenated IDAT data inflated (one zlib stream, nothing behind it); None if that fails"""
    try:
        pos, comp = 8, b''
        while pos + 12 <= len(data):
            ln = struct.unpack('>I', data[pos:pos + 4])[0]
            if data[pos + 4:pos + 8] == b'IDAT':
                comp += data[pos + 8:pos + 8 + ln]
            pos += 12 + ln
        d = zlib.decompressobj()
        raw = d.decompress(comp)
        if not d.eof or d.unused_data or d.unconsumed_tail:
            return None
        return raw
    except Exception:  # noqa
        return None


class RCase:
    """one call of QRCode.save / QRCode.terminal / QRCode.matrix_iter"""
    __slots__ = ('v', 'q', 'make', 'fmt', 'kw', 'tag', 'outcome', 'data', 'exc_text', 'line', 'judge', 'jkv', 'cmd', 'extra')

    def __init__(self, v, q, make, fmt, kw, tag):
        self.v, self.q, self.make, self.fmt, self.kw, self.tag = v, q, make, fmt, kw, tag
        self.outcome = self.data = self.exc_text = self.line = self.judge = self.jkv = None
        self.cmd = 'c09'
        self.extra = {}

    def call(self):
        mk = 'segno.make(' + ', '.join(f'{k}={v!r}' if k != 'content' else repr(v) for k, v in self.make.items()) + ')'
        kws = ', '.join(f'{k}={v!r}' for k, v in self.kw.items())
        if self.fmt in ('ans-terminal', 'compact'):
            return f'{mk}.terminal(out=io.StringIO(), compact={self.fmt == "compact"}, {kws})'
        if self.fmt in ('iter', 'iterv'):
            return f'list({mk}.matrix_iter(verbose={self.fmt == "iterv"}, {kws}))'
        out = 'io.StringIO()' if self.fmt in TEXT_FORMATS else 'io.BytesIO()'
        return f'{mk}.save({out}, kind={self.fmt!r}, {kws})'

    def replay(self):
        return dict(make=self.make, fmt=self.fmt, kw={k: repr(v) for k, v in self.kw.items()})


def execute(c):
    """runs the call on the real code; fills outcome / data"""
    q, fmt, kw = c.q, c.fmt, c.kw
    try:
        if fmt in ('iter', 'iterv'):
            c.data = [tuple(r) for r in q.matrix_iter(verbose=(fmt == 'iterv'), **kw)]
        elif fmt in ('ans-terminal', 'compact'):
            out = io.StringIO()
            q.terminal(out=out, compact=(fmt == 'compact'), **kw)
            c.data = out.getvalue()
        elif fmt in TEXT_FORMATS:
            out = io.StringIO()
            q.save(out, kind=fmt, **kw)
            c.data = out.getvalue()
        else:
            out = io.BytesIO()
            q.save(out, kind=fmt, **kw)
            c.data = out.getvalue()
        c.outcome = 'ok'
    except Exception as ex:  # noqa
        c.outcome = exc_name(ex)
        c.exc_text = str(ex)[:200]


def judge_line(idx, c):
    q, fmt, kw = c.q, c.fmt, c.kw
    jf = {'ans-terminal': 'ans'}.get(fmt, fmt)
    colourful = any(k in kw for k in TYPE_OPTIONS)
    if fmt == 'iterv':
        cmd = 'c11v'
    elif fmt == 'iter':
        cmd = 'c11i'
    elif colourful:
        cmd = 'c11c'
    else:
        cmd = 'c09'
    c.cmd = cmd
    f = [f'{cmd} id={idx} fmt={jf} m={matrix_str(q.matrix)} outcome={c.outcome}']
    if 'scale' in kw:
        f.append('scale=' + dec_token(kw['scale']))
    if 'border' in kw:
        f.append('border=' + dec_token(kw['border']))
    if fmt == 'txt':
        if 'dark' in kw:
            f.append('tdark=' + str(kw['dark']).encode('utf-8').hex())
        if 'light' in kw:
            f.append('tlight=' + str(kw['light']).encode('utf-8').hex())
    else:
        for k in ('dark', 'light'):
            if k in kw:
                f.append(f'{k}={col_token(kw[k])}')
        for k in TYPE_OPTIONS:
            if k in kw and kw[k] is not False:
                f.append(f'o.{k}={col_token(kw[k])}')
    if 'name' in kw:
        f.append('name=' + str(kw['name']).encode('utf-8').hex())
    if kw.get('dpi'):
        f.append(f'dpi={int(kw["dpi"])}')
    if c.outcome == 'ok':
        if fmt == 'iterv':
            f.append('rows=' + '/'.join(','.join(str(int(x)) for x in row) for row in c.data))
        elif fmt == 'iter':
            f.append('rows=' + '/'.join(''.join(chr(48 + x) if 0 <= x <= 9 else '?' for x in row) for row in c.data))
        elif fmt == 'svg':
            try:
                f.append(svg_fields(c.data))
            except Exception as ex:  # noqa
                f.append('svgerr=' + type(ex).__name__)
        elif isinstance(c.data, str):
            f.append('file=' + c.data.encode('utf-8').hex())
        else:
            f.append('file=' + c.data.hex())
            if fmt == 'png':
                raw = png_idat(c.data)
                if raw is None:
                    f.append('idaterr=1')
                else:
                    f.append('idat=' + raw.hex())
    return ' '.join(f)


# ------------------------------------------------------------------------------------------------ generators

def rnd_rgb(rnd):
    r = rnd.random()
    if r < 0.3:
        return rnd.choice(NAMES)
    if r < 0.5:
        return '#' + ''.join(rnd.choice('0123456789abcdefABCDEF') for _ in range(6))
    if r < 0.6:
        return '#' + ''.join(rnd.choice('0123456789abcdef') for _ in range(3))
    if r < 0.65:
        return ''.join(rnd.choice('0123456789abcdef') for _ in range(6))   # '#' is optional
    return (rnd.randrange(256), rnd.randrange(256), rnd.randrange(256))


def rnd_alpha_colour(rnd):
    r = rnd.random()
    if r < 0.3:
        return (rnd.randrange(256), rnd.randrange(256), rnd.randrange(256), rnd.choice([0, 1, 64, 127, 128, 200, 254]))
    if r < 0.55:
        return (rnd.randrange(256), rnd.randrange(256), rnd.randrange(256), rnd.choice([0.0, 0.25, 0.5, 0.75, 0.1, 0.9, 0.3]))
    if r < 0.8:
        return '#' + ''.join(rnd.choice('0123456789abcdef') for _ in range(6)) + rnd.choice(['00', '80', '7f', 'c0', '01'])
    return '#' + ''.join(rnd.choice('0123456789abcdef') for _ in range(3)) + rnd.choice('08c')


def png_colours(rnd):
    """(tag, kwargs) for the 2-colour PNG image types"""
    r = rnd.randrange(15)
    if r == 0:
        return 'default', {}
    if r == 14:
        return 'all-transparent', dict(dark=None, light=None)
    if r == 1:
        return 'grey-inverted', dict(dark=rnd.choice(['#fff', 'white', 'WHITE', (255, 255, 255), '#FFFFFF']),
                                     light=rnd.choice(['#000', 'black', (0, 0, 0), '#000000']))
    if r == 2:
        return 'grey-transparent-dark', dict(dark=None, light=rnd.choice(['#fff', 'white', 'black', '#000']))
    if r == 3:
        return 'grey-transparent-light', dict(light=None, dark=rnd.choice(['#fff', 'white', 'black', '#000']))
    if r in (4, 5):
        return 'palette-2', dict(dark=rnd_rgb(rnd), light=rnd_rgb(rnd))
    if r == 6:
        return 'palette-2-dark-only', dict(dark=rnd_rgb(rnd))
    if r == 7:
        return 'palette-alpha', dict(dark=rnd_alpha_colour(rnd), light=rnd_rgb(rnd))
    if r == 8:
        return 'palette-alpha-both', dict(dark=rnd_alpha_colour(rnd), light=rnd_alpha_colour(rnd))
    if r == 9:
        return 'palette-transparent-light', dict(dark=rnd_rgb(rnd), light=None)
    if r == 10:
        return 'palette-transparent-dark', dict(dark=None, light=rnd_rgb(rnd))
    if r == 11:
        return 'palette-alpha-transparent', dict(dark=rnd_alpha_colour(rnd), light=None)
    if r == 12:
        c = rnd_rgb(rnd)
        return 'same-colour', dict(dark=c, light=c)
    return 'palette-light-only', dict(light=rnd_rgb(rnd))


def type_colours(rnd, k, alpha=True, none_ok=True):
    """k of the 15 per-type colour options with random colours"""
    kw = {}
    for opt in rnd.sample(TYPE_OPTIONS, k):
        r = rnd.random()
        if none_ok and r < 0.08:
            kw[opt] = None
        elif alpha and r < 0.2:
            kw[opt] = rnd_alpha_colour(rnd)
        else:
            kw[opt] = rnd_rgb(rnd)
    return kw


# W limit (pixels per side) per format so that one file stays around 1-2 MB
W_LIMIT = {'png': 2300, 'pbm': 2300, 'pbm-plain': 800, 'xbm': 1100, 'xpm': 800, 'pam': 700, 'ppm': 600, 'png-colourful': 1200}


def pick_scale_border(rnd, n, limit, scales=None):
    b = rnd.choice([None, None, 0, 1, 2, 3, 4, 5, 6])
    eb = b if b is not None else (2 if n < 21 else 4)
    smax = max(1, min(12, limit // (n + 2 * eb)))
    s = rnd.choice(scales) if scales else rnd.randint(1, smax)
    s = min(s, smax)
    return s, b


def add_sb(kw, s, b, rnd, float_ok=True):
    if s != 1 or rnd.random() < 0.3:
        kw['scale'] = s
        if float_ok and rnd.random() < 0.12:
            kw['scale'] = s + rnd.choice([0.7, 0.5, 0.25, 0.0, 0.999])
    if b is not None or rnd.random() < 0.3:
        kw['border'] = b
    return kw


def gen_c09(rnd, syms, tier):
    """the C09 generator: every version several times; formats x scale x border x colours x options"""
    per = 1 if tier == 'quick' else 14
    cases = []

    def add(v, fmt, kw, tag, k=0):
        q, mk = syms.get(v, k)
        cases.append(RCase(v, q, mk, fmt, kw, tag))

    for rep in range(per):
        for v in ALL_VERSIONS:
            n = 17 + 4 * v if v > 0 else 9 + 2 * (v + 4)
            k = rep % 3
            # PNG, two colours: 4 per version
            for _ in range(4):
                tag, kw = png_colours(rnd)
                s, b = pick_scale_border(rnd, n, W_LIMIT['png'] if rnd.random() < 0.25 else 700)
                add_sb(kw, s, b, rnd)
                if rnd.random() < 0.25:
                    kw['dpi'] = rnd.choice([72, 96, 150, 300, 600, 127, 254, 1, 300.7, None, 0])
                if rnd.random() < 0.3:
                    kw['compresslevel'] = rnd.choice([0, 1, 5, 6, 9, -1])
                add(v, 'png', kw, 'png:' + tag, k)
            # PNG with per-type colours (bit depth 2 and 4): 3 per version
            for cnt in (rnd.randint(1, 2), rnd.randint(3, 6), rnd.randint(7, 13)):
                kw = type_colours(rnd, cnt)
                if rnd.random() < 0.5:
                    kw['dark'] = rnd_rgb(rnd)
                if rnd.random() < 0.5:
                    kw['light'] = rnd.choice([rnd_rgb(rnd), None])
                s, b = pick_scale_border(rnd, n, 500)
                add_sb(kw, s, b, rnd)
                add(v, 'png', kw, 'png:per-type-colours', k)
            # PBM P4 / P1
            s, b = pick_scale_border(rnd, n, W_LIMIT['pbm'] if rnd.random() < 0.3 else 800)
            add(v, 'pbm', add_sb({}, s, b, rnd), 'pbm:p4', k)
            s, b = pick_scale_border(rnd, n, W_LIMIT['pbm-plain'])
            add(v, 'pbm', add_sb(dict(plain=True), s, b, rnd), 'pbm:p1', k)
            # XBM
            s, b = pick_scale_border(rnd, n, W_LIMIT['xbm'])
            kw = add_sb({}, s, b, rnd)
            if rnd.random() < 0.3:
                kw['name'] = rnd.choice(['img', 'qr', 'foo_1', 'x'])
            add(v, 'xbm', kw, 'xbm', k)
            # XPM
            s, b = pick_scale_border(rnd, n, W_LIMIT['xpm'])
            kw = add_sb({}, s, b, rnd)
            r = rnd.random()
            if r < 0.3:
                kw.update(dark=rnd_rgb(rnd), light=rnd_rgb(rnd))
            elif r < 0.45:
                kw.update(light=None)
            elif r < 0.55:
                kw.update(dark=None, light=rnd_rgb(rnd))
            if rnd.random() < 0.3:
                kw['name'] = rnd.choice(['img', 'qr', 'foo_1'])
            add(v, 'xpm', kw, 'xpm', k)
            # PAM
            s, b = pick_scale_border(rnd, n, W_LIMIT['pam'])
            kw = add_sb({}, s, b, rnd)
            r = rnd.randrange(10)
            tag = 'blackandwhite'
            if r == 1:
                kw.update(dark=rnd.choice(['white', '#fff', (255, 255, 255)]), light=rnd.choice(['black', '#000']))
                tag = 'blackandwhite-inverted'
            elif r == 2:
                kw.update(light=None)
                tag = 'grayscale-alpha'
            elif r == 3:
                kw.update(dark=rnd.choice(['white', '#ffffff']), light=None)
                tag = 'grayscale-alpha-white'
            elif r in (4, 5):
                kw.update(dark=rnd_rgb(rnd), light=rnd_rgb(rnd))
                tag = 'rgb'
            elif r == 6:
                kw.update(dark=rnd_rgb(rnd), light=None)
                tag = 'rgb-alpha'
            elif r == 7:
                kw.update(dark=rnd.choice(['navy', (10, 20, 30), '#102030', 'maroon']), light=rnd.choice(['gray', (1, 2, 3), 'teal', '#0a0a0a']))
                tag = 'rgb-low-maxval'
            elif r == 8:
                kw.update(dark=rnd_alpha_colour(rnd), light=rnd.choice([None, rnd_rgb(rnd), rnd_alpha_colour(rnd)]))
                tag = 'rgb-alpha-colour'
            elif r == 9:
                kw.update(light=rnd_alpha_colour(rnd))
                tag = 'rgb-alpha-colour'
            add(v, 'pam', kw, 'pam:' + tag, k)
            # PPM
            s, b = pick_scale_border(rnd, n, W_LIMIT['ppm'])
            kw = add_sb({}, s, b, rnd)
            if rnd.random() < 0.5:
                kw.update(dark=rnd_rgb(rnd), light=rnd_rgb(rnd))
            add(v, 'ppm', kw, 'ppm', k)
            # TXT / ANSI / compact (border only)
            kw = {}
            b = rnd.choice([None, 0, 1, 2, 3, 4, 5, 6])
            if b is not None or rnd.random() < 0.3:
                kw['border'] = b
            if rnd.random() < 0.5:
                d, l = rnd.choice([('X', ' '), ('#', '.'), ('1', '0'), ('██', '  '), ('A', 'B'), ('ä', 'ö'), ('0', '1')])
                kw.update(dark=d, light=l)
            add(v, 'txt', kw, 'txt', k)
            for fmt in ('ans', 'ans-terminal', 'compact'):
                kw = {}
                b = rnd.choice([None, 0, 1, 2, 3, 4, 5, 6])
                if b is not None or rnd.random() < 0.3:
                    kw['border'] = b
                add(v, fmt, kw, fmt, k)
    # every residue of the picture width mod 8, for every packing: explicit sweep
    for fmt, extra in (('png', {}), ('png', 'depth2'), ('png', 'depth4'), ('pbm', {}), ('xbm', {})):
        for r in range(8):
            found = 0
            for _ in range(400):
                v = rnd.choice(ALL_VERSIONS)
                n = 17 + 4 * v if v > 0 else 9 + 2 * (v + 4)
                b = rnd.randrange(7)
                s = rnd.randint(1, 12)
                W = (n + 2 * b) * s
                if W % 8 == r and W <= 900:
                    kw = dict(scale=s, border=b)
                    if extra == 'depth2':
                        kw.update(finder_dark=rnd.choice(['red', 'blue', '#123456']))
                        if rnd.random() < 0.5:
                            kw.update(data_light=rnd.choice(['yellow', '#abcdef']))
                    elif extra == 'depth4':
                        kw.update(dict(zip(rnd.sample(TYPE_OPTIONS, 8), rnd.sample(NAMES, 8))))
                    add(v, fmt, kw, f'residue:{fmt}:{extra or "depth1"}')
                    found += 1
                    if found >= (2 if tier == 'quick' else 6):
                        break
    # refusals and truncation: every format
    for fmt in ('png', 'pbm', 'pam', 'ppm', 'xbm', 'xpm'):
        for _ in range(1 if tier == 'quick' else 4):
            v = rnd.choice(ALL_VERSIONS[:14])
            for kw in (dict(scale=0), dict(scale=0.5), dict(scale=-1), dict(scale=2.7), dict(scale=1.0), dict(scale=0.999), dict(scale=-0.5),
                       dict(border=-1), dict(border=1.5), dict(scale=3, border=-2), dict(scale=1.5, border=0), dict(border=0.5),
                       dict(scale=12.9, border=6)):
                add(v, fmt, dict(kw), 'refusal-or-truncation')
    for fmt in ('txt', 'ans', 'ans-terminal', 'compact'):
        v = rnd.choice(ALL_VERSIONS[:14])
        for kw in (dict(border=-1), dict(border=1.5), dict(border=-3), dict(border=0.25)):
            add(v, fmt, dict(kw), 'refusal-or-truncation')
    # unreadable colours have to be refused
    for fmt in ('png', 'pam', 'ppm', 'xpm'):
        v = rnd.choice(ALL_VERSIONS[:10])
        for bad in ('', '#12', 'nocolor', '#12345', '#ggg', (256, 0, 0), (0, 0), (1, 2, 3, 4, 5), '#1234567'):
            add(v, fmt, dict(dark=bad), 'invalid-colour')
            if fmt == 'png':
                add(v, fmt, dict(light=bad), 'invalid-colour')
    for first, second in (((10, 20, 30, 1.0), (10, 20, 30, 1)), ((40, 50, 60, 1), (40, 50, 60, 1.0))):
        for fmt in ('png', 'pam'):
            add(1, fmt, dict(dark=first, light=None), 'colour-history:alpha')
            add(1, fmt, dict(dark=second, light=None), 'colour-history:alpha')
    return cases


def gen_c11(rnd, syms, tier):
    cases = []

    def add(v, fmt, kw, tag, k=0):
        q, mk = syms.get(v, k)
        cases.append(RCase(v, q, mk, fmt, kw, tag))

    # verbose and plain grids of all 44 versions
    for v in ALL_VERSIONS:
        n = 17 + 4 * v if v > 0 else 9 + 2 * (v + 4)
        add(v, 'iterv', {}, 'verbose:default')
        add(v, 'iter', {}, 'plain:default')
        reps = 1 if tier == 'quick' else 4
        for _ in range(reps):
            b = rnd.choice([0, 1, 2, 3, 5, 6, None])
            smax = max(1, min(6, 500 // (n + 8)))
            s = rnd.randint(1, smax)
            kw = {}
            if s != 1:
                kw['scale'] = s if rnd.random() < 0.85 else s + 0.6
            kw['border'] = b
            add(v, 'iterv', dict(kw), 'verbose:scale-border', 1)
            add(v, 'iter', dict(kw), 'plain:scale-border', 1)
    for fmt in ('iter', 'iterv'):
        for kw in (dict(scale=0), dict(scale=0.5), dict(scale=-1), dict(scale=-2.5), dict(border=-1), dict(border=1.5), dict(scale=2.7),
                   dict(scale=1.0), dict(scale=3, border=-1), dict(scale=0, border=2),
                   # fractional borders / scales that are not Python floats
                   dict(border=fractions.Fraction(1, 2)), dict(border=decimal.Decimal('1.5')), dict(border=fractions.Fraction(-3, 2)),
                   dict(scale=fractions.Fraction(1, 2)), dict(scale=decimal.Decimal('0.5'))):
            add(rnd.choice(ALL_VERSIONS[:12]), fmt, dict(kw), 'refusal-or-truncation')
    # per-type colours: PNG and PPM (and SVG, see p_raster)
    reps = 1 if tier == 'quick' else 6
    for _ in range(reps):
        for v in ALL_VERSIONS:
            n = 17 + 4 * v if v > 0 else 9 + 2 * (v + 4)
            for fmt in ('png', 'ppm', 'svg'):
                cnt = rnd.choice([1, 1, 2, 3, 5, 8, 13, 15])
                kw = type_colours(rnd, cnt, alpha=(fmt != 'ppm'), none_ok=(fmt != 'ppm'))
                if rnd.random() < 0.4:
                    kw['dark'] = rnd_rgb(rnd)
                if rnd.random() < 0.4:
                    kw['light'] = rnd_rgb(rnd) if fmt == 'ppm' or rnd.random() < 0.7 else None
                s, b = pick_scale_border(rnd, n, 400 if fmt == 'ppm' else 600, scales=None if tier != 'quick' else [1, 1, 2, 3])
                add_sb(kw, s, b, rnd, float_ok=False)
                if fmt == 'ppm' and v % 3 == 0:
                    kw['scale'] = kw.get('scale', 1) + rnd.choice([0.5, 0.25, 0.999])     # truncated by the iterator AND in the header
                add(v, fmt, kw, f'colourful:{fmt}', rnd.randrange(2))
            # two-tone maps that are NOT uniform per dark/light class
            if rnd.random() < 0.5:
                opt = rnd.choice(TYPE_OPTIONS)
                col = rnd.choice(['white', '#fff']) if opt.endswith('dark') or opt == 'dark_module' else rnd.choice(['black', '#000'])
                add(v, rnd.choice(['png', 'svg']), {opt: col, 'border': rnd.choice([0, 1, None])}, 'colourful:two-tone')
            # a transparent type next to the first colours of the CSS table (the writer picks its stand-in colour for
            # "transparent" from that table: it must not collide with a colour the picture uses)
            if rnd.random() < 0.35:
                near = rnd.sample(['aliceblue', '#f0f8ff', (240, 248, 255), 'antiquewhite', '#faebd7', 'aqua', 'aquamarine', 'azure'], 3)
                opts = rnd.sample([o for o in TYPE_OPTIONS if o not in ('quiet_zone',)], 3)
                kw = {opts[0]: near[0], opts[1]: near[1], opts[2]: near[2], 'light': None, 'dark': rnd.choice(['navy', 'black', '#123'])}
                if rnd.random() < 0.5:
                    kw[rnd.choice(['data_light', 'quiet_zone', 'separator'])] = None
                add(v, 'png', kw, 'colourful:transparent-standin')
            # a colour map that is entirely transparent
            if rnd.random() < 0.1:
                add(v, 'png', rnd.choice([{k: None for k in TYPE_OPTIONS}, dict(dark=None, light=None, quiet_zone=None)]), 'colourful:all-transparent')
    # exactly two distinct colours, with ONE module type painted in the colour of the other class (the writers' two-colour
    # shortcuts must not be taken on the strength of the number of colours): every option, PNG and SVG, also with light=None
    for i, opt in enumerate(TYPE_OPTIONS):
        is_dark = opt.endswith('dark') or opt == 'dark_module'
        for j, (fmt, dark, light) in enumerate((('svg', 'blue', 'yellow'), ('png', 'blue', 'yellow'), ('svg', 'black', None), ('png', '#123456', None))):
            if light is None and is_dark:
                continue
            v = ALL_VERSIONS[(7 * i + 11 * j) % len(ALL_VERSIONS)]
            add(v, fmt, {opt: light if is_dark else dark, 'dark': dark, 'light': light, 'border': rnd.choice([1, 2, None])}, 'colourful:two-colours-crossed')
    # call histories: identical multi-colour arguments for symbols of different size classes (Micro / version < 7 / version >= 7),
    # in this order and reversed — a colour map must not survive from one symbol to the next
    for fmt in ('png', 'svg', 'ppm'):
        kw = dict(finder_dark='darkred', data_dark='navy', version_dark='teal', alignment_dark='gold', dark_module='lime', timing_dark='indigo')
        order = [-3, 1, 7, -1, 10, 0, 2] if rnd.random() < 0.5 else [7, 1, -3, 10, -1, 2, 0]
        for v in order:
            add(v, fmt, dict(kw), f'colour-history:{fmt}')
    # colours that compare equal as Python values but differ in meaning: alpha 1 (= 1/255) and alpha 1.0 (opaque)
    for first, second in (((10, 20, 30, 1.0), (10, 20, 30, 1)), ((40, 50, 60, 1), (40, 50, 60, 1.0))):
        add(1, 'png', dict(dark=first, light=None), 'colour-history:alpha')
        add(1, 'png', dict(dark=second, light=None), 'colour-history:alpha')
        add(2, 'png', dict(data_dark=first, light='white'), 'colour-history:alpha')
        add(2, 'png', dict(data_dark=second, light='white'), 'colour-history:alpha')
    return cases
