"""Correspondence (Tie B) of C09 for WHOLE DOCUMENTS: every file the raster / text writers produce (pbm P4 / P1, ppm, pam,
xbm, xpm, txt, ansi, compact, and the complete png file with signature, chunk lengths, CRCs, pHYs, IEND) is compared byte
for byte with the document the Lean model writes (Model/RasterDocs.lean, commands `doc` and `pngfile`).  Runtime services
handed to the model: the compressed IDAT payload of the real file (zlib), int(int(dpi) // 0.0254) (float arithmetic), the
iteration order of set() where it shows (as for `png`).  Also: the list-of-bytes readers of Spec/RasterL.lean (the ones
the theorems of Props/C09Docs.lean talk about) are run against the judge's readers on every real file and on damaged
copies (command `c09l` of the judge)."""
import re
import struct
from raster import *
from raster_model import colour_fields, _ptuple, _ptoken, _sb, _run

DOC_FORMATS = ('pbm', 'ppm', 'pam', 'xbm', 'xpm', 'txt', 'ans', 'ans-terminal', 'compact', 'png')
BLACKS = ['#000', 'black', 'BLACK', (0, 0, 0), '#000000', (0, 0, 0, 255), (0, 0, 0, 1.0), '#000f', '000']
WHITES = ['#fff', 'white', 'White', (255, 255, 255), '#FFFFFF', (255, 255, 255, 255), (255, 255, 255, 1.0), '#ffff']


def dpi_token(d):
    """truthy : int(dpi) : int(int(dpi) // 0.0254) — the float arithmetic is a runtime service"""
    i = int(d)
    return f'{int(bool(d))}:{i}:{int(i // 0.0254) if i >= 0 else 0}'


def png_comp(data):
    """the concatenated IDAT payload of the real file (the compressed stream: zlib is a runtime service)"""
    pos, comp = 8, b''
    while pos + 12 <= len(data):
        ln = struct.unpack('>I', data[pos:pos + 4])[0]
        if data[pos + 4:pos + 8] == b'IDAT':
            comp += data[pos + 8:pos + 8 + ln]
        pos += 12 + ln
    return comp


def doc_line(i, c):
    """request line for the model, or None if the call cannot be expressed in the protocol"""
    kw = c.kw
    fmt = {'ans-terminal': 'ans'}.get(c.fmt, c.fmt)
    f = []
    if fmt == 'txt':
        if 'dark' in kw:
            f.append('tdark=' + str(kw['dark']).encode('utf-8').hex())
        if 'light' in kw:
            f.append('tlight=' + str(kw['light']).encode('utf-8').hex())
    else:
        cf = colour_fields(kw)
        if cf is None:
            return None
        f += cf
    if 'name' in kw:
        f.append('name=' + str(kw['name']).encode('utf-8').hex())
    if fmt == 'png':
        if kw.get('dpi') is not None:
            f.append('dpi=' + dpi_token(kw['dpi']))
        if c.outcome == 'ok':
            f.append('comp=' + png_comp(c.data).hex())
        return f'pngfile id={i} m={matrix_str(c.q.matrix)} {_sb(c)} {" ".join(f)}'
    if fmt == 'pbm' and kw.get('plain'):
        fmt = 'pbm-plain'
    return f'doc id={i} fmt={fmt} m={matrix_str(c.q.matrix)} {_sb(c)} {" ".join(f)}'


def rnd_any_colour(rnd):
    r = rnd.random()
    if r < 0.25:
        return rnd.choice(BLACKS)
    if r < 0.5:
        return rnd.choice(WHITES)
    if r < 0.75:
        return rnd_rgb(rnd)
    if r < 0.9:
        return rnd_alpha_colour(rnd)
    return rnd.choice([(0, 0, 0, 1), (255, 255, 255, 1), (0, 0, 0, 0), (1, 2, 3, 254), (1, 2, 3, 255), '#0000', '#fffe', (0, 0, 0, 0.0),
                       (255, 255, 255, 0.998), (12, 13, 14, 1.0), '#01020380'])


def docs_extra_cases(rnd, syms, tier):
    """calls for the whole-document correspondence only: the option space of every writer on every symbol version"""
    cases = []

    def add(v, fmt, kw, tag):
        q, mk = syms.get(v, 0)
        cases.append(RCase(v, q, mk, fmt, kw, 'docs:' + tag))

    def sb(kw, n, limit=260):
        s, b = pick_scale_border(rnd, n, limit)
        return add_sb(kw, s, b, rnd)
    reps = 1 if tier == 'quick' else 3
    for _ in range(reps):
        for v in ALL_VERSIONS:
            n = 17 + 4 * v if v > 0 else 9 + 2 * (v + 4)
            # PAM: the colour logic (tuple type, depth, maxval, pixel bytes): black / white / colour / alpha / None on both sides
            kw = {}
            r = rnd.random()
            if r < 0.85:
                kw['dark'] = rnd_any_colour(rnd)
            if rnd.random() < 0.85:
                kw['light'] = None if rnd.random() < 0.3 else rnd_any_colour(rnd)
            add(v, 'pam', sb(kw, n), 'pam-colour-logic')
            # XPM: colours of every notation, None on either side, alpha (refused unless it counts as opaque), names
            kw = {}
            if rnd.random() < 0.8:
                kw['dark'] = None if rnd.random() < 0.15 else rnd_any_colour(rnd)
            if rnd.random() < 0.8:
                kw['light'] = None if rnd.random() < 0.25 else rnd_any_colour(rnd)
            if rnd.random() < 0.5:
                kw['name'] = rnd.choice(['img', 'qr', 'foo_1', 'x', '_a', 'A9', 'segno_code'])
            add(v, 'xpm', sb(kw, n), 'xpm-colours')
            # XBM with names, PBM both kinds
            kw = sb({}, n)
            if rnd.random() < 0.7:
                kw['name'] = rnd.choice(['img', 'qr', 'foo_1', 'x', '_a', 'A9', 'segno_code', 'a_width'])
            add(v, 'xbm', kw, 'xbm-name')
            add(v, 'pbm', sb(dict(plain=rnd.random() < 0.5), n), 'pbm')
            # PPM: dark / light / per-type options (opaque colours; some refused)
            kw = type_colours(rnd, rnd.choice([0, 0, 1, 2, 5]), alpha=False, none_ok=False)
            if rnd.random() < 0.6:
                kw['dark'] = rnd_any_colour(rnd)
            if rnd.random() < 0.6:
                kw['light'] = rnd_any_colour(rnd) if rnd.random() < 0.9 else None
            add(v, 'ppm', sb(kw, n, 160), 'ppm-colours')
            # the complete PNG file: dpi (None, 0, ints, floats, negative), compresslevel, colours
            tag, kw = png_colours(rnd)
            if rnd.random() < 0.3:
                kw.update(type_colours(rnd, rnd.randint(1, 6)))
            kw['dpi'] = rnd.choice([None, 0, 0.0, 1, 2, 72, 96, 150, 300, 600, 1200, 127, 254, 300.7, 0.5, 99.99, -1, -0.5, -72, True, 2540, 100000])
            if rnd.random() < 0.4:
                kw['compresslevel'] = rnd.choice([0, 1, 5, 6, 9, -1])
            add(v, 'png', sb(kw, n, 400), 'png-file')
            # text writers: strings for dark / light (any length, non-ASCII), every border
            kw = {}
            b = rnd.choice([None, 0, 1, 2, 3, 4, 5, 6, 7])
            if b is not None or rnd.random() < 0.3:
                kw['border'] = b
            if rnd.random() < 0.7:
                d, l = rnd.choice([('X', ' '), ('#', '.'), ('██', '  '), ('ä', 'ö'), ('', ''), ('dark', 'l'), ('1', ''), ('€', '𝄞'), (1, 0), ('\t', ' ')])
                kw.update(dark=d, light=l)
            add(v, 'txt', kw, 'txt-strings')
            fmt = rnd.choice(['ans', 'ans-terminal', 'compact', 'compact'])
            b = rnd.choice([None, 0, 1, 2, 3, 4, 5, 6, 7])
            add(v, fmt, {} if b is None else dict(border=b), 'terminal')
    # fixed corners: every branch of the PAM colour logic, falsy dark values, refusals, float borders with an integral value
    v = rnd.choice(ALL_VERSIONS[:8])
    for d in (BLACKS[0], BLACKS[3], WHITES[1], WHITES[3], 'navy', (1, 2, 3), (0, 0, 0, 1), (255, 255, 255, 1), (9, 8, 7, 6), (0, 0, 0, 0.5), '', (), None):
        for l in ('omit', None, 'white', '#000', (0, 0, 0), (255, 255, 255), 'teal', (4, 5, 6, 7), (0, 0, 0, 1), (255, 255, 255, 1), '#fff0'):
            kw = dict(dark=d)
            if l != 'omit':
                kw['light'] = l
            add(v, 'pam', kw, 'pam-branches')
    for fmt in ('pbm', 'ppm', 'pam', 'xbm', 'xpm', 'png', 'txt', 'ans', 'compact'):
        for kw in (dict(border=2.0), dict(border=0.0), dict(border=-0.0), dict(border=-1), dict(border=1.5)):
            add(rnd.choice(ALL_VERSIONS[:6]), fmt, dict(kw), 'border-float')
        if fmt not in ('txt', 'ans', 'compact'):
            for kw in (dict(scale=0), dict(scale=0.9), dict(scale=-2), dict(scale=1.9), dict(scale=2.0, border=1)):
                add(rnd.choice(ALL_VERSIONS[:6]), fmt, dict(kw), 'scale')
    for bad in ('', '#12', 'nocolor', (256, 0, 0), (0, 0), (1, 2, 3, 4, 5), (1, 2, 3, 256), (1, 2, 3, 1.5), '#1234567', '#12g'):
        for fmt in ('pam', 'xpm', 'ppm'):
            add(v, fmt, dict(dark=bad), 'invalid-colour')
            add(v, fmt, dict(light=bad), 'invalid-colour')
    for name in ('img', '', 'a b', 'ä', '1x', 'x' * 40):
        add(v, 'xbm', dict(name=name), 'name')
        add(v, 'xpm', dict(name=name), 'name')
    return cases


def correspond_docs(cases, st, res, rnd, syms, tier):
    """every document of the generator + the extra stream against the model's document, byte for byte"""
    if not st.model_ok:
        return []
    cases = [c for c in cases if c.fmt in DOC_FORMATS]
    extra = docs_extra_cases(rnd, syms, tier)
    for c in extra:
        execute(c)
        res.count('tag:' + c.tag)
        res.count('docs-extra-outcome:' + c.outcome)
    cases = cases + extra
    todo = []
    for i, c in enumerate(cases):
        line = doc_line(i, c)
        if line is None:
            res.count('docs-correspondence-skipped:colour-not-expressible')
            continue
        if c.outcome != 'ok':
            impl = f'err={c.outcome}'
        else:
            raw = c.data.encode('utf-8') if isinstance(c.data, str) else bytes(c.data)
            impl = 'ok=1 bytes=' + raw.hex()
        todo.append((c, line, impl))
    outs = _run([t[1] for t in todo])
    again = []
    for k, ((c, line, impl), o) in enumerate(zip(todo, outs)):
        kv = parse_kv(o)
        if kv.get('tie') == '1':
            vals = [_ptuple(t) for t in kv['vals'].split(';')]
            again.append((k, line + ' setorder=' + ';'.join(_ptoken(x) for x in set(vals))))
            res.count('docs-correspondence:set-order-supplied')
    if again:
        for (k, _), o in zip(again, _run([a[1] for a in again])):
            outs[k] = o
    for (c, line, impl), o in zip(todo, outs):
        model = o.split(' ', 1)[1] if ' ' in o else o
        model = re.sub(r' tie=1 vals=\S*$', '', model)
        model = re.sub(r'^err=(IndexError|KeyError)$', 'err=LookupError', model)
        res.corr_checked += 1
        fmt = {'ans-terminal': 'ans'}.get(c.fmt, c.fmt)
        res.count(f'docs-correspondence:{fmt}:' + ('refusal' if c.outcome != 'ok' else 'whole-file'))
        if model != impl:
            j = next((i for i, (p, q) in enumerate(zip(model, impl)) if p != q), min(len(model), len(impl)))
            res.corr_diffs.append(dict(call=c.call(), replay=c.replay(), field='whole-document', first_difference_at=j,
                                       impl=impl[max(0, j - 60):j + 100], model=model[max(0, j - 60):j + 100]))
    return cases


NOTES_DOCS = ['whole documents (Props/C09Docs.lean, Model/RasterDocs.lean): pbm P4 / P1, ppm, pam (tuple type logic), xbm, xpm, txt, ansi, compact and '
              'the complete png file (signature, chunk lengths, CRC-32 of every chunk, pHYs, IEND) are modelled and compared byte for byte with the real '
              'files for every call of the generator + an extra stream over the option space; runtime services handed to the model: compressed IDAT '
              'payload (zlib), int(int(dpi) // 0.0254) (float arithmetic), set() order where it shows']


# ------------------------------------------------------------------ list-level readers (theorems) = judge readers

INTERESTING = b' ,;{}"#*/\\xX.90_\n\t[]=-1aPc'


def damage(rnd, raw):
    """a damaged copy of a file: one local edit"""
    raw = bytearray(raw)
    if not raw:
        return bytes(raw)
    head = rnd.random() < 0.7
    pos = rnd.randrange(min(len(raw), 120)) if head else rnd.randrange(len(raw))
    r = rnd.randrange(6)
    if r == 0:
        raw[pos] = rnd.choice(INTERESTING)
    elif r == 1:
        del raw[pos]
    elif r == 2:
        raw.insert(pos, rnd.choice(INTERESTING))
    elif r == 3:
        raw = raw[:rnd.randrange(len(raw))] if not head else raw[:pos]
    elif r == 4:
        raw += bytes([rnd.choice(INTERESTING)])
    else:
        raw[pos] = rnd.randrange(256)
    return bytes(raw)


def png_rebuild(rnd, data):
    """a structurally edited PNG with correct CRCs (so that the readers get past the chunk walk)"""
    import zlib
    pos, chunks = 8, []
    while pos + 12 <= len(data):
        ln = struct.unpack('>I', data[pos:pos + 4])[0]
        chunks.append((data[pos + 4:pos + 8], data[pos + 8:pos + 8 + ln]))
        pos += 12 + ln
    r = rnd.randrange(12)
    if r == 0 and len(chunks) > 2:
        i = rnd.randrange(len(chunks) - 1)
        chunks[i], chunks[i + 1] = chunks[i + 1], chunks[i]
    elif r == 1:
        chunks.pop(rnd.randrange(len(chunks)))
    elif r == 2:
        chunks.insert(rnd.randrange(len(chunks) + 1), rnd.choice(chunks))
    elif r == 3:
        chunks.insert(rnd.randrange(1, len(chunks)), (rnd.choice([b'tEXt', b'gAMA', b'ABCD', b'sBIT', b'pHYs', b'tRNS', b'PLTE']), bytes(rnd.randrange(256) for _ in range(rnd.choice([0, 1, 2, 3, 6, 9])))))
    elif r == 4:
        k = next(i for i, c in enumerate(chunks) if c[0] == b'IDAT')
        d = chunks[k][1]
        cut = rnd.randrange(len(d) + 1)
        chunks[k:k + 1] = [(b'IDAT', d[:cut]), (b'IDAT', d[cut:])]
    elif r in (5, 6):
        hd = bytearray(chunks[0][1])
        if hd:
            i = rnd.randrange(len(hd))
            hd[i] = rnd.choice([0, 1, 2, 3, 4, 8, 16, hd[i] ^ 1, rnd.randrange(256)])
            chunks[0] = (chunks[0][0], bytes(hd))
    elif r == 7:
        k = rnd.randrange(len(chunks))
        d = bytearray(chunks[k][1])
        if d:
            d[rnd.randrange(len(d))] = rnd.randrange(256)
        chunks[k] = (chunks[k][0], bytes(d))
    elif r == 8:
        k = rnd.randrange(len(chunks))
        chunks[k] = (chunks[k][0], chunks[k][1] + bytes([rnd.randrange(256)]))
    elif r == 9:
        k = rnd.randrange(len(chunks))
        chunks[k] = (chunks[k][0], chunks[k][1][:-1])
    elif r == 10:
        k = rnd.randrange(len(chunks))
        nm = bytearray(chunks[k][0])
        nm[rnd.randrange(4)] = rnd.choice(b'aZ1_I')
        chunks[k] = (bytes(nm), chunks[k][1])
    out = data[:8]
    for nm, d in chunks:
        out += struct.pack('>I', len(d)) + nm + d + struct.pack('>I', zlib.crc32(nm + d))
    if r == 11:
        out = out[:rnd.randrange(8)] + bytes([rnd.randrange(256)]) + out[8:]
    return out


def reader_equivalence(cases, st, res, rnd, tier):
    """c09l: list-level readers vs the judge's readers on real files and damaged copies"""
    if not st.judge_ok:
        return
    lines, meta = [], []
    budget = {}
    limit = 40 if tier == 'quick' else 100
    cases = list(cases)
    rnd.shuffle(cases)
    for c in cases:
        if c.outcome != 'ok' or c.fmt not in DOC_FORMATS:
            continue
        fmt = {'ans-terminal': 'ans'}.get(c.fmt, c.fmt)
        raw = c.data.encode('utf-8') if isinstance(c.data, str) else bytes(c.data)
        n, s, b = len(c.q.matrix), 1, 4
        try:
            s = int(c.kw.get('scale', 1))
            b = c.kw.get('border')
            b = (2 if n < 21 else 4) if b is None else int(b)
        except Exception:  # noqa
            pass
        W = (n + 2 * b) * s
        if W > 420 or len(raw) > 400000:
            continue
        if budget.get(fmt, 0) >= limit * (3 if fmt == 'png' else 1):
            continue
        budget[fmt] = budget.get(fmt, 0) + 1
        extra = ''
        if 'name' in c.kw:
            extra += ' name=' + str(c.kw['name']).encode('utf-8').hex()
        idat = None
        if fmt == 'png':
            idat = png_idat(c.data)
            if idat is None:
                continue
            extra += ' idat=' + idat.hex()
        variants = [('real', raw)]
        if W <= 160:
            for _ in range(3):
                variants.append(('damaged', damage(rnd, raw)))
            if fmt == 'png':
                for _ in range(5):
                    variants.append(('rebuilt', png_rebuild(rnd, raw)))
        for what, v in variants:
            lines.append(f'c09l id={len(lines)} fmt={fmt} file={v.hex()}{extra}')
            meta.append((c, fmt, what))
    from p_raster import run_balanced
    outs = run_balanced(JUDGE, lines)
    for (c, fmt, what), o in zip(meta, outs):
        kv = parse_kv(o)
        res.corr_checked += 1
        res.count(f'reader-equivalence:{fmt}:{what}:' + kv.get('info', 'both=accepted').replace('both=', ''))
        if kv.get('eq') != 'ok':
            res.corr_diffs.append(dict(call=c.call(), replay=c.replay(), field=f'reader-equivalence ({what} file)',
                                       impl='readers of Spec/Raster.lean', model='readers of Spec/RasterL.lean: ' + o[:200]))

NOTES_DOCS += ['the theorems of Props/C09Docs.lean are stated for the list-level readers of Spec/RasterL.lean; judge command c09l runs them side by side with the '
               'readers of Spec/Raster.lean (which judge the real files) on real files, damaged copies and structurally edited PNGs with correct CRCs: same '
               'refusal / same dimensions and colour of every pixel (counted as correspondence comparisons, field reader-equivalence)']
