"""./check Cxx --replay <file>: re-executes the recorded call on the current tree and re-judges it."""
import json
from core import *
import symbols
from symbols import Case, sweep

FIELD = {'C01': 'c01', 'C02': 'c02', 'C03': 'c03', 'C04': 'c04', 'C05': 'c05', 'C06': 'c06', 'C07': 'c07', 'C13': 'c13'}


def dec(x):
    if isinstance(x, dict) and 'bytes' in x:
        return bytes.fromhex(x['bytes'])
    if isinstance(x, dict) and 'list' in x:
        return [tuple(dec(z) for z in y['list']) if isinstance(y, dict) and 'list' in y else dec(y) for y in x['list']]
    return x


def run(prop, path):
    d = json.load(open(path))
    if d.get('kind') == 'no-failing-input-found':
        st = prepare(prop)
        still = [w for w, _ in st.broken]
        for w in still:
            log(f'still broken: {w}')
        if still:
            log(f'VIOLATION property={prop} replay={path} no-failing-input-found')
            return 1
        log('the recorded proof obligations / ties check again on the current tree')
        return 0
    v = d.get('first', {})
    if prop in FIELD and 'replay' in v and 'schedule' in v['replay']:
        # a schedule of the deterministic scheduler: the same calls, the same seed, fresh processes
        sch = v['replay']['schedule']
        st = prepare(prop)
        res = Result()
        groups = [Case(dec(x['content']), x['kw'], 'replay') for x in sch['calls']]
        outs = symbols.scheduled_run(groups, int(sch['seed']))
        symbols.compare_concurrent(groups, outs, res, [FIELD[prop]], 'deterministic scheduler, 8 threads', lambda i, c: c.replay())
        for x in res.violations[:3]:
            log('FAILING-INPUT ' + json.dumps({k: x[k] for k in x if k != 'replay'}, default=str)[:600])
        if res.violations:
            log(f'VIOLATION property={prop} replay={path}')
            return 1
        log(f'the recorded schedule (seed {sch["seed"]}, {len(groups)} calls, 8 threads) gives the sequential results on the current tree')
        return 0
    if prop in FIELD and 'replay' in v and 'content' in v['replay'] and v['replay'].get('api') is None:   # records of other entry points (make_sequence, encoder.encode_sequence): generic replay below
        import p_symbols
        st = prepare(prop)
        res = Result()
        case = Case(dec(v['replay']['content']), v['replay']['kw'], 'replay')
        sweep([case], st, res, [FIELD[prop]], want_c06=(prop == 'C06'), known_map=p_symbols.known_c13 if prop == 'C13' else None)
        log('implementation:', (case.impl or '')[:200])
        log('judge:', (case.judge or '')[:400])
        known, _ = load_known()
        ids = {k['id'] for k in known if k.get('property') == prop}
        real = [x for x in res.violations if x.get('known_id') not in ids]
        if real or res.corr_diffs:
            log(f'VIOLATION property={prop} replay={path}' + ('' if real else ' no-failing-input-found'))
            return 1
        log('the recorded input satisfies the property on the current tree')
        return 0
    # other properties: delegate to their harness module if it offers `replay`
    import glob
    for p in sorted(glob.glob(os.path.join(os.path.dirname(__file__), 'p_*.py'))):
        m = __import__(os.path.basename(p)[:-3])
        if hasattr(m, 'REPLAY') and prop in m.REPLAY:
            return m.REPLAY[prop](d, path)
    # generic replay: run the property's generator again with the recorded seed and tier and look for the recorded call
    import random
    runners = {}
    for pth in sorted(glob.glob(os.path.join(os.path.dirname(__file__), 'p_*.py'))):
        runners.update(__import__(os.path.basename(pth)[:-3]).RUNNERS)
    seed, tier = int(d.get('seed', 1)), d.get('tier', 'quick')
    os.environ['VERIF_SEED'] = str(seed)      # the deterministic scheduler of the concurrency passes is seeded from it
    st = prepare(prop)
    res = Result()
    runners[prop](tier, random.Random(seed * 1000003 + int(prop[1:])), st, res)
    known, _ = load_known()
    ids = {k['id'] for k in known if k.get('property') == prop}
    want = v.get('call')
    same = [x for x in res.violations if x.get('known_id') not in ids and (want is None or x.get('call') == want)]
    for x in same[:3]:
        log('FAILING-INPUT ' + json.dumps({k: x[k] for k in x if k != 'replay'}, default=str)[:600])
    if same:
        log(f'VIOLATION property={prop} replay={path}')
        return 1
    log(f'the recorded call no longer violates {prop} on the current tree (generator re-run with seed {seed}, tier {tier}: '
        f'{res.evaluations} evaluations, {len(res.violations)} other findings)')
    return 0
