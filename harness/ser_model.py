"""C14 — correspondence (Tie B) of the SERIALIZER argument handling: the refusal / acceptance outcome of the real serialisers
(all 13 kinds + the compact terminal writer) on a generated product of documented and malformed option values is compared with
the outcome class (ok / ValueError / other) of the whole-document models (`Model.RoutesVec.fullEnv`: Model/RasterDocs.lean,
Model/Png.lean, Model/SvgDoc.lean, Model/Tex.lean, Model/VectorDocs.lean behind Python's keyword binding), driver command
`rdocv` (Model/C14Driver.lean) — the objects the theorems of Props/C14Serializers.lean speak about.

For eps / pdf / tex the whole document is compared as well (frozen clock; zlib, `str(1 / 255.0 * c)` and the float texts are
runtime services), which ties the argument readers of Model/RoutesVec.lean; the documents of the other kinds are tied by
`./check C09 | C10 | C11 | C12`.
"""
import io
import re

from common import *
import segno
from segno import writers
from raster import col_token
from routes_model import pyv, config_str, FrozenTime, palette_tie, png_idat_payload
from vecdocs import eff_border, CHAN_TABLE, pdf_stream

NOTE = ('serializer arguments (Props/C14Serializers.lean, Model/RoutesVec.lean): for a generated product of documented and malformed option values '
        '(all 13 kinds + the compact terminal writer; every value of every option alone, random rows of 2-4 options, a scale x border grid; three '
        'symbols: M2-size Micro QR, version 1, version 7) the outcome class ok / ValueError / other of the real serialiser is compared with the '
        'outcome class of the whole-document models behind Python\'s keyword binding (model command `rdocv`); eps / pdf / tex documents are compared '
        'byte for byte as well (frozen clock; zlib, float texts and str(1 / 255.0 * c) are runtime services). Calls outside the modelled universe '
        '(float border with an integral value for the vector writers, compresslevel outside -1..9, colour tuples with negative or float channels) are '
        'counted under ser-class-outside-the-models and not compared.')

KINDS = ['svg', 'svgz', 'png', 'eps', 'txt', 'pdf', 'ans', 'pbm', 'pam', 'ppm', 'tex', 'xbm', 'xpm']
TEXT_KINDS = {'eps', 'txt', 'ans', 'tex', 'xbm', 'xpm'}
MODULE_COLOURS = ['finder_dark', 'finder_light', 'data_dark', 'data_light', 'version_dark', 'version_light', 'format_dark', 'format_light',
                  'alignment_dark', 'alignment_light', 'timing_dark', 'timing_light', 'separator', 'dark_module', 'quiet_zone']

# values: documented and malformed ones side by side
SCALES = [1, 2, 3, 10, 1.0, 2.5, 1.6, 0.99, 0.5, 1e-05, 0, -1, -3, 0.0, -0.5, -2.5]
BORDERS = [None, 0, 1, 2, 4, 7, -1, -2, 1.5, 0.25, -0.5, -1.5, 2.0, 0.0]
GOOD = [None, '#000', 'black', 'Black', '#fff', 'white', '#123', '#a1b2c3', 'A1B2C3', 'Red', 'darkblue', 'tan', (1, 2, 3), (0, 0, 0), (255, 255, 255),
        (0, 0, 0, 255), (0, 0, 0, 1), (0, 0, 0, 1.0), (255, 255, 255, 1), (9, 8, 7, 0.5), (9, 8, 7, 1.0), (9, 8, 7, 0.0), (1, 2, 3, 254), (1, 2, 3, 253),
        (1, 2, 3, 0), '#00000080', '#1238', '#123f', '#123e', '#010203fe', '#010203fd', '#0000', (4, 5, 6, 128)]
BAD = [(0, 0, 0, 255.0), (255, 255, 255, 255.0), '#12', '#12345g', '', 'nocolor', (1, 2), (256, 0, 0), (0, 0, 256), '#', '#1', '#12345', '#1234567', '#123456789', (1, 2, 3, 4, 5), (0, 0, 0, 256),
       (0, 0, 0, 1.5), (0, 0, 0, 2.0), (), '#ggg', 'rgb(1,2,3)', ' red', '#12 34 56', '12 34 56', '+12345', '#-12345', '1_2_3_']
DPI = [None, 0, 1, 72, 300, 2540, -1, -72]
LEVELS = [0, 1, 5, 9, -1, 10]
NAMES = ['img', 'qr', 'foo_1', '', 'a b', 'ä']
UNITS = [None, '', 'mm', 'px', '%']
SVGVERSIONS = [None, 1, 2, 1.1, 1.2, 2.0, 0.5]
TEXTS = [None, '', 'Title', 'a<&"b', 'ünï']
ENCODINGS = ['utf-8', 'UTF-8', 'ascii', 'latin-1', 'iso-8859-1']
TXT = ['1', '0', 'X', ' ', '', '██', 'ab']
COLOURS = GOOD + BAD


def option_table(kind):
    """option -> values of the documented types (well-formed and malformed)"""
    colours = COLOURS
    key = 'svg' if kind == 'svgz' else kind
    t = {}
    if key not in ('txt', 'ans'):
        t['scale'] = SCALES
    t['border'] = BORDERS
    if key in ('svg', 'png', 'ppm'):
        t['dark'] = t['light'] = colours
        for k in MODULE_COLOURS:
            t[k] = colours
    if key in ('eps', 'pdf', 'pam', 'xpm'):
        t['dark'] = t['light'] = colours
    if key == 'png':
        t['dpi'] = DPI
        t['compresslevel'] = LEVELS
    if key == 'pdf':
        t['compresslevel'] = LEVELS
    if key == 'pbm':
        t['plain'] = [True, False]
    if key in ('xbm', 'xpm'):
        t['name'] = NAMES
    if key == 'txt':
        t['dark'] = t['light'] = TXT
    if key == 'tex':
        t['dark'] = ['black', 'red', '', None, 'my color']
        t['unit'] = ['pt', 'mm', '', 'cm']
        t['url'] = [None, '', 'http://example.org/?a=1&b=%20']
    if key == 'svg':
        t.update(xmldecl=[True, False], svgns=[True, False], nl=[True, False], omitsize=[True, False], draw_transparent=[True, False],
                 title=TEXTS, desc=TEXTS, svgid=TEXTS, svgclass=TEXTS, lineclass=TEXTS, unit=UNITS, svgversion=SVGVERSIONS, encoding=ENCODINGS)
    return t


class SerCase:
    __slots__ = ('kind', 'qr', 'sym', 'kw', 'tag', 'outcome', 'data', 'exc')

    def __init__(self, kind, qr, sym, kw, tag):
        self.kind, self.qr, self.sym, self.kw, self.tag = kind, qr, sym, kw, tag
        self.outcome = self.data = self.exc = None

    def call(self):
        out = 'io.StringIO()' if self.kind.lower() in TEXT_KINDS else 'io.BytesIO()'
        if self.kind == 'compact':
            return f'segno.make({self.sym}).terminal(out=io.StringIO(), compact=True, ' + ', '.join(f'{k}={v!r}' for k, v in self.kw.items()) + ')'
        return f'segno.make({self.sym}).save({out}, kind={self.kind!r}, ' + ', '.join(f'{k}={v!r}' for k, v in self.kw.items()) + ')'

    def replay(self):
        return dict(make=self.sym, kind=self.kind, kw={k: repr(v) for k, v in self.kw.items()})


def symbols():
    """(description, symbol): a Micro QR Code, version 1 (alignment keys without alignment pattern), version 7 (every module type)"""
    return [("'14', micro=True", segno.make('14', micro=True)), ("'C14', micro=False", segno.make('C14', micro=False)),
            ("'version 7 symbol', version=7", segno.make('version 7 symbol', version=7))]


def gen_cases(rnd, tier):
    syms = symbols()
    cases = []
    n_random = 60 if tier == 'quick' else 600
    for kind in KINDS:
        table = option_table(kind)
        opts = sorted(table)
        # every value of every option alone (module colours: on the version 7 symbol, which has every module type; a sample in the quick tier)
        for opt in opts:
            vals = table[opt]
            if opt in MODULE_COLOURS and tier == 'quick':
                vals = rnd.sample(vals, 6)
            for val in vals:
                desc, qr = syms[2] if opt in MODULE_COLOURS or opt in ('dark', 'light') else rnd.choice(syms)
                cases.append(SerCase(kind, qr, desc, {opt: val}, 'one-option'))
        # random rows of two to four options
        for _ in range(n_random):
            desc, qr = rnd.choice(syms)
            kw = {}
            for opt in rnd.sample(opts, min(len(opts), rnd.randint(2, 4))):
                vals = table[opt]
                if vals is COLOURS:
                    kw[opt] = rnd.choice(GOOD) if rnd.random() < 0.75 else rnd.choice(BAD)
                else:
                    kw[opt] = rnd.choice(vals)
            cases.append(SerCase(kind, qr, desc, kw, 'random-row'))
        # scale x border grid (the order of the two checks)
        for s in ([None] if kind in ('txt', 'ans') else [1, 0, -1, 0.5, 2.5]):
            for b in (None, 0, -1, 1.5, -0.5):
                kw = {} if s is None else dict(scale=s)
                if b is not None:
                    kw['border'] = b
                desc, qr = rnd.choice(syms)
                cases.append(SerCase(kind, qr, desc, kw, 'scale-border-grid'))
        # the float alpha 255.0 (equal to the int 255 as a Python value, invalid as an alpha value: refused since fix 5f5dbe9) for
        # dark / light / a per-type colour, black, white and a colour
        if 'dark' in table and kind != 'txt' and kind != 'tex':
            keys = ['dark', 'light'] + (['data_dark', 'finder_dark', 'quiet_zone', 'separator'] if 'finder_dark' in table else [])
            for key in keys:
                for val in ((0, 0, 0, 255.0), (255, 255, 255, 255.0), (1, 2, 3, 255.0), (0, 0, 0, 1.0), (255, 255, 255, 1.0), (0, 0, 0, 1), (0, 0, 0, 255)):
                    desc, qr = syms[2]
                    cases.append(SerCase(kind, qr, desc, {key: val}, 'alpha-255.0'))
        # svg: `unit` x `omitsize` (refused together unless the unit is empty), x `draw_transparent` / light (which colours get a path)
        if kind in ('svg', 'svgz'):
            for unit in UNITS:
                for omit in (True, False):
                    desc, qr = rnd.choice(syms)
                    cases.append(SerCase(kind, qr, desc, dict(unit=unit, omitsize=omit), 'unit-omitsize-grid'))
            for dt in (True, False):
                for light in (None, '#fff', (0, 0, 0, 2.0), '#12'):
                    for dark in (None, '#000', (0, 0, 0, 2), '#1'):
                        desc, qr = rnd.choice(syms)
                        cases.append(SerCase(kind, qr, desc, dict(dark=dark, light=light, draw_transparent=dt), 'svg-painted-grid'))
    # unknown and oddly spelled kinds (dispatch of `writers.save`)
    for kind in ('foo', 'svgx', '', 'PNG ', 'jpeg', 'PnG', 'SVG', 'pdf ', 'p', 'svgzz', 'SvGz', 'Txt', 'EPS'):
        desc, qr = rnd.choice(syms)
        cases.append(SerCase(kind, qr, desc, {}, 'kind-spelling'))
    # the compact terminal writer (QRCode.terminal)
    for b in BORDERS:
        desc, qr = rnd.choice(syms)
        cases.append(SerCase('compact', qr, desc, dict(border=b), 'one-option'))
    return cases


def execute(c):
    out = io.StringIO() if c.kind.lower() in TEXT_KINDS or c.kind == 'compact' else io.BytesIO()
    saved = writers.time
    writers.time = FrozenTime()
    try:
        if c.kind == 'compact':
            c.qr.terminal(out=out, compact=True, **c.kw)
        else:
            c.qr.save(out, kind=c.kind, **c.kw)
        c.outcome, c.data = 'ok', out.getvalue()
    except Exception as ex:  # noqa
        c.exc = type(ex).__name__
        c.outcome = 'ValueError' if isinstance(ex, ValueError) else 'other:' + c.exc
    finally:
        writers.time = saved


def pyv_ser(x):
    """as routes_model.pyv; in addition a float alpha above 1.0 (malformed) travels as `f:r,g,b,permille`"""
    if isinstance(x, tuple) and len(x) == 4 and isinstance(x[3], float) and all(isinstance(e, int) and not isinstance(e, bool) and e >= 0 for e in x[:3]):
        k = x[3] * 1000
        if k >= 0 and abs(k - round(k)) < 1e-9 and k < 10 ** 9:
            return 'o' + f'f:{x[0]},{x[1]},{x[2]},{int(round(k))}'.encode().hex()
    return pyv(x)


def cfg_str(cfg):
    return ';'.join(f'{k}:{pyv_ser(v)}' for k, v in sorted(cfg.items())) or '-'


def expressible(kw):
    for v in kw.values():
        if isinstance(v, str):
            try:
                v.encode('utf-8')
            except UnicodeEncodeError:
                return False
        elif isinstance(v, float) and (v != v or v in (float('inf'), float('-inf'))):
            return False
    return True


def model_line(i, c):
    """`rdocv` request: the route `save(<stream>, kind=…, **kw)` / `terminal(out, border, compact=True)` executed by the document models"""
    kw = c.kw
    if not expressible(kw):
        return None
    size = len(c.qr.matrix)
    if c.kind == 'compact':
        return f'rdocv id={i} route=terminal out=t m={matrix_str(c.qr.matrix)} kw=- border={pyv(kw.get("border"))} compact=T'
    f = [f'rdocv id={i} route=save out={"t" if c.kind.lower() in TEXT_KINDS else "b"} kind={c.kind.encode().hex()} m={matrix_str(c.qr.matrix)} kw={cfg_str(kw)}']
    fs, ms = [], []
    for k, v in kw.items():
        if isinstance(v, float):
            n, d = v.as_integer_ratio()
            fs.append(f'{n}/{d}~{repr(v).encode().hex()}')
            if k == 'scale':
                b = kw.get('border')
                if b is None or (isinstance(b, int) and not isinstance(b, bool) and b >= 0):
                    kk = size + 2 * eff_border(size, b)
                    ks = {kk} | (set(range(kk + 2)) if c.kind == 'tex' else set())
                    ms += [f'{k2}*{n}/{d}~{repr(k2 * v).encode().hex()}' for k2 in sorted(ks)]
    if fs:
        f.append('fs=' + ','.join(fs))
    if ms:
        f.append('ms=' + ','.join(ms))
    if c.kind == 'png':
        if palette_tie(kw):
            return None
        if c.outcome == 'ok':
            f.append('comp=' + png_idat_payload(c.data).hex())
        dpi = kw.get('dpi')
        if isinstance(dpi, int) and not isinstance(dpi, bool) and dpi >= 0:
            f.append(f'ppm={int(int(dpi) // 0.0254)}')
    if c.kind in ('eps', 'tex', 'pdf'):
        f.append('tdate=' + '2024-02-29T13:14:15'.encode().hex() + ' edate=' + '2024-02-29 13:14:15'.encode().hex())
        if c.kind == 'pdf':
            m = re.search(rb'/CreationDate\(D:([^)]*)\)', c.data or b'')
            f.append('pdate=' + (m.group(1) if m else b'').hex() + ' chan=' + CHAN_TABLE)
            g = pdf_stream(c.data) if c.data else None
            if g is not None:
                f.append('graphic=' + g.hex())                  # runtime service: zlib
    return ' '.join(f)


def model_class(o):
    """outcome class of the model: ok | ValueError | other:<Exception> | outside"""
    kv = parse_kv(o)
    r = kv.get('result', '')
    if r.startswith('err:'):
        n = r[4:]
        if n == 'AssertionError':
            return 'outside', None
        if n in ('ValueError', 'UnicodeError', 'DataOverflowError'):
            return 'ValueError', None
        return 'other:' + n, None
    if r[:2] in ('w:', 'v:'):
        return 'ok', r
    return 'bad-answer:' + o[:80], None


def correspond_serializers(rnd, tier, st, res):
    cases = gen_cases(rnd, tier)
    for c in cases:
        execute(c)
        res.count(f'ser-class:{c.kind}:{c.outcome.split(":")[0]}')
    res.evaluations += len(cases)
    if not st.model_ok:
        return cases
    todo = []
    for c in cases:
        line = model_line(len(todo), c)
        if line is None:
            res.count('ser-class-skipped:inexpressible')
            continue
        todo.append((c, line))
    from p_raster import run_balanced
    outs = run_balanced(MODEL, [t[1] for t in todo])
    for (c, line), o in zip(todo, outs):
        cls, doc = model_class(o)
        if cls == 'outside':
            res.count(f'ser-class-outside-the-models:{c.kind}:{c.outcome}')
            continue
        res.corr_checked += 1
        res.nontrivial.add(('ser-class', c.kind, tuple(sorted((k, repr(v)) for k, v in c.kw.items())), c.outcome))
        if cls.split(':')[0] != c.outcome.split(':')[0]:
            res.corr_diffs.append(dict(what='serializer outcome class (ok / ValueError / other)', call=c.call(), replay=c.replay(), impl=c.outcome, model=cls))
            continue
        if cls == 'ok' and c.kind in ('eps', 'tex', 'pdf'):
            raw = c.data.encode('utf-8') if isinstance(c.data, str) else bytes(c.data)
            want = ('w:c:' if isinstance(c.data, str) else 'w:b:') + raw.hex()
            res.count(f'ser-document:{c.kind}')
            if doc != want:
                j = next((i for i, (p, q) in enumerate(zip(doc, want)) if p != q), min(len(doc), len(want)))
                res.corr_diffs.append(dict(what=f'{c.kind} document through Model.RoutesVec', call=c.call(), replay=c.replay(), first_difference_at=j,
                                           impl=want[max(0, j - 40):j + 80], model=doc[max(0, j - 40):j + 80]))
    return cases
