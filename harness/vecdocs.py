"""Correspondence (Tie B) of the whole vector documents (C10 / C11): the same call is sent to the Lean `model`
executable (Model/SvgDoc.lean, Model/Tex.lean, Model/VectorDocs.lean via Model/VectorDriver.lean) and the document
of the real serialiser is compared with the model's document byte for byte.

Runtime services handed to the model (named in the request): Python's `str` of floats (`scale`, `(size + 2·border) *
scale`, `k * scale`, float `svgversion`), the codec of `encoding` (the model writes the text; the bytes of the real
document are decoded with the codec and compared as UTF-8), the clock (`%%CreationDate` / `% Date:` /
`/CreationDate`), zlib (the compressed content stream of a PDF is taken from the real file; its inflated content is
compared with the model's content stream)."""
import io
import re
import zlib

from common import *
from raster import col_token, TYPE_OPTIONS

SVG_DEFAULTS = dict(xmldecl=True, svgns=True, title=None, desc=None, svgid=None, svgclass='segno', lineclass='qrline', omitsize=False,
                    unit=None, encoding='utf-8', svgversion=None, nl=True, draw_transparent=False)


class NotExpressible(Exception):
    pass


def hx(s):
    return s.encode('utf-8').hex()


def str_token(v):
    if v is None:
        return '-'
    if not isinstance(v, str):
        raise NotExpressible('non-str option')
    try:
        return 's' + hx(v)
    except UnicodeEncodeError:
        raise NotExpressible('lone surrogate')


def float_text(x):
    s = repr(x)
    if 'n' in s:       # nan / inf
        raise NotExpressible('nan/inf')
    return s


def scale_token(scale):
    if isinstance(scale, bool) or not isinstance(scale, (int, float)):
        raise NotExpressible('scale type')
    if isinstance(scale, int):
        return f'i:{scale}'
    return f'f:{hx(float_text(scale))}:{int(scale > 0)}:{int(scale == 1)}'


def border_token(b):
    if b is None:
        return '-'
    if isinstance(b, bool) or not isinstance(b, int):
        raise NotExpressible('border type')
    return str(b)


def eff_border(size, b):
    return (4 if size > 17 else 2) if b is None else b      # utils.get_default_border_size for a square matrix


def colour_tokens(kw, names=('dark', 'light')):
    f = []
    for k in names:
        if k in kw:
            f.append(f'{k}={col_token(kw[k])}')
    for k in TYPE_OPTIONS:
        if k in kw and kw[k] is not False:
            f.append(f'o.{k}={col_token(kw[k])}')
    if any('=x:' in t for t in f):
        raise NotExpressible('colour')
    return f


def svg_request(cmd, i, mstr, size, kw):
    """request line for `svgdoc` / `svgpaths`; raises NotExpressible if an argument is outside the protocol"""
    known = set(SVG_DEFAULTS) | {'scale', 'border', 'dark', 'light'} | set(TYPE_OPTIONS)
    if set(kw) - known:
        raise NotExpressible('unknown keyword')
    f = [f'{cmd} id={i} m={mstr}']
    scale = kw.get('scale', 1)
    f.append('scale=' + scale_token(scale))
    f.append('border=' + border_token(kw.get('border')))
    if isinstance(scale, float):
        b = kw.get('border')
        if b is None or b >= 0:
            n = size + 2 * eff_border(size, b)
            # runtime service: float multiplication and str()
            f.append('wtext=' + hx(float_text(n * scale)) + ' htext=' + hx(float_text(n * scale)))
    f += colour_tokens(kw)
    for k in ('xmldecl', 'svgns', 'omitsize', 'nl'):
        if k in kw:
            if not isinstance(kw[k], bool):
                raise NotExpressible('flag type')
            f.append(f'{k}={int(kw[k])}')
    if 'draw_transparent' in kw:
        f.append(f'dt={int(bool(kw["draw_transparent"]))}')
    for k in ('title', 'desc', 'svgid', 'svgclass', 'lineclass', 'unit', 'encoding'):
        if k in kw:
            f.append(f'{k}={str_token(kw[k])}')
    if 'svgversion' in kw:
        v = kw['svgversion']
        if v is None:
            f.append('svgversion=-')
        elif isinstance(v, bool) or not isinstance(v, (int, float)):
            raise NotExpressible('svgversion type')
        elif isinstance(v, int):
            f.append(f'svgversion=i:{v}')
        else:
            f.append(f'svgversion=f:{hx(float_text(v))}:{int(v < 2.0)}')
    return ' '.join(f)


def norm_exc(name):
    # the model's error type has no AttributeError (colour None reaching `.lower()`: TypeError there) and no StopIteration
    # (`next()` on the exhausted line iterator of write_eps: LookupError there)
    return {'IndexError': 'LookupError', 'KeyError': 'LookupError', 'StopIteration': 'LookupError', 'AttributeError': 'TypeError'}.get(name, name)


def first_diff_text(a, b):
    k = next((i for i, (x, y) in enumerate(zip(a, b)) if x != y), min(len(a), len(b)))
    return k, a[max(0, k - 60):k + 100], b[max(0, k - 60):k + 100]


def svg_impl_text(data, kw):
    """the text the real writer handed to its codec (runtime service: the codec of `encoding`)"""
    enc = kw.get('encoding', 'utf-8') or 'utf-8'
    return data.decode(enc)


PATH_RE = re.compile(r'<path[^>]*/>')


def correspond_svg(items, st, res, what='svg'):
    """items: (call, replay, mstr, size, kw, exc name or None, bytes or None).  Whole document byte for byte (as text
    in the document's encoding), and the `<path …/>` elements in document order."""
    if not st.model_ok:
        return
    lines, keep = [], []
    for it in items:
        call, replay, mstr, size, kw, exc, data = it
        try:
            l1 = svg_request('svgdoc', len(keep), mstr, size, kw)
            l2 = svg_request('svgpaths', len(keep), mstr, size, kw)
        except NotExpressible as ex:
            res.count(f'{what}-doc-correspondence-skipped:{ex}')
            continue
        lines += [l1, l2]
        keep.append(it)
    from p_raster import run_balanced
    outs = run_balanced(MODEL, lines)
    for k, it in enumerate(keep):
        call, replay, mstr, size, kw, exc, data = it
        doc, paths = parse_kv(outs[2 * k]), parse_kv(outs[2 * k + 1])
        res.corr_checked += 1
        if exc == 'UnicodeEncodeError' and 'doc' in doc:
            # runtime service: the codec of `encoding` refuses the text the model produced as well
            res.count(f'{what}-doc-correspondence:refused-by-the-codec')
            try:
                bytes.fromhex(doc['doc']).decode('utf-8').encode(kw.get('encoding') or 'utf-8')
                res.corr_diffs.append(dict(what='SVG document: refused by the codec', call=call, replay=replay, impl=exc, model=outs[2 * k][:200]))
            except UnicodeEncodeError:
                pass
            continue
        if exc is not None:
            res.count(f'{what}-doc-correspondence:refusal')
            if norm_exc(doc.get('err', 'none')) != norm_exc(exc):
                res.corr_diffs.append(dict(what='SVG document: refusal', call=call, replay=replay, impl=exc, model=outs[2 * k][:200]))
            continue
        res.count(f'{what}-doc-correspondence:document')
        try:
            impl = svg_impl_text(data, kw)
        except Exception as ex:  # noqa
            res.corr_diffs.append(dict(what='SVG document: cannot be decoded', call=call, replay=replay, impl=repr(ex), model=''))
            continue
        if 'doc' not in doc:
            res.corr_diffs.append(dict(what='SVG document', call=call, replay=replay, impl=impl[:200], model=outs[2 * k][:200]))
            continue
        model = bytes.fromhex(doc['doc']).decode('utf-8')
        mpaths = [bytes.fromhex(p).decode('utf-8') for p in paths.get('paths', '').split(',') if p]
        ipaths = PATH_RE.findall(impl)
        if ipaths != mpaths and len(ipaths) == len(mpaths):
            j = next(i for i, (a, b) in enumerate(zip(ipaths, mpaths)) if a != b)
            pos, a, b = first_diff_text(ipaths[j], mpaths[j])
            res.corr_diffs.append(dict(what=f'SVG path element {j} of {len(ipaths)} (document order)', call=call, replay=replay, first_difference_at=pos,
                                       impl=a, model=b))
        elif model != impl:
            pos, a, b = first_diff_text(impl, model)
            res.corr_diffs.append(dict(what='SVG document, whole text', call=call, replay=replay, first_difference_at=pos, impl=a, model=b))


# ------------------------------------------------------------------------------------------------ extra SVG calls

TITLES = [None, 'QR', 'a<&"b', '<script>&amp;"\'', 'Tom & "Jerry" <3', 'ünï©ode ✓', ']]>', '', 'line\nbreak\ttab\rcr', '&&<<>>']
CLASSES = [None, '', 'segno', 'a b', 'x"y', "x'y", 'x"y\'z', 'q<r>&', 'stroke', 'my stroke class', ' class="x"', 'a\tb\nc', 'é', 'a class="b"',
           'x class="y" z', '"/>', 'a"/>b']
UNITS = [None, '', 'mm', 'cm', 'px', 'pt', 'in', 'em', 'pc', '%', 'a"b']
VERSIONS = [None, 1, 2, 3, 0, 1.0, 1.1, 1.2, 2.0, 2.5, 1.9999, -1, 0.5]
ENCODINGS = [None, 'utf-8', 'UTF-8', 'utf8', 'ascii', 'latin-1', 'utf-16', 'iso-8859-15', 'cp1252']
SCALES = [1, 1, 2, 3, 10, 1.0, 0.5, 1.5, 2.0, 3.3, 7.25, 0.1, 100, 12.75, 4, 5, 2.5, 0.25, 33.33, 20, 1e-05, 1e16, 1e22, 0.75, 6, 7, 8, 9, 1.25]
BAD_SCALES = [0, -1, -0.5, 0.0, -3]
COLS = ['red', 'Red', 'RED', 'blue', 'tan', '#d2b48c', '#D2B48C', '#ff0000', '#f00', '#F00', 'ff0000', '#000', '#000000', 'black', 'BLACK', '#fff',
        '#FFFFFF', 'white', '#abc', '#aabbcc', '#aabbcd', '#123456', 'navy', 'gold', (0, 0, 0), (255, 255, 255), (210, 180, 140), (255, 0, 0),
        (17, 34, 51), (1, 2, 3), (0, 0, 0, 255), (0, 0, 0, 1), (0, 0, 0, 1.0), (0, 0, 0, 0), (0, 0, 0, 0.0), (255, 255, 255, 1), (255, 255, 255, 1.0),
        (255, 255, 255, 255), (1, 2, 3, 1), (1, 2, 3, 1.0), (1, 2, 3, 0), (1, 2, 3, 0.0), (1, 2, 3, 254), (1, 2, 3, 253), (1, 2, 3, 128), (1, 2, 3, 127),
        (1, 2, 3, 64), (1, 2, 3, 32), (1, 2, 3, 16), (1, 2, 3, 8), (1, 2, 3, 3), (1, 2, 3, 2), (1, 2, 3, 0.5), (1, 2, 3, 0.25), (1, 2, 3, 0.125),
        (1, 2, 3, 0.3), (1, 2, 3, 0.001), (1, 2, 3, 0.999), (1, 2, 3, 0.07), (1, 2, 3, 0.1), '#11223380', '#abcf', '#abc0', '#00000080', '#ffffff00',
        '#0a141e20', '#0a141e10', '#0a141efe', '#0a141efd', '#1234', '#ff000040', None, None]
BAD_COLS = ['', '#12', 'nocolor', '#12345', '#ggg', (256, 0, 0), (0, 0), (1, 2, 3, 4, 5), '#1234567', (1, 2, 3, 256), (1, 2, 3, 1.5), ()]


def rnd_col(rnd, bad=0.006):
    if rnd.random() < bad:
        return rnd.choice(BAD_COLS)
    r = rnd.random()
    if r < 0.55:
        return rnd.choice(COLS)
    if r < 0.7:
        return '#' + ''.join(rnd.choice('0123456789abcdefABCDEF') for _ in range(rnd.choice([3, 6, 6, 4, 8])))
    if r < 0.85:
        return (rnd.randrange(256), rnd.randrange(256), rnd.randrange(256))
    if r < 0.93:
        return (rnd.randrange(256), rnd.randrange(256), rnd.randrange(256), rnd.randrange(256))
    return (rnd.randrange(256), rnd.randrange(256), rnd.randrange(256), rnd.randrange(1001) / 1000)


def svg_doc_options(rnd, kw, p=0.25):
    """the non-colour options of write_svg, each with probability p"""
    if rnd.random() < 0.6:
        kw['scale'] = rnd.choice(SCALES) if rnd.random() < 0.97 else rnd.choice(BAD_SCALES)
    if rnd.random() < 0.6:
        kw['border'] = rnd.choice([None, 0, 1, 2, 3, 4, 5, 6, 10]) if rnd.random() < 0.97 else rnd.choice([-1, -4])
    for k, vals in (('title', TITLES), ('desc', TITLES), ('svgid', CLASSES), ('svgclass', CLASSES), ('lineclass', CLASSES), ('unit', UNITS),
                    ('svgversion', VERSIONS), ('encoding', ENCODINGS)):
        if rnd.random() < p:
            kw[k] = rnd.choice(vals)
    for k in ('xmldecl', 'svgns', 'omitsize', 'nl', 'draw_transparent'):
        if rnd.random() < p:
            kw[k] = rnd.random() < 0.5
    if kw.get('omitsize') and kw.get('unit') and rnd.random() < 0.8:
        del kw['unit']
    return kw


def svg_extra_calls(rnd, tier, symbols):
    """calls for the document correspondence only.  symbols: list of (version, qr, description of the make call)"""
    out = []
    dk = [o for o in TYPE_OPTIONS if o.endswith('dark') or o == 'dark_module']
    lt = [o for o in TYPE_OPTIONS if o not in dk]
    reps = 1 if tier == 'quick' else 5
    for _ in range(reps):
        for (v, q, mk) in symbols:
            # multicolour: 1..15 per-type options
            cnt = rnd.choice([1, 1, 2, 3, 5, 8, 13, 15])
            kw = {opt: rnd_col(rnd) for opt in rnd.sample(TYPE_OPTIONS, cnt)}
            if rnd.random() < 0.5:
                kw['dark'] = rnd_col(rnd)
            if rnd.random() < 0.5:
                kw['light'] = rnd_col(rnd)
            out.append((v, q, mk, svg_doc_options(rnd, kw), 'multicolour'))
            # two colours (the branch with background path)
            kw = {}
            if rnd.random() < 0.8:
                kw['dark'] = rnd_col(rnd)
            if rnd.random() < 0.8:
                kw['light'] = rnd_col(rnd)
            r = rnd.random()
            if r < 0.1:
                kw['light'] = kw.get('dark', '#000')                  # the background replaces the module path
            elif r < 0.2:
                c1, c2 = rnd_col(rnd, 0), rnd_col(rnd, 0)             # two-tone map built from options
                kw = {**{o: c1 for o in dk}, **{o: c2 for o in lt}}
            elif r < 0.3:
                c1, c2 = rnd_col(rnd, 0), rnd_col(rnd, 0)             # two colours, not two-tone
                skip = rnd.choice(dk)
                kw = {**{o: c1 for o in dk if o != skip}, **{o: c2 for o in lt}, 'dark': c2}
            elif r < 0.35:
                kw = dict(dark=(9, 8, 7, 1.0), light=(9, 8, 7, 1))    # equal as Python values, different colours
            elif r < 0.4:
                kw = dict(dark=(9, 8, 7, 1), data_dark=(9, 8, 7, 1.0), light=rnd_col(rnd, 0))
            out.append((v, q, mk, svg_doc_options(rnd, kw, 0.35), 'two-colour'))
    return out


def run_extra_svg(rnd, tier, symbols, which):
    """executes the extra calls on the real code; returns correspondence items"""
    items = []
    for (v, q, mk, kw, tag) in svg_extra_calls(rnd, tier, symbols):
        if tag != which:
            continue
        out = io.BytesIO()
        exc = data = None
        try:
            q.save(out, kind='svg', **kw)
            data = out.getvalue()
        except Exception as ex:  # noqa
            exc = type(ex).__name__
        m = [list(r) for r in q.matrix]
        call = 'segno.make(' + ', '.join(f'{k}={x!r}' if k != 'content' else repr(x) for k, x in mk.items()) + ').save(io.BytesIO(), kind=\'svg\', ' \
               + ', '.join(f'{k}={x!r}' for k, x in kw.items()) + ')'
        items.append((call, dict(make=mk, fmt='svg', kw={k: repr(x) for k, x in kw.items()}), matrix_str(m), len(m), kw, exc, data))
    return items


def correspond_c11_docs(cases, rnd, syms, tier, st, res):
    """C11: the colourful SVG documents of the generator + extra multicolour calls for all 44 versions"""
    from symbols import ALL_VERSIONS
    items = []
    for c in cases:
        if c.fmt == 'svg':
            m = [list(r) for r in c.q.matrix]
            items.append((c.call(), c.replay(), matrix_str(m), len(m), c.kw, None if c.outcome == 'ok' else c.outcome, c.data))
    symbols = [(v,) + syms.get(v, 0) for v in ALL_VERSIONS]
    extra = run_extra_svg(rnd, tier, symbols, 'multicolour')
    res.count('svg-doc-extra-calls', len(extra))
    correspond_svg(items + extra, st, res, 'svg')


def correspond_c10_docs(docs, pool, rnd, tier, st, res):
    """C10: every SVG document of the generator + extra two-colour calls (all options of write_svg)"""
    items = []
    for d in docs:
        if d.kind == 'svg' and (d.data is not None or d.exc):
            items.append((d.call(), d.replay(), d.sym['mstr'], d.sym['size'], d.kw, d.exc, d.data))
    symbols = [(s['v'], s['qr'], dict(content=s['content'], **s['mk'])) for s in pool]
    extra = run_extra_svg(rnd, tier, symbols, 'two-colour')
    res.count('svg-doc-extra-calls', len(extra))
    correspond_svg(items + extra, st, res, 'svg')
    others = []
    for d in docs:
        if d.kind in ('tex', 'eps', 'pdf') and (d.data is not None or d.exc):
            others.append((d.kind, d.call(), d.replay(), d.sym['mstr'], d.sym['size'], d.kw, d.exc, d.data))
    extra2 = run_extra_docs(rnd, tier, pool)
    res.count('tex-eps-pdf-doc-extra-calls', len(extra2))
    correspond_docs(others + extra2, st, res)


# ------------------------------------------------------------------------------------------------ TeX / EPS / PDF

def vcol_token(c):
    """colour argument of write_eps / write_pdf: as col_token, plus 3-tuples with float channels (runtime services: the
    '{:f}' and str() renderings of the float and its comparisons)"""
    if isinstance(c, tuple) and len(c) == 3 and any(isinstance(x, float) for x in c) \
            and all((isinstance(x, float) and x == x and abs(x) != float('inf')) or (isinstance(x, int) and not isinstance(x, bool) and x >= 0) for x in c):
        return 'c:' + '/'.join(f'i{x}' if isinstance(x, int) else
                               f'f{hx("{:f}".format(x))}.{hx(str(x))}.{int(x == 0)}{int(0.0 <= x <= 1.0)}{int(0 <= x <= 255)}' for x in c)
    return col_token(c)


def vcolour_tokens(kw):
    f = [f'{k}={vcol_token(kw[k])}' for k in ('dark', 'light') if k in kw]
    if any('=x:' in t for t in f):
        raise NotExpressible('colour')
    return f


def common_fields(mstr, size, kw):
    scale = kw.get('scale', 1)
    f = [f'm={mstr}', 'scale=' + scale_token(scale), 'border=' + border_token(kw.get('border'))]
    if isinstance(scale, float):
        b = kw.get('border')
        if b is None or b >= 0:
            n = size + 2 * eff_border(size, b)
            f.append('wtext=' + hx(float_text(n * scale)) + ' htext=' + hx(float_text(n * scale)))      # runtime service: float product and str()
    return f


def tex_request(i, mstr, size, kw, text):
    if set(kw) - {'scale', 'border', 'dark', 'unit', 'url'}:
        raise NotExpressible('unknown keyword')
    f = [f'texdoc id={i}'] + common_fields(mstr, size, kw)
    for k in ('dark', 'url'):
        if k in kw:
            f.append(f'{k}={str_token(kw[k])}')
    if 'unit' in kw:
        if not isinstance(kw['unit'], str):
            raise NotExpressible('unit type')
        f.append('unit=' + str_token(kw['unit']))
    scale = kw.get('scale', 1)
    if isinstance(scale, float):
        b = kw.get('border')
        if b is None or b >= 0:
            n = size + 2 * eff_border(size, b)
            f.append('mul=' + ','.join(hx(float_text(k * scale)) for k in range(n + 2)))                # runtime service: str(k * scale)
    m = re.search(r'^% Date:     (.*)$', text or '', re.M)
    f.append('date=' + hx(m.group(1) if m else ''))                                                      # runtime service: the clock
    return ' '.join(f)


def eps_request(i, mstr, size, kw, text):
    if set(kw) - {'scale', 'border', 'dark', 'light'}:
        raise NotExpressible('unknown keyword')
    f = [f'epsdoc id={i}'] + common_fields(mstr, size, kw) + vcolour_tokens(kw)
    m = re.search(r'^%%CreationDate: (.*)$', text or '', re.M)
    f.append('date=' + hx(m.group(1) if m else ''))
    return ' '.join(f)


CHAN_TABLE = ','.join(hx(str(1 / 255.0 * c)) for c in range(256))      # runtime service: Python's float repr


def pdf_stream(data):
    """raw bytes of the (only) stream of the file, cut by its /Length"""
    m = re.search(rb'/Length (\d+) /Filter /FlateDecode>>\r\nstream\r\n', data)
    if not m:
        return None
    n = int(m.group(1))
    raw = data[m.end():m.end() + n]
    return raw if data[m.end() + n:m.end() + n + 11] == b'\r\nendstream' else None


def pdf_request(i, mstr, size, kw, data):
    if set(kw) - {'scale', 'border', 'dark', 'light', 'compresslevel'}:
        raise NotExpressible('unknown keyword')
    f = [f'pdfdoc id={i}'] + common_fields(mstr, size, kw) + vcolour_tokens(kw)
    if 'dark' in kw or 'light' in kw:
        f.append('chan=' + CHAN_TABLE)
    m = re.search(rb'/CreationDate\(D:([^)]*)\)', data or b'')
    f.append('date=' + (m.group(1) if m else b'').hex())
    g = pdf_stream(data) if data else None
    if g is not None:
        f.append('graphic=' + g.hex())                                                                   # runtime service: zlib
    return ' '.join(f), g


def correspond_docs(items, st, res):
    """items: (kind, call, replay, mstr, size, kw, exc name or None, data).  tex / eps: the whole text; pdf: the inflated content
    stream and the whole file."""
    if not st.model_ok:
        return
    lines, keep = [], []
    for it in items:
        kind, call, replay, mstr, size, kw, exc, data = it
        try:
            if kind == 'tex':
                line, g = tex_request(len(keep), mstr, size, kw, data), None
            elif kind == 'eps':
                line, g = eps_request(len(keep), mstr, size, kw, data), None
            else:
                line, g = pdf_request(len(keep), mstr, size, kw, data)
        except NotExpressible as ex:
            res.count(f'{kind}-doc-correspondence-skipped:{ex}')
            continue
        lines.append(line)
        keep.append(it + (g,))
    from p_raster import run_balanced
    outs = run_balanced(MODEL, lines)
    for it, o in zip(keep, outs):
        kind, call, replay, mstr, size, kw, exc, data, g = it
        kv = parse_kv(o)
        res.corr_checked += 1
        if exc is not None:
            res.count(f'{kind}-doc-correspondence:refusal')
            if norm_exc(kv.get('err', 'none')) != norm_exc(exc):
                res.corr_diffs.append(dict(what=f'{kind.upper()} document: refusal', call=call, replay=replay, impl=exc, model=o[:200]))
            continue
        res.count(f'{kind}-doc-correspondence:document')
        if kind in ('tex', 'eps'):
            if 'doc' not in kv:
                res.corr_diffs.append(dict(what=f'{kind.upper()} document', call=call, replay=replay, impl=data[:200], model=o[:200]))
                continue
            model = bytes.fromhex(kv['doc']).decode('utf-8')
            if model != data:
                pos, a, b = first_diff_text(data, model)
                res.corr_diffs.append(dict(what=f'{kind.upper()} document, whole text', call=call, replay=replay, first_difference_at=pos, impl=a, model=b))
        else:
            if 'content' not in kv or g is None:
                res.corr_diffs.append(dict(what='PDF document', call=call, replay=replay, impl=repr(data[:200]), model=o[:200]))
                continue
            try:
                content = zlib.decompress(g).decode('latin-1')
            except zlib.error as ex:
                res.corr_diffs.append(dict(what='PDF content stream does not inflate', call=call, replay=replay, impl=repr(ex), model=''))
                continue
            model = bytes.fromhex(kv['content']).decode('utf-8')
            if model != content:
                pos, a, b = first_diff_text(content, model)
                res.corr_diffs.append(dict(what='PDF content stream (inflated)', call=call, replay=replay, first_difference_at=pos, impl=a, model=b))
            elif kv.get('file') != data.hex():
                mf = bytes.fromhex(kv.get('file', ''))
                pos = next((i for i, (x, y) in enumerate(zip(mf, data)) if x != y), min(len(mf), len(data)))
                res.corr_diffs.append(dict(what='PDF file, byte for byte', call=call, replay=replay, first_difference_at=pos,
                                           impl=repr(data[max(0, pos - 40):pos + 60]), model=repr(mf[max(0, pos - 40):pos + 60])))


# ------------------------------------------------------------------------------------------------ extra TeX / EPS / PDF calls

VCOLS = ['red', 'Black', '#000', '#000000', 'black', (0, 0, 0), (0.0, 0.0, 0.0), (0, 0.0, 0), '#fff', 'white', (255, 255, 255), (1.0, 1.0, 1.0), (1, 1, 1),
         (0.5, 0.25, 0.125), (0.2, 0.75, 1.0), (1, 0.5, 0), (255, 0.5, 0), (0.001, 0.999, 0.1), '#123456', '#abc', 'ABCDEF', 'navy', (17, 34, 51), (1, 2, 3),
         (254, 255, 0), '#010203ff', '#010203fe', '#123f', (1, 2, 3, 255), (1, 2, 3, 254), (1, 2, 3, 1.0), (0, 0, 0, 255), (0, 0, 0, 1), (0, 0, 0, 1.0)]
BAD_VCOLS = ['', '#12', 'nocolor', '#12345', (256, 0, 0), (0, 0), (1, 2, 3, 4, 5), '#01020380', '#1238', (1, 2, 3, 128), (1, 2, 3, 253), (1, 2, 3, 0.5), (1, 2, 3, 0),
             (1.5, 0.0, 0.0), (0.5, 2.0, 0.5), (-0.5, 0.0, 0.0), (300.0, 0.0, 0.0), (0.5, 0.5, 256), ()]


def run_extra_docs(rnd, tier, pool):
    """calls for the document correspondence only: colour forms and refusals of write_eps / write_pdf / write_tex that the judged
    generator does not produce (alpha values that count as opaque or not, float channels, unreadable colours, scale <= 0, border < 0,
    a matrix without any dark module)"""
    from segno import writers
    items = []

    def run(sym, kind, kw, matrix=None):
        out = io.BytesIO() if kind == 'pdf' else io.StringIO()
        exc = data = None
        try:
            if matrix is not None:
                writers.save([bytearray(r) for r in matrix], (len(matrix), len(matrix)), out, kind=kind, **kw)
            else:
                sym['qr'].save(out, kind=kind, **kw)
            data = out.getvalue()
        except Exception as ex:  # noqa
            exc = type(ex).__name__
        kws = ', '.join(f'{k}={x!r}' for k, x in sorted(kw.items()))
        if matrix is not None:
            call = f'segno.writers.save({matrix!r}, ({len(matrix)}, {len(matrix)}), out, kind={kind!r}, {kws})'
            items.append((kind, call, dict(matrix=matrix, kind=kind, kw={k: repr(x) for k, x in kw.items()}), matrix_str(matrix), len(matrix), kw, exc, data))
        else:
            call = f"segno.make({sym['content']!r}, {sym['mkstr']}).save(out, kind={kind!r}, {kws})"
            items.append((kind, call, dict(content=sym['content'], make_kw=sym['mk'], kind=kind, kw={k: repr(x) for k, x in kw.items()}), sym['mstr'], sym['size'], kw, exc, data))

    small = [s for s in pool if s['size'] <= 45] or pool
    reps = 1 if tier == 'quick' else 4
    for _ in range(reps):
        for kind in ('eps', 'pdf'):
            for c in VCOLS + BAD_VCOLS:
                kw = {rnd.choice(['dark', 'light']): c}
                if rnd.random() < 0.4:
                    kw['scale'] = rnd.choice([1, 2, 0.5, 3.3, 1.0])
                if rnd.random() < 0.3:
                    kw.setdefault('dark', rnd.choice(VCOLS))
                    kw.setdefault('light', rnd.choice(VCOLS + [None]))
                run(rnd.choice(small), kind, kw)
            for kw in (dict(scale=0), dict(scale=-1), dict(scale=-0.5), dict(scale=0.0), dict(border=-1), dict(scale=0, border=-1), dict(dark=None),
                       dict(dark=None, light='red'), dict(light='red', dark='bad'), dict(dark='bad', light='worse'), dict(border=10), dict(border=0, scale=100)):
                run(rnd.choice(small), kind, dict(kw))
            # no dark module at all: `next(line_iter)` of write_eps raises StopIteration; the PDF has an empty path
            n = rnd.choice([1, 2, 5])
            run(None, kind, dict(border=rnd.choice([0, 1, None])), matrix=[[0] * n for _ in range(n)])
            run(None, kind, dict(scale=2), matrix=[[0] * n] + [[1] * n for _ in range(n - 1)])
        for kw in (dict(scale=0), dict(scale=-1.5), dict(border=-1), dict(dark=''), dict(dark=None), dict(dark='black'), dict(dark='Black'), dict(url=''),
                   dict(url='https://example.org/?a=1&b=2#x'), dict(unit=''), dict(unit='em', scale=2), dict(unit='ex', scale=0.5, border=0),
                   dict(scale=1.0), dict(scale=1e-05), dict(scale=1e16, border=1), dict(border=0, scale=3)):
            run(rnd.choice(small), 'tex', dict(kw))
        n = rnd.choice([1, 3])
        run(None, 'tex', {}, matrix=[[0] * n for _ in range(n)])
    return items
