"""C12 — all output routes give the same document.

For each symbol x kind (13 kinds incl. svgz) x option set the real code is driven through every public
route (file name in several letter cases, stream + kind, named stream, data URIs, svg_inline, gunzipped
svgz, `segno.cli.main(argv)`); the documents go (hex) to the Lean judge (`routes`), which strips the
documented time stamps and decides identity (D12 = the attribute quote rewriting of the SVG data URI is
recognised exactly).  Sequences: directory listings are judged by `seqnames`, file contents by `routes`.
Unknown extensions: `refuse`.  Correspondence (Tie B): `cli.build_config` vs Model.Cli.buildConfig,
the serialiser that really wrote a file (sniffed from its magic bytes) vs Model.Cli.dispatch, sequence file
names vs Model.Cli.seqFileName.
"""
import base64
import contextlib
import gzip
import io
import shutil
import tempfile
from urllib.parse import unquote_to_bytes

from core import *
from enc import *
from segno import cli

KINDS = ['svg', 'svgz', 'png', 'eps', 'txt', 'pdf', 'ans', 'pbm', 'pam', 'ppm', 'tex', 'xbm', 'xpm']
TEXT_KINDS = {'eps', 'txt', 'ans', 'tex', 'xbm', 'xpm'}      # serialisers that write str
COLOURS = ['dark', 'light', 'finder_dark', 'finder_light', 'data_dark', 'data_light', 'version_dark', 'version_light',
           'format_dark', 'format_light', 'alignment_dark', 'alignment_light', 'timing_dark', 'timing_light',
           'separator', 'dark_module', 'quiet_zone']
CLI_FLAG = {'alignment_dark': '--align-dark', 'alignment_light': '--align-light', 'encoding': '--svgencoding'}


def flag_of(key):
    return CLI_FLAG.get(key, '--' + key.replace('_', '-'))


def V(value, *cli_tokens, nocli=False):
    """an option value: (api value, tokens that follow the flag on the command line | None = not expressible)"""
    return value, (None if nocli else list(cli_tokens))


def colour_values(kind):
    vals = [V('#ff0000', '#ff0000'), V('darkblue', 'darkblue'), V('#0a3', '#0a3'), V((20, 120, 220), nocli=True),
            V('YELLOW', 'YELLOW')]
    if kind in ('svg', 'svgz', 'png'):
        vals += [V('#00ff0080', '#00ff0080'), V((1, 2, 3, 0.5), nocli=True), V(None, 'transparent'), V(None, 'trans')]
    if kind in ('pam', 'xpm', 'eps', 'pdf'):
        vals += [V(None, 'transparent')]
    return vals


def option_table(kind):
    """documented keywords of each kind (QRCode.save docstring) with non-default values"""
    t = {}
    if kind not in ('txt', 'ans'):
        t['scale'] = [V(3, '3'), V(7, '7')]
        if kind in ('svg', 'svgz', 'eps', 'pdf', 'tex'):
            t['scale'] += [V(2.5, '2.5'), V(0.5, '0.5')]
    t['border'] = [V(0, '0'), V(1, '1'), V(6, '6')]
    if kind in ('svg', 'svgz'):
        t.update(xmldecl=[V(False)], svgns=[V(False)], nl=[V(False)], omitsize=[V(True)], draw_transparent=[V(True)],
                 title=[V('A <title> & more', 'A <title> & more'), V('t', 't'), V('Ünï€ode — 点', 'Ünï€ode — 点')], desc=[V('Some description', 'Some description')],
                 svgid=[V('qr-1', 'qr-1')], svgclass=[V('my cls', 'my cls'), V('', '')], lineclass=[V('ln', 'ln'), V('', '')],
                 unit=[V('mm', 'mm'), V('cm', 'cm')], encoding=[V('iso-8859-1', 'iso-8859-1'), V('utf-16', 'utf-16'), V('ascii', 'ascii')],
                 svgversion=[V(1.1, '1.1'), V(2.0, '2.0'), V(2, nocli=True)])
        for c in COLOURS:
            t[c] = colour_values(kind)
        if kind == 'svgz':
            t['compresslevel'] = [V(1, nocli=True), V(6, nocli=True)]
    elif kind == 'png':
        t.update(compresslevel=[V(1, nocli=True), V(0, nocli=True)], dpi=[V(300, '300'), V(72, '72')])
        for c in COLOURS:
            t[c] = colour_values(kind)
    elif kind == 'ppm':
        for c in COLOURS:
            t[c] = colour_values(kind)
    elif kind in ('eps', 'pam'):
        t.update(dark=colour_values(kind), light=colour_values(kind))
    elif kind == 'pdf':
        t.update(dark=colour_values(kind), light=colour_values(kind), compresslevel=[V(0, nocli=True), V(3, nocli=True)])
    elif kind == 'txt':
        t.update(dark=[V('X', 'X'), V('#', '#')], light=[V('_', '_'), V(' ', ' ')])
    elif kind == 'pbm':
        t.update(plain=[V(True, nocli=True)])
    elif kind == 'tex':
        t.update(dark=[V('blue', 'blue'), V('black', 'black')], unit=[V('mm', 'mm'), V('cm', 'cm')],
                 url=[V('https://example.org/?a=1', nocli=True)])
    elif kind == 'xbm':
        t.update(name=[V('qrcode', nocli=True)])
    elif kind == 'xpm':
        t.update(dark=colour_values(kind), light=colour_values(kind), name=[V('qrcode', nocli=True)])
    return t


class OptSet:
    def __init__(self, pairs):
        """pairs: list of (key, (api value, cli tokens|None))"""
        self.kw = {k: v[0] for k, v in pairs}
        self.cli = []
        for k, (val, toks) in pairs:
            if toks is None:
                self.cli = None
                break
            if k in BOOL_FLAGS:
                self.cli.append(BOOL_FLAGS[k])
            else:
                self.cli += [flag_of(k)] + toks

    def key(self):
        return tuple(sorted((k, repr(v)) for k, v in self.kw.items()))


# keywords that are switched by a flag without value (only their non-default value is generated)
BOOL_FLAGS = {'xmldecl': '--no-xmldecl', 'svgns': '--no-namespace', 'nl': '--no-newline', 'omitsize': '--no-size',
              'draw_transparent': '--draw-transparent'}


def option_sets(kind, rnd, n_random, single_fraction=1.0):
    t = option_table(kind)
    sets = [OptSet([])]
    for k in t:
        vals = t[k]
        picks = vals if (single_fraction >= 1.0 or k not in COLOURS) else rnd.sample(vals, max(1, int(len(vals) * single_fraction)))
        for v in picks:
            sets.append(OptSet([(k, v)]))
    if kind in ('svg', 'svgz'):
        # --no-classes = svgclass None + lineclass None
        o = OptSet([('svgclass', V(None, nocli=True)), ('lineclass', V(None, nocli=True))])
        o.cli = ['--no-classes']
        sets.append(o)
        # text the requested SVG encoding cannot represent: every route must behave alike (all refuse or all write the same bytes)
        uni = V('Ünï€ode — 点', 'Ünï€ode — 点')
        for enc in ('ascii', 'iso-8859-1'):
            sets.append(OptSet([('encoding', V(enc, enc)), ('title', uni)]))
            sets.append(OptSet([('encoding', V(enc, enc)), ('desc', uni), ('xmldecl', V(False))]))
    keys = list(t)
    for _ in range(n_random):
        ks = rnd.sample(keys, min(len(keys), rnd.randint(2, 5)))
        sets.append(OptSet([(k, rnd.choice(t[k])) for k in ks]))
    return sets


# ------------------------------------------------------------------------------------------------ symbols
class Sym:
    def __init__(self, content, api_kw, cli_args):
        self.content, self.api_kw, self.cli_args = content, api_kw, cli_args
        self.qr = segno.make(content, **api_kw)

    def call(self):
        return f'segno.make({self.content!r}, ' + ', '.join(f'{k}={v!r}' for k, v in sorted(self.api_kw.items())) + ')'


def symbols(rnd, tier):
    """the same symbol through the API and through the command line (CLI default: micro=False)"""
    specs = [('Hello', dict(micro=False), []),
             ('12345', dict(version='M2'), ['--version', 'M2']),
             ('QR', dict(micro=True), ['--micro']),
             ('SEGNO ' * 6, dict(micro=False, error='q'), ['--error', 'q']),
             ('version seven with version information', dict(micro=False, version=7, mask=3, boost_error=False),
              ['--version', '7', '--pattern', '3', '--no-error-boost']),
             ('Märchen', dict(micro=False, encoding='utf-8', mode='byte'), ['--encoding', 'utf-8', '--mode', 'BYTE']),
             # mask 0 is falsy: it must still be passed on (the automatic mask of this symbol is not 0)
             ('Hello', dict(micro=False, mask=0), ['--pattern', '0']),
             ('pattern zero, short option', dict(micro=False, mask=0, error='h'), ['-p', '0', '-e', 'h'])]
    for _ in range(3 if tier == 'quick' else 12):
        n = rnd.randint(1, 90)
        content = ''.join(rnd.choice('ABCDEFGHIJKLMNOPQRSTUVWXYZ0123456789 $%*+-./:abcdefghij') for _ in range(n)).strip() or 'x'
        if content.startswith('-'):
            content = 'x' + content
        kw, args = dict(micro=False), []
        if rnd.random() < 0.5:
            e = rnd.choice('LMQH')
            kw['error'] = e
            args += [rnd.choice(['--error', '-e']), rnd.choice([e, e.lower()])]
        if rnd.random() < 0.5:
            m = rnd.randrange(8)
            kw['mask'] = m
            args += [rnd.choice(['--pattern', '-p']), str(m)]
        if rnd.random() < 0.3:
            kw['boost_error'] = False
            args += ['--no-error-boost']
        if rnd.random() < 0.3:
            kw['micro'] = False
            args += ['--no-micro']
        specs.append((content, kw, args))
    if tier != 'quick':
        specs.append(('v' * 1500, dict(micro=False, mask=2), ['--pattern', '2']))
    return [Sym(*s) for s in specs]


# ------------------------------------------------------------------------------------------------ routes
def outcome_doc(f):
    """runs a route; a raised exception becomes a pseudo document so that routes are compared uniformly"""
    try:
        r = f()
    except SystemExit as ex:
        return b'!!SystemExit:' + str(ex.code).encode()
    except Exception as ex:  # noqa
        return b'!!raised:' + exc_name(ex).encode()
    return r


def to_stream(qr, kind, kw):
    buff = io.StringIO() if kind.lower() in TEXT_KINDS else io.BytesIO()
    qr.save(buff, kind=kind, **kw)
    v = buff.getvalue()
    return v.encode('utf-8') if isinstance(v, str) else v


def read(path):
    with open(path, 'rb') as f:
        return f.read()


def gunzip_if(kind, data):
    if kind.lower() == 'svgz' and data[:2] == b'\x1f\x8b':
        return gzip.decompress(data)
    return data


def sniff(data):
    """container sniffing: which serialiser wrote these bytes (and was it gzip-compressed)"""
    gz = data[:2] == b'\x1f\x8b'
    if gz:
        data = gzip.decompress(data)
    for magic, kind in ((b'\x89PNG', 'png'), (b'%PDF', 'pdf'), (b'%!PS', 'eps'), (b'<?xml', 'svg'), (b'<svg', 'svg'), (b'P4', 'pbm'),
                        (b'P1', 'pbm'), (b'P7', 'pam'), (b'P6', 'ppm'), (b'/* XPM', 'xpm'), (b'#define', 'xbm'), (b'% Creator', 'tex'),
                        (b'\x1b[', 'ans'), (b'\xff\xfe<\x00', 'svg'), (b'\xff\xfe', 'svg')):
        if data.startswith(magic):
            return kind, gz
    return 'txt', gz


def mixed_case(rnd, s):
    r = ''.join(ch.upper() if rnd.random() < 0.5 else ch for ch in s)
    return r if r != s else s.upper()


def pyv(x):
    if x is None:
        return 'N'
    if x is True:
        return 'T'
    if x is False:
        return 'F'
    if isinstance(x, int):
        return f'i{x}'
    if isinstance(x, float):
        n, d = x.as_integer_ratio()
        return f'f{n}/{d}'
    if isinstance(x, str):
        return 's' + x.encode('utf-8').hex()
    return 'o' + repr(x).encode('utf-8').hex()


def config_str(cfg):
    return ';'.join(f'{k}:{pyv(v)}' for k, v in sorted(cfg.items())) or '-'


class Ctx:
    def __init__(self, tier, rnd, st, res):
        self.tier, self.rnd, self.st, self.res = tier, rnd, st, res
        self.tmp = tempfile.mkdtemp(prefix='c12-')
        self.n = 0
        self.judge_lines, self.judge_meta = [], []
        self.model_lines, self.model_meta = [], []

    def path(self, name):
        self.n += 1
        d = os.path.join(self.tmp, str(self.n))
        os.makedirs(d)
        return os.path.join(d, name)

    def add_routes(self, kind, ref, routes, call, uri=(), tag=''):
        names = list(routes)
        line = (f'routes id={len(self.judge_lines)} kind={kind} ref={hexs(ref)} names={",".join(names)} '
                f'docs={",".join(hexs(routes[n]) for n in names)} uri={",".join(uri)}')
        self.judge_lines.append(line)
        self.judge_meta.append(dict(call=call, kind=kind, routes=names, tag=tag,
                                    replay=dict(call=call, kind=kind, routes=names, ref_len=len(ref))))
        self.res.evaluations += len(names)
        self.res.count('kind:' + kind, len(names))
        for n in names:
            self.res.count('route:' + n.split('#')[0])

    def add_judge(self, line, call, tag):
        self.judge_lines.append(line.replace(' id=?', f' id={len(self.judge_lines)}'))
        self.judge_meta.append(dict(call=call, tag=tag, replay=dict(call=call)))
        self.res.evaluations += 1

    def add_model(self, line, impl, call):
        self.model_lines.append(line.replace(' id=?', f' id={len(self.model_lines)}'))
        self.model_meta.append(dict(impl=impl, call=call))


def cli_run(argv):
    """segno.cli.main in-process; returns (return value | 'exit-N', stdout, stderr)"""
    out, err = io.StringIO(), io.StringIO()
    with contextlib.redirect_stdout(out), contextlib.redirect_stderr(err):
        try:
            rc = cli.main(list(argv))
        except SystemExit as ex:
            rc = f'exit-{ex.code}'
    return rc, out.getvalue(), err.getvalue()


def cli_file(ctx, sym, kind_ext, flags):
    """document written by the command line tool (exceptions become pseudo documents)"""
    path = ctx.path('cli.' + kind_ext)
    argv = sym.cli_args + flags + ['--output', path, sym.content]

    def run():
        rc, _, err = cli_run(argv)
        if rc != 0:
            return b'!!cli-returned:' + str(rc).encode() + b':' + err.encode()[-200:]
        return gunzip_if(kind_ext, read(path))
    doc = outcome_doc(run)
    # correspondence: build_config on the parsed command line vs the model
    try:
        cfg = dict(cli.parse(argv))
        for k in ('mode', 'error', 'version', 'pattern', 'encoding', 'boost_error', 'seq', 'micro', 'content', 'output'):
            cfg.pop(k, None)
        if any(not isinstance(v, (str, int, float, bool, type(None))) for v in cfg.values()):
            raise TypeError('unmodelled value')
        real = cli.build_config(dict(cfg), filename=path)
        ctx.add_model(f'cfg id=? file={path.encode().hex()} config={config_str(cfg)}', 'cfg=' + config_str(real),
                      f'cli.build_config(cli.parse({argv!r}), filename={path!r})')
    except (Exception, SystemExit) as ex:  # noqa
        ctx.res.count('cfg-unmodelled:' + type(ex).__name__)
    return doc, argv


def run_group(ctx, sym, kind, opts):
    """all routes of one (symbol, kind, option set)"""
    rnd, qr = ctx.rnd, sym.qr
    base = 'svg' if kind == 'svgz' else kind
    kw = dict(opts.kw)
    kw_ref = {k: v for k, v in kw.items() if not (kind == 'svgz' and k == 'compresslevel')}
    call = f'{sym.call()}.save(<route>, kind={kind!r}, **{kw!r})'
    ref = outcome_doc(lambda: to_stream(qr, base, kw_ref))
    routes = {}
    # file name, extension in lower case / mixed case / after the last of several dots
    p1 = ctx.path('r.' + kind)
    routes['path'] = outcome_doc(lambda: (qr.save(p1, **kw), gunzip_if(kind, read(p1)))[1])
    ext2 = mixed_case(rnd, kind)
    p2 = ctx.path('R.' + ext2)
    routes['path-case'] = outcome_doc(lambda: (qr.save(p2, **kw), gunzip_if(kind, read(p2)))[1])
    which = rnd.randrange(4)
    if which == 0:
        p3 = ctx.path('two.dots.v1.' + kind)
        routes['path-dots'] = outcome_doc(lambda: (qr.save(p3, **kw), gunzip_if(kind, read(p3)))[1])
    elif which == 1:
        p3 = ctx.path('other.dat')
        k3 = mixed_case(rnd, kind) if rnd.random() < 0.5 else kind
        routes['path-kind'] = outcome_doc(lambda: (qr.save(p3, kind=k3, **kw), gunzip_if(kind, read(p3)))[1])
    elif which == 2 and kind != 'svgz':
        p3 = ctx.path('named.' + mixed_case(rnd, kind))

        def named():
            with open(p3, 'wt' if kind in TEXT_KINDS else 'wb') as f:
                qr.save(f, **kw)
            return read(p3)
        routes['named-stream'] = outcome_doc(named)
    k4 = mixed_case(rnd, kind)
    if kind == 'svgz':
        def gz_stream():
            b = io.BytesIO()
            qr.save(b, kind=k4, **kw)
            return gzip.decompress(b.getvalue())
        routes['stream-kind'] = outcome_doc(gz_stream)
    else:
        routes['stream-kind'] = outcome_doc(lambda: to_stream(qr, k4, kw))
    # dispatch correspondence: which serialiser really wrote the files
    for name, path, knd in (('path', p1, None), ('path-case', p2, None)) + \
            ((('path-dots', p3, None),) if which == 0 else (('path-kind', p3, k3),) if which == 1 else ()):
        if os.path.exists(path) and not routes[name].startswith(b'!!'):
            s_kind, s_gz = sniff(read(path))
            ctx.add_model(f'disp id=? name={os.path.basename(path).encode().hex()} stream=0' + (f' kind={knd.encode().hex()}' if knd else ''),
                          f'ok=1 serializer={s_kind} gz={int(s_gz)}', f'save({os.path.basename(path)!r}, kind={knd!r})')
    if opts.cli is not None:
        routes['cli'], argv = cli_file(ctx, sym, kind if rnd.random() < 0.7 else mixed_case(rnd, kind), opts.cli)
        call += f' | segno.cli.main({argv!r})'
    ctx.add_routes(base, ref, routes, call, tag='group')
    ctx.res.nontrivial.add((kind, opts.key(), sym.qr.designator))
    # routes that exist for SVG / PNG only
    if kind == 'svg':
        enc = kw.get('encoding', 'utf-8')
        kw_uri = dict(kw)
        kw_ref2 = dict(xmldecl=False, nl=False)
        kw_ref2.update(kw)
        ref2 = outcome_doc(lambda: to_stream(qr, 'svg', kw_ref2))
        r2 = {}

        def uri(**extra):
            u = qr.svg_data_uri(**kw_uri, **extra)
            head, data = u.split(',', 1)
            want = 'data:image/svg+xml' + ('' if extra.get('omit_charset') else ';charset=' + enc)
            if head != want:
                return b'!!data-uri-header:' + head.encode()
            return unquote_to_bytes(data)
        r2['uri'] = outcome_doc(uri)
        r2['uri-minimal'] = outcome_doc(lambda: uri(encode_minimal=True))
        if rnd.random() < 0.3:
            r2['uri-nocharset'] = outcome_doc(lambda: uri(omit_charset=True))
        ctx.add_routes('svg', ref2, r2, f'{sym.call()}.svg_data_uri(**{kw!r})', uri=list(r2), tag='svg-uri')
        if not {'xmldecl', 'svgns', 'nl'} & set(kw):
            ref3 = outcome_doc(lambda: to_stream(qr, 'svg', dict(kw, xmldecl=False, svgns=False, nl=False)))
            ctx.add_routes('svg', ref3, {'inline': outcome_doc(lambda: qr.svg_inline(**kw).encode(enc))},
                           f'{sym.call()}.svg_inline(**{kw!r})', tag='svg-inline')
    if kind == 'png':
        def png_uri():
            u = qr.png_data_uri(**kw)
            head, data = u.split(',', 1)
            if head != 'data:image/png;base64':
                return b'!!data-uri-header:' + head.encode()
            return base64.b64decode(data, validate=True)
        ctx.add_routes('png', ref, {'uri': outcome_doc(png_uri)}, f'{sym.call()}.png_data_uri(**{kw!r})', tag='png-uri')


def run_terminal(ctx, sym):
    for border in (None, 0, 1, 3):
        for compact in (False, True):
            out = io.StringIO()
            with contextlib.redirect_stdout(out):
                sym.qr.terminal(border=border, compact=compact)
            ref = out.getvalue().encode('utf-8')
            argv = sym.cli_args + (['--border', str(border)] if border is not None else []) + (['--compact'] if compact else []) + [sym.content]

            def run():
                rc, o, err = cli_run(argv)
                return o.encode('utf-8') if rc == 0 else b'!!cli-returned:' + str(rc).encode() + err.encode()[-200:]
            ctx.add_routes('term', ref, {'cli-terminal': outcome_doc(run)},
                           f'{sym.call()}.terminal(border={border}, compact={compact}) | segno.cli.main({argv!r})', tag='terminal')
            ctx.res.nontrivial.add(('term', border, compact, sym.qr.designator))


SEQ_CASES = [('ABCDEFGH' * 6, dict(symbol_count=3), ['--symbol-count', '3']),
             ('1234567890' * 20, dict(version=1), ['--version', '1']),
             ('short', dict(version=2), ['--version', '2']),                      # fits into one symbol: name unchanged
             ('Structured Append ' * 5, dict(symbol_count=12, error='m'), ['-sc', '12', '--error', 'M']),
             ('0123456789' * 10, dict(symbol_count=16, mask=1), ['--symbol-count', '16', '--pattern', '1']),
             ('one', dict(symbol_count=1), ['--symbol-count', '1']),
             ('two symbols only', dict(symbol_count=2), ['--symbol-count', '2'])]
SEQ_NAMES = ['seq.png', 'Se.q.SVG', 'x{0}.txt', 'brace{}-{b}.eps', 'a b.pbm', 'seq.XPM', '.pdf', 'trailing.dot.tex', 'S.svgz', 'n-1.ans',
             'q.pam', 'q.ppm', 'q.xbm']


def run_sequences(ctx, tier):
    rnd = ctx.rnd
    cases = list(SEQ_CASES)
    for content, kw, cli_args in cases:
        seq = segno.make_sequence(content, **kw)
        m = len(seq)
        names = SEQ_NAMES if tier != 'quick' else rnd.sample(SEQ_NAMES, 4)
        for name in names:
            kind = name[name.rfind('.') + 1:].lower()
            base = 'svg' if kind == 'svgz' else kind
            for route in ('api', 'cli'):
                opts = {} if kind in ('txt', 'ans') or rnd.random() < 0.5 else {'scale': 2}
                path = ctx.path(name)
                call = f'segno.make_sequence({content!r}, **{kw!r}).save({name!r}, **{opts!r})'
                try:
                    if route == 'api':
                        seq.save(path, **opts)
                    else:
                        argv = ['--seq'] + cli_args + (['--scale', '2'] if opts else []) + ['--output', path, content]
                        call = f'segno.cli.main({argv!r})'
                        rc, _, err = cli_run(argv)
                        if rc != 0:
                            raise RuntimeError(f'cli returned {rc}: {err[-200:]}')
                except Exception as ex:  # noqa
                    ctx.add_judge(f'seqnames id=? name={name.encode().hex()} m={m} files={("!!raised " + exc_name(ex)).encode().hex()}', call, 'seq-names')
                    continue
                files = sorted(os.listdir(os.path.dirname(path)))
                ctx.add_judge(f'seqnames id=? name={name.encode().hex()} m={m} files={",".join(f.encode().hex() for f in files)}', call, 'seq-names')
                ctx.res.nontrivial.add(('seq', name, m, route))
                ctx.res.count('sequence-size:' + str(m))
                # model: file names
                for n in (1, m):
                    ctx.add_model(f'seqname id=? name={name.encode().hex()} m={m} n={n}',
                                  'name=' + (files[n - 1] if n - 1 < len(files) else '?').encode().hex(), call + f' file {n}')
                # contents = the individual symbols' outputs (files in name order = symbol order because of the two-digit numbers)
                for i, f in enumerate(files[:m]):
                    if i < len(seq) and (tier != 'quick' or i in (0, m - 1) or rnd.random() < 0.3):
                        ref = outcome_doc(lambda: to_stream(seq[i], base, opts))
                        doc = gunzip_if(kind, read(os.path.join(os.path.dirname(path), f)))
                        ctx.add_routes(base, ref, {f'sequence-file-{route}': doc}, call + f' -> {f} vs symbol {i + 1}', tag='seq-content')


def run_refusals(ctx):
    qr = segno.make('refuse', micro=False)
    seq = segno.make_sequence('ABCDEFGH' * 6, symbol_count=2)
    for ext in ('foo', 'jpg', 'svgx', 'pn', 'PNGG', 'sv g', 'bak', 'gz', 'svg.bak', 'html', 'PnG', 'Svg', 'TXT', 'ePs', 'svgZ', 'tex', 'XBM'):
        name = 'x.' + ext
        last = ext[ext.rfind('.') + 1:]
        for what, f in (('path', lambda: qr.save(ctx.path(name))),
                        ('kind', lambda: qr.save(io.StringIO() if last.lower() in TEXT_KINDS else io.BytesIO(), kind=last)),
                        ('path-kind', lambda: qr.save(ctx.path('y.png'), kind=last)),
                        ('sequence', lambda: seq.save(ctx.path(name)))):
            try:
                f()
                outcome = 'ok'
            except Exception as ex:  # noqa
                outcome = ','.join(c.__name__ for c in type(ex).__mro__[:-1])
            ctx.add_judge(f'refuse id=? ext={last.encode().hex()} outcome={outcome}', f'save via {what}: extension/kind {last!r}', 'refuse')
            # correspondence on the class of the outcome
            if what in ('path', 'kind'):
                impl = 'err=ValueError' if 'ValueError' in outcome else ('ok' if outcome == 'ok' else 'err=' + outcome.split(',')[0])
                line = (f'disp id=? name={name.encode().hex()} stream=0' if what == 'path'
                        else f'disp id=? name={b"-".hex()} stream=0 kind={last.encode().hex()}')
                ctx.add_model(line, impl, f'save {what} {last!r}')
            ctx.res.nontrivial.add(('refuse', ext, what))
    # no extension at all / a dot only in a directory name
    for name in ('noext', 'dir.d/noext'):
        p = ctx.path(name.split('/')[0])
        if '/' in name:
            os.makedirs(p)
            p = os.path.join(p, 'noext')
        try:
            qr.save(p)
            outcome = 'ok'
        except Exception as ex:  # noqa
            outcome = ','.join(c.__name__ for c in type(ex).__mro__[:-1])
        ctx.add_judge(f'refuse id=? ext={name.encode().hex()} outcome={outcome}', f'save({name!r})', 'refuse')


def known_c12(meta, verdict, kv):
    """D12: the judge recognised exactly the attribute quote rewriting of the SVG data URI (and nothing else)"""
    return 'D12' if verdict == 'd12' and meta.get('tag') == 'svg-uri' else None


def _hist_one(arg):
    content, mkw, kind, kw = arg
    import io
    q = segno.make(content, **mkw)
    out = io.BytesIO()
    try:
        q.save(out, kind=kind, **kw)
        return ('ok', out.getvalue())
    except Exception as ex:  # noqa
        return ('exc', type(ex).__name__)


def run_histories(ctx):
    """the document of a route depends on the symbol and the options only — not on what was serialised before: colour options
    in several spellings across kinds (ppm, svg, png, pam, xpm) in ONE process, each output compared with the same call made
    alone in a fresh process"""
    import multiprocessing
    rnd, res = ctx.rnd, ctx.res
    spell = {'black': ['#000', 'black', (0, 0, 0), '#000000'], 'white': ['#fff', 'white', (255, 255, 255), '#FFFFFF'],
             'red': ['red', '#f00', (255, 0, 0), '#ff0000'], 'navy': ['navy', '#000080', (0, 0, 128)], 'blue': ['blue', (0, 0, 255), '#00f']}
    calls = []
    for rep in range(6 if ctx.tier == 'quick' else 40):
        v = rnd.choice([1, 2, 7, 'M3', 10])
        content, mkw = str(rnd.randint(1, 999)), dict(version=v, mask=rnd.randrange(4))
        base = dict(dark='black', light='white')
        for k in rnd.sample(['finder_dark', 'data_dark', 'data_light', 'alignment_dark', 'timing_dark', 'quiet_zone', 'separator', 'version_dark'], rnd.randint(1, 3)):
            base[k] = rnd.choice(['red', 'navy', 'blue', 'black', 'white'])
        kinds = ['ppm', 'svg', 'png', 'svg', 'ppm', 'png']
        rnd.shuffle(kinds)
        for kind in kinds:
            kw = {k: rnd.choice(spell[c]) for k, c in base.items()}
            calls.append((content, mkw, kind, kw))
        # alpha 1 (integer) and alpha 1.0 compare equal as Python values and mean different colours
        for col in ((0, 0, 255, 1), (0, 0, 255, 1.0), (0, 0, 255, 1)):
            calls.append((content, mkw, 'png', dict(dark=col, light=None)))
    here = [_hist_one(c) for c in calls]
    with multiprocessing.get_context('fork').Pool(8, maxtasksperchild=1) as pool:
        alone = pool.map(_hist_one, calls, chunksize=1)
    for c, a, b in zip(calls, here, alone):
        res.evaluations += 1
        if a != b:
            content, mkw, kind, kw = c
            res.violations.append(dict(property_field='c12', verdict='document-depends-on-earlier-calls:' + (a[0] if a[0] != 'ok' else 'differs-from-the-same-call-in-a-fresh-process'),
                                       call=f'segno.make({content!r}, **{mkw!r}).save(out, kind={kind!r}, **{kw!r})  [after {calls.index(c)} other calls]',
                                       replay=dict(history=[repr(x) for x in calls[:calls.index(c) + 1]][-12:]), judge={}, known_id=None))
    res.count('history-block:calls', len(calls))


def run_C12(tier, rnd, st, res):
    ctx = Ctx(tier, rnd, st, res)
    try:
        syms = symbols(rnd, tier)
        n_random = {'quick': 20, 'thorough': 120}.get(tier, 20)
        for kind in KINDS:
            sets = option_sets(kind, rnd, n_random, single_fraction=0.7 if tier == 'quick' else 1.0)
            if tier == 'quick' and kind == 'svgz':
                sets = sets[:1] + rnd.sample(sets[1:], 40)
            for i, opts in enumerate(sets):
                # every symbol with the default options, otherwise symbols in rotation (thorough: two per set)
                chosen = syms if i == 0 else [syms[(i + j * 5) % len(syms)] for j in range(1 if tier == 'quick' else 2)]
                for sym in chosen:
                    run_group(ctx, sym, kind, opts)
        for sym in syms:
            run_terminal(ctx, sym)
        run_sequences(ctx, tier)
        run_refusals(ctx)
        run_histories(ctx)
        # route layer: plans, keyword maps and post-processing against Model/Routes.lean (harness/routes_model.py)
        import routes_model
        routes_model.correspond_routes(ctx, rnd, tier)
        # ------------------------------------------------------------------ judge
        if st.judge_ok:
            outs = run_lines_parallel(JUDGE, ctx.judge_lines, jobs=16)
            for o, meta in zip(outs, ctx.judge_meta):
                kv = parse_kv(o)
                verdict = kv.get('c12', 'missing')
                res.count('judge-tag:' + meta['tag'])
                if verdict == 'ok':
                    continue
                res.violations.append(dict(property_field='c12', verdict=verdict, call=meta['call'], replay=meta['replay'],
                                           judge=kv, known_id=known_c12(meta, verdict, kv)))
        # ------------------------------------------------------------------ correspondence
        if st.model_ok:
            outs = run_lines_parallel(MODEL, ctx.model_lines, jobs=8)
            for o, meta in zip(outs, ctx.model_meta):
                got = o.split(' ', 1)[1] if ' ' in o else o
                res.corr_checked += 1
                if meta['impl'] == 'ok' and got.startswith('ok=1'):
                    continue
                if got != meta['impl']:
                    res.corr_diffs.append(dict(call=meta['call'], impl=meta['impl'][:400], model=got[:400]))
        res.rule = ('symbol x kind (13) x option set (defaults; every documented keyword alone with non-default values; random combinations) '
                    'x routes (path, other letter case, several dots, kind=, named stream, stream+kind, data URIs, inline, svgz, cli.main); '
                    'CLI terminal output; sequence listings and contents; unknown extensions. evaluations = route outputs judged; '
                    'non-trivial = distinct (kind, option set, symbol) / (sequence name, size, route) / (extension, route)')
        for meta, line in list(zip(ctx.judge_meta, ctx.judge_lines))[:2] + list(zip(ctx.judge_meta, ctx.judge_lines))[-2:]:
            res.samples.append(dict(call=meta['call'][:300], request=line[:120]))
    finally:
        shutil.rmtree(ctx.tmp, ignore_errors=True)


RUNNERS = {'C12': run_C12}
