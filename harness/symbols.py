"""Symbol sweep: generators of make() calls, execution on the real segno (public API), correspondence
with the Lean model, judging by the Lean spec.  Used by C01-C07 and C13."""
import codecs
import random
from enc import *

CAP = None


def _tables():
    """capacity / cci tables for *generating* inputs near boundaries (never used to judge)"""
    global CAP
    if CAP is None:
        CAP = {}
        for v, d in consts.SYMBOL_CAPACITY.items():
            if isinstance(v, int):
                for e, bits in d.items():
                    CAP[(v, e)] = bits
    return CAP


ALL_VERSIONS = [-3, -2, -1, 0] + list(range(1, 41))
LEVEL_NAME = {1: 'L', 0: 'M', 3: 'Q', 2: 'H', None: None}
VERSION_NAME = {-3: 'M1', -2: 'M2', -1: 'M3', 0: 'M4'}
MODE_NAME = {1: 'numeric', 2: 'alphanumeric', 4: 'byte', 8: 'kanji', 13: 'hanzi'}
ALNUM = '0123456789ABCDEFGHIJKLMNOPQRSTUVWXYZ $%*+-./:'


def vname(v):
    return VERSION_NAME.get(v, v)


def levels_of(v):
    return [e for e in (None, 1, 0, 3, 2) if (v, e) in _tables()]


def modes_of(v):
    return {-3: [1], -2: [1, 2], -1: [1, 2, 4, 8], 0: [1, 2, 4, 8]}.get(v, [1, 2, 4, 8, 13])


def cci(v, mode):
    vr = v if v < 1 else (1 if v < 10 else 2 if v < 27 else 3)
    return consts.CHAR_COUNT_INDICATOR_LENGTH[mode][vr]


def header_bits(v, mode):
    mb = 4 if v > 0 else v + 3
    return mb + cci(v, mode) + (4 if mode == 13 else 0)


def bits_for(mode, n):
    if mode == 1:
        return 10 * (n // 3) + (0, 4, 7)[n % 3]
    if mode == 2:
        return 11 * (n // 2) + 6 * (n % 2)
    if mode == 4:
        return 8 * n
    return 13 * n


def max_chars(v, level, mode, extra=0):
    cap = _tables()[(v, level)] - header_bits(v, mode) - extra
    if cap < 0:
        return 0
    n = {1: cap * 3 // 10, 2: cap * 2 // 11, 4: cap // 8}.get(mode, cap // 13) + 3
    while n > 0 and bits_for(mode, n) > cap:
        n -= 1
    return min(n, (1 << cci(v, mode)) - 1)


def kanji_bytes(rnd, n):
    out = bytearray()
    for _ in range(n):
        while True:
            hi = rnd.choice(list(range(0x81, 0xa0)) + list(range(0xe0, 0xec)))
            lo = rnd.choice([x for x in range(0x40, 0xfd) if x != 0x7f])
            code = hi << 8 | lo
            if 0x8140 <= code <= 0x9ffc or 0xe040 <= code <= 0xebbf:
                out += bytes([hi, lo])
                break
    return bytes(out)


def hanzi_bytes(rnd, n):
    out = bytearray()
    for _ in range(n):
        hi = rnd.choice(list(range(0xa1, 0xab)) + list(range(0xb0, 0xfb)))
        lo = rnd.randint(0xa1, 0xfe)
        out += bytes([hi, lo])
    return bytes(out)


def content_for(rnd, mode, n, as_text=None):
    """content of exactly n characters that is representable in `mode` and (for byte) in no lower mode"""
    if mode == 1:
        return ''.join(rnd.choice('0123456789') for _ in range(n))
    if mode == 2:
        s = ''.join(rnd.choice(ALNUM) for _ in range(n))
        if n and s.isdigit():
            s = 'A' + s[1:]
        return s
    if mode == 4:
        if rnd.random() < 0.5:
            b = bytes(rnd.randrange(256) for _ in range(n))
            if n and (b.isdigit() or all(chr(x) in ALNUM for x in b) or encoder.is_kanji(b)):
                b = b'\x0a' + b[1:]
            return b
        s = ''.join(rnd.choice('abcdefghijklmnopqrstuvwxyz äöüß!,;#') for _ in range(n))
        return s if n == 0 or not s.isdigit() else 'a' + s[1:]
    if mode == 8:
        return kanji_bytes(rnd, n)
    return hanzi_bytes(rnd, n)


class Case:
    __slots__ = ('content', 'kw', 'tag', 'impl', 'qr', 'exc', 'model', 'judge', 'jkv', 'extra')

    def __init__(self, content, kw, tag=''):
        self.content, self.kw, self.tag = content, kw, tag
        self.impl = self.qr = self.exc = self.model = self.judge = self.jkv = None
        self.extra = {}

    def call(self):
        c = self.content
        rc = repr(c) if len(repr(c)) < 300 else repr(c[:120]) + f'...<{len(c)} items>'
        return f'segno.make({rc}, ' + ', '.join(f'{k}={v!r}' for k, v in sorted(self.kw.items())) + ')'

    def replay(self):
        c = self.content
        def enc(x):
            if isinstance(x, bytes):
                return {'bytes': x.hex()}
            if isinstance(x, (list, tuple)):
                return {'list': [enc(y) for y in x]}
            return x
        return {'content': enc(c), 'kw': self.kw}


def gen_triples(rnd, per=1, versions=None):
    """every (version, level, mask) with content in a random supported mode, random length"""
    for v in versions or ALL_VERSIONS:
        for e in levels_of(v):
            for mask in range(4 if v < 1 else 8):
                for _ in range(per):
                    mode = rnd.choice(modes_of(v))
                    nmax = max_chars(v, e, mode)
                    if nmax < 1:
                        mode, nmax = 1, max_chars(v, e, 1)
                    r = rnd.random()
                    n = nmax if r < 0.25 else max(1, nmax - rnd.randint(0, 3)) if r < 0.5 else rnd.randint(1, nmax)
                    kw = dict(version=vname(v), mask=mask, boost_error=False)
                    if e is not None:
                        kw['error'] = LEVEL_NAME[e]
                    if mode in (8, 13) or rnd.random() < 0.3:
                        kw['mode'] = MODE_NAME[mode]
                    yield Case(content_for(rnd, mode, n), kw, 'triple')


def gen_boundaries(rnd, versions=None, micro_opts=(None,), with_version=False, frac=1.0):
    """both sides of every (version, level, mode) capacity boundary"""
    for v in versions or ALL_VERSIONS:
        for e in levels_of(v):
            for mode in modes_of(v):
                if rnd.random() > frac:
                    continue
                nmax = max_chars(v, e, mode)
                for n in (nmax, nmax + 1):
                    if n < 1:
                        continue
                    for micro in micro_opts:
                        if micro is True and v > 0 or micro is False and v < 1:
                            continue
                        kw = dict(mask=rnd.randrange(4 if v < 1 else 4), boost_error=rnd.random() < 0.5)
                        if e is not None:
                            kw['error'] = LEVEL_NAME[e]
                        if micro is not None:
                            kw['micro'] = micro
                        if mode in (8, 13):
                            kw['mode'] = MODE_NAME[mode]
                        if with_version:
                            kw['version'] = vname(v)
                            kw['mask'] = rnd.randrange(4 if v < 1 else 8)
                        yield Case(content_for(rnd, mode, n), kw, 'boundary')


def gen_multipart_boundaries(rnd, count):
    """multi-part contents (incl. several hanzi / kanji / byte parts that cannot be merged) whose total bit
    count sits exactly on, one below and one above a capacity; the last part is numeric and is sized to hit it"""
    made = 0
    while made < count:
        v = rnd.choice([1, 1, 2, 3, 5, 8, 9, 10, 11, 26, 27, 28, 40][: 9 if made % 3 else 13])
        e = rnd.choice(levels_of(v))
        cap = _tables()[(v, e)]
        parts, used, prev = [], 0, None
        for _ in range(rnd.randint(2, 7)):
            m = rnd.choice([m for m in (13, 13, 8, 4, 2) if m != prev])
            n = rnd.randint(1, 6)
            bits = header_bits(v, m) + bits_for(m, n)
            if used + bits + header_bits(v, 1) + 4 > cap:
                break
            parts.append((content_for(rnd, m, n), m))
            used += bits
            prev = m
            # a numeric spacer keeps equal modes from being adjacent (and from being merged)
            if rnd.random() < 0.5 and used + header_bits(v, 1) + 4 + 40 < cap:
                parts.append((content_for(rnd, 1, 1), 1))
                used += header_bits(v, 1) + 4
                prev = 1
        if not parts or prev == 1:
            continue
        room = cap - used - header_bits(v, 1)
        nmax = min(room * 3 // 10 + 3, (1 << cci(v, 1)) - 1)
        while nmax > 0 and bits_for(1, nmax) > room:
            nmax -= 1
        if nmax < 1:
            continue
        for n in (nmax, nmax + 1):
            kw = dict(error=LEVEL_NAME[e], mask=rnd.randrange(4), micro=False)
            if rnd.random() < 0.5:
                kw['boost_error'] = False
            if rnd.random() < 0.3:
                kw['version'] = v
            yield Case(list(parts) + [(content_for(rnd, 1, n), 1)], kw, 'multipart-boundary')
        made += 1


def gen_requested_version_gap(rnd, count):
    """multi-part contents that fit the automatically chosen version g but NOT the larger requested version v
    (more header bits per segment there): M4 -> 1, 9 -> 10, 26 -> 27; plus the neighbouring fitting case"""
    made, tries = 0, 0
    while made < count and tries < count * 200:
        tries += 1
        g, v = rnd.choice([(0, 1), (0, 1), (9, 10), (26, 27)])
        e = rnd.choice([x for x in levels_of(g) if x is not None and (v, x) in _tables()])
        capg, capv = _tables()[(g, e)], _tables()[(v, e)]
        # as many segments as the capacity gain of the larger version needs to be outgrown by the longer length fields
        # (9 -> 10: byte +8, numeric / alphanumeric +2; 26 -> 27: numeric / alphanumeric +2, byte +0)
        pair = (1, 2) if g != 9 else (4, rnd.choice([1, 1, 2]))
        growth = sum(header_bits(v, m) - header_bits(g, m) for m in pair)
        k = rnd.randint(4, 9) if g == 0 else 2 * ((capv - capg) // growth + 1 + rnd.randint(0, 3))
        parts, bg, bv = [], 0, 0
        for i in range(k):
            m = pair[i % 2] if g != 0 else ((1, 2)[i % 2] if rnd.random() < 0.8 else rnd.choice([1, 2, 4]))
            if parts and parts[-1][1] == m:
                m = 1 if m != 1 else 2
            n = rnd.randint(1, 5) if g == 0 else (1 if capg < 1100 else rnd.choice([1, 1, 2, 3]))
            parts.append((content_for(rnd, m, n), m))
            bg += header_bits(g, m) + bits_for(m, n)
            bv += header_bits(v, m) + bits_for(m, n)
        if parts[-1][1] == 1:
            parts.append(('A', 2))
            bg += header_bits(g, 2) + 6
            bv += header_bits(v, 2) + 6
        # final numeric part fills g up to its capacity minus 0..3 bits
        room = capg - bg - header_bits(g, 1) - rnd.randint(0, 3)
        n = room * 3 // 10
        while n > 0 and bits_for(1, n) > room:
            n -= 1
        if n < 1:
            continue
        bg += header_bits(g, 1) + bits_for(1, n)
        bv += header_bits(v, 1) + bits_for(1, n)
        if not (bg <= capg and bv > capv):
            continue
        kw = dict(error=LEVEL_NAME[e], version=v, mask=rnd.randrange(4), boost_error=rnd.random() < 0.5)
        if g > 0 or rnd.random() < 0.3:
            kw['micro'] = False if g > 0 else None
        yield Case(parts + [(content_for(rnd, 1, n), 1)], kw, 'requested-version-gap')
        yield Case(parts + [(content_for(rnd, 1, n), 1)], dict(kw, version=None), 'requested-version-gap-auto')
        if g > 0:
            yield Case(parts + [(content_for(rnd, 1, n), 1)], dict(kw, version=g), 'requested-version-gap-fits')
        made += 1


def gen_merge_histories(rnd, count):
    """call histories around merged parts: a sequence whose same-mode parts are merged, then its first part alone, then the
    sequence again, then the parts joined — every call must be judged on its own (nothing may be remembered between calls)"""
    for _ in range(count):
        m = rnd.choice([1, 2, 4])
        unit = {1: 3, 2: 2, 4: 1}[m]
        a = content_for(rnd, m, unit * rnd.randint(1, 4))
        b = content_for(rnd, m, rnd.randint(1, 7))
        if isinstance(a, bytes) != isinstance(b, bytes):
            b = b.encode('latin1') if isinstance(a, bytes) else b.decode('latin1')
        kw = dict(micro=rnd.choice([None, False]), mask=rnd.randrange(4))
        if m == 4:
            kw['mode'] = 'byte'
        for content in ([a, b], a, [a, b], a + b, b, [a, b, a]):
            yield Case(content, dict(kw), 'merge-history')


def gen_tie_history(count):
    """many symbols of one size in a row with automatic mask: exact ties of the minimal penalty occur for a few per cent of small
    symbols — the lowest-numbered pattern must win whatever was encoded before, and the announced pattern must be the applied one"""
    for i in range(count):
        yield Case('ITEM-%05d' % (i * 7 % 100000), dict(micro=False, error='m', boost_error=False), 'tie-history')
        if i % 3 == 0:
            yield Case('TIE-%d' % i, dict(micro=False, error=('L', 'Q', 'H')[i % 9 // 3], boost_error=False), 'tie-history')


def gen_minimal(rnd):
    """the shortest contents of every version / level / mode, with zero digits and zero bytes (leading 0x00 codewords)"""
    for v in ALL_VERSIONS:
        for e in levels_of(v):
            kw = dict(version=vname(v), mask=rnd.randrange(4))
            if e is not None:
                kw['error'] = LEVEL_NAME[e]
            if v > 6:             # large symbols: the zero digit and the zero byte only (judging a version 40 symbol costs 20 ms)
                yield Case('0', dict(kw), 'minimal')
                yield Case(b'\x00', dict(kw), 'minimal')
                continue
            for c in ('0', '00', '000', '7', '0000001', 1 if v > -3 else 0):
                yield Case(c, dict(kw), 'minimal')
            if 2 in modes_of(v):
                yield Case('0A', dict(kw), 'minimal')
                yield Case('A', dict(kw), 'minimal')
            if 4 in modes_of(v):
                yield Case(b'\x00', dict(kw), 'minimal')
                yield Case(b'\x00\x00\x00', dict(kw, mode='byte'), 'minimal')
                yield Case(b'a', dict(kw), 'minimal')


def gen_encoding_histories(rnd):
    """call histories around the text -> bytes policy: the same text with an explicit encoding (several spellings), then without,
    then with a requested mode — every call must be judged on its own (nothing may be remembered between calls)"""
    for t in ['漢字', '点茗', '茗荷', 'ｱｲｳ', 'テスト', 'äöü', 'Märchen', 'abc', 'ABC 123', '書読', '€uro', 'Ωmega', '123']:
        encs = ['utf-8', 'shift_jis', 'iso-8859-1', 'utf8', 'UTF-8', 'latin1', 'cp932', 'utf-16-be', 'utf-16', 'utf-32', 'utf-8-sig',
                'iso2022_jp', 'utf-16', 'utf-8-sig']
        rnd.shuffle(encs)
        for enc in encs[:6]:
            yield Case(t, dict(encoding=enc), 'encoding-history')
            yield Case(t + t, dict(encoding=enc), 'encoding-history')     # the same codec again (stateful encoders: BOM, escapes)
            yield Case(t, {}, 'encoding-history')
            yield Case(t, dict(mode=rnd.choice(['kanji', 'byte'])), 'encoding-history')
            yield Case(t.encode(enc, 'replace'), {}, 'encoding-history')
            yield Case(t, dict(eci=True, micro=False), 'encoding-history')


def gen_eci_boundaries(rnd, versions):
    """byte-mode contents with eci=True in Latin-1 and in other encodings (12 bit ECI header), in this order
    and in reverse, at both sides of the capacity boundaries"""
    for v in versions:
        for e in levels_of(v):
            seq = []
            for enc, extra in (('iso-8859-1', 0), ('utf-8', 12), ('latin1', 12), (None, 0), ('shift_jis', 12), ('ISO-8859-1', 12), ('UTF-8', 12), ('Iso-8859-1', 12), ('utf-8', 12), ('iso-8859-1', 0)):
                nmax = max_chars(v, e, 4, extra)
                for n in (nmax, nmax + 1):
                    if n < 1:
                        continue
                    kw = dict(error=LEVEL_NAME[e], mask=rnd.randrange(4), micro=False, eci=True, mode='byte', boost_error=rnd.random() < 0.5)
                    if enc:
                        kw['encoding'] = enc
                    text = ''.join(rnd.choice('abcdefghijklmnopqrstuvwxyz') for _ in range(n))
                    seq.append(Case(text, kw, 'eci-boundary'))
            # adjacent byte parts of one non-default encoding are merged into ONE segment with ONE ECI header: exact fit / one more
            for enc in ('utf-8', 'shift_jis'):
                nmax = max_chars(v, e, 4, 12)
                for n in (nmax, nmax + 1):
                    if n < 3:
                        continue
                    k = rnd.randint(2, 3)
                    cuts = sorted(rnd.sample(range(1, n), k - 1))
                    text = ''.join(rnd.choice('abcdefghijklmnopqrstuvwxyz') for _ in range(n))
                    parts = [text[a:b] for a, b in zip([0] + cuts, cuts + [n])]
                    kw = dict(error=LEVEL_NAME[e], mask=rnd.randrange(4), micro=False, eci=True, mode='byte', encoding=enc, boost_error=False)
                    seq.append(Case(parts, kw, 'eci-merged-boundary'))
                    seq.append(Case(parts, dict(kw, version=vname(v)), 'eci-merged-boundary-requested'))
            if rnd.random() < 0.5:
                seq.reverse()
            yield from seq


TEXTS = ['Hello World', 'HELLO WORLD', '0123456789', 'ä', 'äöü€', '点茗', '茗荷', 'Märchen', 'ｱｲｳ', '漢字テスト', 'Ωmega',
         '书读百遍其义自现', 'abc\n\tdef', '\x00', 'A', '1', ' ', '$%*+-./:', 'https://example.org/?q=1&b=2', '€uro', 'テスト～', '①']
ENCODINGS = [None, None, None, 'utf-8', 'iso-8859-1', 'latin1', 'shift_jis', 'iso-8859-15', 'cp1252', 'utf-16-be', 'ascii',
             'cp437', 'iso-8859-2', 'big5', 'gbk', 'euc_kr', 'ISO-8859-1']


def gen_random(rnd, count):
    """mixed make() calls: text / bytes / int / multi-part, encodings, eci, micro, boost, levels, masks"""
    for _ in range(count):
        r = rnd.random()
        kw = {}
        if r < 0.25:
            content = rnd.choice(TEXTS) * rnd.randint(1, 6)
        elif r < 0.4:
            content = rnd.randint(0, 10 ** rnd.randint(1, 40))
        elif r < 0.6:
            mode = rnd.choice([1, 2, 4, 8])
            content = content_for(rnd, mode, rnd.randint(1, 120))
        elif r < 0.85:
            parts = []
            for _ in range(rnd.randint(2, 5)):
                m = rnd.choice([1, 1, 2, 2, 4, 8])
                c = content_for(rnd, m, rnd.randint(1, 12))
                rr = rnd.random()
                if rr < 0.3:
                    parts.append((c, m))
                elif rr < 0.4 and isinstance(c, str):
                    parts.append((c, None, rnd.choice(['utf-8', 'iso-8859-1', 'latin1'])))
                else:
                    parts.append(c)
            content = parts
        else:
            content = rnd.choice(TEXTS)
            kw['mode'] = rnd.choice(['byte', 'byte', 'kanji', 'hanzi', 'numeric', 'alphanumeric'])
        if isinstance(content, list) and rnd.random() < 0.35:
            # integer parts, zero included (falsy values must not be dropped)
            content.insert(rnd.randrange(len(content) + 1), rnd.choice([0, 0, 7, 10, 400]))
        if rnd.random() < 0.35:
            kw['encoding'] = rnd.choice(ENCODINGS)
        if rnd.random() < 0.3:
            kw['eci'] = True
        if rnd.random() < 0.4:
            # level as letter (any case), None, or as the integer constant of segno.consts (M is 0!)
            kw['error'] = rnd.choice(['L', 'M', 'Q', 'H', 'l', 'm', 'q', 'h', None, 0, 0, 1, 3, 2])
        if rnd.random() < 0.4:
            kw['micro'] = rnd.choice([True, False, None])
        if rnd.random() < 0.3:
            kw['boost_error'] = False
        if rnd.random() < 0.5:
            kw['mask'] = rnd.randrange(4)
        if rnd.random() < 0.15:
            kw['version'] = rnd.choice(['M1', 'M2', 'M3', 'M4', 'm3', 1, 2, 5, 7, 10, 27, '3', 40])
        yield Case(content, kw, 'random')


# ------------------------------------------------------------------------------------------------

def expected_parts(case):
    """`exp=` field: canon:hex per part (see Spec.Judge.judgeC01) or None if the harness policy itself fails"""
    kw = case.kw
    parts = parts_of(case.content, kw.get('mode'), kw.get('encoding'))
    out = []
    for b, m, enc in parts:
        canon = '-'
        if kw.get('eci'):
            name = codecs.lookup(enc).name
            canon = '-' if enc == 'iso-8859-1' else name
        out.append(f'{canon}:{hexs(b)}')
    return ','.join(out) if out else '-', parts


class QRFacts:
    """what the harness needs of a returned QRCode (picklable, filled in the worker process)"""
    __slots__ = ('version', 'error', 'mask', 'mode', 'matrix', 'is_micro', 'designator', 'symsize', 'default_border_size')

    def symbol_size(self):
        return self.symsize


def _impl_one(args):
    content, kw = args
    try:
        q = segno.make(content, **kw)
    except Exception as ex:  # noqa
        return ('exc', exc_name(ex), str(ex)[:200])
    f = QRFacts()
    f.version, f.error, f.mask, f.mode, f.is_micro = q.version, q.error, q.mask, q.mode, q.is_micro
    f.matrix = tuple(bytes(r) for r in q.matrix)
    f.designator, f.symsize, f.default_border_size = q.designator, q.symbol_size(), q.default_border_size
    return ('ok', f)


def _apply_impl(case, r):
    if r[0] == 'exc':
        case.exc = r[1]
        case.extra['exc_text'] = r[2]
        case.impl = f'err={case.exc}'
        return
    q = r[1]
    case.qr = q
    v = MICRO.get(q.version, q.version)
    e = None if q.error is None else LEVELS[q.error]
    case.impl = f'ok=1 v={v} e={opt(e)} mask={q.mask} m={matrix_str(q.matrix)}'


def impl_make(case):
    _apply_impl(case, _impl_one((case.content, case.kw)))


def impl_make_all(cases, workers=8):
    """calls the real segno.make for every case; consecutive chunks go to worker processes (each worker
    sees a contiguous call history)"""
    if len(cases) < 300:
        for c in cases:
            impl_make(c)
        return
    import multiprocessing
    ctx = multiprocessing.get_context('fork')
    args = [(c.content, c.kw) for c in cases]
    chunk = max(50, len(args) // (workers * 4))
    with ctx.Pool(workers) as pool:
        for c, r in zip(cases, pool.imap(_impl_one, args, chunksize=chunk)):
            _apply_impl(c, r)


def sym_line(idx, case, want_c06=True):
    q = case.qr
    kw = case.kw
    v = MICRO.get(q.version, q.version)
    e = -1 if q.error is None else LEVELS[q.error]
    f = [f'sym id={idx} m={matrix_str(q.matrix)} ev={v} ee={e} em={q.mask} ismicro={int(q.is_micro)} '
         f'dborder={q.default_border_size} symsize={q.symbol_size()[0]} desig={q.designator}']
    try:
        exp, parts = expected_parts(case)
        f.append(f'exp={exp}')
    except Exception:  # noqa  (policy failure = the implementation should have refused; handled by caller)
        parts = None
    f.append(f'eci={int(bool(kw.get("eci")))}')
    micro = kw.get('micro')
    f.append(f'micro={"-" if micro is None else int(bool(micro))}')
    try:
        f.append(f'reqerr={opt(norm_error(kw.get("error")))}')
        f.append(f'reqver={opt(norm_version(kw.get("version")))}')
    except Exception:  # noqa
        pass
    f.append(f'boost={int(bool(kw.get("boost_error", True)))}')
    if want_c06:
        f.append(f'reqmask={opt(None if kw.get("mask") is None else int(kw["mask"]))}')
    if parts is not None and len(parts) == 1:
        f.append(f'content={hexs(parts[0][0])} reqmode={opt(parts[0][1])}')
    f.append(f'emode={MODES[q.mode] if q.mode is not None else "-"}')
    return ' '.join(f)


def _sequential_child(args_list):
    return [_impl_one(a) for a in args_list]


def _threaded_child(args_list):
    """runs in a forked child: the calls split over 8 threads with a tiny switch interval; all symbols are HELD until every
    thread is done and only then copied (a symbol must not change after it was returned)"""
    import sys, threading
    sys.setswitchinterval(1e-6)
    results = [None] * len(args_list)
    held = [None] * len(args_list)

    barrier = threading.Barrier(8)

    def work(k):
        for i in range(k, len(args_list), 8):
            try:
                barrier.wait(timeout=5)      # the 8 calls of one step (same symbol size) start together
            except threading.BrokenBarrierError:
                pass
            content, kw = args_list[i]
            try:
                q = segno.make(content, **kw)
                held[i] = q
                results[i] = ('ok', tuple(bytes(r) for r in q.matrix))
            except Exception as ex:  # noqa
                results[i] = ('exc', exc_name(ex), str(ex)[:200])
    ths = [threading.Thread(target=work, args=(k,)) for k in range(8)]
    for t in ths:
        t.start()
    for t in ths:
        t.join()
    out = []
    for i, r in enumerate(results):
        if r is None:
            out.append(('exc', 'NoResult', ''))
            continue
        if r[0] == 'ok':
            out.append(('ok', r[1], tuple(bytes(x) for x in held[i].matrix)))
        else:
            out.append(r)
    return out


def _make_call(content, kw):
    return segno.make(content, **kw)


def _matrix_snap(q):
    return tuple(bytes(r) for r in q.matrix)


def _scheduled_child(args_list, seed, nthreads=4, p=0.2, call=_make_call, snap=_matrix_snap):
    """runs in a forked child: a DETERMINISTIC scheduler instead of the operating system's — only one thread runs at a time, and
    at function starts, calls (Python and C functions) and line starts in segno's code (`sys.monitoring` events PY_START / CALL /
    LINE; a location inside a loop is a switch point only the first few times per group) the running thread hands over, with probability p,
    to a thread chosen by a PRNG seeded with `seed`.  The calls are processed in groups of `nthreads` consecutive calls (one per
    thread, all threads of a group joined before the next group starts); all symbols are held until the end.  The same seed
    reproduces the same interleaving."""
    import sys, threading, random as _random
    rnd = _random.Random(seed)
    segdir = os.path.dirname(os.path.abspath(segno.__file__))
    results = [None] * len(args_list)
    held = [None] * len(args_list)
    mon = sys.monitoring
    tid = mon.PROFILER_ID
    mon.use_tool_id(tid, 'verif-sched')
    state = dict(sems=None, alive=None, seen={}, limit=0)
    local = threading.local()

    def hand_over(k):
        sems, alive = state['sems'], state['alive']
        cands = [i for i in range(len(alive)) if alive[i]]
        nxt = rnd.choice(cands)
        if nxt != k:
            sems[nxt].release()
            sems[k].acquire()

    def on_event(code, offset, *rest):
        if not code.co_filename.startswith(segdir):
            return mon.DISABLE
        k = getattr(local, 'k', None)
        if k is None:
            return None
        key = (code, offset)
        c = state['seen'].get(key, 0) + 1
        state['seen'][key] = c
        if rnd.random() < p:
            hand_over(k)
        if c >= state['limit']:
            return mon.DISABLE
        return None
    def on_line(code, line):
        # line granularity as well (two stores of one memo need no call between them), with half the probability
        if not code.co_filename.startswith(segdir):
            return mon.DISABLE
        k = getattr(local, 'k', None)
        if k is None:
            return None
        key = (code, 'line', line)
        c = state['seen'].get(key, 0) + 1
        state['seen'][key] = c
        if rnd.random() < p / 2:
            hand_over(k)
        if c >= state['limit']:
            return mon.DISABLE
        return None
    mon.register_callback(tid, mon.events.PY_START, on_event)
    mon.register_callback(tid, mon.events.CALL, on_event)
    mon.register_callback(tid, mon.events.LINE, on_line)
    mon.set_events(tid, mon.events.PY_START | mon.events.CALL | mon.events.LINE)
    try:
        for g0 in range(0, len(args_list), nthreads):
            idx = list(range(g0, min(g0 + nthreads, len(args_list))))
            n = len(idx)
            sems = [threading.Semaphore(0) for _ in range(n)]
            alive = [True] * n
            state.update(sems=sems, alive=alive, seen={}, limit=3 * n)
            mon.restart_events()

            def work(k):
                sems[k].acquire()
                i = idx[k]
                content, kw = args_list[i]
                local.k = k
                try:
                    q = call(content, kw)
                    local.k = None
                    held[i] = q
                    results[i] = ('ok', snap(q))
                except Exception as ex:  # noqa
                    local.k = None
                    results[i] = ('exc', exc_name(ex), str(ex)[:200])
                alive[k] = False
                cands = [j for j in range(n) if alive[j]]
                if cands:
                    sems[rnd.choice(cands)].release()
            ths = [threading.Thread(target=work, args=(k,)) for k in range(n)]
            for t in ths:
                t.start()
            sems[rnd.randrange(n)].release()
            for t in ths:
                t.join()
    finally:
        mon.set_events(tid, 0)
        mon.free_tool_id(tid)
    out = []
    for i, r in enumerate(results):
        if r is None:
            out.append(('exc', 'NoResult', ''))
        elif r[0] == 'ok':
            out.append(('ok', r[1], snap(held[i])))
        else:
            out.append(r)
    return out


def same_size_groups(rnd):
    """groups of 8 calls per symbol size: automatic mask for a selection of versions, a requested mask (cheap: no scoring) for
    EVERY version — the first use of a size then happens in 8 threads at once, and symbols of one size are created one after
    the other and held"""
    groups = []
    for v, auto in [(v, True) for v in (-3, -2, -1, 0, 1, 2, 3, 4, 6, 7, 9, 10, 14, 21)] + [(v, False) for v in range(-3, 41)]:
        e = rnd.choice(levels_of(v))
        for _ in range(8):
            kw = dict(version=vname(v))
            if not auto:
                kw['mask'] = rnd.randrange(4)
            if e is not None:
                kw['error'] = LEVEL_NAME[e]
            mode = rnd.choice(modes_of(v))
            c = content_for(rnd, mode, rnd.randint(1, max(1, min(24, max_chars(v, e, mode)))))
            if mode == 8 and isinstance(c, bytes) and rnd.random() < 0.5:
                try:
                    c = c.decode('shift_jis')              # the text path (encoding detection) as well
                except UnicodeDecodeError:
                    pass
            groups.append(Case(c, kw, 'same-size-group' if auto else 'same-size-group-mask'))
    # the SAME contents of different modes in several threads at once, again and again (a memo of the last content / mode / bytes
    # that is written in two steps hands one content the other's analysis)
    for g in range(48):
        if g % 3 == 2:
            pool = [content_for(rnd, m, rnd.randint(2, 9)) for m in rnd.sample([1, 2, 4, 8], 2)]
            kw = dict(mask=rnd.randrange(4), micro=False, error=rnd.choice('LMQH'))
        else:
            # one content that fills the requested version at the requested level, one that is boosted to the top level
            v, m = rnd.randint(1, 5), rnd.choice([1, 2, 4])
            e = rnd.choice([1, 0, 3])
            pool = [content_for(rnd, m, max_chars(v, e, m)), content_for(rnd, m, rnd.randint(1, 4))]
            kw = dict(mask=rnd.randrange(4), version=v, error=LEVEL_NAME[e])
        if isinstance(pool[1], bytes) and rnd.random() < 0.5:
            try:
                pool[1] = pool[1].decode('shift_jis')
            except UnicodeDecodeError:
                pass
        for i in range(8):
            groups.append(Case(pool[(i + (i // 4)) % 2], dict(kw), 'repeated-content-group'))
    # two DIFFERENT sizes with version information (>= 7) alternating in one group of 8 threads: a scratch buffer shared by the
    # calls (version information bits, alignment positions, block layout) hands one symbol the other's values (wave 10, C02f-1)
    for va, vb in ((7, 19), (8, 12), (9, 16), (10, 14), (7, 11), (13, 20)):
        for i in range(8):
            v = (va, vb)[i % 2]
            e = rnd.choice(levels_of(v))
            mode = rnd.choice([1, 2, 4])
            groups.append(Case(content_for(rnd, mode, rnd.randint(1, 24)), dict(version=v, mask=rnd.randrange(8), error=LEVEL_NAME[e]), 'mixed-size-group'))
    return groups


def scheduled_run(groups, seed):
    """reference (sequential, fresh process) and deterministic-scheduler run (fresh process) of the same calls"""
    import multiprocessing
    ctx = multiprocessing.get_context('fork')
    args = [(c.content, c.kw) for c in groups]
    with ctx.Pool(1) as pool:
        refs = pool.apply(_sequential_child, (args,))
    for c, r in zip(groups, refs):
        _apply_impl(c, r)
    with ctx.Pool(1) as pool:
        outs = pool.apply(_scheduled_child, (args, seed, 8, 0.1))
    return outs


def _judge_differences(pairs, res, fields, how):
    """pairs: (case, tag, matrix, replay) of symbols that differ from the sequential result"""
    lines = [f'sym id={i} m={matrix_str(m)}' for i, (_, _, m, _) in enumerate(pairs)]
    for (c, tag, _, rp), o in zip(pairs, run_lines_parallel(JUDGE, lines)):
        kv = parse_kv(o)
        verdicts = {f: kv.get(f, 'missing') for f in ('c01', 'c02', 'c03', 'c13') if kv.get(f, '-') not in ('ok', '-')}
        res.violations.append(dict(property_field=fields[0], verdict=f'symbol-differs-from-sequential-result-{tag}:{verdicts or "another-valid-symbol"}',
                                   call=c.call() + f'  [{how}, symbols held]', replay=rp, judge={k: kv[k] for k in kv if k not in ('cw', 'bytes')},
                                   known_id=None))


def compare_concurrent(sample, outs, res, fields, how, replay_of):
    pairs = []
    for i, (c, o) in enumerate(zip(sample, outs)):
        if c.qr is None:
            if o[0] == 'ok':
                res.violations.append(dict(property_field=fields[0], verdict=f'concurrent-call-returned-a-symbol-sequential-call-raised-{c.exc}',
                                           call=c.call() + f'  [{how}]', replay=replay_of(i, c), known_id=None))
            continue
        ref = tuple(bytes(r) for r in c.qr.matrix)
        if o[0] != 'ok':
            res.violations.append(dict(property_field=fields[0], verdict=f'concurrent-call-raised-{o[1]}-sequential-call-returned-a-symbol',
                                       call=c.call() + f'  [{how}]', replay=replay_of(i, c), known_id=None))
            continue
        for tag, m in (('at-return', o[1]), ('after-all-calls', o[2])):
            if m != ref:
                pairs.append((c, tag, m, replay_of(i, c)))
    _judge_differences(pairs, res, fields, how)


def concurrency_pass(cases, st, res, fields):
    """the same calls again, concurrently and with the returned symbols held: every result must equal the result of a
    sequential pass (and is therefore judged already); a difference is judged and reported as a violation of `fields`.
    (1) a deterministic scheduler (seeded, replayable) over groups of 8 same-size calls; (2) the operating system's threads
    with a tiny switch interval over a sample of the sweep's own calls."""
    import multiprocessing
    seed = int(os.environ.get('VERIF_SEED', '1'))
    groups = same_size_groups(random.Random(seed * 7919 + len(cases)))
    outs = scheduled_run(groups, seed)
    enc_groups = [c.replay() for c in groups]
    compare_concurrent(groups, outs, res, fields, 'deterministic scheduler, 8 threads',
                       lambda i, c: dict(c.replay(), schedule=dict(seed=seed, index=i, calls=enc_groups)))
    res.evaluations += len(groups)
    res.count('concurrency-pass:scheduled-calls', len(groups))
    sample = [c for c in cases if c.qr is not None and c.kw.get('mask') is None][:120] + [c for c in cases if c.qr is not None][:120]
    if not sample:
        return
    # several symbols of the same size in a row (work areas shared between consecutive calls)
    sample = sorted(sample, key=lambda c: len(c.qr.matrix))[: 240 - 240 % 8]
    sample = [c for c in groups if c.qr is not None and c.tag == 'same-size-group'] + sample
    with multiprocessing.get_context('fork').Pool(1) as pool:
        outs = pool.apply(_threaded_child, ([(c.content, c.kw) for c in sample],))
    compare_concurrent(sample, outs, res, fields, '8 threads', lambda i, c: c.replay())
    res.evaluations += len(sample)
    res.count('concurrency-pass:calls', len(sample))


def sweep(cases, st, res, fields, want_c06=True, known_map=None, jobs=None, corr=True):
    """runs the cases; records correspondence diffs and judged violations for the verdict `fields`"""
    cases = list(cases)
    t_ = time.time()
    impl_make_all(cases)
    res.count('seconds:implementation', int(time.time() - t_))
    res.evaluations += len(cases)
    # correspondence with the model
    if corr and st.model_ok:
        lines, idxs = [], []
        for i, c in enumerate(cases):
            try:
                lines.append(model_line(i, c.content, **{k: v for k, v in c.kw.items()}))
                idxs.append(i)
            except (UnicodeError, LookupError) as ex:
                # the documented text->bytes policy itself fails: the implementation must fail the same way
                want = 'UnicodeError' if isinstance(ex, UnicodeError) else 'LookupError'
                if cases[i].exc != want and cases[i].exc not in ('ValueError', 'DataOverflowError'):
                    res.corr_diffs.append(dict(call=cases[i].call(), impl=cases[i].impl[:200], model=f'err={want} (policy)'))
            except Exception as ex:  # noqa  malformed arguments: not modelled here (C14 harness)
                cases[i].extra['unmodelled'] = repr(ex)[:100]
        t_ = time.time()
        outs = run_lines_parallel(MODEL, lines, jobs)
        res.count('seconds:model', int(time.time() - t_))
        for i, o in zip(idxs, outs):
            c = cases[i]
            c.model = o.split(' ', 1)[1] if ' ' in o else o
            res.corr_checked += 1
            if c.model != c.impl:
                res.corr_diffs.append(dict(call=c.call(), replay=c.replay(), impl=c.impl[:300], model=c.model[:300]))
    # judge
    if st.judge_ok:
        lines, idxs = [], []
        for i, c in enumerate(cases):
            if c.qr is not None:
                lines.append(sym_line(i, c, want_c06))
                idxs.append(i)
        t_ = time.time()
        outs = run_lines_parallel(JUDGE, lines, jobs)
        res.count('seconds:judge', int(time.time() - t_))
        for i, o in zip(idxs, outs):
            c = cases[i]
            c.judge = o
            c.jkv = parse_kv(o)
            for fld in fields:
                verdict = c.jkv.get(fld, 'missing')
                if verdict in ('ok', '-'):
                    continue
                kid = known_map(fld, verdict, c) if known_map else None
                res.violations.append(dict(property_field=fld, verdict=verdict, call=c.call(), replay=c.replay(),
                                           judge={k: c.jkv[k] for k in c.jkv if k not in ('cw', 'bytes')},
                                           model_agrees=(c.model == c.impl) if c.model else None, known_id=kid))
        if any(f in ('c01', 'c02', 'c03', 'c04', 'c05', 'c06', 'c07', 'c13') for f in fields):
            concurrency_pass(cases, st, res, fields)
    return cases
