"""pytolean — AST translator (Tie A) for a typed integer / boolean / None subset of Python into Lean 4.

Grammar and typing rules: docs/TRANSLATOR.md.  Used by tools/gen.py to write lean/Gen/Funcs.lean (the translated
functions), lean/Gen/FuncsCheck.lean (translation validation: every translated function is evaluated by the Lean
kernel on sample arguments and compared with what the real Python function returned at generation time) and
lean/Gen/Py.lean (a verbatim copy of tools/py_prelude.lean: the Python primitives).

Principles
  * exact or loud: a construct outside the subset raises `Untranslatable`; the caller then emits a deliberately
    ill-typed definition (`untranslatable_<name>`), never an approximation;
  * parameters are typed by the spec (int / bool / Optional[int] / str / tuples of these / a fixed literal); the
    translation is the meaning of the function ON THAT DOMAIN (`int(x)` of an int is x, `x.upper()` of an int
    raises AttributeError, `isinstance(x, float)` of an int is False);
  * exceptions are values: a function that can raise returns `Except PyExc τ`; the message of an exception is not
    modelled (the arguments of `raise X(...)` are not evaluated);
  * module-level constants are read from the imported module at generation time (dumped as tables, in iteration
    order); reads from objects outside the subset (`matrix[i][j]`) can be declared as extra parameters (`opaque`).
"""
import ast
import itertools
import random


class Untranslatable(Exception):
    pass


class _NeedMonad(Exception):
    def __init__(self, why='', level=0):
        Exception.__init__(self, why)
        self.level = level      # 0 = the function, k = the k-th enclosing loop (1 = outermost)


class _Widen(Exception):
    """a loop-carried local needs a wider type than it has at loop entry"""

    def __init__(self, name, ty):
        Exception.__init__(self, name)
        self.name, self.ty = name, ty


class _CanRaise(Exception):
    pass


class _PhiFail(Exception):
    pass


class _LaterOperandRaises(Exception):
    pass


# ------------------------------------------------------------------------------------ types
INT, BOOL, STR, NONE = 'int', 'bool', 'str', 'none'


def OPT(t):
    return ('opt', t)


def LIST(t):
    return ('list', t)


def DICT(k, v):
    return ('dict', k, v)


def TUPLE(*ts):
    return ('tuple',) + tuple(ts)


UNION_INT_STR = ('union', INT, STR)
BYTEARRAY = ('bytearray',)    # bytes / bytearray: a sequence of ints in range(256) -> List Int
BUFFER = ('buffer',)          # segno's Buffer (a bytearray of bits with extend / append_bits / toints) -> List Int
FLOAT = 'float'               # exact rational model of the float sub-language -> Py.Q


def ITER(t):
    return ('iter', t)


def OBJ(cls, **fields):
    """an object (instance of `cls`) the function only reads: attribute / opaque-parameter name of a translated method
    -> type; every field becomes a parameter of the translation (`__len__` stands for `len(obj)`)"""
    return ('obj', tuple(fields.items()), cls)


EMPTYLIST = ('list', None)      # the display `[]` before its element type is known


def obj_param_name(obj, field):
    """name of the parameter of the translation that stands for `field` of the object parameter `obj`"""
    return 'n_' + obj if field == '__len__' else obj + '_items' if field == '__iter__' else field


def obj_param_type(fty):
    """round 5: the field `__iter__=LIST(OBJ(...))` (what iterating over the object yields) is a list of tuples of the
    fields of the item objects"""
    if isinstance(fty, tuple) and fty[0] == 'list' and isinstance(fty[1], tuple) and fty[1][0] == 'obj':
        return LIST(TUPLE(*[t for _, t in fty[1][1]]))
    return fty


class NamedTupleType(tuple):
    """a tuple type whose components have names (collections.namedtuple): `x.name` is a projection"""
    fields = ()


def NT(**fields):
    t = NamedTupleType(('tuple',) + tuple(fields.values()))
    t.fields = tuple(fields)
    return t


def FN(args, ret, raises=False):
    """a parameter that is a callable: `args` the parameter types, `ret` the result type; `raises`: the call can raise
    (the parameter is then a function into `M ret`).  DOMAIN: the callable is a function of its arguments (no state)."""
    return ('fn', tuple(args), ret, bool(raises))


class FnSample:
    """a sample value of a callable parameter: the Python callable and the Lean term that denotes the same function"""

    def __init__(self, py, lean):
        self.py, self.lean = py, lean

    def __repr__(self):
        return f'FnSample({self.lean})'


def RAISES(t):
    """type of an opaque read that can raise: the parameter of the translation is an `M τ`"""
    return ('raises', t)


def is_seq(t):
    return t in (BYTEARRAY, BUFFER) or (isinstance(t, tuple) and t[0] == 'list')


def elem_ty(t):
    return INT if t in (BYTEARRAY, BUFFER) else t[1]


def is_bytes_ty(t):
    """types whose integer leaves are bytes by construction"""
    return t in (BYTEARRAY, BUFFER) or (isinstance(t, tuple) and t[0] in ('list', 'opt', 'iter') and is_bytes_ty(t[1]))


class CONST:
    """parameter fixed to a literal value (specialisation of the function on that argument)"""

    def __init__(self, value):
        self.value = value


def lean_ty(t):
    if t == INT:
        return 'Int'
    if t == BOOL:
        return 'Bool'
    if t == STR:
        return 'String'
    if t == NONE:
        return 'Unit'
    if t == FLOAT:
        return 'Py.Q'
    if t in (BYTEARRAY, BUFFER):
        return '(List Int)'
    if t[0] == 'iter':
        return f'(List {lean_ty(t[1])})'
    if t[0] == 'raises':
        return f'(M {lean_ty(t[1])})'
    if t[0] == 'opt':
        return f'(Option {lean_ty(t[1])})'
    if t == EMPTYLIST:
        return '(List Int)'
    if t[0] == 'list':
        return f'(List {lean_ty(t[1])})'
    if t[0] == 'dict':
        return f'(List ({lean_ty(t[1])} × {lean_ty(t[2])}))'
    if t[0] == 'tuple':
        return '(' + ' × '.join(lean_ty(x) for x in t[1:]) + ')'
    if t[0] == 'union':
        return f'(Sum {lean_ty(t[1])} {lean_ty(t[2])})'
    if t[0] == 'fn':
        res = f'M {lean_ty(t[2])}' if t[3] else lean_ty(t[2])
        return '(' + ' → '.join([lean_ty(a) for a in t[1]] + [res]) + ')'
    raise Untranslatable(f'type {t!r}')


_NC = object()   # "no compile-time constant"


class Val:
    """a pure Lean term with its Python-level type (and its value when it is a compile-time constant)

    byte  : every integer leaf of the value is known to be in range(256)
    elts  : the component values of a tuple / list display
    view  : (base name, index term) — the value is row `index` of the list of rows `base`, read and written through
            (`row = matrix[i]` where the matrix is updated in place somewhere in the function)
    bound : (base name, method) — a bound method of a local sequence (`write = buff.extend`)
    fields: the fields of an object parameter (name -> Val)"""

    def __init__(self, term, ty, const=_NC, byte=False, elts=None, view=None, bound=None, fields=None, nonneg=False):
        self.term, self.ty, self.const = term, ty, const
        self.byte = byte or is_bytes_ty(ty)
        self.nonneg = nonneg or self.byte or (ty == 'int' and const is not _NC and isinstance(const, int) and const >= 0)
        # nonneg: an int known to be ≥ 0 (loop variables of `range(n)` / `range(k, n)` with a literal k ≥ 0, bytes, literals)
        self.elts, self.view, self.bound, self.fields = elts, view, bound, fields

    @property
    def is_const(self):
        return self.const is not _NC

    def renamed(self, term):
        return Val(term, self.ty, byte=self.byte, elts=self.elts, nonneg=self.nonneg)


class Let:
    """a pure `let` among the hoisted computations of a Ctx"""

    def __init__(self, term):
        self.term = term


def all_bytes(v):
    if isinstance(v, bool):
        return False
    if isinstance(v, int):
        return 0 <= v < 256
    if isinstance(v, (bytes, bytearray)):
        return True
    if isinstance(v, (tuple, list)):
        return all(all_bytes(x) for x in v)
    return False


LEAN_KEYWORDS = {'at', 'from', 'end', 'open', 'fun', 'do', 'then', 'else', 'if', 'let', 'have', 'show', 'match', 'with', 'in', 'by',
                 'where', 'def', 'instance', 'structure', 'class', 'namespace', 'section', 'import', 'mutual', 'return', 'for',
                 'theorem', 'example', 'abbrev', 'inductive', 'deriving', 'variable', 'universe', 'local', 'private', 'protected',
                 'partial', 'unsafe', 'Type', 'Prop', 'Sort', 'set_option', 'using', 'calc', 'suffices', 'nomatch', 'nofun',
                 'export', 'attribute', 'macro', 'syntax', 'notation', 'infix', 'prefix', 'postfix', 'opaque', 'axiom', 'extends',
                 'try', 'catch', 'finally', 'unless', 'mut', 'break', 'continue', 'true', 'false', 'some', 'none', 'id', 'exc'}


def lean_name(n):
    if not n.isidentifier() or not n.isascii():
        raise Untranslatable(f'identifier {n!r}')
    return f'«{n}»' if n in LEAN_KEYWORDS else n


def ind(s, n=2):
    pad = ' ' * n
    return '\n'.join(pad + line for line in s.split('\n'))


def int_lit(n):
    return f'({n} : Int)'


def str_lit(s):
    out = ['"']
    for ch in s:
        if ch == '"':
            out.append('\\"')
        elif ch == '\\':
            out.append('\\\\')
        elif ch == '\n':
            out.append('\\n')
        elif 32 <= ord(ch) < 127:
            out.append(ch)
        else:
            out.append('\\u{%x}' % ord(ch))
    out.append('"')
    return ''.join(out)


# ------------------------------------------------------------------------------------ exceptions
EXC = {'ValueError': 'valueError', 'KeyError': 'keyError', 'IndexError': 'indexError', 'TypeError': 'typeError',
       'AttributeError': 'attributeError', 'AssertionError': 'assertionError', 'DataOverflowError': 'dataOverflow',
       'UnicodeError': 'unicodeError', 'UnicodeEncodeError': 'unicodeError', 'UnicodeDecodeError': 'unicodeError',
       'LookupError': 'lookupError', 'ZeroDivisionError': 'zeroDivisionError', 'StopIteration': 'stopIteration',
       'UnboundLocalError': 'unboundLocalError'}
ALL_EXC = ['valueError', 'dataOverflow', 'indexError', 'keyError', 'typeError', 'attributeError', 'assertionError',
           'unicodeError', 'lookupError', 'zeroDivisionError', 'stopIteration', 'unboundLocalError']
# what an `except X` clause catches (X and its subclasses among the modelled classes)
CATCHES = {'Exception': ALL_EXC, 'BaseException': ALL_EXC,
           'ValueError': ['valueError', 'dataOverflow', 'unicodeError'], 'DataOverflowError': ['dataOverflow'],
           'UnicodeError': ['unicodeError'], 'LookupError': ['lookupError', 'keyError', 'indexError'],
           'KeyError': ['keyError'], 'IndexError': ['indexError'], 'TypeError': ['typeError'],
           'AttributeError': ['attributeError'], 'AssertionError': ['assertionError'],
           'ArithmeticError': ['zeroDivisionError'], 'ZeroDivisionError': ['zeroDivisionError'],
           'StopIteration': ['stopIteration']}


def err(name):
    return f'(Except.error PyExc.{name})'


def ok(term):
    return f'(Except.ok {term})'


def const_err(m):
    """name of the exception if the monadic term `m` is a constant `Except.error`, else None"""
    if isinstance(m, str) and m.startswith('(Except.error PyExc.') and m.endswith(')') and m.count('(') == 1:
        return m[len('(Except.error PyExc.'):-1]
    return None


def tuple_term(terms):
    return terms[0] if len(terms) == 1 else '(' + ', '.join(terms) + ')'


def proj(term, i, n):
    """component i of an n-tuple (right-nested products)"""
    if n == 1:
        return term
    if i == n - 1:
        return f'{term}' + '.2' * i
    return f'{term}' + '.2' * i + '.1'


def join_types(a, b):
    """least common type of two branches (None joins T to Optional[T]); None if there is none"""
    if a == b:
        return b if isinstance(b, NamedTupleType) and not isinstance(a, NamedTupleType) else a      # (keep the component names)
    if a == EMPTYLIST and is_seq(b):
        return b
    if b == EMPTYLIST and is_seq(a):
        return a
    if a == NONE and b in (INT, STR):
        return OPT(b)
    if b == NONE and a in (INT, STR):
        return OPT(a)
    if a == NONE and (b == BOOL or is_seq(b)):
        return OPT(b)
    if b == NONE and (a == BOOL or is_seq(a)):
        return OPT(a)
    for x, y in ((a, b), (b, a)):
        if isinstance(x, tuple) and x[0] == 'tuple' and isinstance(y, tuple) and y[0] in ('tuple', 'list'):
            # homogeneous tuples of different lengths / a tuple and a list: a list
            ex = tuple_elem_ty(x)
            ey = tuple_elem_ty(y) if y[0] == 'tuple' else y[1]
            if ex is not None and ey is not None and (y[0] == 'list' or len(x) != len(y)):
                t = join_types(ex, ey)
                return None if t is None else LIST(t)
    if a == NONE and b[0] == 'opt':
        return b
    if b == NONE and a[0] == 'opt':
        return a
    if a[0] == 'opt' and a[1] == b:
        return a
    if b[0] == 'opt' and b[1] == a:
        return b
    if isinstance(a, tuple) and isinstance(b, tuple) and a[0] == b[0] == 'list':
        t = join_types(a[1], b[1])
        return None if t is None else LIST(t)
    if isinstance(a, tuple) and isinstance(b, tuple) and a[0] == b[0] == 'dict':
        k, v = join_types(a[1], b[1]), join_types(a[2], b[2])
        return None if k is None or v is None or k not in (INT, STR, OPT(INT)) else DICT(k, v)
    if {a, b} == {INT, STR}:
        return UNION_INT_STR
    return None


def tuple_elem_ty(t):
    """the common type of the components of a tuple type (None if there is none)"""
    if len(t) < 2:
        return None
    e = t[1]
    for u in t[2:]:
        e = join_types(e, u)
        if e is None:
            return None
    return e


# ------------------------------------------------------------------------------------ constants of the module
class Tables:
    """module-level constants referred to by translated functions, dumped once each"""

    def __init__(self):
        self.defs = {}      # lean name -> (type, text)
        self.order = []

    def type_of(self, v, where):
        if isinstance(v, bool):
            return BOOL
        if isinstance(v, int):
            return INT
        if isinstance(v, str):
            return STR
        if v is None:
            return NONE
        if isinstance(v, (bytes, bytearray)):
            return LIST(INT)
        if isinstance(v, tuple) and hasattr(v, '_fields'):
            return NT(**{f: self.type_of(x, where) for f, x in zip(v._fields, v)})
        if isinstance(v, (tuple, list)):
            if not v:
                return LIST(INT)
            return LIST(self.join_all([self.type_of(x, where) for x in v], where))
        if isinstance(v, dict):
            if not v:
                raise Untranslatable(f'{where}: empty dict')
            kt = self.join_all([self.type_of(k, where) for k in v.keys()], where)
            vt = self.join_all([self.type_of(x, where) for x in v.values()], where)
            if kt == NONE:
                kt = OPT(INT)
            if kt not in (INT, STR, OPT(INT)):
                raise Untranslatable(f'{where}: dict keys of type {kt}')
            return DICT(kt, vt)
        raise Untranslatable(f'{where}: constant of type {type(v).__name__}')

    def join_all(self, ts, where):
        t = ts[0]
        for u in ts[1:]:
            t = join_types(t, u)
            if t is None:
                raise Untranslatable(f'{where}: heterogeneous constant')
        return t

    def literal(self, v, t):
        if t == INT:
            if isinstance(v, bool) or not isinstance(v, int):
                raise Untranslatable(f'value {v!r} is not an int')
            return f'({v})' if v < 0 else str(v)
        if t == BOOL:
            if not isinstance(v, bool):
                raise Untranslatable(f'value {v!r} is not a bool')
            return 'true' if v else 'false'
        if t == STR:
            if not isinstance(v, str):
                raise Untranslatable(f'value {v!r} is not a str')
            return str_lit(v)
        if t == NONE:
            if v is not None:
                raise Untranslatable(f'value {v!r} is not None')
            return '()'
        if t[0] == 'raises':
            if isinstance(v, tuple) and len(v) == 2 and v[0] == 'raise':
                return err(EXC[v[1]])
            return ok(self.literal(v, t[1]))
        if t in (BYTEARRAY, BUFFER):
            if hasattr(v, 'getbits'):
                v = v.getbits()
            return '[' + ', '.join(self.literal(x, INT) for x in v) + ']'
        if t[0] == 'opt':
            return 'none' if v is None else f'(some {self.literal(v, t[1])})'
        if t[0] == 'list':
            return '[' + ', '.join(self.literal(x, t[1]) for x in v) + ']'
        if t[0] == 'dict':
            return '[' + ', '.join(f'({self.literal(k, t[1])}, {self.literal(x, t[2])})' for k, x in v.items()) + ']'
        if t[0] == 'tuple':
            if not isinstance(v, tuple) or len(v) != len(t) - 1:
                raise Untranslatable(f'value {v!r} is not a {len(t) - 1}-tuple')
            return '(' + ', '.join(self.literal(x, u) for x, u in zip(v, t[1:])) + ')'
        if t[0] == 'union':
            if isinstance(v, int) and not isinstance(v, bool):
                return f'(Sum.inl {self.literal(v, INT)})'
            return f'(Sum.inr {self.literal(v, STR)})'
        if t[0] == 'fn':
            if not isinstance(v, FnSample):
                raise Untranslatable(f'value {v!r} is not a function sample')
            return v.lean
        raise Untranslatable(f'literal of type {t}')

    def table(self, qual, v):
        """register constant `qual` (e.g. consts.FORMAT_INFO) -> Val referring to the dumped table"""
        name = 'T_' + ''.join(ch if ch.isalnum() or ch == '_' else '_' for ch in qual).strip('_')
        partial = False
        note = ''
        if isinstance(v, dict) and any(isinstance(k, str) for k in v) and any(not isinstance(k, str) for k in v):
            # a dict with str keys AND int / None keys (consts.ECC): only the entries with non-str keys are dumped; the
            # table may then only be subscripted with an int / None key (which can never be equal to a str key)
            v = {k: x for k, x in v.items() if not isinstance(k, str)}
            name += '_intkeys'
            partial = True
            note = '; ONLY the entries whose key is not a str'
        if name not in self.defs:
            t = self.type_of(v, qual)
            self.defs[name] = (t, f'/-- `{qual}` (read from the imported module, iteration order kept{note}) -/\n'
                                  f'def {name} : {lean_ty(t)} :=\n  {self.literal(v, t)}')
            self.order.append(name)
        r = Val(name, self.defs[name][0], const=v, byte=all_bytes(v))
        r.partial = partial
        return r


# ------------------------------------------------------------------------------------ the translator: expressions
class Ctx:
    """impure sub-expressions hoisted in evaluation order: (name, monadic term | Let, type); `updates` are the locals an
    expression rebinds as a side effect (`next(it)`, `xs.pop()`, `buff.extend(…)`)"""

    def __init__(self, parent=None, conditional=False):
        self.binds = []
        self.updates = {}
        self.parent = parent
        self.conditional = conditional      # evaluated only on some paths: in-place updates are refused here

    def lookup(self, name):
        c = self
        while c is not None:
            if name in c.updates:
                return c.updates[name]
            c = c.parent
        return None


def BIND(name, m, ty, body):
    return f'(Py.bind ({m} : M {lean_ty(ty)}) (fun {name} =>\n{ind(body)}))'


def BIND_RAW(name, m, lean_type, body):
    return f'(Py.bind ({m} : M {lean_type}) (fun {name} =>\n{ind(body)}))'


def seal(binds, final):
    """the hoisted computations `binds` around the monadic term `final`"""
    for k, (name, m, ty) in enumerate(binds):
        if not isinstance(m, Let) and const_err(m):   # a computation that always raises: what follows is dead code (exact)
            binds, final = binds[:k], m
            break
    if binds and not isinstance(binds[-1][1], Let) and final == ok(binds[-1][0]):
        # `match m with | error e => error e | ok t => ok t` is m (right identity of the exception monad)
        name, m, ty = binds[-1]
        binds, final = binds[:-1], f'({m} : M {lean_ty(ty)})'
    for name, m, ty in reversed(binds):
        if isinstance(m, Let):
            final = f'(let {name} : {lean_ty(ty)} := {m.term};\n{final})'
        else:
            final = BIND(name, m, ty, final)
    return final


class FnTranslator:
    def __init__(self, spec, module, fn_node, registry, tables, module_aliases):
        self.spec, self.module, self.fn, self.registry, self.tables = spec, module, fn_node, registry, tables
        self.module_aliases = module_aliases   # name in the source -> imported module object (e.g. 'consts')
        self.monadic = False                   # the function as a whole can raise
        self.loops = []                        # enclosing loops being translated: dict(monadic, names, types, form, …)
        self.noraise = False
        self.phi_depth = 0
        self.counter = {}
        self.py_ret_ty = spec['ret']
        self.mutates = list(spec.get('mutates', []))   # parameters updated in place: returned in front of the result
        self.opaque = spec.get('opaque', {})   # source text of an expression -> (parameter name, type)
        self.fuel = spec.get('fuel', {})       # source text of a `while` test -> source text of the declared fuel
        self.size = 0
        self.prepass()
        mt = [t for n, t in list(spec.get('closure', {}).items()) + list(spec['params'].items()) if n in self.mutates]
        if len(mt) != len(self.mutates):
            raise Untranslatable('`mutates` names something that is not a parameter')
        self.ret_ty = self.py_ret_ty if not mt else (TUPLE(*mt) if self.py_ret_ty == NONE and len(mt) > 1 else
                                                     mt[0] if self.py_ret_ty == NONE else TUPLE(*(mt + [self.py_ret_ty])))

    # ------------------------------------------------------------ static pre-pass over the function body
    MUTATORS = ('append', 'extend', 'pop', 'append_bits', 'insert', 'remove', 'clear', 'sort', 'reverse')

    def own_nodes(self, stmts):
        """all AST nodes of `stmts` except the bodies of nested functions / lambdas"""
        stack = list(stmts)
        while stack:
            n = stack.pop()
            yield n
            for c in ast.iter_child_nodes(n):
                if not isinstance(c, (ast.FunctionDef, ast.Lambda, ast.AsyncFunctionDef, ast.ClassDef)):
                    stack.append(c)

    @staticmethod
    def root_name(e):
        while isinstance(e, ast.Subscript):
            e = e.value
        return e.id if isinstance(e, ast.Name) else None

    def prepass(self):
        """local names; which names are (possibly) aliases of which sequences; which names are updated in place"""
        body = self.fn.body
        self.local_names = {a.arg for a in self.fn.args.posonlyargs + self.fn.args.args + self.fn.args.kwonlyargs}
        links = {}        # name -> names it may be an alias of (`x = y[i]`, `x = y`, `x = y.method`)
        for n in self.own_nodes(body):
            if isinstance(n, (ast.Assign, ast.AugAssign, ast.AnnAssign, ast.For)):
                targets = n.targets if isinstance(n, ast.Assign) else [n.target]
                for t in targets:
                    for x in ([t] if isinstance(t, ast.Name) else t.elts if isinstance(t, (ast.Tuple, ast.List)) else []):
                        if isinstance(x, ast.Name):
                            self.local_names.add(x.id)
            if isinstance(n, ast.Assign) and len(n.targets) == 1 and isinstance(n.targets[0], ast.Name):
                v = n.value
                base = None
                if isinstance(v, ast.Subscript) and not isinstance(v.slice, ast.Slice):
                    base = self.root_name(v)
                elif isinstance(v, ast.Name):
                    base = v.id
                elif isinstance(v, ast.Attribute) and isinstance(v.value, ast.Name):
                    base = v.value.id
                if base is not None:
                    links.setdefault(n.targets[0].id, set()).add(base)
            if isinstance(n, ast.FunctionDef):
                self.local_names.add(n.name)
        self.links = links
        self.iter_names = set()     # locals that are (possibly) iterators: advanced by the calls that consume them
        for n in self.own_nodes(body):
            if isinstance(n, ast.Assign) and len(n.targets) == 1 and isinstance(n.targets[0], ast.Name):
                v = n.value
                if isinstance(v, ast.GeneratorExp) or (isinstance(v, ast.Call) and (
                        (isinstance(v.func, ast.Name) and v.func.id in ('iter', 'map', 'zip', 'enumerate', 'reversed', 'chain', 'islice',
                                                                         'zip_longest', 'filter'))
                        or (isinstance(v.func, ast.Attribute) and v.func.attr in ('toints', 'from_iterable', 'items', 'values', 'keys')))):
                    self.iter_names.add(n.targets[0].id)
        self.inplace = self.close(self.direct_updates(body, consumers=False))

    def close(self, names):
        """`names` and everything they may be aliases of (or that may alias them)"""
        names = set(names)
        changed = True
        while changed:
            changed = False
            for x, bases in self.links.items():
                if x in names and not bases <= names:
                    names |= bases
                    changed = True
                if bases & names and x not in names:
                    names.add(x)
                    changed = True
        return names

    def direct_updates(self, stmts, consumers=True):
        """names whose sequence value is updated in place by `stmts` (stores, mutating methods, `next`); with `consumers`
        also the names passed to calls that would advance them if they are iterators (for the loop state only)"""
        names = set()
        for n in self.own_nodes(stmts):
            if isinstance(n, (ast.Assign, ast.AugAssign, ast.Delete)):
                targets = n.targets if isinstance(n, (ast.Assign, ast.Delete)) else [n.target]
                for t in targets:
                    for x in ([t] if not isinstance(t, (ast.Tuple, ast.List)) else t.elts):
                        if isinstance(x, ast.Subscript) and self.root_name(x):
                            names.add(self.root_name(x))
            if isinstance(n, ast.Call):
                f = n.func
                if isinstance(f, ast.Attribute) and f.attr in self.MUTATORS and self.root_name(f.value):
                    names.add(self.root_name(f.value))
                if isinstance(f, ast.Name) and n.args and isinstance(n.args[0], ast.Name) and (f.id in ('next', 'islice') or (
                        consumers and n.args[0].id in self.iter_names
                        and f.id in ('list', 'tuple', 'bytearray', 'bytes', 'sum', 'min', 'max', 'any', 'all', 'sorted', 'set',
                                     'dict', 'enumerate', 'zip', 'map', 'chain'))):
                    names.add(n.args[0].id)         # (an iterator would be advanced / consumed)
                if isinstance(f, ast.Name) and f.id in self.links:
                    names.add(f.id)         # call of a bound method (`write = buff.extend; write(…)`)
                if isinstance(f, ast.Name) and f.id in self.registry and self.registry[f.id].get('mutates'):
                    ent = self.registry[f.id]
                    for (p, _), a in zip(ent['params'], n.args):
                        if p in ent['mutates'] and isinstance(a, ast.Name):
                            names.add(a.id)
        return names

    # ------------------------------------------------------------ helpers
    def fresh(self, base):
        k = self.counter.get(base, 0) + 1
        self.counter[base] = k
        return f"{lean_name(base)}'{k}"

    def cur_monadic(self):
        return self.loops[-1]['monadic'] if self.loops else self.monadic

    def need_monad(self, why):
        if self.noraise:
            raise _CanRaise(why)
        if self.phi_depth:
            raise _PhiFail(why)
        if not self.cur_monadic():
            raise _NeedMonad(why, len(self.loops))

    def let_bind(self, ctx, term, ty, base='v', **attrs):
        """hoist a pure computation (so that its term is not duplicated)"""
        name = self.fresh(base)
        ctx.binds.append((name, Let(term), ty))
        return Val(name, ty, **attrs)

    def lookup(self, name, env, ctx):
        v = ctx.lookup(name) if ctx is not None else None
        return v if v is not None else env.get(name)

    @staticmethod
    def apply(env, ctx):
        return {**env, **ctx.updates} if ctx.updates else env

    @staticmethod
    def no_updates(sub):
        if sub.updates:
            raise Untranslatable('an in-place update inside a conditionally evaluated expression')

    def bind(self, ctx, mterm, ty, **attrs):
        """hoist a raising computation; returns the Val of its result"""
        self.need_monad(mterm[:40])
        name = self.fresh('t')
        ctx.binds.append((name, mterm, ty))
        return Val(name, ty, **attrs)

    def const_val(self, qual, v):
        if isinstance(v, bool):
            return Val('true' if v else 'false', BOOL, const=v)
        if isinstance(v, int):
            return Val(int_lit(v), INT, const=v, byte=0 <= v < 256)
        if isinstance(v, str):
            return Val(str_lit(v), STR, const=v)
        if v is None:
            return Val('()', NONE, const=None)
        if isinstance(v, (tuple, list, dict, bytes, bytearray)):
            return self.tables.table(qual, v)
        raise Untranslatable(f'{qual}: constant of type {type(v).__name__}')

    def components(self, v):
        """the components of a tuple-typed value"""
        n = len(v.ty) - 1
        if v.elts is not None and len(v.elts) == n:
            return v.elts
        return [Val(proj(v.term, i, n), v.ty[1 + i], byte=v.byte) for i in range(n)]

    def to_list(self, v, deep=True):
        """a homogeneous tuple read as a sequence (iteration, dynamic index, slice, extend); with `deep`, components
        that are homogeneous tuples of ≥ 3 scalars become lists as well"""
        if is_seq(v.ty):
            return v
        if not (isinstance(v.ty, tuple) and v.ty[0] == 'tuple'):
            raise Untranslatable(f'a {v.ty} where a sequence is expected')
        comps = self.components(v)
        if deep and all(isinstance(c.ty, tuple) and c.ty[0] == 'tuple' and len(c.ty) >= 4 and tuple_elem_ty(c.ty) in (INT, BOOL)
                        for c in comps):
            comps = [self.to_list(c, False) for c in comps]
        if not comps:
            return Val('[]', LIST(INT), const=(), byte=True)
        t = comps[0].ty
        for c in comps[1:]:
            t = join_types(t, c.ty)
            if t is None:
                raise Untranslatable('a heterogeneous tuple where a sequence is expected')
        comps = [self.coerce(c, t) for c in comps]
        const = tuple(c.const for c in comps) if all(c.is_const for c in comps) else _NC
        return Val('[' + ', '.join(c.term for c in comps) + ']', LIST(t), const=const, byte=all(c.byte for c in comps), elts=comps)

    def coerce(self, v, ty):
        if v.ty == ty:
            return v
        if v.ty == EMPTYLIST and is_seq(ty):
            return Val(f'([] : {lean_ty(ty)})', ty, byte=True)
        if isinstance(ty, tuple) and ty[0] == 'opt':
            if v.ty == NONE:
                return Val('none', ty, const=None)
            if v.ty == ty[1]:
                return Val(f'(some {v.term})', ty, const=v.const)
        if isinstance(ty, tuple) and ty[0] == 'union':
            if v.ty == ty[1]:
                return Val(f'(Sum.inl {v.term})', ty)
            if v.ty == ty[2]:
                return Val(f'(Sum.inr {v.term})', ty)
        if isinstance(ty, tuple) and ty[0] == 'list' and isinstance(v.ty, tuple) and v.ty[0] == 'tuple':
            w = self.to_list(v, deep=isinstance(ty[1], tuple) and ty[1][0] == 'list')
            if w.ty == ty:
                return w
            return Val('[' + ', '.join(self.coerce(c, ty[1]).term for c in w.elts) + ']', ty, byte=w.byte)
        if isinstance(ty, tuple) and ty[0] == 'list' and v.ty in (BYTEARRAY, BUFFER) and ty[1] == INT:
            return Val(v.term, ty, byte=True)
        if isinstance(ty, tuple) and ty[0] == 'tuple' and isinstance(v.ty, tuple) and v.ty[0] == 'tuple' and len(ty) == len(v.ty):
            comps = [self.coerce(c, t) for c, t in zip(self.components(v), ty[1:])]
            return Val('(' + ', '.join(c.term for c in comps) + ')', ty, elts=comps)
        raise Untranslatable(f'a value of type {v.ty} where {ty} is expected')

    def truth(self, v):
        """Python truthiness of a value"""
        if v.ty == BOOL:
            return v
        if v.is_const and not isinstance(v.const, (tuple, list, dict, bytes, bytearray)):
            b = bool(v.const)
            return Val('true' if b else 'false', BOOL, const=b)
        if v.ty == INT:
            return Val(f'({v.term} != 0)', BOOL)
        if v.ty == STR:
            return Val(f'({v.term} != "")', BOOL)
        if v.ty == NONE:
            return Val('false', BOOL, const=False)
        if isinstance(v.ty, tuple) and v.ty[0] in ('list', 'dict', 'bytearray', 'buffer'):
            return Val(f'(!({v.term}).isEmpty)', BOOL)
        if isinstance(v.ty, tuple) and v.ty[0] == 'opt' and v.ty[1] != NONE:
            x = self.fresh('o')
            inner = self.truth(Val(x, v.ty[1]))
            return Val(f'(match {v.term} with | none => false | some {x} => {inner.term})', BOOL)
        raise Untranslatable(f'truth value of a {v.ty}')

    def none_test(self, e, env):
        """`X is None` / `X is not None` / `not (…)` on a local name -> (name, tests_for_none)"""
        if isinstance(e, ast.UnaryOp) and isinstance(e.op, ast.Not):
            r = self.none_test(e.operand, env)
            return None if r is None else (r[0], not r[1])
        if isinstance(e, ast.Compare) and len(e.ops) == 1 and isinstance(e.ops[0], (ast.Is, ast.IsNot)) \
                and isinstance(e.left, ast.Name) and e.left.id in env \
                and isinstance(e.comparators[0], ast.Constant) and e.comparators[0].value is None \
                and ast.unparse(e.left) not in self.opaque:
            return e.left.id, isinstance(e.ops[0], ast.Is)
        return None

    def narrow(self, env, name):
        """environments for the two cases of an Optional local: (is None, is not None with its Lean name)"""
        v = env[name]
        x = self.fresh(name)
        return {**env, name: Val('()', NONE, const=None)}, {**env, name: Val(x, v.ty[1])}, x

    # ------------------------------------------------------------ expressions
    def ex(self, e, env, ctx):
        src = ast.unparse(e)
        if src in self.opaque:
            name, ty = self.opaque[src]
            if isinstance(ty, tuple) and ty[0] == 'raises':
                return self.bind(ctx, lean_name(name), ty[1])      # an opaque read that can raise
            return Val(lean_name(name), ty)
        if isinstance(e, ast.Constant):
            if isinstance(e.value, (bool, int, str)) or e.value is None:
                return self.const_val(src, e.value)
            if isinstance(e.value, bytes):
                return Val('[' + ', '.join(int_lit(b) for b in e.value) + ']', BYTEARRAY, const=e.value)
            raise Untranslatable(f'literal {src}')
        if isinstance(e, ast.Name):
            v = self.lookup(e.id, env, ctx)
            if v is not None and getattr(v, 'partial', False):
                raise Untranslatable(f'{e.id}: a dict dumped without its str keys used otherwise than by an int subscript')
            if v is not None and e.id in getattr(self, 'maybe_unbound', ()) and (v.ty == NONE or (isinstance(v.ty, tuple) and v.ty[0] == 'opt')):
                if v.ty == NONE:
                    return self.bind(ctx, err('unboundLocalError'), INT)
                return self.bind(ctx, f'(Py.unbound {v.term})', v.ty[1])
            if v is not None:
                if v.view is not None:
                    return self.materialise(v, env, ctx)
                if v.bound is not None or v.fields is not None:
                    raise Untranslatable(f'{e.id} (a bound method / an object) used as a value')
                return v
            if self.spec.get('part', 1) >= 3:
                fv = self.function_value(e.id, env, ctx)
                if fv is not None:
                    return fv
            if e.id in self.local_names:
                raise Untranslatable(f'local {e.id} is not available here (read before assignment, or assigned inside a loop)')
            if e.id in vars(self.module) and not callable(vars(self.module)[e.id]) and e.id not in self.module_aliases:
                return self.const_val(e.id, vars(self.module)[e.id])
            raise Untranslatable(f'name {e.id}')
        if self.spec.get('part', 1) >= 5 and isinstance(e, (ast.Attribute, ast.Subscript)) and isinstance(e.value, ast.Name):
            o = self.lookup(e.value.id, env, ctx)
            if o is not None and o.fields is None and o.view is None and isinstance(o.ty, tuple) and o.ty[0] == 'opt' \
                    and isinstance(o.ty[1], NamedTupleType):
                # `x.name` / `x[…]` for x: Optional[named tuple]: None has no attributes (AttributeError) and no items (TypeError)
                exc = 'attributeError' if isinstance(e, ast.Attribute) else 'typeError'
                u = self.bind(ctx, f'(match {o.term} with | some x => {ok("x")} | none => {err(exc)})', o.ty[1])
                return self.ex(e, {**env, e.value.id: u}, ctx)
        if isinstance(e, ast.Attribute):
            if isinstance(e.value, ast.Name) and e.value.id in self.module_aliases and e.value.id not in env:
                mod = self.module_aliases[e.value.id]
                if not hasattr(mod, e.attr):
                    raise Untranslatable(f'{src} does not exist')
                return self.const_val(src, getattr(mod, e.attr))
            if isinstance(e.value, ast.Name):
                o = self.lookup(e.value.id, env, ctx)
                if o is not None and o.fields is not None:
                    if e.attr not in o.fields:
                        raise Untranslatable(f'{src}: the object is declared without this attribute')
                    return o.fields[e.attr]
                if o is not None and isinstance(o.ty, NamedTupleType) and e.attr in o.ty.fields:
                    k = o.ty.fields.index(e.attr)
                    return Val(proj(o.term, k, len(o.ty) - 1), o.ty[1 + k], byte=o.byte)
            raise Untranslatable(f'attribute {src}')
        if isinstance(e, ast.Tuple):
            vs = [self.ex(x, env, ctx) for x in e.elts]
            if not vs:
                return Val('[]', LIST(INT), const=(), byte=True)
            if len(vs) == 1:
                return self.to_list(Val(f'({vs[0].term})', TUPLE(vs[0].ty), elts=vs, byte=vs[0].byte), deep=True)
            const = tuple(v.const for v in vs) if all(v.is_const for v in vs) else _NC
            return Val('(' + ', '.join(v.term for v in vs) + ')', TUPLE(*[v.ty for v in vs]), elts=vs, byte=all(v.byte for v in vs),
                       const=const)
        if isinstance(e, ast.List):
            vs = [self.ex(x, env, ctx) for x in e.elts]
            if not vs:
                return Val('[]', EMPTYLIST, byte=True)
            return self.to_list(Val('', TUPLE(*[v.ty for v in vs]), elts=vs, byte=all(v.byte for v in vs)), deep=False)
        if isinstance(e, (ast.ListComp, ast.GeneratorExp)):
            return self.comprehension(e, env, ctx)
        if isinstance(e, ast.BinOp):
            return self.binop(e, env, ctx)
        if isinstance(e, ast.UnaryOp):
            if isinstance(e.op, ast.Not):
                v = self.truth(self.ex_truth(e.operand, env, ctx))
                if v.is_const:
                    return Val('false' if v.const else 'true', BOOL, const=not v.const)
                return Val(f'(!{v.term})', BOOL)
            v = self.ex(e.operand, env, ctx)
            if v.ty != INT:
                raise Untranslatable(f'unary operator on a {v.ty}')
            if isinstance(e.op, ast.USub):
                return Val(int_lit(-v.const), INT, const=-v.const) if v.is_const else Val(f'(-{v.term})', INT)
            if isinstance(e.op, ast.UAdd):
                return v
            if isinstance(e.op, ast.Invert):
                return Val(f'(-{v.term} - 1)', INT)
        if isinstance(e, ast.BoolOp):
            return self.boolop(isinstance(e.op, ast.And), e.values, env, ctx, False)
        if isinstance(e, ast.Compare):
            return self.compare(e, env, ctx)
        if isinstance(e, ast.IfExp):
            return self.ifexp(e, env, ctx)
        if isinstance(e, ast.Subscript):
            return self.subscript(e, env, ctx)
        if isinstance(e, ast.Call):
            return self.call(e, env, ctx)
        raise Untranslatable(f'expression {src[:60]}')

    def function_value(self, nm, env, ctx):
        """the name of a function used as a VALUE (round 3): `operator.lt` / `operator.gt`, a translated module-level function, a
        translated nested function of this function (its closure variables are read here: the caller must not update them
        afterwards — they are locals that stay as they are in the only use, `find_and_apply_best_mask`)"""
        import operator
        ent = self.registry.get(nm)
        nested_here = ent is not None and ent.get('nested_in') == (self.spec['module'], tuple(self.spec['path']))
        if nm in self.local_names and not nested_here:
            return None
        obj = vars(self.module).get(nm)
        if not nested_here:
            if obj is operator.lt:
                return Val('(fun (a b : Int) => decide (a < b))', FN([INT, INT], BOOL))
            if obj is operator.gt:
                return Val('(fun (a b : Int) => decide (a > b))', FN([INT, INT], BOOL))
            if ent is None or ent.get('nested_in') is not None or not self.resolves_to(nm, obj):
                return None
        if ent.get('mutates') or ent.get('opaque') or ent.get('method'):
            raise Untranslatable(f'{nm} (updates its arguments / has opaque reads / is a method) used as a value')
        if any(isinstance(ty, CONST) or (isinstance(ty, tuple) and ty[0] == 'obj') for _, ty in ent['params']):
            raise Untranslatable(f'{nm} (translated for fixed / object parameters) used as a value')
        pre = []
        for p, ty in ent.get('closure', []):
            v = self.lookup(p, env, ctx)
            if v is None or v.view is not None or v.bound is not None or v.fields is not None:
                raise Untranslatable(f'closure variable {p} of {nm} is not available where {nm} is used as a value')
            pre.append(self.coerce(v, ty).term)
        term = '(' + ' '.join([ent['lean']] + pre) + ')' if pre else ent['lean']
        return Val(term, FN([ty for _, ty in ent['params']], ent['ret'], raises=ent['monadic']))

    def ex_truth(self, e, env, ctx):
        """expression in a truth context (operands of and / or need not be booleans)"""
        if isinstance(e, ast.BoolOp) and ast.unparse(e) not in self.opaque:
            return self.boolop(isinstance(e.op, ast.And), e.values, env, ctx, True)
        return self.truth(self.ex(e, env, ctx))

    def binop(self, e, env, ctx):
        a = self.ex(e.left, env, ctx)
        b = self.ex(e.right, env, ctx)
        op = type(e.op)
        if FLOAT in (a.ty, b.ty) or (op is ast.Div and a.ty == INT and b.ty == INT):
            return self.float_op(op, a, b, ctx)
        if op is ast.Mult and (is_seq(a.ty) or (isinstance(a.ty, tuple) and a.ty[0] == 'tuple')) and b.ty == INT:
            xs = self.to_list(a)
            if xs.elts is not None and len(xs.elts) == 1:
                return Val(f'(List.replicate ({b.term}).toNat {xs.elts[0].term})', xs.ty, byte=xs.byte)
            return Val(f'(Py.repeat {xs.term} {b.term})', xs.ty, byte=xs.byte)
        if op is ast.Add and is_seq(a.ty) and is_seq(b.ty) and lean_ty(a.ty) == lean_ty(b.ty) and (a.ty == b.ty or BUFFER not in (a.ty, b.ty)):
            return Val(f'({a.term} ++ {b.term})', a.ty if a.ty == b.ty else LIST(INT), byte=a.byte and b.byte)
        if BOOL in (a.ty, b.ty) and {a.ty, b.ty} <= {BOOL, INT} and op in (ast.BitXor, ast.BitAnd, ast.BitOr) and a.ty == b.ty:
            sym = {ast.BitXor: '!=', ast.BitAnd: '&&', ast.BitOr: '||'}[op]
            return Val(f'({a.term} {sym} {b.term})', BOOL)
        if {a.ty, b.ty} == {BOOL, INT} and op in (ast.BitXor, ast.BitAnd, ast.BitOr) and not self.spec.get('legacy') \
                and self.spec.get('part', 1) >= 3:
            # int op bool: the bool counts as 0 / 1, the result is an int
            if a.ty == BOOL:
                a = Val(f'(if {a.term} then (1 : Int) else (0 : Int))', INT, byte=True)
            else:
                b = Val(f'(if {b.term} then (1 : Int) else (0 : Int))', INT, byte=True)
        if a.ty != INT or b.ty != INT:
            raise Untranslatable(f'{type(e.op).__name__} on {a.ty} and {b.ty}')
        if op in (ast.Add, ast.Sub, ast.Mult):
            return Val(f'({a.term} {"+" if op is ast.Add else "-" if op is ast.Sub else "*"} {b.term})', INT)
        if op in (ast.FloorDiv, ast.Mod):
            div = op is ast.FloorDiv
            if b.is_const and b.const > 0:      # floor = Euclidean division for a positive divisor
                return Val(f'({a.term} {"/" if div else "%"} {b.term})', INT, byte=(not div) and b.const <= 256)
            if b.is_const and b.const < 0:
                return Val(f'(Int.{"fdiv" if div else "fmod"} {a.term} {b.term})', INT)
            return self.bind(ctx, f'(Py.{"floordiv" if div else "mod"} {a.term} {b.term})', INT)
        if op in (ast.LShift, ast.RShift):
            left = op is ast.LShift
            if b.is_const and 0 <= b.const <= 64:
                return Val(f'({a.term} {"*" if left else "/"} {int_lit(2 ** b.const)})', INT)
            if b.nonneg and not self.spec.get('legacy'):
                # the count is known to be ≥ 0 (a loop variable of `range`): the shift cannot raise
                return Val(f'({a.term} * 2 ^ ({b.term}).toNat)' if left else f'(Int.fdiv {a.term} (2 ^ ({b.term}).toNat))', INT)
            return self.bind(ctx, f'(Py.{"shl" if left else "shr"} {a.term} {b.term})', INT)
        if op in (ast.BitAnd, ast.BitOr, ast.BitXor):
            byte = (a.byte and b.byte) or (op is ast.BitAnd and ((a.is_const and 0 <= a.const < 256) or (b.is_const and 0 <= b.const < 256)))
            return Val(f'(Py.{"band" if op is ast.BitAnd else "bor" if op is ast.BitOr else "bxor"} {a.term} {b.term})', INT, byte=byte)
        if op is ast.Pow and b.is_const and 0 <= b.const <= 64:
            return Val(f'({a.term} ^ {b.const})', INT)
        raise Untranslatable(f'operator {op.__name__}')

    def as_float(self, v):
        if v.ty == FLOAT:
            return v
        if v.ty == INT:
            return Val(f'(Py.Q.ofInt {v.term})', FLOAT)
        raise Untranslatable(f'a {v.ty} in float arithmetic')

    def float_op(self, op, a, b, ctx):
        """the float sub-language, modelled in exact rational arithmetic (ASSUMPTION, see docs/TRANSLATOR.md)"""
        a, b = self.as_float(a), self.as_float(b)
        if op in (ast.Add, ast.Sub, ast.Mult):
            return Val(f'(Py.Q.{"add" if op is ast.Add else "sub" if op is ast.Sub else "mul"} {a.term} {b.term})', FLOAT)
        if op is ast.Div:
            return self.bind(ctx, f'(Py.Q.div {a.term} {b.term})', FLOAT)
        raise Untranslatable(f'float operator {op.__name__}')

    def boolop(self, is_and, values, env, ctx, truthy):
        first, rest = values[0], values[1:]
        if not rest:
            return self.ex_truth(first, env, ctx) if truthy else self.ex(first, env, ctx)
        absorbing = 'false' if is_and else 'true'
        nt = self.none_test(first, env)
        if nt is not None and isinstance(env[nt[0]].ty, tuple) and env[nt[0]].ty[0] == 'opt':
            name, isnone = nt
            env_none, env_some, x = self.narrow(env, name)
            # `X is not None and C` / `X is None or C`: C is evaluated only when X is not None
            # `X is None and C` / `X is not None or C`: C is evaluated only when X is None
            c_when_some = (is_and and not isnone) or (not is_and and isnone)
            sub = Ctx(ctx, True)
            r = self.boolop(is_and, rest, env_some if c_when_some else env_none, sub, True)
            a_none, a_some = (absorbing, None) if c_when_some else (None, absorbing)
            if sub.binds:
                inner = seal(sub.binds, ok(r.term))
                m = (f'(match {env[name].term} with\n  | none => {ok(a_none) if a_none else inner}\n'
                     f'  | some {x} => {ok(a_some) if a_some else inner})')
                return self.bind(ctx, m, BOOL)
            return Val(f'(match {env[name].term} with | none => {a_none or r.term} | some {x} => {a_some or r.term})', BOOL)
        if truthy and isinstance(first, ast.Name) and ast.unparse(first) not in self.opaque:
            fv = self.lookup(first.id, env, ctx)
            if fv is not None and fv.view is None and isinstance(fv.ty, tuple) and fv.ty[0] == 'opt':
                # truthiness of an Optional local narrows it: `x and C` / `x or C`
                env_none, env_some, x = self.narrow(env, first.id)
                tx = self.truth(env_some[first.id])
                sub_s, sub_n = Ctx(ctx, True), Ctx(ctx, True)
                rs = self.boolop(is_and, rest, env_some, sub_s, True)
                self.no_updates(sub_s)
                if is_and:
                    some_t, none_t, binds_n = f'({tx.term} && {rs.term})', 'false', []
                    if sub_s.binds:
                        some_t = f'(if {tx.term} then {seal(sub_s.binds, ok(rs.term))} else {ok("false")})'
                else:
                    rn = self.boolop(is_and, rest, env_none, sub_n, True)
                    self.no_updates(sub_n)
                    some_t, none_t, binds_n = f'({tx.term} || {rs.term})', rn.term, sub_n.binds
                    if sub_s.binds:
                        some_t = f'(if {tx.term} then {ok("true")} else {seal(sub_s.binds, ok(rs.term))})'
                if sub_s.binds or binds_n:
                    if not sub_s.binds:
                        some_t = ok(some_t)
                    none_m = seal(binds_n, ok(none_t)) if binds_n else ok(none_t)
                    return self.bind(ctx, f'(match {fv.term} with\n  | none => {none_m}\n  | some {x} => {some_t})', BOOL)
                return Val(f'(match {fv.term} with | none => {none_t} | some {x} => {some_t})', BOOL)
        a = self.ex_truth(first, env, ctx) if truthy else self.ex(first, env, ctx)
        if not truthy and not is_and and a.ty == OPT(BOOL):
            a = self.truth(a)       # `x or C` with x: Optional[bool]: a true x is True
        if a.ty != BOOL:
            raise Untranslatable('and / or on non-boolean operands outside a truth context')
        if a.is_const:
            if bool(a.const) != is_and:       # False and … / True or …: the rest is not evaluated
                return Val(absorbing, BOOL, const=not is_and)
            return self.boolop(is_and, rest, env, ctx, truthy)
        sub = Ctx(ctx, True)
        b = self.boolop(is_and, rest, env, sub, truthy)
        if b.ty != BOOL:
            raise Untranslatable('and / or on non-boolean operands outside a truth context')
        if sub.binds:
            inner = seal(sub.binds, ok(b.term))
            m = f'(if {a.term} then {inner} else {ok("false")})' if is_and else f'(if {a.term} then {ok("true")} else {inner})'
            return self.bind(ctx, m, BOOL)
        return Val(f'({a.term} {"&&" if is_and else "||"} {b.term})', BOOL)

    def compare_one(self, op, a, b):
        """one comparison of two evaluated values"""
        if isinstance(op, (ast.Is, ast.IsNot)):
            if not (b.is_const and b.const is None):
                raise Untranslatable('`is` with something else than None')
            if a.ty == NONE:
                r = Val('true', BOOL, const=True)
            elif isinstance(a.ty, tuple) and a.ty[0] == 'opt':
                r = Val(f'({a.term}).isNone', BOOL)
            else:
                r = Val('false', BOOL, const=False)
            return r if isinstance(op, ast.Is) else self.negate(r)
        if isinstance(op, (ast.Eq, ast.NotEq)):
            r = self.equal(a, b)
            return r if isinstance(op, ast.Eq) else self.negate(r)
        sym = {ast.Lt: '<', ast.LtE: '≤', ast.Gt: '>', ast.GtE: '≥'}.get(type(op))
        if sym is None:
            raise Untranslatable(f'comparison {type(op).__name__}')
        if a.ty != INT or b.ty != INT:
            raise Untranslatable(f'order comparison of {a.ty} and {b.ty}')
        if a.is_const and b.is_const:
            r = {'<': a.const < b.const, '≤': a.const <= b.const, '>': a.const > b.const, '≥': a.const >= b.const}[sym]
            return Val('true' if r else 'false', BOOL, const=r)
        return Val(f'(decide ({a.term} {sym} {b.term}))', BOOL)

    def negate(self, v):
        if v.is_const:
            return Val('false' if v.const else 'true', BOOL, const=not v.const)
        return Val(f'(!{v.term})', BOOL)

    def equal(self, a, b):
        scalar = (INT, BOOL, STR)
        if a.ty == b.ty and a.ty in scalar:
            if a.is_const and b.is_const:
                return Val('true' if a.const == b.const else 'false', BOOL, const=(a.const == b.const))
            return Val(f'({a.term} == {b.term})', BOOL)
        if a.ty == NONE and b.ty == NONE:
            return Val('true', BOOL, const=True)
        for x, y in ((a, b), (b, a)):
            if isinstance(x.ty, tuple) and x.ty[0] == 'opt':
                if y.ty == x.ty:
                    return Val(f'({a.term} == {b.term})', BOOL)
                if y.ty == x.ty[1]:
                    return Val(f'({x.term} == some {y.term})', BOOL)
                if y.ty == NONE:
                    return Val(f'({x.term}).isNone', BOOL)
        if NONE in (a.ty, b.ty) and (a.ty in scalar or b.ty in scalar):
            return Val('false', BOOL, const=False)       # an int / str / bool is never equal to None
        if {a.ty, b.ty} == {INT, STR}:
            return Val('false', BOOL, const=False)
        if isinstance(a.ty, tuple) and isinstance(b.ty, tuple) and a.ty[0] == b.ty[0] == 'tuple' and len(a.ty) == len(b.ty) \
                and all(t in (INT, BOOL, STR) for t in a.ty[1:] + b.ty[1:]):
            if a.ty != b.ty:
                return Val('false', BOOL, const=False)
            return Val(f'({a.term} == {b.term})', BOOL)
        if a.ty == BYTEARRAY and b.ty == BYTEARRAY:
            # (bytes and bytearray compare by content; lists and tuples are both `List` here, but `(1, 2) == [1, 2]` is
            #  False in Python, and a Buffer has no `__eq__`: those comparisons stay outside the subset)
            return Val(f'({a.term} == {b.term})', BOOL)
        raise Untranslatable(f'== between {a.ty} and {b.ty}')

    def member(self, a, rhs, env, ctx):
        """`a in rhs`"""
        if isinstance(rhs, (ast.Tuple, ast.List)) and ast.unparse(rhs) not in self.opaque:
            parts = [self.equal(a, self.ex(x, env, ctx)) for x in rhs.elts]
            parts = [p for p in parts if not (p.is_const and not p.const)]
            if any(p.is_const and p.const for p in parts):
                return Val('true', BOOL, const=True)
            if not parts:
                return Val('false', BOOL, const=False)
            return Val('(' + ' || '.join(p.term for p in parts) + ')', BOOL)
        c = self.ex(rhs, env, ctx)
        if isinstance(c.ty, tuple) and c.ty[0] == 'tuple':
            c = self.to_list(c, deep=False)
        if is_seq(c.ty):
            y = self.fresh('y')
            eq = self.equal(a, Val(y, elem_ty(c.ty)))
            return Val(f'(({c.term}).any (fun {y} => {eq.term}))', BOOL)
        if isinstance(c.ty, tuple) and c.ty[0] == 'dict':
            return Val(f'(Py.hasKey {c.term} {self.coerce(a, c.ty[1]).term})', BOOL)
        raise Untranslatable(f'`in` on a {c.ty}')

    def compare(self, e, env, ctx):
        saved = (len(ctx.binds), dict(self.counter), dict(ctx.updates))
        try:
            return self.compare_eager(e, env, ctx)
        except _LaterOperandRaises:
            del ctx.binds[saved[0]:]
            self.counter = saved[1]
            ctx.updates.clear()
            ctx.updates.update(saved[2])
        left = self.ex(e.left, env, ctx)
        return self.compare_lazy(left, list(zip(e.ops, e.comparators)), env, ctx)

    def compare_lazy(self, left, links, env, ctx):
        """a chained comparison whose later operands can raise: they are evaluated only when Python evaluates them"""
        op, right = links[0]
        if isinstance(op, (ast.In, ast.NotIn)):
            if len(links) > 1:
                raise Untranslatable('chained comparison after `in`')
            r = self.member(left, right, env, ctx)
            return self.negate(r) if isinstance(op, ast.NotIn) else r
        rv = self.ex(right, env, ctx)
        r = self.compare_one(op, left, rv)
        if len(links) == 1:
            return r
        sub = Ctx(ctx, True)
        rest = self.compare_lazy(rv, links[1:], env, sub)
        if r.is_const:
            if not r.const:
                return Val('false', BOOL, const=False)
            ctx.binds.extend(sub.binds)
            return rest
        if sub.binds:
            return self.bind(ctx, f'(if {r.term} then {seal(sub.binds, ok(rest.term))} else {ok("false")})', BOOL)
        if rest.is_const:
            return r if rest.const else Val('false', BOOL, const=False)
        return Val(f'({r.term} && {rest.term})', BOOL)

    def compare_eager(self, e, env, ctx):
        left = self.ex(e.left, env, ctx)
        parts = []
        for k, (op, right) in enumerate(zip(e.ops, e.comparators)):
            sub = ctx if k == 0 else Ctx(ctx, True)
            if isinstance(op, (ast.In, ast.NotIn)):
                r = self.member(left, right, env, sub)
                if isinstance(op, ast.NotIn):
                    r = self.negate(r)
                rv = None
            else:
                rv = self.ex(right, env, sub)
                r = self.compare_one(op, left, rv)
            if sub is not ctx and sub.binds:
                raise _LaterOperandRaises()
            parts.append(r)
            left = rv
            if rv is None and k + 1 < len(e.ops):
                raise Untranslatable('chained comparison after `in`')
        if any(p.is_const and not p.const for p in parts):
            # (a constant False link makes the chain False; earlier operands are pure here)
            if not ctx.binds:
                return Val('false', BOOL, const=False)
        live = [p for p in parts if not (p.is_const and p.const)]
        if not live:
            return Val('true', BOOL, const=True)
        return live[0] if len(live) == 1 else Val('(' + ' && '.join(p.term for p in live) + ')', BOOL)

    def branch_pair(self, ctx, test_term, ta, tb, suba, subb):
        """conditional expression whose branches (terms ta / tb with hoisted computations suba / subb) may raise"""
        ty = join_types(ta.ty, tb.ty)
        if ty is None:
            raise Untranslatable(f'branches of types {ta.ty} and {tb.ty}')
        ta, tb = self.coerce(ta, ty), self.coerce(tb, ty)
        return ty, ta, tb

    def ifexp(self, e, env, ctx):
        nt = self.none_test(e.test, env)
        if nt is not None and isinstance(env[nt[0]].ty, tuple) and env[nt[0]].ty[0] == 'opt':
            name, isnone = nt
            env_none, env_some, x = self.narrow(env, name)
            sn, ss = Ctx(ctx, True), Ctx(ctx, True)
            vn = self.ex(e.body if isnone else e.orelse, env_none, sn)
            vs = self.ex(e.orelse if isnone else e.body, env_some, ss)
            ty, vn, vs = self.branch_pair(ctx, None, vn, vs, sn, ss)
            if sn.binds or ss.binds:
                m = (f'(match {env[name].term} with\n  | none => {seal(sn.binds, ok(vn.term))}\n'
                     f'  | some {x} => {seal(ss.binds, ok(vs.term))})')
                return self.bind(ctx, m, ty)
            return Val(f'(match {env[name].term} with | none => {vn.term} | some {x} => {vs.term})', ty)
        c = self.ex_truth(e.test, env, ctx)
        if c.is_const:
            return self.ex(e.body if c.const else e.orelse, env, ctx)
        sa, sb = Ctx(ctx, True), Ctx(ctx, True)
        va = self.ex(e.body, env, sa)
        vb = self.ex(e.orelse, env, sb)
        ty, va, vb = self.branch_pair(ctx, c.term, va, vb, sa, sb)
        if sa.binds or sb.binds:
            return self.bind(ctx, f'(if {c.term} then {seal(sa.binds, ok(va.term))} else {seal(sb.binds, ok(vb.term))})', ty)
        return Val(f'(if {c.term} then {va.term} else {vb.term})', ty)

    def materialise(self, v, env, ctx):
        """the current value of a view `base[idx]`"""
        base, idx = v.view
        b = self.lookup(base, env, ctx)
        if b is None or not (isinstance(b.ty, tuple) and b.ty[0] == 'list'):
            raise Untranslatable(f'view of {base}, which is not available here')
        return self.bind(ctx, f'(Py.index {b.term} {idx})', b.ty[1])

    def opt_int(self, node, env, ctx):
        if node is None:
            return 'none'
        v = self.ex(node, env, ctx)
        if v.ty != INT:
            raise Untranslatable(f'slice bound of type {v.ty}')
        return f'(some {v.term})'

    def slice_bounds(self, sl, env, ctx):
        if sl.step is not None:
            raise Untranslatable('slice with a step')
        return self.opt_int(sl.lower, env, ctx), self.opt_int(sl.upper, env, ctx)

    def subscript(self, e, env, ctx):
        if isinstance(e.slice, ast.Slice):
            c = self.ex(e.value, env, ctx)
            if isinstance(c.ty, tuple) and c.ty[0] == 'tuple':
                c = self.to_list(c)
            if not is_seq(c.ty):
                raise Untranslatable(f'slice of a {c.ty}')
            lo, hi = self.slice_bounds(e.slice, env, ctx)
            return Val(f'(Py.slice {c.term} {lo} {hi})', BYTEARRAY if c.ty == BUFFER else c.ty, byte=c.byte)
        if isinstance(e.value, (ast.Tuple, ast.List)) and ast.unparse(e.value) not in self.opaque:
            vs = [self.ex(x, env, ctx) for x in e.value.elts]
            if not vs:
                raise Untranslatable('index into an empty tuple')
            ty = vs[0].ty
            for v in vs[1:]:
                ty = join_types(ty, v.ty)
                if ty is None:
                    raise Untranslatable('heterogeneous tuple literal')
            idx = self.ex(e.slice, env, ctx)
            if idx.ty != INT:
                raise Untranslatable(f'index of type {idx.ty}')
            items = '[' + ', '.join(self.coerce(v, ty).term for v in vs) + ']'
            return self.bind(ctx, f'(Py.index {items} {idx.term})', ty)
        c = self.ex(e.value, env, ctx)
        k = self.ex(e.slice, env, ctx)
        if getattr(c, 'partial', False):
            if k.ty not in (INT, NONE, OPT(INT)):
                raise Untranslatable(f'{ast.unparse(e.value)} (dumped without its str keys) subscripted with a {k.ty}')
            c = Val(c.term, c.ty, const=c.const, byte=c.byte)     # (a plain table from here on)
        if isinstance(c.ty, tuple) and c.ty[0] == 'tuple' and not (k.is_const and isinstance(k.const, int)):
            c = self.to_list(c)
        if is_seq(c.ty):
            if k.ty != INT:
                raise Untranslatable(f'index of type {k.ty}')
            return self.bind(ctx, f'(Py.index {c.term} {k.term})', elem_ty(c.ty), byte=c.byte)
        if isinstance(c.ty, tuple) and c.ty[0] == 'dict':
            if k.ty == NONE and c.ty[1] in (INT, STR):
                return self.bind(ctx, err('keyError'), c.ty[2])
            if {k.ty, c.ty[1]} == {INT, STR}:
                return self.bind(ctx, err('keyError'), c.ty[2])
            return self.bind(ctx, f'(Py.lookup {c.term} {self.coerce(k, c.ty[1]).term})', c.ty[2])
        if isinstance(c.ty, tuple) and c.ty[0] == 'tuple' and k.is_const and isinstance(k.const, int):
            n = len(c.ty) - 1
            if not -n <= k.const < n:
                return self.bind(ctx, err('indexError'), INT)
            i = k.const % n
            return Val(proj(c.term, i, n), c.ty[1 + i])
        raise Untranslatable(f'subscript of a {c.ty}')

    # ------------------------------------------------------------ calls
    BUILTINS = ('int', 'len', 'min', 'max', 'abs', 'divmod', 'isinstance', 'bool', 'sum', 'range', 'reversed', 'enumerate', 'zip',
                'any', 'all', 'bytearray', 'bytes', 'list', 'tuple', 'iter', 'next', 'float')

    def call(self, e, env, ctx):
        f = e.func
        if isinstance(f, ast.Name):
            local = self.lookup(f.id, env, ctx)
            if local is not None:
                if local.bound is not None:
                    return self.seq_method(local.bound[0], local.bound[1], e, env, ctx)
                if isinstance(local.ty, tuple) and local.ty[0] == 'fn' and local.term is not None:
                    # a declared callable parameter: arguments left to right, then the call
                    if e.keywords or len(e.args) != len(local.ty[1]) or any(isinstance(a, ast.Starred) for a in e.args):
                        raise Untranslatable(f'call of the callable {f.id} with other than its {len(local.ty[1])} positional arguments')
                    args = [self.coerce(self.ex(a, env, ctx), t).term for a, t in zip(e.args, local.ty[1])]
                    term = '(' + ' '.join([local.term] + args) + ')'
                    return self.bind(ctx, term, local.ty[2]) if local.ty[3] else Val(term, local.ty[2])
                raise Untranslatable(f'call of the local {f.id}')
        if isinstance(f, ast.Name) and f.id not in env:
            nm = f.id
            if nm in self.registry and self.registry[nm].get('nested_in') is not None:
                if self.registry[nm]['nested_in'] != (self.spec['module'], tuple(self.spec['path'])):
                    raise Untranslatable(f'{nm} is a nested function of another function')
                return self.call_translated(self.registry[nm], e, env, ctx)
            if nm in self.local_names:
                raise Untranslatable(f'call of the local {nm}')
            if nm in self.registry and self.resolves_to(nm, vars(self.module).get(nm, self.registry[nm].get('pyobj'))):
                return self.call_translated(self.registry[nm], e, env, ctx)
            if nm in self.BUILTINS and nm not in vars(self.module):
                return self.builtin(nm, e, env, ctx)
            if nm == 'Buffer' and isinstance(vars(self.module).get(nm), type) and hasattr(vars(self.module)[nm], 'append_bits') \
                    and not e.keywords and len(e.args) <= 1:
                if not e.args:
                    return Val('([] : List Int)', BUFFER)
                xs = self.seq_arg(e.args[0], env, ctx)
                if elem_ty(xs.ty) != INT:
                    raise Untranslatable(f'Buffer of a {xs.ty}')
                self.check_bytes(BUFFER, xs, ctx)
                return Val(xs.term, BUFFER)
            if nm == '_Segment' and isinstance(vars(self.module).get(nm), type) and issubclass(vars(self.module)[nm], tuple) \
                    and not e.keywords and len(e.args) == 4 and self.spec.get('part', 1) >= 3:
                # the tuple subclass `_Segment(bits, char_count, mode, encoding)`: its four components
                vs = [self.ex(a, env, ctx) for a in e.args]
                flds = tuple_class_fields(vars(self.module)[nm], len(vs))
                ty = TUPLE(*[v.ty for v in vs])
                if flds is not None and len(flds) == len(vs):          # round 6: the components keep their names (`segment.bits`)
                    ty = NT(**dict(zip(flds, ty[1:])))
                return Val('(' + ', '.join(v.term for v in vs) + ')', ty, elts=vs)
            cls = vars(self.module).get(nm)
            if self.spec.get('part', 1) >= 5 and isinstance(cls, type) and issubclass(cls, tuple) and hasattr(cls, '_fields') \
                    and not e.keywords and len(e.args) == len(cls._fields) and all(isinstance(a, ast.Name) or True for a in e.args):
                # a collections.namedtuple of the module (`Code(matrix, version, error, mask, segments)`): the tuple of its
                # components; a component that is an OBJECT parameter handed through unchanged is left out (it is the caller's object)
                vs = []
                for a in e.args:
                    o = self.lookup(a.id, env, ctx) if isinstance(a, ast.Name) else None
                    if o is not None and o.fields is not None:
                        if a.id not in self.spec['params']:
                            raise Untranslatable(f'{nm}(…): the object {a.id} is not a parameter')
                        continue
                    vs.append(self.ex(a, env, ctx))
                return Val('(' + ', '.join(v.term for v in vs) + ')', TUPLE(*[v.ty for v in vs]), elts=vs)
            import functools
            import operator
            if nm == 'product' and vars(self.module).get(nm) is itertools.product:
                if len(e.args) == 1 and len(e.keywords) == 1 and e.keywords[0].arg == 'repeat' \
                        and isinstance(e.keywords[0].value, ast.Constant) and e.keywords[0].value.value == 2:
                    xs = self.to_list(self.ex(e.args[0], env, ctx))
                    return Val(f'(Py.product2 {xs.term})', LIST(TUPLE(elem_ty(xs.ty), elem_ty(xs.ty))), byte=xs.byte)
                raise Untranslatable('itertools.product in another form than product(xs, repeat=2)')
            if nm == 'reduce' and vars(self.module).get(nm) is functools.reduce and len(e.args) == 2 and not e.keywords \
                    and isinstance(e.args[0], ast.Name) and vars(self.module).get(e.args[0].id) is operator.xor \
                    and e.args[0].id not in self.local_names:
                xs = self.to_list(self.ex(e.args[1], env, ctx))
                if elem_ty(xs.ty) != INT:
                    raise Untranslatable('reduce(xor, …) over non-integers')
                return self.bind(ctx, f'(Py.reduceXor {xs.term})', INT, byte=xs.byte)
            raise Untranslatable(f'call of {nm}')
        if isinstance(f, ast.Attribute):
            if isinstance(f.value, ast.Name) and f.value.id in self.module_aliases and f.value.id not in env:
                mod = self.module_aliases[f.value.id]
                if f.attr in self.registry and self.resolves_to(f.attr, getattr(mod, f.attr, None)):
                    return self.call_translated(self.registry[f.attr], e, env, ctx)
                raise Untranslatable(f'call of {ast.unparse(f)}')
            if isinstance(f.value, ast.Name) and ast.unparse(f.value) not in self.opaque:
                o = self.lookup(f.value.id, env, ctx)
                if o is not None and o.fields is not None:
                    ent = self.registry.get(f.attr)
                    if ent is None or not ent.get('method') or ent.get('class') != o.ty[2]:
                        raise Untranslatable(f'method {f.attr} of the object {f.value.id} is not translated')
                    return self.call_translated(ent, e, env, ctx, fields=o.fields)
                if o is not None and (o.view is not None or is_seq(o.ty) or (isinstance(o.ty, tuple) and o.ty[0] == 'iter')):
                    return self.seq_method(f.value.id, f.attr, e, env, ctx)
            if isinstance(f.value, ast.Subscript) and isinstance(f.value.value, ast.Name) and not isinstance(f.value.slice, ast.Slice) \
                    and f.attr in self.MUTATORS and ast.unparse(f.value) not in self.opaque:
                b = self.lookup(f.value.value.id, env, ctx)
                if b is not None and b.view is None and isinstance(b.ty, tuple) and b.ty[0] == 'list' and is_seq(b.ty[1]):
                    # `rows[i].pop()` …: the method is applied to a view of row i
                    i = self.ex(f.value.slice, env, ctx)
                    if i.ty != INT:
                        raise Untranslatable(f'index of type {i.ty}')
                    if not (i.is_const or i.term.replace("'", '').replace('_', '').isalnum()):
                        i = self.let_bind(ctx, i.term, INT, base='i')
                    tmp = '_row_of_' + f.value.value.id
                    return self.seq_method(tmp, f.attr, e, {**env, tmp: Val(None, b.ty[1], view=(f.value.value.id, i.term))}, ctx)
            if isinstance(f.value, ast.Dict):
                return self.dict_display_get(f, e, env, ctx)          # round 6: `{k₁: v₁, …}.get(e, d)`
            recv = self.ex(f.value, env, ctx)
            if e.keywords:
                raise Untranslatable(f'keyword arguments of method {f.attr}')
            if isinstance(recv.ty, tuple) and recv.ty[0] == 'dict' and recv.is_const:
                qual = ast.unparse(f.value)
                if f.attr == 'values' and not e.args:
                    return self.tables.table(qual + '.values()', list(recv.const.values()))
                if f.attr == 'keys' and not e.args:
                    return self.tables.table(qual + '.keys()', list(recv.const.keys()))
                if f.attr == 'get' and len(e.args) == 2:
                    k = self.ex(e.args[0], env, ctx)
                    d = self.ex(e.args[1], env, ctx)
                    return Val(f'(Py.getD {recv.term} {self.coerce(k, recv.ty[1]).term} {self.coerce(d, recv.ty[2]).term})', recv.ty[2])
            if recv.ty in (INT, BOOL, NONE) and f.attr in ('upper', 'lower', 'strip', 'encode', 'decode', 'startswith', 'endswith',
                                                          'replace', 'split', 'join', 'format', 'isdigit', 'find', 'items', 'keys',
                                                          'values', 'get', 'append', 'extend'):
                # the attribute look-up fails before any argument is evaluated
                return self.bind(ctx, err('attributeError'), STR)
            if is_seq(recv.ty) or (isinstance(recv.ty, tuple) and recv.ty[0] == 'tuple'):
                return self.seq_read_method(self.to_list(recv), f.attr, e, env, ctx)
            raise Untranslatable(f'method {f.attr} of a {recv.ty}')
        raise Untranslatable(f'call {ast.unparse(e)[:50]}')

    def resolves_to(self, name, obj):
        ent = self.registry[name]
        return ent.get('pyobj') is None or obj is ent['pyobj'] or getattr(obj, '__wrapped__', None) is ent['pyobj']

    def call_translated(self, ent, e, env, ctx, fields=None):
        names = [p for p, _ in ent['params']]
        given = {}
        if len(e.args) > len(names):
            raise Untranslatable(f'too many arguments for {ent["name"]}')
        for p, a in zip(names, e.args):
            if isinstance(a, ast.Starred):
                raise Untranslatable('*args')
            given[p] = a
        for kw in e.keywords:
            if kw.arg is None or kw.arg not in names or kw.arg in given:
                raise Untranslatable(f'keyword {kw.arg} of {ent["name"]}')
            given[kw.arg] = kw.value
        # Python evaluates the arguments in the order they are written
        vals = {}
        objs = {}
        for p in list(given):
            pty = dict(ent['params'])[p]
            if self.spec.get('part', 1) >= 5 and isinstance(pty, tuple) and pty[0] == 'obj' and isinstance(given[p], ast.Name):
                # an object (parameter of this function / item of a loop over one) handed on to a translated callee: its fields
                o = self.lookup(given[p].id, env, ctx)
                if o is None or o.fields is None or o.ty[2] != pty[2]:
                    raise Untranslatable(f'argument {p} of {ent["name"]}: an object of class {pty[2]} is expected')
                for fnm, fty in pty[1]:
                    if fnm not in o.fields or o.fields[fnm].ty != obj_param_type(fty):
                        raise Untranslatable(f'argument {p} of {ent["name"]}: the object {given[p].id} is declared without {fnm}: {fty}')
                objs[p] = o
                fields = {**o.fields, **(fields or {})}
                continue
            vals[p] = self.ex(given[p], env, ctx)
        args = []
        for p, ty in ent['params']:
            if p in objs:
                args += [objs[p].fields[fnm].term for fnm, _ in ty[1]]
                continue
            if p in vals:
                v = vals[p]
            elif p in ent['defaults']:
                v = self.const_val(p, ent['defaults'][p])
            else:
                raise Untranslatable(f'argument {p} of {ent["name"]} missing')
            if isinstance(ty, CONST):
                if not (v.is_const and v.const == ty.value and type(v.const) is type(ty.value)):
                    raise Untranslatable(f'{ent["name"]} is translated for {p}={ty.value!r} only')
                continue
            if isinstance(ty, tuple) and ty[0] == 'obj':
                raise Untranslatable(f'{ent["name"]} takes an object parameter and cannot be called from translated code')
            if self.spec.get('part', 1) >= 5 and isinstance(v.ty, tuple) and v.ty[0] == 'opt' and v.ty[1] == ty:
                # None where the callee is translated for a value: TypeError AT THE CALL (see docs/TRANSLATOR.md, round 5)
                v = self.bind(ctx, f'(match {v.term} with | some x => {ok("x")} | none => {err("typeError")})', ty)
            args.append(self.coerce(v, ty).term)
        # closure variables are read from the caller's scope at call time; the opaque reads of a method from the
        # fields of the object it is called on
        pre, post = [], []
        for p, ty in ent.get('closure', []):
            v = self.lookup(p, env, ctx)
            if v is None or v.view is not None or v.bound is not None or v.fields is not None:
                raise Untranslatable(f'closure variable {p} of {ent["name"]} is not available at the call')
            pre.append(self.coerce(v, ty).term)
        feeds = self.spec.get('feeds', {}).get(ent['name'], {})
        for p, ty in ent.get('opaque', []):
            if p in feeds and (fields is None or p not in fields):
                # round 5: the opaque read of the callee is an expression over the callee's parameters that this function can
                # evaluate itself (a call of a translated function): evaluated with the actual arguments, BEFORE the call
                if ent.get('opaque_src', {}).get(p) != feeds[p]:
                    raise Untranslatable(f'fed read {feeds[p]}: {ent["name"]} reads {ent.get("opaque_src", {}).get(p)} for {p}')
                sub = ast.parse(feeds[p], mode='eval').body
                for n in ast.walk(sub):
                    if isinstance(n, ast.Name) and n.id in given:
                        if not isinstance(given[n.id], ast.Name):
                            raise Untranslatable(f'fed read {feeds[p]}: the argument {n.id} is not a plain name')
                        n.id = given[n.id].id
                post.append(self.coerce(self.ex(sub, env, ctx), ty).term)
                continue
            if fields is None or p not in fields:
                raise Untranslatable(f'{ent["name"]} has the opaque parameter {p}, which is not available at the call')
            post.append(self.coerce(fields[p], ty).term)
        allargs = pre + args + post
        term = '(' + ' '.join([ent['lean']] + allargs) + ')' if allargs else ent['lean']
        res = self.bind(ctx, term, ent['ret'], byte=ent.get('ret_byte', False)) if ent['monadic'] \
            else Val(term, ent['ret'], byte=ent.get('ret_byte', False))
        if not ent.get('mutates'):
            return res
        # the callee updates some of its arguments in place: they come back in front of the result
        if not ent['monadic']:
            res = self.let_bind(ctx, term, ent['ret'], base='r')
        muts = ent['mutates']
        nres = len(muts) + (0 if ent['py_ret'] == NONE else 1)
        for k, p in enumerate(muts):
            a = given.get(p)
            if not isinstance(a, ast.Name):
                raise Untranslatable(f'{ent["name"]} updates its argument {p} in place: it must be a plain name')
            pty = dict(ent['params'])[p]
            self.update(a.id, Val(proj(res.term, k, nres), pty), env, ctx)
        if ent['py_ret'] == NONE:
            return Val('()', NONE, const=None)
        return Val(proj(res.term, nres - 1, nres), ent['py_ret'])

    # ------------------------------------------------------------ sequences: in-place updates as rebinding
    def update(self, name, newval, env, ctx):
        """the local sequence `name` (or the row a view stands for) now has the value `newval`"""
        if ctx.conditional:
            raise Untranslatable('an in-place update inside a conditionally evaluated expression')
        cur = self.lookup(name, env, ctx)
        if cur is None:
            raise Untranslatable(f'{name} is not available here')
        if cur.view is not None:
            base, idx = cur.view
            b = self.lookup(base, env, ctx)
            self.check_updatable(base)
            t = self.bind(ctx, f'(Py.setItem {b.term} {idx} {newval.term})', b.ty)
            ctx.updates[base] = t
            return
        self.check_updatable(name)
        if not newval.term.replace("'", '').replace('_', '').replace('.', '').isalnum():
            newval = self.let_bind(ctx, newval.term, newval.ty, base=name)
        keep = cur.ty != EMPTYLIST and lean_ty(cur.ty) == lean_ty(newval.ty)
        ctx.updates[name] = Val(newval.term, cur.ty if keep else newval.ty)

    def check_updatable(self, name):
        declared = list(self.spec.get('closure', {})) + list(self.spec['params'])
        if name in declared and name not in self.mutates:
            raise Untranslatable(f'the parameter {name} is updated in place but not declared in `mutates`')

    def check_bytes(self, target_ty, v, ctx):
        """storing the value / the elements of `v` into a bytearray: they must be in range(256)"""
        if target_ty in (BYTEARRAY, BUFFER) and not v.byte:
            self.bind(ctx, f'(Py.checkByte{"s" if is_seq(v.ty) else ""} {v.term})', NONE)

    def seq_arg(self, node, env, ctx):
        """an iterable argument that is consumed at once, as a list"""
        if isinstance(node, ast.GeneratorExp):
            return self.comprehension(node, env, ctx, direct=True)
        if isinstance(node, ast.Call) and isinstance(node.func, ast.Name) and node.func.id == 'islice' \
                and vars(self.module).get('islice') is itertools.islice and 'islice' not in self.local_names:
            # islice(it, n) of a local iterator: the next n items; the iterator advances
            if node.keywords or len(node.args) != 2 or not isinstance(node.args[0], ast.Name):
                raise Untranslatable('islice in another form than islice(<local iterator>, n)')
            it = self.lookup(node.args[0].id, env, ctx)
            if it is None or not (isinstance(it.ty, tuple) and it.ty[0] == 'iter'):
                raise Untranslatable('islice of something else than a local iterator')
            n = self.ex(node.args[1], env, ctx)
            if n.ty != INT:
                raise Untranslatable('islice with a non-integer count')
            t = self.bind(ctx, f'(Py.isliceN {it.term} {n.term})', TUPLE(LIST(it.ty[1]), LIST(it.ty[1])))
            self.update(node.args[0].id, Val(f'{t.term}.2', it.ty), env, ctx)
            return Val(f'{t.term}.1', LIST(it.ty[1]), byte=it.byte)
        it = self.itertools_arg(node, env, ctx)
        if it is not None:
            return it
        v = self.ex(node, env, ctx)
        if isinstance(v.ty, tuple) and v.ty[0] == 'iter':
            # the whole rest of an iterator
            if isinstance(node, ast.Name):
                self.update(node.id, Val(f'([] : {lean_ty(v.ty)})', v.ty), env, ctx)
            return Val(v.term, LIST(v.ty[1]), byte=v.byte)
        return self.to_list(v)

    def is_module_obj(self, name, obj):
        return name not in self.local_names and vars(self.module).get(name) is obj

    def itertools_arg(self, node, env, ctx):
        """the itertools / map pipelines of the source, consumed at once, as lists; None if `node` is something else:
        chain(*xss) | chain.from_iterable(xss) → flatten;  zip_longest(*xss) → the columns, `None` where a row is short;
        map(f, xs) with a translated function f of one required parameter"""
        if not isinstance(node, ast.Call) or node.keywords:
            return None
        f = node.func
        starred = len(node.args) == 1 and isinstance(node.args[0], ast.Starred)
        if isinstance(f, ast.Name) and f.id == 'chain' and self.is_module_obj('chain', itertools.chain) and starred:
            xss = self.seq_arg(node.args[0].value, env, ctx)
            if not is_seq(elem_ty(xss.ty) or INT):
                raise Untranslatable(f'chain(*…) of a {xss.ty}')
            return Val(f'(({xss.term}).flatten)', LIST(elem_ty(elem_ty(xss.ty))), byte=xss.byte)
        if isinstance(f, ast.Attribute) and f.attr == 'from_iterable' and isinstance(f.value, ast.Name) and f.value.id == 'chain' \
                and self.is_module_obj('chain', itertools.chain) and len(node.args) == 1 and not starred:
            xss = self.seq_arg(node.args[0], env, ctx)
            if not is_seq(elem_ty(xss.ty) or INT):
                raise Untranslatable(f'chain.from_iterable of a {xss.ty}')
            return Val(f'(({xss.term}).flatten)', LIST(elem_ty(elem_ty(xss.ty))), byte=xss.byte)
        if isinstance(f, ast.Name) and f.id == 'zip_longest' and self.is_module_obj('zip_longest', itertools.zip_longest) and starred:
            xss = self.seq_arg(node.args[0].value, env, ctx)
            if not is_seq(elem_ty(xss.ty) or INT):
                raise Untranslatable(f'zip_longest(*…) of a {xss.ty}')
            t = elem_ty(elem_ty(xss.ty))
            return Val(f'(Py.zipLongest {xss.term})', LIST(LIST(OPT(t))), byte=xss.byte)
        if isinstance(f, ast.Name) and f.id == 'map' and 'map' not in vars(self.module) and 'map' not in self.local_names \
                and len(node.args) == 2 and isinstance(node.args[0], ast.Name) and node.args[0].id in self.registry:
            ent = self.registry[node.args[0].id]
            if ent.get('nested_in') is not None and ent['nested_in'] != (self.spec['module'], tuple(self.spec['path'])):
                raise Untranslatable(f'{ent["name"]} is a nested function of another function')
            xs = self.seq_arg(node.args[1], env, ctx)
            x = self.fresh('x')
            sub = Ctx(ctx, True)
            call = ast.Call(func=ast.Name(id=node.args[0].id, ctx=ast.Load()), args=[ast.Name(id='_map_arg_', ctx=ast.Load())], keywords=[])
            v = self.call_translated(ent, call, {**env, '_map_arg_': Val(x, elem_ty(xs.ty), byte=xs.byte)}, sub)
            if sub.binds:
                return self.bind(ctx, f'(Py.mapM {xs.term} (fun ({x} : {lean_ty(elem_ty(xs.ty))}) =>\n'
                                      f'{ind(seal(sub.binds, ok(v.term)), 4)}))', LIST(v.ty))
            return Val(f'(({xs.term}).map (fun ({x} : {lean_ty(elem_ty(xs.ty))}) => {v.term}))', LIST(v.ty), byte=v.byte)
        return None

    def seq_method(self, name, method, e, env, ctx):
        """method call on the local sequence `name` (possibly a view), including the mutating ones"""
        if e.keywords:
            raise Untranslatable(f'keyword arguments of method {method}')
        cur = self.lookup(name, env, ctx)
        if cur is None:
            raise Untranslatable(f'{name} is not available here')
        if isinstance(cur.ty, tuple) and cur.ty[0] == 'iter':
            raise Untranslatable(f'method {method} of an iterator')
        val = self.materialise(cur, env, ctx) if cur.view is not None else cur
        ty = val.ty
        if method == 'append' and len(e.args) == 1:
            x = self.ex(e.args[0], env, ctx)
            if isinstance(e.args[0], ast.Name) and is_seq(x.ty) and e.args[0].id in self.inplace:
                raise Untranslatable(f'{e.args[0].id} is appended to a list and updated in place: the two would be aliases')
            if ty == EMPTYLIST:
                ty = LIST(x.ty)
                val = Val(f'([] : {lean_ty(ty)})', ty)
            if ty[0] == 'list' and x.ty != ty[1]:
                x = self.coerce(x, ty[1])
            elif ty in (BYTEARRAY, BUFFER) and x.ty != INT:
                raise Untranslatable(f'append of a {x.ty} to a bytearray')
            self.check_bytes(ty, x, ctx)
            self.update(name, Val(f'({val.term} ++ [{x.term}])', ty), env, ctx)
            return Val('()', NONE, const=None)
        if method == 'extend' and len(e.args) == 1:
            ys = self.seq_arg(e.args[0], env, ctx)
            if ty == EMPTYLIST:
                ty = LIST(elem_ty(ys.ty))
                val = Val(f'([] : {lean_ty(ty)})', ty)
            if elem_ty(ys.ty) != elem_ty(ty):
                raise Untranslatable(f'extend of a {ty} by a {ys.ty}')
            if ty in (BYTEARRAY, BUFFER) and not ys.byte and len(ys.term) > 40:
                ys = self.let_bind(ctx, ys.term, ys.ty, base='ys')
            self.check_bytes(ty, ys, ctx)
            self.update(name, Val(f'({val.term} ++ {ys.term})', ty), env, ctx)
            return Val('()', NONE, const=None)
        if method == 'append_bits' and ty == BUFFER and len(e.args) == 2:
            a = self.ex(e.args[0], env, ctx)
            n = self.ex(e.args[1], env, ctx)
            if a.ty != INT or n.ty != INT:
                raise Untranslatable('append_bits of non-integers')
            self.update(name, Val(f'({val.term} ++ Py.appendBits {a.term} {n.term})', ty), env, ctx)
            return Val('()', NONE, const=None)
        if method == 'pop' and len(e.args) <= 1:
            i = self.ex(e.args[0], env, ctx) if e.args else Val(int_lit(-1), INT, const=-1)
            if i.ty != INT:
                raise Untranslatable('pop with a non-integer index')
            t = self.bind(ctx, f'(Py.popAt {val.term} {i.term})', TUPLE(elem_ty(ty), ty))
            self.update(name, Val(f'{t.term}.2', ty), env, ctx)
            return Val(f'{t.term}.1', elem_ty(ty), byte=val.byte)
        return self.seq_read_method(val, method, e, env, ctx)

    def seq_read_method(self, val, method, e, env, ctx):
        ty = val.ty
        if e.keywords:
            raise Untranslatable(f'keyword arguments of method {method}')
        if method == 'index' and len(e.args) == 1:
            x = self.ex(e.args[0], env, ctx)
            y = self.fresh('y')
            eq = self.equal(Val(y, elem_ty(ty)), x)
            return self.bind(ctx, f'(Py.indexOf {val.term} (fun {y} => {eq.term}))', INT)
        if method == 'find' and ty in (BYTEARRAY, BUFFER) and 1 <= len(e.args) <= 2:
            pat = self.ex(e.args[0], env, ctx)
            if pat.ty == INT and pat.byte and self.spec.get('part', 1) >= 3:
                pat = Val(f'[{pat.term}]', BYTEARRAY, byte=True)        # bytes.find(b) for a byte b: the one-byte pattern
            pat = self.to_list(pat)
            if elem_ty(pat.ty) != INT:
                raise Untranslatable('find of a non-bytes pattern')
            start = self.ex(e.args[1], env, ctx) if len(e.args) == 2 else Val(int_lit(0), INT, const=0)
            if start.ty != INT:
                raise Untranslatable('find with a non-integer start')
            return Val(f'(Py.find {val.term} {pat.term} {start.term})', INT)
        if method == 'isdigit' and ty in (BYTEARRAY, BUFFER) and not e.args:
            return Val(f'(Py.isDigit {val.term})', BOOL)
        if method == 'toints' and ty == BUFFER and not e.args:
            # (a generator in Python: an iterator over the codewords; the bits must not change while it is alive —
            #  guaranteed here because an update of the buffer rebinds the name, not this value)
            return Val(f'(Py.toInts (({val.term}).length + 1) {val.term})', ITER(INT), byte=True)
        if method == 'getbits' and ty == BUFFER and not e.args:
            return Val(val.term, BYTEARRAY)
        raise Untranslatable(f'method {method} of a {ty}')

    def comprehension(self, e, env, ctx, direct=False, xs=None):
        """`[elt for x in xs if c]` / a generator expression that is consumed at once: a list"""
        if len(e.generators) != 1 or e.generators[0].is_async:
            raise Untranslatable('comprehension with several `for` clauses')
        g = e.generators[0]
        if xs is None:
            xs = self.seq_arg(g.iter, env, ctx)
        if isinstance(xs.ty, tuple) and xs.ty[0] == 'list' and isinstance(xs.ty[1], tuple) and xs.ty[1][0] == 'opt' \
                and isinstance(g.target, ast.Name) and isinstance(e.elt, ast.Name) and e.elt.id == g.target.id and len(g.ifs) == 1 \
                and ast.unparse(g.ifs[0]) == f'{g.target.id} is not None':
            # (x for x in xs if x is not None): the present elements
            return Val(f'(({xs.term}).filterMap id)', LIST(xs.ty[1][1]), byte=xs.byte)
        pat, env2 = self.bind_target(g.target, elem_ty(xs.ty), env, byte=xs.byte, nonneg=xs.nonneg)
        lst = xs.term
        for cond in g.ifs:
            sub = Ctx(ctx, True)
            c = self.ex_truth(cond, env2, sub)
            if sub.binds:
                raise Untranslatable('comprehension: a filter condition that can raise')
            lst = f'(({lst}).filter (fun {pat} => {c.term}))'
        sub = Ctx(ctx, True)
        v = self.ex(e.elt, env2, sub)
        if isinstance(v.ty, tuple) and v.ty[0] == 'tuple' and len(v.ty) >= 4 and tuple_elem_ty(v.ty) in (INT, BOOL):
            v = self.to_list(v, False)
        if sub.binds:
            if isinstance(e, ast.GeneratorExp) and not direct:
                raise Untranslatable('a generator expression whose elements can raise, not consumed at once')
            return self.bind(ctx, f'(Py.mapM {lst} (fun {pat} =>\n{ind(seal(sub.binds, ok(v.term)), 4)}))', LIST(v.ty), byte=v.byte)
        if isinstance(e.elt, ast.Name) and isinstance(g.target, ast.Name) and e.elt.id == g.target.id:
            return Val(lst, xs.ty if xs.ty[0] == 'list' else LIST(INT), byte=xs.byte)
        return Val(f'(({lst}).map (fun {pat} => {v.term}))', LIST(v.ty), byte=v.byte)

    def bind_target(self, target, ty, env, byte=False, nonneg=False):
        """Lean binder and environment for a loop / comprehension target of element type `ty`"""
        if isinstance(target, ast.Name):
            x = self.fresh(target.id)
            return f'({x} : {lean_ty(ty)})', {**env, target.id: Val(x, ty, byte=byte, nonneg=nonneg)}
        if isinstance(target, ast.Tuple) and all(isinstance(t, ast.Name) for t in target.elts) \
                and isinstance(ty, tuple) and ty[0] == 'tuple' and len(ty) - 1 == len(target.elts):
            p = self.fresh('p')
            n = len(target.elts)
            env2 = dict(env)
            for k, t in enumerate(target.elts):
                env2[t.id] = Val(proj(p, k, n), ty[1 + k], byte=byte)
            return f'({p} : {lean_ty(ty)})', env2
        raise Untranslatable(f'loop target {ast.unparse(target)} over elements of type {ty}')

    def range_val(self, e, env, ctx):
        if e.keywords or not 1 <= len(e.args) <= 3:
            raise Untranslatable('range shape')
        args = [self.ex(a, env, ctx) for a in e.args]
        if any(a.ty != INT for a in args):
            raise Untranslatable('range of non-integers')
        if len(args) == 1:
            return Val(f'(Py.range (0 : Int) {args[0].term})', LIST(INT), nonneg=True)
        if len(args) == 2:
            return Val(f'(Py.range {args[0].term} {args[1].term})', LIST(INT), nonneg=args[0].nonneg)
        if not (args[2].is_const and args[2].const != 0):
            raise Untranslatable('range step that is not a non-zero literal')
        if args[2].const > 0:
            return Val(f'(Py.rangeStep {args[0].term} {args[1].term} {args[2].const})', LIST(INT), nonneg=args[0].nonneg)
        return Val(f'(Py.rangeDown {args[0].term} {args[1].term} {-args[2].const})', LIST(INT))

    def builtin(self, nm, e, env, ctx):
        if e.keywords:
            raise Untranslatable(f'keyword arguments of {nm}')
        if nm == 'sum':
            return self.sum_call(e, env, ctx)
        if nm == 'range':
            return self.range_val(e, env, ctx)
        if nm == 'len' and len(e.args) == 1 and isinstance(e.args[0], ast.Name):
            o = self.lookup(e.args[0].id, env, ctx)
            if o is not None and o.fields is not None:
                if '__len__' not in o.fields:
                    raise Untranslatable(f'len({e.args[0].id}): the object is declared without __len__')
                return o.fields['__len__']
        if nm == 'isinstance':
            if len(e.args) != 2:
                raise Untranslatable('isinstance arity')
            v = self.ex(e.args[0], env, ctx)
            classes = e.args[1].elts if isinstance(e.args[1], ast.Tuple) else [e.args[1]]
            if not all(isinstance(c, ast.Name) and c.id in ('int', 'float', 'str', 'bytes', 'bool', 'tuple', 'list', 'dict', 'bytearray')
                       for c in classes):
                raise Untranslatable('isinstance class')
            if v.ty not in (INT, BOOL, STR):
                raise Untranslatable(f'isinstance of a {v.ty}')
            inst = {INT: {'int'}, BOOL: {'bool', 'int'}, STR: {'str'}}[v.ty]
            r = any(c.id in inst for c in classes)
            return Val('true' if r else 'false', BOOL, const=r)
        if nm == 'next':
            if len(e.args) != 1 or not isinstance(e.args[0], ast.Name):
                raise Untranslatable('next of something else than a local iterator')
            it = self.lookup(e.args[0].id, env, ctx)
            if it is None or not (isinstance(it.ty, tuple) and it.ty[0] == 'iter'):
                raise Untranslatable('next of something else than a local iterator')
            t = self.bind(ctx, f'(Py.next {it.term})', TUPLE(it.ty[1], LIST(it.ty[1])))
            self.update(e.args[0].id, Val(f'{t.term}.2', it.ty), env, ctx)
            return Val(f'{t.term}.1', it.ty[1], byte=it.byte)
        if nm in ('any', 'all', 'min', 'max', 'bytearray', 'bytes', 'list', 'tuple') and len(e.args) == 1 \
                and isinstance(e.args[0], (ast.GeneratorExp, ast.ListComp)):
            gen = e.args[0]
            if nm in ('any', 'all') and len(gen.generators) == 1 and not gen.generators[0].ifs:
                # short circuit: the element expression is evaluated only as far as Python evaluates it
                g = gen.generators[0]
                xs = self.seq_arg(g.iter, env, ctx)
                pat, env2 = self.bind_target(g.target, elem_ty(xs.ty), env, byte=xs.byte)
                sub = Ctx(ctx, True)
                c = self.ex_truth(gen.elt, env2, sub)
                if sub.binds:
                    return self.bind(ctx, f'(Py.{nm}M {xs.term} (fun {pat} =>\n{ind(seal(sub.binds, ok(c.term)), 4)}))', BOOL)
                return Val(f'(({xs.term}).{nm} (fun {pat} => {c.term}))', BOOL)
            args = [self.comprehension(gen, env, ctx, direct=True)]
        elif nm == 'iter' and len(e.args) == 1:
            xs = self.seq_arg(e.args[0], env, ctx)
            return Val(xs.term, ITER(elem_ty(xs.ty)), byte=xs.byte)
        elif nm in ('bytearray', 'bytes', 'list', 'tuple') and len(e.args) == 1 and not (
                isinstance(e.args[0], ast.Constant)):
            probe = self.ex(e.args[0], env, Ctx(ctx, True)) if not isinstance(e.args[0], ast.Call) else None
            if probe is not None and probe.ty in (INT, BOOL):
                args = [self.ex(e.args[0], env, ctx)]
            else:
                args = [self.seq_arg(e.args[0], env, ctx)]
        else:
            args = [self.ex(a, env, ctx) for a in e.args]
        if nm == 'int' and len(args) == 1:
            if args[0].ty == INT:
                return args[0]
            if args[0].ty == BOOL:
                return Val(f'(if {args[0].term} then (1 : Int) else (0 : Int))', INT, byte=True)
            if args[0].ty == NONE:
                return self.bind(ctx, err('typeError'), INT)
            if args[0].ty == FLOAT:
                return Val(f'(Py.Q.toInt {args[0].term})', INT)
            oc = self.spec.get('opaque_calls', {}).get('int')
            if oc is not None and args[0].ty in (BYTEARRAY, LIST(INT)):
                # `int(<bytes>)` (decimal parsing of a byte string): a declared OPAQUE CALL — the callable parameter `oc[0]`
                pname, fty = oc
                term = f'({lean_name(pname)} {args[0].term})'
                return self.bind(ctx, term, fty[2]) if fty[3] else Val(term, fty[2])
        if nm == 'float' and len(args) == 1 and args[0].ty in (INT, FLOAT):
            return self.as_float(args[0])
        if nm == 'bool' and len(args) == 1:
            return self.truth(args[0])
        if nm == 'len' and len(args) == 1 and isinstance(args[0].ty, tuple) and args[0].ty[0] in ('list', 'dict'):
            return Val(f'(Int.ofNat ({args[0].term}).length)', INT)
        if nm == 'len' and len(args) == 1 and args[0].ty in (BYTEARRAY, BUFFER):
            return Val(f'(Int.ofNat ({args[0].term}).length)', INT)
        if nm == 'len' and len(args) == 1 and isinstance(args[0].ty, tuple) and args[0].ty[0] == 'tuple':
            n = len(args[0].ty) - 1
            return Val(int_lit(n), INT, const=n, byte=n < 256)
        if nm in ('min', 'max') and len(args) >= 2 and all(a.ty == INT for a in args):
            t = f'({nm} {args[0].term} {args[1].term})'
            for a in args[2:]:
                t = f'({nm} {t} {a.term})'
            return Val(t, INT, byte=all(a.byte for a in args))
        if nm in ('min', 'max') and len(args) == 1:
            xs = self.to_list(args[0])
            if elem_ty(xs.ty) != INT:
                raise Untranslatable(f'{nm} of a {xs.ty}')
            return self.bind(ctx, f'(Py.{nm}Of {xs.term})', INT, byte=xs.byte)
        if nm in ('any', 'all') and len(args) == 1:
            xs = self.to_list(args[0])
            x = self.fresh('x')
            return Val(f'(({xs.term}).{nm} (fun {x} => {self.truth(Val(x, elem_ty(xs.ty))).term}))', BOOL)
        if nm == 'abs' and len(args) == 1 and args[0].ty == INT:
            return Val(f'(Int.ofNat (Int.natAbs {args[0].term}))', INT)
        if nm == 'abs' and len(args) == 1 and args[0].ty == FLOAT:
            return Val(f'(Py.Q.abs {args[0].term})', FLOAT)
        if nm == 'divmod' and len(args) == 2 and args[0].ty == INT and args[1].ty == INT:
            a, b = args
            if b.is_const and b.const > 0:
                return Val(f'(({a.term} / {b.term}), ({a.term} % {b.term}))', TUPLE(INT, INT))
            q = self.bind(ctx, f'(Py.floordiv {a.term} {b.term})', INT)
            r = self.bind(ctx, f'(Py.mod {a.term} {b.term})', INT)
            return Val(f'({q.term}, {r.term})', TUPLE(INT, INT))
        if nm in ('bytearray', 'bytes'):
            if not args:
                return Val('([] : List Int)', BYTEARRAY)
            if len(args) == 1 and args[0].ty == INT:
                return self.bind(ctx, f'(Py.zeros {args[0].term})', BYTEARRAY)
            if len(args) == 1:
                xs = self.to_list(args[0])
                if elem_ty(xs.ty) != INT:
                    raise Untranslatable(f'{nm} of a {xs.ty}')
                self.check_bytes(BYTEARRAY, xs, ctx)
                return Val(xs.term, BYTEARRAY)
        if nm in ('list', 'tuple') and len(args) == 1:
            xs = self.to_list(args[0])
            return Val(xs.term, LIST(elem_ty(xs.ty)), byte=xs.byte)
        if nm == 'reversed' and len(args) == 1:
            xs = self.to_list(args[0])
            return Val(f'(({xs.term}).reverse)', LIST(elem_ty(xs.ty)), byte=xs.byte, nonneg=xs.nonneg)
        if nm == 'enumerate' and len(args) == 1:
            xs = self.to_list(args[0])
            return Val(f'(Py.enumerate {xs.term})', LIST(TUPLE(INT, elem_ty(xs.ty))))
        if nm == 'zip' and len(args) == 2:
            xs, ys = self.to_list(args[0]), self.to_list(args[1])
            return Val(f'(List.zip {xs.term} {ys.term})', LIST(TUPLE(elem_ty(xs.ty), elem_ty(ys.ty))), byte=xs.byte and ys.byte)
        raise Untranslatable(f'{nm}({", ".join(str(a.ty) for a in args)})')

    def sum_call(self, e, env, ctx):
        """`sum(<expr> for x in <list of int> [if <cond>])`"""
        if len(e.args) == 1 and not isinstance(e.args[0], ast.GeneratorExp):
            xs = self.to_list(self.ex(e.args[0], env, ctx))
            if elem_ty(xs.ty) != INT:
                raise Untranslatable(f'sum of a {xs.ty}')
            return Val(f'(Py.sumL {xs.term})', INT)
        if len(e.args) != 1 or not isinstance(e.args[0], ast.GeneratorExp) or len(e.args[0].generators) != 1:
            raise Untranslatable('sum of something else than one generator expression')
        g = e.args[0].generators[0]
        if not isinstance(g.target, ast.Name) or g.is_async:
            raise Untranslatable('sum: loop target')
        xs = self.ex(g.iter, env, ctx)
        if xs.ty != LIST(INT):
            lst = self.comprehension(e.args[0], env, ctx, direct=True, xs=self.to_list(xs))
            if elem_ty(lst.ty) != INT:
                raise Untranslatable(f'sum of {lst.ty}')
            return Val(f'(Py.sumL {lst.term})', INT)
        x = self.fresh(g.target.id)
        env2 = {**env, g.target.id: Val(x, INT)}
        lst = xs.term
        for cond in g.ifs:
            sub = Ctx(ctx, True)
            c = self.ex_truth(cond, env2, sub)
            if sub.binds:
                raise Untranslatable('sum: a filter condition that can raise')
            lst = f'(({lst}).filter (fun {x} => {c.term}))'
        sub = Ctx(ctx, True)
        v = self.ex(e.args[0].elt, env2, sub)
        if v.ty != INT:
            raise Untranslatable(f'sum of {v.ty}')
        if sub.binds:
            return self.bind(ctx, f'(Py.sumM {lst} (fun {x} =>\n{ind(seal(sub.binds, ok(v.term)), 4)}))', INT)
        return Val(f'(Py.sum {lst} (fun {x} => {v.term}))', INT)

    # ------------------------------------------------------------ statements
    def result_term(self, v, env):
        """the value of the translated function for the Python result v: the parameters that are updated in place
        (their current values) in front of it"""
        if not self.mutates:
            return self.coerce(v, self.ret_ty).term
        parts = []
        for nm in self.mutates:
            m = env.get(nm)
            if m is None or m.view is not None or m.bound is not None:
                raise Untranslatable(f'the updated parameter {nm} is not available at a return')
            parts.append(m.term)
        if self.py_ret_ty != NONE:
            parts.append(self.coerce(v, self.py_ret_ty).term)
        elif v.ty != NONE:
            raise Untranslatable(f'a {v.ty} returned where None is declared')
        return tuple_term(parts)

    def ret_raw(self, t):
        """leave the function with the (complete) result term t, from the current context"""
        if self.loops:
            step = f'(Py.Step.ret {t})'
            return ok(step) if self.loops[-1]['monadic'] else step
        return ok(t) if self.monadic else t

    def ret(self, v, env):
        """the function result for the returned value v"""
        if not v.byte:
            self.ret_byte = False       # (some returned value is not known to consist of bytes)
        return self.ret_raw(self.result_term(v, env))

    def k_end(self, env):
        return self.ret(Val('()', NONE, const=None), env)     # falling off the end returns None

    def assigned(self, stmts, updates=True):
        """the locals `stmts` may rebind: assignment targets, and (with `updates`) sequences updated in place, with
        everything they may be aliases of"""
        names = set()
        for s in stmts:
            if isinstance(s, ast.Assign):
                for t in s.targets:
                    for n in ([t] if isinstance(t, ast.Name) else t.elts if isinstance(t, ast.Tuple) else []):
                        if isinstance(n, ast.Name):
                            names.add(n.id)
            elif isinstance(s, ast.AugAssign) and isinstance(s.target, ast.Name):
                names.add(s.target.id)
            elif isinstance(s, ast.If):
                names |= self.assigned(s.body, False) | self.assigned(s.orelse, False)
            elif isinstance(s, (ast.For, ast.While)):
                names |= self.assigned(s.body, False)
            elif isinstance(s, ast.Try):
                names |= self.assigned(s.body, False)
                for h in s.handlers:
                    names |= self.assigned(h.body, False)
        upd = self.direct_updates(stmts) if updates else set()
        if upd:
            closed = set(upd)
            changed = True
            while changed:          # what the updated names may be aliases of
                changed = False
                for x in list(closed):
                    for b in self.links.get(x, ()):
                        if b not in closed:
                            closed.add(b)
                            changed = True
            names |= closed
        return names

    def let(self, name, v, env, cont, pyname):
        """bind the pure value v to the local `pyname` (atoms are substituted, everything else is let-bound)"""
        atom = v.is_const or v.term.replace("'", '').replace('_', '').replace('«', '').replace('»', '').isalnum() or v.ty == EMPTYLIST
        if atom:
            return cont({**env, pyname: v})
        x = self.fresh(pyname)
        return f'(let {x} := {v.term};\n{cont({**env, pyname: v.renamed(x)})})'

    def assign_targets(self, target, v, env, cont):
        if isinstance(target, ast.Name):
            return self.let(None, v, env, cont, target.id)
        if isinstance(target, ast.Tuple) and all(isinstance(t, ast.Name) for t in target.elts) \
                and isinstance(v.ty, tuple) and v.ty[0] == 'tuple' and len(v.ty) - 1 == len(target.elts):
            n = len(target.elts)
            if v.elts is not None and len(v.elts) == n and any(c.ty == EMPTYLIST for c in v.elts):
                # a tuple display with `[]` components (whose element type is not known yet): its components are already
                # evaluated; bind them one by one (simultaneous assignment)
                def go_elts(i, env2):
                    if i == n:
                        return cont(env2)
                    return self.let(None, v.elts[i], env2, lambda e3: go_elts(i + 1, e3), target.elts[i].id)
                return go_elts(0, env)
            whole = self.fresh('tup')

            def go(i, env2):
                if i == n:
                    return cont(env2)
                return self.let(None, Val(proj(whole, i, n), v.ty[1 + i]), env2, lambda e3: go(i + 1, e3), target.elts[i].id)
            return f'(let {whole} := {v.term};\n{go(0, env)})'
        raise Untranslatable(f'assignment target {ast.unparse(target)}')

    # ------------------------------------------------------------ subscript targets (in-place updates)
    def lvalue(self, tgt, env, ctx):
        """evaluates the container / index expressions of the subscript target `tgt` (in Python's order) and returns
        (load, store): `load()` reads the element, `store(v)` records the update of the underlying local"""
        X, sl = tgt.value, tgt.slice
        if ast.unparse(tgt) in self.opaque or ast.unparse(X) in self.opaque:
            raise Untranslatable('store into an opaque expression')
        row_of = None           # (base name, index term) when the target is an element / a slice of a row of `base`
        if isinstance(X, ast.Name):
            cur = self.lookup(X.id, env, ctx)
            if cur is None:
                raise Untranslatable(f'{X.id} is not available here')
            if cur.view is not None:
                row_of = cur.view
            elif not is_seq(cur.ty):
                raise Untranslatable(f'store into a {cur.ty}')
            name = X.id
        elif isinstance(X, ast.Subscript) and isinstance(X.value, ast.Name) and not isinstance(X.slice, ast.Slice):
            b = self.lookup(X.value.id, env, ctx)
            if b is None or b.view is not None or not (isinstance(b.ty, tuple) and b.ty[0] == 'list' and is_seq(b.ty[1])):
                raise Untranslatable(f'store into {ast.unparse(X)}')
            i = self.ex(X.slice, env, ctx)
            if i.ty != INT:
                raise Untranslatable(f'index of type {i.ty}')
            if not (i.is_const or i.term.replace("'", '').replace('_', '').isalnum()):
                i = self.let_bind(ctx, i.term, INT, base='i')
            row_of = (X.value.id, i.term)
        else:
            raise Untranslatable(f'assignment target {ast.unparse(tgt)}')
        if row_of is not None:
            base = row_of[0]
            bty = self.lookup(base, env, ctx).ty
            rty = bty[1]
        else:
            rty = cur.ty

        def base_term():
            return self.lookup(base, env, ctx).term

        def row_check():
            # Python looks the row up before it evaluates anything else of the target
            self.bind(ctx, f'(Py.index {base_term()} {row_of[1]})', rty)
        n0 = len(ctx.binds)
        if isinstance(sl, ast.Slice):
            lo, hi = self.slice_bounds(sl, env, ctx)
            if row_of is not None and len(ctx.binds) > n0:
                raise Untranslatable('slice bounds that can raise in a store into a row')

            def load():
                raise Untranslatable('augmented assignment to a slice')

            def store(v):
                ys = self.to_list(v)
                if elem_ty(ys.ty) != elem_ty(rty):
                    raise Untranslatable(f'slice assignment of a {ys.ty} into a {rty}')
                if row_of is not None:
                    if rty in (BYTEARRAY, BUFFER) and not ys.byte:
                        row_check()
                        self.check_bytes(rty, ys, ctx)
                    self.check_updatable(base)
                    t = self.bind(ctx, f'(Py.setSlice2 {base_term()} {row_of[1]} {lo} {hi} {ys.term})', bty)
                    if ctx.conditional:
                        raise Untranslatable('an in-place update inside a conditionally evaluated expression')
                    ctx.updates[base] = t
                else:
                    self.check_bytes(rty, ys, ctx)
                    self.update(name, Val(f'(Py.setSlice {self.lookup(name, env, ctx).term} {lo} {hi} {ys.term})', rty), env, ctx)
            return load, store
        j = self.ex(sl, env, ctx)
        if j.ty != INT:
            raise Untranslatable(f'index of type {j.ty}')
        if row_of is not None and len(ctx.binds) > n0:
            raise Untranslatable('an index that can raise in a store into a row')
        if not (j.is_const or j.term.replace("'", '').replace('_', '').isalnum()):
            j = self.let_bind(ctx, j.term, INT, base='j')

        def load():
            if row_of is not None:
                r = self.bind(ctx, f'(Py.index {base_term()} {row_of[1]})', rty)
                return self.bind(ctx, f'(Py.index {r.term} {j.term})', elem_ty(rty), byte=r.byte)
            c = self.lookup(name, env, ctx)
            return self.bind(ctx, f'(Py.index {c.term} {j.term})', elem_ty(rty), byte=c.byte)

        def store(v):
            v = self.coerce(v, elem_ty(rty))
            if row_of is not None:
                if rty in (BYTEARRAY, BUFFER) and not v.byte:
                    row_check()
                    self.check_bytes(rty, v, ctx)
                self.check_updatable(base)
                if ctx.conditional:
                    raise Untranslatable('an in-place update inside a conditionally evaluated expression')
                ctx.updates[base] = self.bind(ctx, f'(Py.setItem2 {base_term()} {row_of[1]} {j.term} {v.term})', bty)
            else:
                self.check_bytes(rty, v, ctx)
                t = self.bind(ctx, f'(Py.setItem {self.lookup(name, env, ctx).term} {j.term} {v.term})', rty)
                self.update(name, t, env, ctx)
        return load, store

    def check_rebind(self, name, env):
        """a plain assignment to `name`: refused while views / bound methods of the old value are alive"""
        for k, v in env.items():
            if k != name and ((v.view is not None and v.view[0] == name) or (v.bound is not None and v.bound[0] == name)):
                raise Untranslatable(f'{name} is rebound while {k} still refers to its old value')

    def special_assign(self, name, value, env, ctx):
        """right-hand sides that make `name` a view of a row / a bound method / an iterator; None otherwise"""
        if ast.unparse(value) in self.opaque:
            return None
        if isinstance(value, ast.Subscript) and not isinstance(value.slice, ast.Slice) and isinstance(value.value, ast.Name):
            b = self.lookup(value.value.id, env, ctx)
            if b is not None and b.view is None and isinstance(b.ty, tuple) and b.ty[0] == 'list' and is_seq(b.ty[1]) \
                    and (name in self.inplace or value.value.id in self.inplace):
                i = self.ex(value.slice, env, ctx)
                if i.ty != INT:
                    raise Untranslatable(f'index of type {i.ty}')
                if not (i.is_const or i.term.replace("'", '').replace('_', '').isalnum()):
                    i = self.let_bind(ctx, i.term, INT, base='i')
                self.bind(ctx, f'(Py.index {b.term} {i.term})', b.ty[1])      # IndexError now, not at the first use
                return Val(None, b.ty[1], view=(value.value.id, i.term))
        if isinstance(value, ast.Attribute) and isinstance(value.value, ast.Name):
            b = self.lookup(value.value.id, env, ctx)
            if b is not None and b.fields is None and (b.view is not None or is_seq(b.ty)):
                return Val(None, NONE, bound=(value.value.id, value.attr))
        if isinstance(value, ast.Attribute) and value.attr == 'find' and isinstance(value.value, (ast.Attribute, ast.Name)) \
                and self.spec.get('part', 1) >= 3:
            # `f = consts.X.find` for a constant byte string X: a bound method of a hidden local that holds the constant
            try:
                c = self.ex(value.value, env, Ctx())
            except (_NeedMonad, _CanRaise, _PhiFail):
                c = None
            if c is not None and c.is_const and isinstance(c.const, (bytes, bytearray)):
                hidden = '_const_' + ''.join(ch if ch.isalnum() else '_' for ch in ast.unparse(value.value))
                ctx.updates[hidden] = Val(c.term, BYTEARRAY, const=c.const, byte=True)
                return Val(None, NONE, bound=(hidden, 'find'))
        if isinstance(value, ast.Name):
            y = self.lookup(value.id, env, ctx)
            if y is not None and (y.view is not None or y.bound is not None):
                return y
            if y is not None and is_seq(y.ty) and (name in self.inplace or value.id in self.inplace):
                raise Untranslatable(f'{name} = {value.id}: two names for a sequence that is updated in place')
        return None

    def block(self, stmts, env, k):
        self.size += 1
        if self.size > 4000:
            raise Untranslatable('translation too large (too many paths)')
        if not stmts:
            return k(env)
        s, rest = stmts[0], stmts[1:]

        def cont(env2):
            return self.block(rest, env2, k)
        if isinstance(s, ast.Expr):
            if isinstance(s.value, ast.Constant) and isinstance(s.value.value, str):
                return cont(env)          # docstring
            if isinstance(s.value, ast.Call):
                ctx = Ctx()
                self.ex(s.value, env, ctx)
                return seal(ctx.binds, cont(self.apply(env, ctx))) if ctx.binds else cont(self.apply(env, ctx))
            raise Untranslatable(f'expression statement {ast.unparse(s)[:50]}')
        if isinstance(s, ast.Pass):
            return cont(env)
        if isinstance(s, ast.FunctionDef):
            ent = self.registry.get(s.name)
            if ent is not None and ent.get('nested_in') == (self.spec['module'], tuple(self.spec['path'])):
                return cont(env)          # a nested function that is translated on its own (closure read at the call)
            raise Untranslatable(f'nested function {s.name} is not translated')
        if isinstance(s, ast.Return):
            if self.phi_depth:
                raise _PhiFail('return')
            ctx = Ctx()
            v = Val('()', NONE, const=None) if s.value is None else self.ex(s.value, env, ctx)
            r = self.ret(v, self.apply(env, ctx))
            return seal(ctx.binds, r) if ctx.binds else r
        if isinstance(s, (ast.Break, ast.Continue)):
            if self.phi_depth:
                raise _PhiFail('break / continue')
            if not self.loops:
                raise Untranslatable('break / continue outside a loop')
            return self.loops[-1]['brk' if isinstance(s, ast.Break) else 'next'](env)
        if isinstance(s, ast.Raise):
            if s.exc is None or s.cause is not None:
                raise Untranslatable('bare raise / raise from')
            cls = s.exc.func if isinstance(s.exc, ast.Call) else s.exc
            if not (isinstance(cls, ast.Name) and cls.id in EXC):
                raise Untranslatable(f'raise {ast.unparse(cls)}')
            self.need_monad('raise')
            return err(EXC[cls.id])
        if isinstance(s, ast.Assert):
            ctx = Ctx()
            c = self.ex_truth(s.test, env, ctx)
            self.need_monad('assert')
            env2 = self.apply(env, ctx)
            body = cont(env2) if (c.is_const and c.const) else f'(if {c.term} then\n{ind(cont(env2))}\nelse {err("assertionError")})'
            return seal(ctx.binds, body)
        if isinstance(s, ast.Assign):
            if len(s.targets) != 1:
                raise Untranslatable('chained assignment')
            tgt = s.targets[0]
            ctx = Ctx()
            if isinstance(tgt, ast.Name):
                sp = self.special_assign(tgt.id, s.value, env, ctx)
                if sp is not None:
                    self.check_rebind(tgt.id, env)
                    return seal(ctx.binds, cont({**self.apply(env, ctx), tgt.id: sp}))
            v = self.ex(s.value, env, ctx)
            if isinstance(tgt, ast.Subscript):
                _, store = self.lvalue(tgt, env, ctx)
                store(v)
                return seal(ctx.binds, cont(self.apply(env, ctx)))
            for t in ([tgt] if isinstance(tgt, ast.Name) else tgt.elts if isinstance(tgt, ast.Tuple) else []):
                if isinstance(t, ast.Name):
                    self.check_rebind(t.id, env)
            return seal(ctx.binds, self.assign_targets(tgt, v, self.apply(env, ctx), cont))
        if isinstance(s, ast.AugAssign):
            ctx = Ctx()
            if isinstance(s.target, ast.Subscript):
                load, store = self.lvalue(s.target, env, ctx)
                cur = load()
                tmp = '_aug_tmp_'
                v = self.ex(ast.BinOp(left=ast.Name(id=tmp, ctx=ast.Load()), op=s.op, right=s.value), {**env, tmp: cur}, ctx)
                store(v)
                return seal(ctx.binds, cont(self.apply(env, ctx)))
            if not isinstance(s.target, ast.Name):
                raise Untranslatable('augmented assignment to a non-name')
            tv = self.lookup(s.target.id, env, ctx)
            if tv is not None and (tv.view is not None or is_seq(tv.ty)):
                raise Untranslatable('augmented assignment to a sequence')
            v = self.ex(ast.BinOp(left=ast.Name(id=s.target.id, ctx=ast.Load()), op=s.op, right=s.value), env, ctx)
            return seal(ctx.binds, self.let(None, v, self.apply(env, ctx), cont, s.target.id))
        if isinstance(s, ast.If):
            return self.if_stmt(s.test, s.body, s.orelse, env, cont)
        if isinstance(s, ast.Try):
            return self.try_stmt(s, env, cont)
        if isinstance(s, ast.For):
            return self.for_stmt(s, env, cont)
        if isinstance(s, ast.While):
            return self.while_stmt(s, env, cont)
        if isinstance(s, ast.Delete):
            return self.block(self.delete_as_pop(s, env) + rest, env, k)          # round 6: `del xs[i]`
        raise Untranslatable(f'statement {type(s).__name__}')

    def if_stmt(self, test, then, orelse, env, cont):
        def branch(body, env2):
            return self.block(body, env2, cont)
        nt = self.none_test(test, env)
        first_nt = None
        if isinstance(test, ast.BoolOp) and ast.unparse(test) not in self.opaque:
            first_nt = self.none_test(test.values[0], env)
        for which, r in (('whole', nt), ('first', first_nt)):
            if r is None:
                continue
            name, isnone = r
            vt = env[name].ty
            if vt == NONE or not isinstance(vt, tuple):
                # statically known: the local is None / is not None here
                known = (vt == NONE) == isnone
                if which == 'whole':
                    return branch(then if known else orelse, env)
                continue
            if vt[0] != 'opt':
                continue
            env_none, env_some, x = self.narrow(env, name)
            if which == 'whole':
                a = branch(then if isnone else orelse, env_none)
                b = branch(orelse if isnone else then, env_some)
                return f'(match {env[name].term} with\n  | none =>\n{ind(a, 4)}\n  | some {x} =>\n{ind(b, 4)})'
            is_and = isinstance(test.op, ast.And)
            rest_vals = test.values[1:]
            rest_test = rest_vals[0] if len(rest_vals) == 1 else ast.BoolOp(op=test.op, values=rest_vals)
            if is_and and not isnone:       # X is not None and C
                a = branch(orelse, env_none)
                b = self.if_stmt(rest_test, then, orelse, env_some, cont)
            elif not is_and and isnone:     # X is None or C
                a = branch(then, env_none)
                b = self.if_stmt(rest_test, then, orelse, env_some, cont)
            elif is_and and isnone:         # X is None and C
                a = self.if_stmt(rest_test, then, orelse, env_none, cont)
                b = branch(orelse, env_some)
            else:                           # X is not None or C
                a = self.if_stmt(rest_test, then, orelse, env_none, cont)
                b = branch(then, env_some)
            return f'(match {env[name].term} with\n  | none =>\n{ind(a, 4)}\n  | some {x} =>\n{ind(b, 4)})'
        ctx = Ctx()
        c = self.ex_truth(test, env, ctx)
        env = self.apply(env, ctx)
        if c.is_const:
            return seal(ctx.binds, branch(then if c.const else orelse, env))
        phi = None if ctx.binds else self.phi(c, then, orelse, env, cont)
        if phi is not None:
            return phi
        a = branch(then, env)
        b = branch(orelse, env)
        return seal(ctx.binds, f'(if {c.term} then\n{ind(a)}\nelse\n{ind(b)})')

    def tuple_body(self, body, env, names, want):
        """translate `body` and return the values of `names` afterwards, as (term builder, types)"""
        types = []

        def k(env2):
            vs = [env2[n] for n in names]
            if any(v.view is not None or v.bound is not None or v.fields is not None for v in vs):
                raise _PhiFail('view')
            types.append([v.ty for v in vs])
            if want is not None:
                vs = [self.coerce(v, t) for v, t in zip(vs, want)]
            return tuple_term([v.term for v in vs])
        term = self.block(body, env, k)
        return term, types

    def phi(self, c, then, orelse, env, cont):
        """`if c: <assignments> else: <assignments>` as a conditional VALUE of the assigned locals (no path
        duplication); None when the branches are not plain assignments"""
        names = sorted(self.assigned(then) | self.assigned(orelse))
        if not names or any(n not in env for n in names):
            return None
        if any(env[n].view is not None or env[n].bound is not None for n in names):
            rebound = self.assigned(then, False) | self.assigned(orelse, False)
            if any(n in rebound for n in names if env[n].view is not None or env[n].bound is not None):
                return None
            names = [n for n in names if env[n].view is None and env[n].bound is None]
            if not names:
                return None
        saved = (dict(self.counter), self.size)
        self.phi_depth += 1
        try:
            _, ta = self.tuple_body(then, env, names, None)
            _, tb = self.tuple_body(orelse, env, names, None)
            if len(ta) != 1 or len(tb) != 1:
                return None
            want = []
            for x, y in zip(ta[0], tb[0]):
                t = join_types(x, y)
                if t is None or t == NONE:
                    return None
                want.append(t)
            self.counter = dict(saved[0])
            a, _ = self.tuple_body(then, env, names, want)
            b, _ = self.tuple_body(orelse, env, names, want)
        except _PhiFail:
            self.counter, self.size = dict(saved[0]), saved[1]
            return None
        finally:
            self.phi_depth -= 1
        value = f'(if {c.term} then\n{ind(a)}\nelse\n{ind(b)})'
        return self.rebind(names, want, value, env, cont)

    def rebind(self, names, types, value, env, cont):
        n = len(names)
        if n == 1:
            x = self.fresh(names[0])
            return f'(let {x} := {value};\n{cont({**env, names[0]: Val(x, types[0])})})'
        whole = self.fresh('phi')
        env2 = dict(env)
        lets = []
        for i, (nm, t) in enumerate(zip(names, types)):
            x = self.fresh(nm)
            lets.append(f'let {x} := {proj(whole, i, n)};')
            env2[nm] = Val(x, t)
        return f'(let {whole} := {value};\n' + '\n'.join(lets) + f'\n{cont(env2)})'

    def try_stmt(self, s, env, cont):
        if s.orelse or s.finalbody:
            raise Untranslatable('try … else / finally')
        catches = []
        for h in s.handlers:
            if h.name is not None:
                raise Untranslatable('except … as name')
            if h.type is None:
                classes = ['Exception']
            else:
                ts = h.type.elts if isinstance(h.type, ast.Tuple) else [h.type]
                if not all(isinstance(t, ast.Name) and t.id in CATCHES for t in ts):
                    raise Untranslatable(f'except {ast.unparse(h.type)}')
                classes = [t.id for t in ts]
            caught = []
            for c in classes:
                for x in CATCHES[c]:
                    if x not in caught:
                        caught.append(x)
            catches.append((caught, h.body))
        # (a) a body that cannot raise: the handlers are dead code
        saved_flag, saved = self.noraise, (dict(self.counter), self.size)

        def outside(env2):
            inner = self.noraise
            self.noraise = saved_flag
            try:
                return cont(env2)
            finally:
                self.noraise = inner
        self.noraise = True
        try:
            return self.block(s.body, env, outside)
        except _CanRaise:
            self.counter, self.size = dict(saved[0]), saved[1]
        finally:
            self.noraise = saved_flag
        # (b) / (c): a single `return E` or `x = E`
        if len(s.body) != 1 or not isinstance(s.body[0], (ast.Return, ast.Assign)) \
                or (isinstance(s.body[0], ast.Assign) and not isinstance(s.body[0].targets[0], (ast.Name, ast.Tuple))):
            return self.try_general(s, catches, env, cont)
        st = s.body[0]
        if self.phi_depth:
            self.need_monad('try')
        ctx = Ctx()
        if isinstance(st, ast.Return):
            v = Val('()', NONE, const=None) if st.value is None else self.ex(st.value, env, ctx)
            if ctx.updates:
                raise Untranslatable('an in-place update inside a try body')
            v = Val(self.result_term(v, env), self.ret_ty)
            vty = self.ret_ty

            def success(x):
                return self.ret_raw(x)
        else:
            if len(st.targets) != 1:
                raise Untranslatable('chained assignment')
            v = self.ex(st.value, env, ctx)
            vty = v.ty
            if ctx.updates:
                raise Untranslatable('an in-place update inside a try body')

            def success(x):
                return self.assign_targets(st.targets[0], v.renamed(x), env, cont)
        self.need_monad('try')
        m = seal(ctx.binds, ok(v.term))

        def handler_for(exc):
            for caught, body in catches:
                if exc in caught:
                    return self.block(body, env, cont)
            return err(exc)
        ce = const_err(m)
        if ce is not None:
            return handler_for(ce)       # the body always raises `ce`: resolved statically (exact)
        x = self.fresh('t')
        arms = ''
        for caught, body in catches:
            test = ' || '.join(f"exc'0 == PyExc.{c}" for c in caught)
            arms += f'if {test} then\n{ind(self.block(body, env, cont))}\nelse '
        arms += "Except.error exc'0"
        return (f'(Py.tryExcept ({m} : M {lean_ty(vty)})\n  (fun {x} =>\n{ind(success(x), 4)})\n'
                f"  (fun exc'0 =>\n{ind(arms, 4)}))")

    def try_general(self, s, catches, env, cont):
        """a try body of several statements (assignments, `if`, `return`, calls …): the body yields how it ends
        (`Step.next` with the locals it assigned / `Step.ret`), only exceptions raised inside it reach the handlers.
        In the handlers (and after them) the locals the body assigns are not available: Python may have assigned
        some of them before the exception was raised."""
        self.need_monad('try')
        names = self.state_names(s.body, env)
        types = [self.state_type(n, env) for n in names]
        saved = (dict(self.counter), self.size)
        while True:
            loop = dict(monadic=True, kind='try')

            def k_next(env2, types=types):
                return ok(f'(Py.Step.next {self.state_term(names, types, env2)})')

            def k_brk(env2):
                raise Untranslatable('break / continue inside a try body')
            loop['next'], loop['brk'] = k_brk, k_brk
            self.loops.append(loop)
            try:
                body = self.block(s.body, env, k_next)
                break
            except _Widen as w:
                if w.name not in names:
                    raise
                types[names.index(w.name)] = w.ty
                self.counter, self.size = dict(saved[0]), saved[1]
            finally:
                self.loops.pop()
        sty = self.state_lean_ty(types)
        st, sv, rv = self.fresh('st'), self.fresh('s'), self.fresh('r')
        after = self.rebind_state(names, types, sv, env, cont)
        env_h = {k2: v for k2, v in env.items() if k2 not in set(self.assigned(s.body))}
        arms = ''
        for caught, hbody in catches:
            test = ' || '.join(f"exc'0 == PyExc.{c}" for c in caught)
            arms += f'if {test} then\n{ind(self.block(hbody, env_h, cont))}\nelse '
        arms += "Except.error exc'0"
        return (f'(Py.tryExcept ({body} : M (Py.Step {sty} {lean_ty(self.ret_ty)}))\n  (fun {st} =>\n'
                f'    match {st} with\n    | .next {sv} =>\n{ind(after, 6)}\n    | .brk {sv} =>\n{ind(after, 6)}\n'
                f'    | .ret {rv} => {self.ret_raw(rv)})\n'
                f"  (fun exc'0 =>\n{ind(arms, 4)}))")

    # ------------------------------------------------------------ loops
    def state_names(self, body, env, excluded=()):
        """the locals of `env` that `body` may rebind and that therefore are the state of a loop / try body; views and
        bound methods are not state (the sequence they refer to is) and must not be rebound in the body"""
        rebound = self.assigned(body, False)
        names = []
        for n in sorted(self.assigned(body)):
            if n not in env or n in excluded:
                continue
            v = env[n]
            if v.view is not None or v.bound is not None or v.fields is not None:
                if n in rebound:
                    raise Untranslatable(f'{n} (a view / bound method) is rebound inside a loop or try body')
                continue
            if isinstance(v.ty, tuple) and v.ty and v.ty[0] == 'fn' and n not in rebound:
                continue            # a callable is a value: calling it is not an update
            names.append(n)
        return names

    @staticmethod
    def iteration_locals(body, env):
        """the names of `env` whose first mention in `body` is a top-level plain assignment `x = e` with e not reading x"""
        out, seen = set(), set()
        for st in body:
            mentioned = {n.id for n in ast.walk(st) if isinstance(n, ast.Name)}
            if isinstance(st, ast.Assign) and len(st.targets) == 1 and isinstance(st.targets[0], ast.Name):
                x = st.targets[0].id
                if x in env and x not in seen and x not in {n.id for n in ast.walk(st.value) if isinstance(n, ast.Name)}:
                    v = env[x]
                    if v.view is None and v.bound is None and v.fields is None:
                        out.add(x)
            seen |= mentioned
        return out

    def state_type(self, n, env):
        return env[n].ty

    def state_term(self, names, types, env2):
        vs = []
        for n, t in zip(names, types):
            v = env2.get(n)
            if v is None or v.view is not None or v.bound is not None:
                raise Untranslatable(f'{n} is not a plain value at the end of a loop / try body')
            if v.ty != t:
                j = join_types(v.ty, t)
                if j is None:
                    raise Untranslatable(f'{n} changes its type from {t} to {v.ty} inside a loop / try body')
                if j != t:
                    raise _Widen(n, j)
                v = self.coerce(v, t)
            vs.append(v.term)
        return tuple_term(vs) if vs else '()'

    @staticmethod
    def state_lean_ty(types):
        return 'Unit' if not types else lean_ty(TUPLE(*types)) if len(types) > 1 else lean_ty(types[0])

    def rebind_state(self, names, types, value, env, cont):
        if not names:
            return cont(env)
        return self.rebind(names, types, value, env, cont)

    def loop_body(self, s_body, env, names, types, acc, form, extra_env):
        """translate a loop body over the state `names` (read from the tuple `acc`); `form` ∈ fold / foldM / forP / forM"""
        n = len(names)
        env_body = dict(env)
        for k, nm in enumerate(names):
            env_body[nm] = Val(proj(acc, k, n), types[k])
        env_body.update(extra_env)
        monadic = form in ('foldM', 'forM')
        steps = form in ('forP', 'forM')

        def wrap(t):
            return ok(t) if monadic else t

        def k_next(env2):
            st = self.state_term(names, types, env2)
            return wrap(f'(Py.Step.next {st})' if steps else st)

        def k_brk(env2):
            return wrap(f'(Py.Step.brk {self.state_term(names, types, env2)})')
        self.loops.append(dict(monadic=monadic, kind='loop', next=k_next, brk=k_brk))
        try:
            return self.block(s_body, env_body, k_next)
        finally:
            self.loops.pop()

    @staticmethod
    def has_exit(body):
        """does the loop body contain `break` (of this loop) or `return`?"""
        def walk(stmts, inner):
            for st in stmts:
                if isinstance(st, ast.Return):
                    return True
                if isinstance(st, ast.Break) and not inner:
                    return True
                if isinstance(st, (ast.For, ast.While)):
                    if walk(st.body, True):
                        return True
                elif isinstance(st, ast.If):
                    if walk(st.body, inner) or walk(st.orelse, inner):
                        return True
                elif isinstance(st, ast.Try):
                    if walk(st.body, inner) or any(walk(h.body, inner) for h in st.handlers):
                        return True
            return False
        return walk(body, False)

    def run_loop(self, s_body, env, cont, ctx, src, pat, extra_env, excluded, always_monadic=False, fuel=None):
        """common part of `for` and `while`: the locals the body rebinds become the loop state"""
        exits = self.has_exit(s_body) or fuel is not None
        if self.spec.get('part', 1) >= 4:
            # round 4: a local that exists before the loop and that EVERY iteration assigns afresh (plain `x = e` at the top
            # level of the body, e not reading x) before any other mention of it is a local of one iteration (`row = matrix[i]`
            # after `row = [2] * width`): it is not loop state, it may become a view, and after the loop it is unknown (old
            # value or that of the last iteration) — any later read is refused.
            fresh_each = self.iteration_locals(s_body, env)
            for nm in fresh_each:
                self.check_rebind(nm, env)
            env = {k2: v for k2, v in env.items() if k2 not in fresh_each}
        names = self.state_names(s_body, env, excluded)
        types = [self.state_type(n, env) for n in names]
        acc = self.fresh('acc')
        saved = (dict(self.counter), self.size)
        level = len(self.loops) + 1
        monadic = always_monadic
        while True:
            form = ('forM' if monadic else 'forP') if exits else ('foldM' if monadic else 'fold')
            try:
                body = self.loop_body(s_body, env, names, types, acc, form, extra_env)
                break
            except _Widen as w:
                if w.name not in names:
                    raise
                types[names.index(w.name)] = w.ty
            except _NeedMonad as ex:
                if ex.level != level or monadic:
                    raise
                monadic = True
            self.counter, self.size = dict(saved[0]), saved[1]
        if monadic:
            self.need_monad('loop')          # the enclosing context must be able to raise as well
        init = tuple_term([self.coerce(env[nm], t).term for nm, t in zip(names, types)]) if names else '()'
        sty = self.state_lean_ty(types)
        rty = lean_ty(self.ret_ty)
        env_after = {k2: v for k2, v in env.items() if k2 not in excluded}
        if form == 'fold':
            value = f'(({src}).foldl (fun ({acc} : {sty}) {pat} =>\n{ind(body, 4)}) {init})'
            return seal(ctx.binds, self.rebind_state(names, types, value, env_after, cont))
        if form == 'foldM':
            st = self.fresh('st')
            m = f'(Py.foldlM {src} {init} (fun ({acc} : {sty}) {pat} =>\n{ind(f"({body} : M {sty})", 4)}))'
            return seal(ctx.binds, BIND_RAW(st, m, sty, self.rebind_state(names, types, st, env_after, cont)))
        d, sv, rv = self.fresh('d'), self.fresh('s'), self.fresh('r')
        after = self.rebind_state(names, types, sv, env_after, cont)
        match = f'(match {d} with\n  | .fin {sv} =>\n{ind(after, 4)}\n  | .ret {rv} => {self.ret_raw(rv)})'
        if fuel is not None:
            m = f'(Py.whileM ({fuel}).toNat {init} (fun ({acc} : {sty}) =>\n{ind(f"({body} : M (Py.Step {sty} {rty}))", 4)}))'
            return seal(ctx.binds, BIND_RAW(d, m, f'(Py.Done {sty} {rty})', match))
        if form == 'forM':
            m = f'(Py.forM {src} {init} (fun ({acc} : {sty}) {pat} =>\n{ind(f"({body} : M (Py.Step {sty} {rty}))", 4)}))'
            return seal(ctx.binds, BIND_RAW(d, m, f'(Py.Done {sty} {rty})', match))
        value = f'(Py.forP {src} {init} (fun ({acc} : {sty}) {pat} =>\n{ind(f"({body} : Py.Step {sty} {rty})", 4)}))'
        return seal(ctx.binds, f'(let {d} : Py.Done {sty} {rty} := {value};\n{match})')

    def while_stmt(self, s, env, cont):
        if s.orelse:
            raise Untranslatable('while … else')
        src = ast.unparse(s.test)
        if src not in self.fuel:
            raise Untranslatable(f'while {src[:40]}: no fuel declared for this loop')
        self.need_monad('while')
        ctx = Ctx()
        fuel = self.ex(ast.parse(self.fuel[src], mode='eval').body, env, ctx)
        if fuel.ty != INT:
            raise Untranslatable('fuel of a while loop must be an integer expression')
        body = [ast.If(test=s.test, body=s.body, orelse=[ast.Break()])]
        return self.run_loop(body, env, cont, ctx, None, None, {}, set(), always_monadic=True, fuel=fuel.term)

    def for_stmt(self, s, env, cont):
        if s.orelse:
            raise Untranslatable('for … else')
        it = s.iter
        own_break = any(isinstance(n, (ast.Break, ast.Continue)) for n in ast.walk(ast.Module(body=s.body, type_ignores=[])))
        obj_items = None
        if self.spec.get('part', 1) >= 5 and isinstance(it, ast.Name):
            o = self.lookup(it.id, env, Ctx())
            if o is not None and o.fields is not None:
                if '__iter__' not in o.fields:
                    raise Untranslatable(f'iteration over the object {it.id}, which is declared without __iter__')
                if not isinstance(s.target, ast.Name):
                    raise Untranslatable('loop target over the items of an object')
                obj_items = (o.fields['__iter__'], dict(o.ty[1])['__iter__'][1])
        # (1) loop over a module-level constant (tuple / dict.items() / .values() / .keys()): unrolled
        if obj_items is None and not (isinstance(it, ast.Call) and isinstance(it.func, ast.Name) and it.func.id == 'range') and not own_break:
            items = None
            saved = (dict(self.counter), self.size)
            try:
                if isinstance(it, ast.Call) and isinstance(it.func, ast.Attribute) and not it.args and not it.keywords \
                        and it.func.attr in ('items', 'values', 'keys'):
                    d = self.ex(it.func.value, env, Ctx())
                    if d.is_const and isinstance(d.const, dict):
                        items = list(getattr(d.const, it.func.attr)())
                else:
                    c = self.ex(it, env, Ctx())
                    if c.is_const and isinstance(c.const, (tuple, list, dict, bytes)):
                        items = list(c.const)
            except (_NeedMonad, _CanRaise, _PhiFail):
                items = None
            if items is not None and len(items) > 16:
                items = None
            targets = [s.target] if isinstance(s.target, ast.Name) else list(s.target.elts) if isinstance(s.target, ast.Tuple) else None
            if targets is None or not all(isinstance(t, ast.Name) for t in targets):
                raise Untranslatable('loop target')
            if items is not None and any(isinstance(v, (tuple, list, dict)) for item in items
                                         for v in ([item] if isinstance(s.target, ast.Name) else list(item))):
                items = None
            if items is not None:
                def unroll(i, env2):
                    if i == len(items):
                        return cont(env2)
                    item = items[i]
                    vals = [item] if isinstance(s.target, ast.Name) else list(item)
                    if len(vals) != len(targets):
                        raise Untranslatable('loop target arity')
                    env3 = dict(env2)
                    for t, v in zip(targets, vals):
                        env3[t.id] = self.const_val(t.id, v)
                    return self.block(s.body, env3, lambda e4: unroll(i + 1, e4))
                return unroll(0, env)
            self.counter, self.size = dict(saved[0]), saved[1]
        # (2) the general form: a fold (with early exit) over the locals the body rebinds
        ctx = Ctx()
        xs = obj_items[0] if obj_items is not None else self.seq_arg(it, env, ctx)
        if ctx.updates:
            raise Untranslatable('an in-place update in the iterable of a loop')
        root = self.root_name(it.func.value if isinstance(it, ast.Call) and isinstance(it.func, ast.Attribute) else
                              it.args[0] if isinstance(it, ast.Call) and it.args and not isinstance(it.args[0], ast.Starred) else it)
        if root is not None and root in self.close(self.direct_updates(s.body, consumers=False)):
            raise Untranslatable(f'the loop iterates over {root}, which its body updates in place')
        targets = [s.target] if isinstance(s.target, ast.Name) else list(s.target.elts) if isinstance(s.target, ast.Tuple) else []
        tnames = {t.id for t in targets if isinstance(t, ast.Name)}
        if tnames & self.assigned(s.body):
            # the body rebinds its own loop variable (`right -= 1`): a local of ONE iteration, the next item of the
            # iterable overwrites it; allowed for a plain name over integers outside the legacy parts
            if not (isinstance(s.target, ast.Name) and elem_ty(xs.ty) == INT and self.spec.get('part', 1) >= 3):
                raise Untranslatable('loop variable assigned in the body')
        pat, env_t = self.bind_target(s.target, elem_ty(xs.ty), {}, byte=xs.byte)
        if isinstance(s.target, ast.Name):
            pat = f'({env_t[s.target.id].term} : {lean_ty(elem_ty(xs.ty))})'
        if obj_items is not None:
            # the loop variable is an OBJECT: its fields are the components of the current item
            item, oty = env_t[s.target.id], obj_items[1]
            nf = len(oty[1])
            env_t = {s.target.id: Val(None, oty, fields={f: Val(proj(item.term, k, nf), fty) for k, (f, fty) in enumerate(oty[1])})}
        if self.spec.get('part', 1) >= 3 and not self.loops:
            # a local that is FIRST assigned inside this (outermost) loop and read after it: unbound until an iteration
            # assigns it.  It joins the loop state as an Option (`none` = unbound); every read goes through `Py.unbound`
            # (UnboundLocalError).  Refused when the body may assign None to it (None and "unbound" would be confused).
            body_nodes = list(ast.walk(ast.Module(body=s.body, type_ignores=[])))
            inside = {id(n) for n in body_nodes}
            direct = {t.id for n in body_nodes if isinstance(n, ast.Assign) for tt in n.targets
                      for t in ([tt] if isinstance(tt, ast.Name) else tt.elts if isinstance(tt, ast.Tuple) else []) if isinstance(t, ast.Name)}
            first_here = sorted(n for n in direct if n not in env and n not in tnames)
            def assigning_loops(nm):
                # ids of all nodes inside a `for` body (anywhere in the function) that assigns `nm` directly
                ids = set()
                for f in ast.walk(self.fn):
                    if isinstance(f, ast.For):
                        sub = list(ast.walk(ast.Module(body=f.body, type_ignores=[])))
                        if any(isinstance(n, ast.Assign) and any(isinstance(t, ast.Name) and t.id == nm for tt in n.targets
                                                                  for t in ([tt] if isinstance(tt, ast.Name) else getattr(tt, 'elts', [])))
                               for n in sub):
                            ids |= {id(n) for n in sub}
                return ids
            for nm in first_here:
                covered = inside | assigning_loops(nm)
                if not any(isinstance(n, ast.Name) and isinstance(n.ctx, ast.Load) and n.id == nm and id(n) not in covered
                           for n in ast.walk(self.fn)):
                    continue
                for n in body_nodes:
                    if isinstance(n, ast.Assign) and any(isinstance(t, ast.Name) and t.id == nm for t in n.targets) \
                            and not isinstance(n.value, (ast.Name, ast.Constant, ast.BinOp)):
                        raise Untranslatable(f'{nm} is first assigned inside a loop (by something else than a name / number) and read after it')
                    if isinstance(n, ast.Assign) and any(isinstance(t, ast.Name) and t.id == nm for t in n.targets) \
                            and isinstance(n.value, ast.Constant) and n.value.value is None:
                        raise Untranslatable(f'{nm} is first assigned inside a loop, possibly None, and read after it')
                    if isinstance(n, (ast.AugAssign, ast.For)) and any(isinstance(t, ast.Name) and t.id == nm for t in ast.walk(n.target)):
                        raise Untranslatable(f'{nm} is first assigned inside a loop by an augmented assignment / as a loop variable and read after it')
                env = {**env, nm: Val('()', NONE, const=None)}
                self.maybe_unbound.add(nm)
        src = xs.term
        # the loop variable keeps its last value in Python; it is not available afterwards here
        return self.run_loop(s.body, env, cont, ctx, src, pat, env_t, tnames)

    # ------------------------------------------------------------ round 6: `del xs[i]`, `{…}.get(k, d)`
    def delete_as_pop(self, s, env):
        """`del xs[i]` (xs a local list / bytearray that is not a view, i an index, not a slice) removes the item `xs.pop(i)`
        removes and raises the same IndexError: it is translated as that call, the popped item is dropped"""
        out = []
        for t in s.targets:
            if not (isinstance(t, ast.Subscript) and isinstance(t.value, ast.Name) and not isinstance(t.slice, (ast.Slice, ast.Tuple))):
                raise Untranslatable(f'del {ast.unparse(t)[:40]} (only `del xs[i]` of a local sequence is translated)')
            v = env.get(t.value.id)
            if v is None or v.view is not None or not (v.ty == BYTEARRAY or (isinstance(v.ty, tuple) and v.ty[0] == 'list')):
                raise Untranslatable(f'del {ast.unparse(t)[:40]}: {t.value.id} is not a local list / bytearray')
            call = ast.Call(func=ast.Attribute(value=ast.Name(id=t.value.id, ctx=ast.Load()), attr='pop', ctx=ast.Load()),
                            args=[t.slice], keywords=[])
            out.append(ast.copy_location(ast.Expr(value=call), s))
        return [ast.fix_missing_locations(x) for x in out]

    def dict_display_get(self, f, e, env, ctx):
        """`{k₁: v₁, …, kₙ: vₙ}.get(key, default)`: the keys are distinct integer constants, the values integer expressions
        that cannot raise (Python evaluates all of them, then `key` and `default`) -> `Py.getD [(k₁, v₁), …] key default`"""
        if f.attr != 'get' or len(e.args) != 2 or e.keywords:
            raise Untranslatable(f'method {f.attr} of a dict display (only `.get(key, default)` is translated)')
        d = f.value
        if any(k is None for k in d.keys):
            raise Untranslatable('** in a dict display')
        sub = Ctx()
        ks = [self.ex(k, env, sub) for k in d.keys]
        vs = [self.ex(v, env, sub) for v in d.values]
        if sub.binds or sub.updates:
            raise Untranslatable('a dict display whose keys / values can raise or update something')
        if any(not (k.is_const and k.ty == INT) for k in ks) or len({k.const for k in ks}) != len(ks):
            raise Untranslatable('dict display: the keys must be distinct integer constants')
        if any(v.ty != INT for v in vs):
            raise Untranslatable('dict display: the values must be integers')
        key = self.ex(e.args[0], env, ctx)
        dflt = self.ex(e.args[1], env, ctx)
        if key.ty != INT or dflt.ty != INT:
            raise Untranslatable(f'dict display .get({key.ty}, {dflt.ty})')
        pairs = ', '.join(f'({k.term}, {v.term})' for k, v in zip(ks, vs))
        return Val(f'(Py.getD ([{pairs}] : List (Int × Int)) {key.term} {dflt.term})', INT)

    # ------------------------------------------------------------ the whole function
    def translate(self):
        """-> (lean parameter list, lean result type, body term, monadic?)"""
        spec = self.spec
        params = []     # (python name, type) in Lean order: closure variables, parameters, opaque reads
        env = {}
        for nm, ty in list(spec.get('closure', {}).items()) + list(spec['params'].items()):
            if isinstance(ty, CONST):
                env[nm] = self.const_val(nm, ty.value)
            elif isinstance(ty, tuple) and ty[0] == 'obj':
                fields = {}
                for fnm, fty in ty[1]:
                    pname = obj_param_name(nm, fnm)
                    fty = obj_param_type(fty)
                    params.append((pname, fty))
                    fields[fnm] = Val(lean_name(pname), fty)
                env[nm] = Val(None, ty, fields=fields)
            else:
                params.append((nm, ty))
                env[nm] = Val(lean_name(nm), ty)
        for src, (nm, ty) in self.opaque.items():
            params.append((nm, ty))
        for src, (nm, ty) in spec.get('opaque_calls', {}).items():
            params.append((nm, ty))
        declared = [a.arg for a in self.fn.args.posonlyargs + self.fn.args.args + self.fn.args.kwonlyargs]
        if self.fn.args.vararg or self.fn.args.kwarg:
            raise Untranslatable('*args / **kwargs')
        want = list(spec['params'].keys())
        if spec.get('method'):
            if not declared or declared[0] != 'self':
                raise Untranslatable('method without self')
            declared = declared[1:]
        if declared != want:
            raise Untranslatable(f'parameters are {declared}, the translation is specified for {want}')
        for mode in (False, True):
            self.monadic, self.counter, self.size, self.loops, self.ret_byte = mode, {}, 0, [], not self.mutates
            self.maybe_unbound = set()
            try:
                term = self.block(self.fn.body, env, self.k_end)
                break
            except _NeedMonad:
                if mode:
                    raise Untranslatable('internal: monadic translation asked for a monad')
            except _Widen as w:
                raise Untranslatable(f'internal: type of {w.name} widened outside a loop')
        sig = ' '.join(f'({lean_name(nm)} : {lean_ty(ty)})' for nm, ty in params)
        rty = lean_ty(self.ret_ty)
        return params, sig, (f'M {rty}' if self.monadic else rty), term, self.monadic


def find_function(tree, path):
    """`path` = ['outer', 'inner'] / ['Class', 'method'] / ['f']"""
    node = tree
    for nm in path:
        hits = [n for n in ast.iter_child_nodes(node) if isinstance(n, (ast.FunctionDef, ast.ClassDef)) and n.name == nm]
        if len(hits) != 1:
            # nested functions may sit below other statements of the outer function
            hits = [n for n in ast.walk(node) if isinstance(n, (ast.FunctionDef, ast.ClassDef)) and n.name == nm and n is not node]
        if len(hits) != 1:
            raise Untranslatable(f'def {".".join(path)} not found exactly once')
        node = hits[0]
    if not isinstance(node, ast.FunctionDef):
        raise Untranslatable(f'{".".join(path)} is not a function')
    if node.decorator_list:
        raise Untranslatable(f'{".".join(path)} is decorated')
    return node


def tuple_class_fields(cls, n):
    """the names of the n components of the tuple subclass `cls`: `_fields` of a namedtuple, or the properties of the
    class that are `operator.itemgetter(k)` (read off by applying them to (0, …, n-1)); None when some component has no name"""
    import operator
    if getattr(cls, '_fields', None) is not None:
        return tuple(cls._fields)
    names = {}
    for nm, p in vars(cls).items():
        if isinstance(p, property) and isinstance(p.fget, operator.itemgetter) and p.fset is None:
            try:
                k = p.fget(tuple(range(n)))
            except Exception:  # noqa
                continue
            if isinstance(k, int) and k not in names:
                names[k] = nm
    return tuple(names[k] for k in range(n)) if all(k in names for k in range(n)) else None


def self_state_function(fn, spec):
    """round 6: a METHOD that assigns to / updates in place the attributes `spec['self_state']` of `self` is translated as the
    function from the values of these attributes (leading parameters `self_<attr>`, declared in `params` and `mutates` of the
    spec) and the remaining parameters to the final values of the attributes.  `self.<attr>` becomes the local name
    `self_<attr>`; any other use of `self` (another attribute, a method call, `self` itself) is refused.
    DOMAIN ASSUMPTION (printed in the doc comment): the attributes hold DISTINCT objects (no two attributes alias one list)."""
    import copy
    attrs = list(spec['self_state'])
    args = fn.args.posonlyargs + fn.args.args
    if not args or args[0].arg != 'self':
        raise Untranslatable('self_state: not a method')
    fn = copy.deepcopy(fn)
    taken = {n.id for n in ast.walk(fn) if isinstance(n, ast.Name)} | {a.arg for a in ast.walk(fn) if isinstance(a, ast.arg)}
    for a in attrs:
        if 'self_' + a in taken:
            raise Untranslatable(f'self_state: the name self_{a} is used by the method')

    class R(ast.NodeTransformer):
        def visit_Attribute(self, n):
            if isinstance(n.value, ast.Name) and n.value.id == 'self':
                if n.attr not in attrs:
                    raise Untranslatable(f'self.{n.attr}: not one of the declared state attributes {attrs}')
                return ast.copy_location(ast.Name(id='self_' + n.attr, ctx=n.ctx), n)
            return self.generic_visit(n)

        def visit_Name(self, n):
            if n.id == 'self':
                raise Untranslatable('`self` used otherwise than through a declared state attribute')
            return n
    fn.body = [R().visit(st) for st in fn.body]
    pos = fn.args.posonlyargs if fn.args.posonlyargs else fn.args.args
    pos[0:1] = [ast.arg(arg='self_' + a) for a in attrs]
    return ast.fix_missing_locations(fn)


def literal_defaults(fn):
    """parameter name -> default value, for literal defaults"""
    res = {}
    pos = fn.args.posonlyargs + fn.args.args
    for a, d in zip(pos[len(pos) - len(fn.args.defaults):], fn.args.defaults):
        try:
            res[a.arg] = ast.literal_eval(d)
        except Exception:  # noqa
            pass
    for a, d in zip(fn.args.kwonlyargs, fn.args.kw_defaults):
        if d is not None:
            try:
                res[a.arg] = ast.literal_eval(d)
            except Exception:  # noqa
                pass
    return res


class Translation:
    """translates a list of specs; collects the Lean text of the functions, the tables and the validation file.
    `part` of a spec (1 = Gen/Funcs.lean, 2 = Gen/Funcs2.lean) says where the definition, the tables it is the first
    to use and its validation examples go."""

    def __init__(self, modules, trees, module_aliases):
        self.modules, self.trees, self.aliases = modules, trees, module_aliases
        self.tables = Tables()
        self.registry = {}
        self.defs = []        # (name, lean text)
        self.checks = []      # lean text
        self.report = []      # (name, 'ok' | reason)
        self.part_of_def = {}
        self.part_of_check = []
        self.part_of_table = {}

    def add(self, spec):
        name = spec['name']
        mod = spec['module']
        part = spec.get('part', 1)
        lean = lean_name(name)
        doc = [f'`{mod}.{".".join(spec["path"])}`']
        ntab = len(self.tables.order)
        self.part_of_def[name] = part
        try:
            fn = find_function(self.trees[mod], spec['path'])
            if spec.get('self_state'):
                fn = self_state_function(fn, spec)          # round 6: a method that updates attributes of `self`
            tr = FnTranslator(spec, self.modules[mod], fn, self.registry, self.tables, self.aliases[mod])
            params, sig, rty, term, monadic = tr.translate()
            dom = ', '.join(f'{nm}: {describe(ty)}' for nm, ty in list(spec.get('closure', {}).items()) + list(spec['params'].items()))
            doc.append(f'translated for {dom} -> {describe(spec["ret"])}' + (' (can raise)' if monadic else ''))
            for src, (nm, ty) in spec.get('opaque', {}).items():
                doc.append(f'parameter `{nm}` stands for the value of `{src}`')
            for src, (nm, ty) in spec.get('opaque_calls', {}).items():
                doc.append(f'parameter `{nm}` stands for the builtin `{src}` applied to a byte string')
            for nm, ty in spec['params'].items():
                if isinstance(ty, tuple) and ty[0] == 'obj':
                    for fnm, fty in ty[1]:
                        pname = obj_param_name(nm, fnm)
                        what = f'len({nm})' if fnm == '__len__' else f'the items of {nm} in iteration order, each as the tuple of ' \
                            + ', '.join(f for f, _ in fty[1][1]) if fnm == '__iter__' else f'{nm}.{fnm}' if hasattr_class(self.modules[mod], ty[2], fnm) \
                            else f'what the translated methods of {nm} read as their parameter {fnm}'
                        doc.append(f'parameter `{pname}` stands for {what}')
            if spec.get('self_state'):
                doc.append('a method that updates `self`: parameter `self_<attr>` stands for `self.<attr>` ('
                           + ', '.join(spec['self_state']) + '); DOMAIN ASSUMPTION: these attributes hold distinct objects')
            if spec.get('mutates'):
                doc.append('updated in place, returned ' + ('in front of the result' if spec['ret'] != NONE else 'as the result')
                           + ': ' + ', '.join(spec['mutates']))
            for src, f in spec.get('fuel', {}).items():
                doc.append(f'`while {src}` runs on the declared fuel `{f}` (fuelExhausted if that does not suffice)')
            text = '/-- ' + '; '.join(doc) + ' -/\n' + f'def {lean} {sig} : {rty} :=\n{ind(term)}'
            pyobj = None
            if len(spec['path']) == 1:
                pyobj = getattr(self.modules[mod], name, None)
            self.registry[name] = dict(name=name, lean=lean, params=list(spec['params'].items()), ret=tr.ret_ty, py_ret=spec['ret'],
                                       monadic=monadic, defaults=literal_defaults(fn), pyobj=pyobj,
                                       closure=list(spec.get('closure', {}).items()), opaque=list(spec.get('opaque', {}).values()),
                                       opaque_src={nm: src for src, (nm, _) in spec.get('opaque', {}).items()},
                                       mutates=list(spec.get('mutates', [])), method=bool(spec.get('method')),
                                       ret_byte=bool(getattr(tr, 'ret_byte', False)) and not spec.get('legacy'),
                                       nested_in=(mod, tuple(spec['path'][:-1])) if len(spec['path']) > 1 and not spec.get('method') else None)
            if spec.get('method'):
                self.registry[name]['class'] = spec['path'][0]
            self.defs.append((name, text))
            self.report.append((name, 'ok'))
            nchk = len(self.checks)
            try:
                self.add_check(spec, params, monadic, tr.ret_ty)
            except Untranslatable as ex:
                self.checks.append(f'example : Unit := unvalidated_{name} -- {str(ex)[:200]}')
                self.report[-1] = (name, 'translated, but the validation failed: ' + str(ex))
            self.part_of_check += [part] * (len(self.checks) - nchk)
        except Untranslatable as ex:
            sig = ''
            self.defs.append((name, f'/-- {doc[0]}: OUTSIDE THE TRANSLATABLE SUBSET -/\n'
                                    f'def {lean} : Unit :=\n  untranslatable_{name} -- {str(ex)[:200]}'))
            self.report.append((name, str(ex)))
        for t in self.tables.order[ntab:]:
            self.part_of_table[t] = part

    # ---------------------------------------------------------------- translation validation
    def add_check(self, spec, params, monadic, ret_ty=None):
        """evaluate the real function on sample arguments and state the results as kernel-checked examples"""
        ret_ty = spec['ret'] if ret_ty is None else ret_ty
        ret_ty = spec.get('check_ret', ret_ty)
        call = spec.get('pycall')
        mod = self.modules[spec['module']]
        mutates = list(spec.get('mutates', []))
        if call is None:
            f = getattr(mod, spec['name'])

            def call(a, f=f):
                return f(**a)
        all_params = []
        for nm, ty in list(spec.get('closure', {}).items()) + list(spec['params'].items()):
            if isinstance(ty, tuple) and ty[0] == 'obj':
                all_params += [(obj_param_name(nm, fnm), obj_param_type(fty)) for fnm, fty in ty[1]]
            else:
                all_params.append((nm, ty))
        all_params += [(nm, ty) for nm, ty in spec.get('opaque', {}).values()]
        all_params += [(nm, ty) for nm, ty in spec.get('opaque_calls', {}).values()]
        pools = []
        for nm, ty in (all_params if spec.get('nsamples', 96) != 0 else []):
            if nm in spec.get('samples', {}):
                pools.append(spec['samples'][nm])
            elif isinstance(ty, CONST):
                pools.append([ty.value])
            else:
                pools.append(sample_pool(ty))
        total = 1
        for p in pools:
            total *= len(p)
        rnd = random.Random(20260930)
        limit = spec.get('nsamples', 96)
        if limit == 0:
            combos = []
        elif total <= limit:
            combos = list(itertools.product(*pools))
        else:
            combos = [tuple(rnd.choice(p) for p in pools) for _ in range(limit)]
            combos = list({repr(c): c for c in combos}.values())
        combos = list(spec.get('cases', [])) + combos
        lhs, rhs = [], []
        lean = lean_name(spec['name'])
        ptypes = dict(all_params)
        for combo in combos:
            kwargs = {nm: to_python(v, ty, mod) for (nm, ty), v in zip(all_params, combo)}
            if spec.get('precondition') and not spec['precondition'](kwargs):
                continue
            try:
                r = call(kwargs if spec.get('pycall') else dict(kwargs))
                if mutates:
                    r = tuple(kwargs[m] for m in mutates) + (() if spec['ret'] == NONE else (r,))
                    r = r[0] if len(r) == 1 else r
                res = self.tables.literal(from_python(r), ret_ty)
                res = ok(res) if monadic else res
            except Untranslatable:
                raise
            except Exception as ex:  # noqa
                cls = type(ex).__name__
                if cls not in EXC or not monadic:
                    raise Untranslatable(f'{spec["name"]}({str(kwargs)[:300]}) raised {cls}, which the translation cannot produce')
                res = err(EXC[cls])
            args = [self.tables.literal(v, ty) for (nm, ty), v in zip(all_params, combo) if not isinstance(ty, CONST)]
            call_term = '(' + ' '.join([lean] + args) + ')' if args else lean
            if spec.get('check_wrap'):
                # the result is not a first-order value (functions): it is observed through the Lean function `check_wrap`
                # (and `pycall` returns what the same observation gives in Python)
                call_term = f'({spec["check_wrap"]} {call_term})'
            lhs.append(call_term)
            rhs.append(res)
        rty = lean_ty(ret_ty)
        rty = f'M {rty}' if monadic else rty
        group = spec.get('group', 24)
        for k in range(0, len(lhs), group):
            self.checks.append(f'example : ([{", ".join(lhs[k:k + group])}] : List ({rty}))\n    = [{", ".join(rhs[k:k + group])}] := by '
                               + spec.get('decide', 'decide'))
        self.report[-1] = (spec['name'], f'ok ({len(lhs)} sample evaluations)')

    # ---------------------------------------------------------------- output
    def funcs_text(self, part=1):
        if part == 6:
            return self.part_text(6, 'Gen.Funcs4', 'Gen.Funcs6', 'Gen.Py Gen.Funcs Gen.Funcs2 Gen.Funcs3', False)
        imp, ns = ('Gen.Py', 'Gen.Funcs') if part == 1 else ('Gen.Py2\nimport Gen.Funcs', 'Gen.Funcs2') if part == 2 else \
            ('Gen.Funcs2', 'Gen.Funcs3') if part == 3 else ('Gen.Funcs3', 'Gen.Funcs4') if part == 4 else ('Gen.Funcs4', 'Gen.Funcs5')
        out = ['-- GENERATED by tools/gen.py (tools/pytolean.py: AST translation of the repository working tree). DO NOT EDIT.',
               f'import {imp}', '', 'set_option linter.unusedVariables false', '', f'namespace {ns}',
               'open Gen.Py' + (' Gen.Funcs' if part == 2 else ' Gen.Funcs Gen.Funcs2' if part == 3 else
                            ' Gen.Funcs Gen.Funcs2 Gen.Funcs3' if part == 4 else
                            ' Gen.Funcs Gen.Funcs2 Gen.Funcs3 Gen.Funcs4' if part == 5 else ''), '']
        for nm in self.tables.order:
            if self.part_of_table.get(nm, 1) == part:
                out += [self.tables.defs[nm][1], '']
        for nm, text in self.defs:
            if self.part_of_def.get(nm, 1) == part:
                out += [text, '']
        out += [f'end {ns}', '']
        return '\n'.join(out)

    def check_text(self, part=1, shard=None, shards=1):
        """the validation examples of `part`; with `shards` > 1 they are spread over several files (built in parallel):
        shard k gets the k-th share, `shard=None` is the root file importing the shares"""
        if part == 6:
            return self.part_text(6, 'Gen.Funcs6', 'Gen.Funcs6Check', 'Gen.Py Gen.Funcs Gen.Funcs2 Gen.Funcs3 Gen.Funcs6', True)
        imp, ns, op = ('Gen.Funcs', 'Gen.FuncsCheck', 'Gen.Py Gen.Funcs') if part == 1 else \
            ('Gen.Funcs2', 'Gen.Funcs2Check', 'Gen.Py Gen.Funcs Gen.Funcs2') if part == 2 else \
            ('Gen.Funcs3', 'Gen.Funcs3Check', 'Gen.Py Gen.Funcs Gen.Funcs2 Gen.Funcs3') if part == 3 else \
            ('Gen.Funcs4', 'Gen.Funcs4Check', 'Gen.Py Gen.Funcs Gen.Funcs2 Gen.Funcs3 Gen.Funcs4') if part == 4 else \
            ('Gen.Funcs5', 'Gen.Funcs5Check', 'Gen.Py Gen.Funcs Gen.Funcs2 Gen.Funcs3 Gen.Funcs4 Gen.Funcs5')
        head = ['-- GENERATED by tools/gen.py (tools/pytolean.py). DO NOT EDIT.',
                '-- Translation validation: what the real Python functions returned at generation time on sample arguments,',
                '-- compared by the Lean kernel with what the translated functions compute.']
        mine = [c for c, pt in zip(self.checks, self.part_of_check + [1] * len(self.checks)) if pt == part]
        if shards > 1 and shard is None:
            return '\n'.join(head + [f'import {ns}{k + 1}' for k in range(shards)] + [''])
        if shards > 1:
            load = [0] * shards
            share = [[] for _ in range(shards)]
            for c in sorted(mine, key=len, reverse=True):      # greedy balancing by size
                k = load.index(min(load))
                share[k].append(c)
                load[k] += len(c)
            mine = [c for c in mine if c in share[shard]]
            ns = f'{ns}{shard + 1}'
        out = head + [f'import {imp}', '', f'namespace {ns}', f'open {op}', '']
        for c in mine:
            out += [c, '']
        out += [f'end {ns}', '']
        return '\n'.join(out)


def _part_text(self, part, imp, ns, op, checks):
    """round 6: the definitions (or, with `checks`, the validation examples) of `part` as one file"""
    if checks:
        out = ['-- GENERATED by tools/gen.py (tools/pytolean.py). DO NOT EDIT.',
               '-- Translation validation: what the real Python functions returned at generation time on sample arguments,',
               '-- compared by the Lean kernel with what the translated functions compute.',
               f'import {imp}', '', f'namespace {ns}', f'open {op}', '',
               '-- (DecidableEq of a product of lists of products is larger than the default instance-size bound)',
               'set_option synthInstance.maxSize 512', '']
        for c, pt in zip(self.checks, self.part_of_check + [1] * len(self.checks)):
            if pt == part:
                out += [c, '']
    else:
        out = ['-- GENERATED by tools/gen.py (tools/pytolean.py: AST translation of the repository working tree). DO NOT EDIT.',
               f'import {imp}', '', 'set_option linter.unusedVariables false', '', f'namespace {ns}', f'open {op}', '']
        for nm in self.tables.order:
            if self.part_of_table.get(nm, 1) == part:
                out += [self.tables.defs[nm][1], '']
        for nm, text in self.defs:
            if self.part_of_def.get(nm, 1) == part:
                out += [text, '']
    return '\n'.join(out + [f'end {ns}', ''])


Translation.part_text = _part_text


def hasattr_class(module, cls, attr):
    c = getattr(module, cls, None)
    return c is not None and (attr in getattr(c, '__slots__', ()) or hasattr(c, attr))


def to_python(v, ty, module):
    """a sample value as the Python object the real function expects (fresh, because it may be updated in place)"""
    if ty == BUFFER:
        return module.Buffer(v)
    if ty == BYTEARRAY:
        return bytearray(v)
    if isinstance(ty, tuple) and ty[0] == 'list' and (is_seq(ty[1]) or isinstance(ty[1], NamedTupleType)):
        return [to_python(x, ty[1], module) for x in v]
    if isinstance(ty, NamedTupleType):
        import collections
        return collections.namedtuple('NT', ty.fields)(*v)
    if isinstance(ty, tuple) and ty[0] == 'list':
        return list(v)
    if isinstance(v, FnSample):
        return v.py
    return v


def from_python(r):
    if hasattr(r, 'getbits'):
        return list(r.getbits())
    if isinstance(r, (bytes, bytearray)):
        return list(r)
    if isinstance(r, list):
        return [from_python(x) for x in r]
    if isinstance(r, tuple):
        return tuple(from_python(x) for x in r)
    return r


def describe(ty):
    if isinstance(ty, CONST):
        return f'fixed to {ty.value!r}'
    if ty in (INT, BOOL, STR, FLOAT):
        return ty
    if ty == NONE:
        return 'None'
    if ty[0] == 'opt':
        return f'Optional[{describe(ty[1])}]'
    if ty[0] == 'tuple':
        return 'tuple(' + ', '.join(describe(t) for t in ty[1:]) + ')'
    if ty[0] == 'list':
        return f'list of {describe(ty[1])}'
    if ty[0] == 'union':
        return f'{describe(ty[1])} or {describe(ty[2])}'
    if ty == BYTEARRAY:
        return 'bytes / bytearray'
    if ty == BUFFER:
        return 'Buffer (of bits)'
    if ty[0] == 'raises':
        return f'{describe(ty[1])} or an exception'
    if ty[0] == 'obj':
        return f'{ty[2]} object'
    if ty[0] == 'fn':
        return 'function (' + ', '.join(describe(a) for a in ty[1]) + ') -> ' + describe(ty[2]) + (' that can raise' if ty[3] else ' that cannot raise')
    return str(ty)


INT_POOL = [-5, -4, -3, -2, -1, 0, 1, 2, 3, 4, 5, 6, 7, 8, 9, 10, 11, 12, 13, 14, 15, 16, 17, 21, 25, 26, 27, 28, 40, 41, 42, 45, 63, 64,
            127, 128, 177, 252, 253, 254, 255, 256, 1000]


def sample_pool(ty):
    if ty == INT:
        return INT_POOL
    if ty == BOOL:
        return [False, True]
    if ty == STR:
        return ['', 'iso-8859-1', 'utf-8', 'shift_jis', 'L', 'numeric']
    if ty[0] == 'opt':
        return [None] + sample_pool(ty[1])
    if ty[0] == 'tuple':
        pools = [sample_pool(t) for t in ty[1:]]
        rnd = random.Random(7)
        return [tuple(rnd.choice(p) for p in pools) for _ in range(24)] + [(21, 21), (17, 17), (11, 11), (18, 18), (177, 177), (21, 22)][:6 if len(pools) == 2 else 0]
    if ty in (BYTEARRAY, BUFFER):
        rnd = random.Random(13)
        top = 1 if ty == BUFFER else 255
        return [[]] + [[rnd.randint(0, top) for _ in range(rnd.randint(1, 12))] for _ in range(10)]
    if ty[0] == 'list':
        rnd = random.Random(11)
        inner = sample_pool(ty[1])
        return [[]] + [[rnd.choice(inner) for _ in range(rnd.randint(1, 5))] for _ in range(10)]
    if ty[0] == 'fn':
        return []           # callables are sampled through explicit `cases` (FnSample) only
    raise Untranslatable(f'no samples for {ty}')


# ------------------------------------------------------------------------------------ segno: what is translated
class _Const2D:
    """stand-in for a matrix whose every cell holds `v` (for the validation of functions with opaque reads)"""

    def __init__(self, v):
        self.v = v

    def __getitem__(self, i):
        return self

    def __repr__(self):
        return f'_Const2D({self.v})'


class _Cell(_Const2D):
    def __getitem__(self, i):
        return _Row(self.v)


class _Row:
    def __init__(self, v):
        self.v = v

    def __getitem__(self, j):
        return self.v


def nested_callable(module, tree, path, closure):
    """the nested function `path` compiled on its own, its free variables taken from `closure`"""
    node = find_function(tree, path)
    code = compile(ast.fix_missing_locations(ast.Module(body=[node], type_ignores=[])), f'<{".".join(path)}>', 'exec')
    g = dict(vars(module))
    g.update(closure)
    exec(code, g)
    return g[path[-1]]


def segno_specs(mods, trees):
    enc, utils, writers, consts = mods['encoder'], mods['utils'], mods['writers'], mods['consts']
    size = TUPLE(INT, INT)

    def get_bit_call(a):
        f = nested_callable(utils, trees['utils'], ['matrix_iter_verbose', 'get_bit'],
                            dict(width=a['width'], height=a['height'], is_square=a['is_square'], is_micro=a['is_micro'],
                                 matrix=_Cell(a['val']), alignment_matrix=_Cell(a['alignment_val'])))
        return f(a['i'], a['j'])

    def bit_length_call(a):
        f = nested_callable(enc, trees['encoder'], ['encode_sequence', 'calc_qrcode_bit_length'], {})
        return f(a['char_count'], a['ver_range'], a['mode'], a['encoding'], a['is_eci'], a['is_sa'])

    def overhead_call(a):
        import types
        segs = [types.SimpleNamespace(mode=consts.MODE_BYTE, encoding='x-other')] * a['no_eci_indicators']
        me = types.SimpleNamespace(segments=segs, modes=a['modes'], bit_length=a['bit_length'])
        return enc.Segments.bit_length_with_overhead(me, a['version'], a['eci'], a['is_sa'])

    versions = [-4, -3, -2, -1, 0, 1, 2, 6, 7, 9, 10, 11, 26, 27, 28, 40, 41, 45]
    modes = [0, 1, 2, 3, 4, 5, 7, 8, 9, 13]
    levels = [None, 0, 1, 2, 3, 4, -1]
    sizes = [(11, 11), (13, 13), (15, 15), (17, 17), (18, 18), (21, 21), (25, 25), (45, 45), (177, 177), (21, 22), (30, 10), (17, 18)]
    specs = [
        dict(module='encoder', path=['version_range'], params={'version': INT}, ret=INT),
        dict(module='encoder', path=['calc_matrix_size'], params={'ver': INT}, ret=INT),
        dict(module='encoder', path=['is_mode_supported'], params={'mode': INT, 'ver': INT}, ret=BOOL,
             samples={'mode': modes, 'ver': versions}, nsamples=200),
        dict(module='encoder', path=['find_minimum_version_for_mode'], params={'mode': INT}, ret=INT, samples={'mode': modes}),
        dict(module='encoder', path=['normalize_version'], params={'version': OPT(INT)}, ret=OPT(INT)),
        dict(module='encoder', path=['normalize_mode'], params={'mode': OPT(INT)}, ret=OPT(INT)),
        dict(module='encoder', path=['normalize_mask'], params={'mask': OPT(INT), 'is_micro': BOOL}, ret=OPT(INT)),
        dict(module='encoder', path=['normalize_errorlevel'], params={'error': OPT(INT), 'accept_none': BOOL}, ret=OPT(INT)),
        dict(module='encoder', path=['get_mode_name'], params={'mode_const': INT}, ret=STR),
        dict(module='encoder', path=['get_error_name'], params={'error_const': INT}, ret=STR),
        dict(module='encoder', path=['get_version_name'], params={'version_const': INT}, ret=UNION_INT_STR),
        dict(module='encoder', path=['_is_shift_jis_trail_byte'], params={'b': INT}, ret=BOOL),
        dict(module='encoder', path=['calc_format_info'], params={'version': INT, 'error': OPT(INT), 'mask_pattern': INT}, ret=INT,
             samples={'version': versions, 'error': levels, 'mask_pattern': [-33, -1, 0, 1, 2, 3, 4, 7, 8, 9, 24, 31, 32]}, nsamples=240),
        dict(module='encoder', path=['encode_sequence', 'calc_qrcode_bit_length'],
             params={'char_count': INT, 'ver_range': INT, 'mode': INT, 'encoding': STR, 'is_eci': BOOL, 'is_sa': BOOL}, ret=INT,
             samples={'mode': modes, 'ver_range': [-3, -2, -1, 0, 1, 2, 3, 4], 'char_count': [0, 1, 2, 3, 4, 5, 6, 7, 100, 1001, -1, -7]},
             nsamples=240, pycall=bit_length_call),
        dict(module='encoder', path=['Segments', 'bit_length_with_overhead'], method=True,
             params={'version': INT, 'eci': BOOL, 'is_sa': BOOL}, ret=INT,
             opaque={"sum((1 for segment in self.segments if segment.mode == consts.MODE_BYTE and segment.encoding != consts.DEFAULT_BYTE_ENCODING))":
                     ('no_eci_indicators', INT), 'self.modes': ('modes', LIST(INT)), 'self.bit_length': ('bit_length', INT)},
             samples={'version': versions, 'no_eci_indicators': [0, 1, 2, 5], 'bit_length': [0, 1, 13, 152, 10000],
                      'modes': [[], [1], [2], [4], [8], [13], [1, 2, 4], [4, 4, 13, 8], [3], [1, 13, 13]]},
             nsamples=240, pycall=overhead_call),
        dict(module='utils', path=['get_default_border_size'], params={'matrix_size': size}, ret=INT, samples={'matrix_size': sizes}),
        dict(module='utils', path=['get_border'], params={'matrix_size': size, 'border': OPT(INT)}, ret=INT, samples={'matrix_size': sizes}),
        dict(module='utils', path=['get_symbol_size'], params={'matrix_size': size, 'scale': INT, 'border': OPT(INT)}, ret=TUPLE(INT, INT),
             samples={'matrix_size': sizes}),
        dict(module='utils', path=['check_valid_scale'], params={'scale': INT}, ret=NONE),
        dict(module='utils', path=['check_valid_border'], params={'border': OPT(INT)}, ret=NONE),
        dict(module='utils', path=['matrix_iter_verbose', 'get_bit'], params={'i': INT, 'j': INT},
             closure={'width': INT, 'height': INT, 'is_square': BOOL, 'is_micro': BOOL},
             opaque={'matrix[i][j]': ('val', INT), 'alignment_matrix[i][j]': ('alignment_val', INT)}, ret=INT,
             samples={'width': [11, 15, 17, 21, 45, 49], 'height': [11, 15, 17, 21, 45, 49, 22],
                      'i': [-1, 0, 1, 5, 6, 7, 8, 9, 10, 12, 13, 14, 16, 20, 33, 34, 36, 37, 38, 40, 41, 44, 45, 48],
                      'j': [-1, 0, 1, 5, 6, 7, 8, 9, 10, 12, 13, 14, 16, 20, 33, 34, 36, 37, 38, 40, 41, 44, 45, 48],
                      'val': [0, 1], 'alignment_val': [0, 1, 2]},
             precondition=lambda a: a['is_square'] == (a['width'] == a['height']) and a['is_micro'] == (a['is_square'] and a['width'] < 21),
             nsamples=1500, pycall=get_bit_call),
        dict(module='writers', path=['_valid_width_height_and_border'], params={'matrix_size': size, 'scale': INT, 'border': OPT(INT)},
             ret=TUPLE(INT, INT, INT), samples={'matrix_size': sizes}, nsamples=200),
        dict(module='writers', path=['_alpha_value'], params={'color': INT, 'alpha_float': CONST(False)}, ret=INT),
    ]
    for s in specs:
        s['legacy'] = True      # round 1: translated exactly as in round 1 (Props.TieA quotes these terms)
    specs += segno_specs2(mods, trees, versions, levels)
    specs += segno_specs3(mods, trees, versions, levels)
    specs += segno_specs4(mods, trees, versions, levels)
    specs += segno_specs5(mods, trees, versions, levels)
    specs += segno_specs6(mods, trees, versions, levels)
    for s in specs:
        s['name'] = s['path'][-1]
    return specs


def segno_specs2(mods, trees, versions, levels):
    """round 2 (Gen/Funcs2.lean): the functions at the heart of C04 / C05 / C13 (version search, error level boost,
    terminator and padding), C06 (mask scores), C02 (function patterns)"""
    import types
    enc, consts = mods['encoder'], mods['consts']

    class FakeSegments:
        """a Segments object with the given `modes`, `bit_length`, number of ECI indicators and length"""
        bit_length_with_overhead = enc.Segments.bit_length_with_overhead

        def __init__(self, a):
            self.modes, self.bit_length, self.n = a['modes'], a['bit_length'], a.get('n_segments', len(a['modes']))
            self.segments = [types.SimpleNamespace(mode=consts.MODE_BYTE, encoding='x-other')] * a['no_eci_indicators']

        def __len__(self):
            return self.n
    seg_fields = dict(no_eci_indicators=INT, modes=LIST(INT), bit_length=INT)
    seg_samples = {'no_eci_indicators': [0, 1, 2], 'bit_length': [0, 1, 13, 20, 41, 128, 152, 1000, 2953 * 8, 23648, 30000],
                   'modes': [[], [1], [2], [4], [8], [13], [1, 2, 4], [4, 4, 13, 8], [3], [1, 13, 13], [1, 1], [2, 1]]}
    mode_lists = seg_samples['modes']
    bufs = [[], [1], [0, 1, 0, 0], [1, 0, 1, 1, 0, 0, 1, 0], [0] * 9, [1] * 20, [1, 0] * 18, [0, 1, 1] * 8]
    specs = [
        dict(module='encoder', path=['find_version'],
             params={'segments': OBJ('Segments', **seg_fields), 'error': OPT(INT), 'eci': BOOL, 'micro': OPT(BOOL), 'is_sa': BOOL},
             ret=INT, samples=dict(seg_samples, error=levels), nsamples=72,
             pycall=lambda a: enc.find_version(FakeSegments(a), a['error'], a['eci'], a['micro'], a['is_sa'])),
        dict(module='encoder', path=['boost_error_level'],
             params={'version': INT, 'error': OPT(INT), 'segments': OBJ('Segments', __len__=INT, **seg_fields), 'eci': BOOL, 'is_sa': BOOL},
             ret=OPT(INT), samples=dict(seg_samples, error=levels, version=versions, n_segments=[0, 1, 1, 1, 2]), nsamples=120,
             pycall=lambda a: enc.boost_error_level(a['version'], a['error'], FakeSegments(a), a['eci'], a['is_sa'])),
        dict(module='encoder', path=['write_terminator'], params={'buff': BUFFER, 'capacity': INT, 'ver': OPT(INT), 'length': INT},
             ret=NONE, mutates=['buff'],
             samples={'buff': bufs, 'capacity': [0, 8, 20, 36, 152, -1], 'ver': [None, -3, -2, -1, 0, 1, -4], 'length': [0, 3, 8, 19, 20, 33, 36, 152]},
             nsamples=72),
        dict(module='encoder', path=['write_padding_bits'], params={'buff': BUFFER, 'version': INT, 'length': INT}, ret=NONE, mutates=['buff'],
             samples={'buff': bufs, 'version': [-3, -2, -1, 0, 1, 40], 'length': [0, 3, 8, 19, 20, 36, -5]}, nsamples=48),
        dict(module='encoder', path=['write_pad_codewords'], params={'buff': BUFFER, 'version': INT, 'capacity': INT, 'length': INT},
             ret=NONE, mutates=['buff'],
             samples={'buff': bufs, 'version': [-3, -2, -1, 0, 1, 40], 'capacity': [0, 8, 20, 36, 84, 128], 'length': [0, 3, 8, 16, 19, 20, 36]},
             nsamples=60),
    ]
    MAT = LIST(BYTEARRAY)
    rnd = random.Random(4)

    def rand_matrix(n, top=1):
        return [[rnd.randint(0, top) for _ in range(n)] for _ in range(n)]

    def n3_call(a):
        f = nested_callable(enc, trees['encoder'], ['mask_scores', 'n3_pattern_occurrences'],
                            dict(n3_pattern=bytearray(a['n3_pattern']), qr_size=a['qr_size']))
        return f(a['seq'])
    m11, m13, ones11 = rand_matrix(11), rand_matrix(13), [[1] * 11 for _ in range(11)]
    stripes15 = [[(i // 2 + j) % 2 for j in range(15)] for i in range(15)]
    seqs = [[1, 0, 1, 1, 1, 0, 1, 0, 0, 0, 0], [0, 0, 0, 0, 1, 0, 1, 1, 1, 0, 1], [1, 0, 1, 1, 1, 0, 1, 1, 1, 0, 1, 0, 0, 0, 0],
            [1] * 11, [0] * 11, [0, 1, 0, 1, 1, 1, 0, 1, 0, 1, 1], [1, 0, 1, 1, 1, 0, 1, 0, 1, 1, 1, 0, 1, 1, 1, 0, 1, 0, 0, 0, 0],
            [0, 0, 1, 0, 1, 1, 1, 0, 1, 0, 0, 0, 0, 1, 0, 1, 1, 1, 0, 1, 1]]
    specs += [
        dict(module='encoder', path=['evaluate_micro_mask'], params={'matrix': MAT, 'width': INT, 'height': INT}, ret=INT,
             cases=[(m11, 11, 11), (m13, 13, 13), (ones11, 11, 11), ([], 0, 0), ([[1]], 1, 1), (m11, 12, 11), (m11, 5, 5)], nsamples=0),
        dict(module='encoder', path=['mask_scores', 'n3_pattern_occurrences'], params={'seq': BYTEARRAY},
             closure={'n3_pattern': BYTEARRAY, 'qr_size': INT}, ret=INT, fuel={'idx != -1': 'len(seq) + 1'},
             cases=[([1, 0, 1, 1, 1, 0, 1], len(q), q) for q in seqs] + [([1, 0, 1, 1, 1, 0, 1], 9, seqs[0]), ([1, 0, 1], 11, seqs[5])],
             nsamples=0, pycall=n3_call),
        dict(module='encoder', path=['mask_scores'], params={'matrix': MAT, 'width': INT, 'height': INT}, ret=TUPLE(INT, INT, INT, INT),
             cases=[(m11, 11, 11), (m13, 13, 13), (ones11, 11, 11), (stripes15, 15, 15), (m11, 11, 12), ([[1]], 1, 1), (m11, 12, 12)],
             nsamples=0, group=4),
        dict(module='encoder', path=['evaluate_mask'], params={'matrix': MAT, 'width': INT, 'height': INT}, ret=INT,
             cases=[(m11, 11, 11)], nsamples=0),
        dict(module='encoder', path=['add_format_info'], params={'matrix': MAT, 'version': INT, 'error': OPT(INT), 'mask_pattern': INT},
             ret=NONE, mutates=['matrix'],
             cases=[(rand_matrix(11, 2), -3, None, 0), (rand_matrix(17, 2), 0, 3, 2), (rand_matrix(21, 2), 1, 1, 3), (rand_matrix(21, 2), 1, 0, 7),
                    (rand_matrix(5), 1, 1, 0), ([], 1, 1, 0), (rand_matrix(9), 1, 1, 8), (rand_matrix(9), -2, 1, 4), (rand_matrix(9), -3, 1, 0)],
             nsamples=0, group=5),
        dict(module='encoder', path=['add_version_info'], params={'matrix': MAT, 'version': INT}, ret=NONE, mutates=['matrix'],
             cases=[(rand_matrix(13, 2), 7), (rand_matrix(11, 2), 1), (rand_matrix(13, 2), 40), (rand_matrix(10, 2), 7), (rand_matrix(11, 2), 41),
                    (rand_matrix(11, 2), -3)], nsamples=0, group=6),
        dict(module='encoder', path=['add_finder_patterns'], params={'matrix': MAT, 'width': INT, 'height': INT}, ret=NONE, mutates=['matrix'],
             cases=[(rand_matrix(11, 2), 11, 11), (rand_matrix(21, 2), 21, 21), (rand_matrix(19, 2), 19, 22), (rand_matrix(7, 2), 7, 7), ([], 0, 0)],
             nsamples=0, group=5),
        dict(module='encoder', path=['add_timing_pattern'], params={'matrix': MAT, 'is_micro': BOOL}, ret=NONE, mutates=['matrix'],
             cases=[(rand_matrix(11, 2), True), (rand_matrix(21, 2), False), (rand_matrix(17, 2), False), (rand_matrix(5, 2), False), ([], True), ([], False)],
             nsamples=0, group=6),
        dict(module='encoder', path=['add_alignment_patterns'], params={'matrix': MAT, 'width': INT, 'height': INT}, ret=NONE, mutates=['matrix'],
             cases=[(rand_matrix(11, 2), 11, 11), (rand_matrix(21, 2), 21, 21), (rand_matrix(25, 2), 25, 25), (rand_matrix(25, 2), 25, 24),
                    (rand_matrix(12, 2), 25, 25)], nsamples=0, group=5),
        dict(module='encoder', path=['make_blocks'],
             params={'ec_infos': LIST(NT(num_blocks=INT, num_total=INT, num_data=INT)), 'buff': BUFFER},
             ret=TUPLE(LIST(BYTEARRAY), LIST(BYTEARRAY)),
             cases=[([(1, 5, 3)], [0, 1, 0, 0, 0, 0, 0, 1, 1, 0, 1, 0, 1, 1, 1, 1, 0, 0, 1, 0]),
                    ([(1, 10, 5)], [rnd.randint(0, 1) for _ in range(40)]),
                    ([(1, 26, 9)], [rnd.randint(0, 1) for _ in range(72)]),
                    ([(2, 13, 6), (1, 14, 7)], [rnd.randint(0, 1) for _ in range(19 * 8)]),
                    ([(1, 9, 4)], [1] * 32), ([(1, 5, 3)], []), ([], [1, 0, 1]), ([(1, 3, 5)], [1] * 40), ([(0, 9, 4)], [1] * 8)],
             nsamples=0, group=3),
        dict(module='encoder', path=['make_final_message', 'to_binary'], params={'val': INT, 'length': INT}, ret=LIST(INT),
             samples={'val': [0, 1, 5, 10, 200, 255, 256, -3], 'length': [-1, 0, 1, 4, 8]},
             pycall=lambda a: list(nested_callable(enc, trees['encoder'], ['make_final_message', 'to_binary'], {})(a['val'], a['length']))),
        dict(module='encoder', path=['make_final_message'], params={'version': INT, 'error': OPT(INT), 'buff': BUFFER}, ret=BUFFER,
             cases=[(-3, None, [rnd.randint(0, 1) for _ in range(20)]), (-2, 1, [rnd.randint(0, 1) for _ in range(40)]),
                    (-1, 0, [rnd.randint(0, 1) for _ in range(68)]), (1, 2, [rnd.randint(0, 1) for _ in range(72)]),
                    (2, 1, [rnd.randint(0, 1) for _ in range(272)]), (3, 3, [rnd.randint(0, 1) for _ in range(272)]),
                    (1, None, [1] * 8), (41, 1, [1] * 8), (-3, None, []), (-1, 1, [1, 0, 1])],
             nsamples=0, group=3),
        dict(module='encoder', path=['calc_structured_append_parity'], params={'content': STR}, ret=INT,
             opaque={"content.encode('iso-8859-1')": ('latin1', RAISES(BYTEARRAY)), "content.encode('shift-jis')": ('sjis', RAISES(BYTEARRAY)),
                     "content.encode('utf-8')": ('utf8', RAISES(BYTEARRAY))},
             samples={'content': ['x'], 'latin1': [[1, 2, 7], [], ('raise', 'UnicodeError'), [255]],
                      'sjis': [[0x81, 0x40], ('raise', 'UnicodeError'), ('raise', 'LookupError'), []],
                      'utf8': [[0xe2, 0x82, 0xac], [], ('raise', 'UnicodeError')]},
             pycall=lambda a: parity_with(enc, a)),
        dict(module='encoder', path=['is_kanji'], params={'data': BYTEARRAY}, ret=BOOL,
             samples={'data': [[], [0x81], [0x81, 0x40], [0x81, 0x7f], [0x9f, 0xfc, 0xe0, 0x40], [0xeb, 0xbf], [0xeb, 0xc0], [0xa0, 0x40],
                               [0x81, 0x40, 0x30], [0x30, 0x31], [0x81, 0x3f], [0xe0, 0x40, 0xeb, 0xbf, 0x93, 0x5f]]}),
        dict(module='encoder', path=['find_mode'], params={'data': BYTEARRAY}, ret=INT,
             opaque={'is_alphanumeric(data)': ('is_alnum', BOOL)},
             samples={'data': [[], [0x31], [0x31, 0x32, 0x33], [0x41, 0x42], [0x81, 0x40], [0x61], [0x81, 0x40, 0x30], [0x39, 0x3a]],
                      'is_alnum': [False, True]},
             pycall=lambda a: find_mode_with(enc, a)),
    ]
    for s in specs:
        s['part'] = 2
        s.setdefault('decide', 'decide +kernel')
    return specs


def segno_specs3(mods, trees, versions, levels):
    """round 3 (Gen/Funcs3.lean): the links between the regenerated pieces and `_encode`: data masking (`apply_mask` with
    the `is_encoding_region` closure of `find_and_apply_best_mask`) and module placement (`add_codewords`)"""
    enc, consts = mods['encoder'], mods['consts']
    MAT = LIST(BYTEARRAY)
    rnd = random.Random(5)

    def rand_matrix(n, top=1):
        return [[rnd.randint(0, top) for _ in range(n)] for _ in range(n)]

    def lean_matrix(m):
        return '[' + ', '.join('[' + ', '.join(str(x) for x in row) + ']' for row in m) + ']'

    def region(fm):
        """`is_encoding_region` over the function matrix `fm`, as a Python closure and as the Lean term it denotes (the
        translation of the nested function applied to `fm`)"""
        return FnSample(lambda i, j, fm=fm: fm[i][j] > 0x1, f'(is_encoding_region {lean_matrix(fm)})')
    patterns = enc.get_data_mask_functions(False)
    mask_terms = ['(fun i j => decide (Py.band (i + j) 1 = 0))', '(fun i _ => decide (Py.band i 1 = 0))', '(fun _ j => decide (j % 3 = 0))',
                  '(fun i j => decide ((i + j) % 3 = 0))']

    def mask(k):
        return FnSample(patterns[k], mask_terms[k])

    def region_call(a):
        f = nested_callable(enc, trees['encoder'], ['find_and_apply_best_mask', 'is_encoding_region'],
                            dict(function_matrix=[bytearray(r) for r in a['function_matrix']]))
        return f(a['i'], a['j'])
    fm5, fm7 = rand_matrix(5, 2), rand_matrix(7, 2)
    specs = [
        dict(module='encoder', path=['find_and_apply_best_mask', 'is_encoding_region'], params={'i': INT, 'j': INT},
             closure={'function_matrix': MAT}, ret=BOOL,
             samples={'function_matrix': [fm5], 'i': [-6, -5, -1, 0, 1, 2, 4, 5], 'j': [-6, -1, 0, 3, 4, 5]}, nsamples=48, pycall=region_call),
        dict(module='encoder', path=['apply_mask'],
             params={'matrix': MAT, 'mask_pattern': FN([INT, INT], BOOL), 'width': INT, 'height': INT,
                     'is_encoding_region': FN([INT, INT], BOOL, raises=True)},
             ret=NONE, mutates=['matrix'],
             cases=[(rand_matrix(5), mask(0), 5, 5, region(fm5)), (rand_matrix(7), mask(1), 7, 7, region(fm7)),
                    (rand_matrix(7), mask(2), 7, 7, region(fm7)), (rand_matrix(5), mask(3), 5, 5, region(fm5)),
                    (rand_matrix(5), mask(0), 6, 5, region(fm5)), (rand_matrix(5), mask(0), 5, 6, region(fm7)),
                    (rand_matrix(7), mask(3), 5, 4, region(fm5)), ([], mask(0), 0, 0, region(fm5)), ([], mask(0), 3, 1, region(fm5))],
             nsamples=0, group=3),
    ]
    bits = [rnd.randint(0, 1) for _ in range(400)]

    def blank(n, holes):
        """an n × n matrix of function modules (0 / 1) with `holes` cells still undefined (2)"""
        m = rand_matrix(n)
        cells = [(i, j) for i in range(n) for j in range(n)]
        rnd.shuffle(cells)
        for i, j in cells[:holes]:
            m[i][j] = 2
        return m
    specs += [
        dict(module='encoder', path=['add_codewords'], params={'matrix': MAT, 'codewords': BUFFER, 'version': INT},
             ret=NONE, mutates=['matrix'],
             cases=[(blank(11, 36), bits[:36], -3), (blank(13, 50), bits[:50], -2), (blank(15, 60), bits[:60], -1), (blank(9, 30), bits[:30], 0),
                    (blank(11, 40), bits[:40], 1), (blank(12, 40), bits[:40], 1), (blank(9, 20), bits[:25], 1), (blank(9, 20), bits[:15], -3),
                    ([], [], 1), ([], [1], -1), (blank(7, 20)[:5], bits[:20], 1)],
             nsamples=0, group=4),
    ]
    # ---- the data mask conditions and their tuple, the mask search
    grid = [(i, j) for i in (0, 1, 2, 3, 5, 6, 20) for j in (0, 1, 2, 4, 7, 9)]
    coords = [0, 1, 2, 3, 4, 5, 6, 7, 11, 12, 20, 176, -1, -3, -6]

    def fn_call(k):
        return lambda a: nested_callable(enc, trees['encoder'], ['get_data_mask_functions', f'fn{k}'], {})(a['i'], a['j'])
    specs += [dict(module='encoder', path=['get_data_mask_functions', f'fn{k}'], params={'i': INT, 'j': INT}, ret=BOOL,
                   samples={'i': coords, 'j': coords}, nsamples=60, group=60, pycall=fn_call(k)) for k in range(8)]
    obs = '(fun fs => fs.map (fun f => [' + ', '.join(f'f {i} {j}' for i, j in grid) + ']))'
    specs += [
        dict(module='encoder', path=['get_data_mask_functions'], params={'is_micro': BOOL}, ret=LIST(FN([INT, INT], BOOL)),
             check_wrap=obs, check_ret=LIST(LIST(BOOL)),
             pycall=lambda a: [[f(i, j) for i, j in grid] for f in enc.get_data_mask_functions(a['is_micro'])]),
    ]

    def best_mask_call(a):
        import unittest.mock
        with unittest.mock.patch.object(enc, 'make_matrix', lambda w, h: [bytearray(r) for r in a['function_matrix0']]):
            r = enc.find_and_apply_best_mask(a['matrix'], a['width'], a['height'], a['proposed_mask'])
        return (r[0], None if r[1] is None else [bytearray(x) for x in r[1]])

    def fm0(n):
        return [list(r) for r in enc.make_matrix(n, n)]

    def symbol(n):
        m = fm0(n)
        mm = [bytearray(r) for r in m]
        enc.add_finder_patterns(mm, n, n)
        enc.add_alignment_patterns(mm, n, n)
        return [[rnd.randint(0, 1) if x == 2 else x for x in r] for r in mm]
    specs += [
        dict(module='encoder', path=['find_and_apply_best_mask'],
             params={'matrix': MAT, 'width': INT, 'height': INT, 'proposed_mask': OPT(INT)}, ret=TUPLE(INT, OPT(MAT)), mutates=['matrix'],
             opaque={'make_matrix(width, height)': ('function_matrix0', MAT)},
             cases=[(symbol(11), 11, 11, None, fm0(11)), (symbol(13), 13, 13, 2, fm0(13)), (symbol(11), 11, 11, 4, fm0(11)),
                    (symbol(21), 21, 21, 5, fm0(21)), (symbol(21), 21, 21, 8, fm0(21)), (symbol(11), 11, 11, -1, fm0(11)),
                    (symbol(15), 15, 15, None, fm0(15))],
             # (no sample of the search over a QR Code: eight `mask_scores` of a 21 × 21 matrix cost the kernel ≈ 50 s; that path is
             # covered by the tie `find_and_apply_best_mask_tie` and by the samples of `evaluate_mask`)
             nsamples=0, group=2, pycall=best_mask_call),
    ]
    # ---- the data bit stream of one segment
    import types

    def write_segment_call(a):
        import unittest.mock
        seg = types.SimpleNamespace(mode=a['mode'], encoding=a['encoding'], char_count=a['char_count'], bits=tuple(a['bits']))

        def eci_number(encoding):
            r = a['eci_number']
            if isinstance(r, tuple) and r[0] == 'raise':
                raise ValueError('x')
            return r
        with unittest.mock.patch.object(enc, 'get_eci_assignment_number', eci_number):
            return enc.write_segment(a['buff'], seg, a['ver'], a['ver_range'], a['eci'])
    specs += [
        dict(module='encoder', path=['write_segment'],
             params={'buff': BUFFER, 'segment': OBJ('_Segment', mode=INT, encoding=OPT(STR), char_count=INT, bits=BUFFER),
                     'ver': OPT(INT), 'ver_range': INT, 'eci': BOOL},
             ret=NONE, mutates=['buff'],
             opaque={'get_eci_assignment_number(segment.encoding)': ('eci_number', RAISES(INT))},
             samples={'buff': [[], [1, 0, 1]], 'mode': [1, 2, 4, 8, 13, 3, 7], 'encoding': [None, 'iso-8859-1', 'utf-8'],
                      'char_count': [0, 1, 5, 300], 'bits': [[], [1, 0, 0, 1]], 'ver': [None, -3, -2, -1, 0], 'ver_range': [-3, -2, -1, 0, 1, 2, 3, 9],
                      'eci_number': [26, 3, ('raise', 'ValueError')]},
             nsamples=160, group=40, pycall=write_segment_call),
    ]
    def make_segment_call(a):
        import unittest.mock

        def conv(data, encoding):
            r = a['converted']
            if isinstance(r, tuple) and len(r) == 2 and r[0] == 'raise':
                raise ValueError('x')
            return bytes(r[0]), r[1], r[2]

        class B(bytes):
            pass
        real_int = int

        def int_of(x, *rest):
            if isinstance(x, (bytes, bytearray)) and not rest:
                return a['int_of'](list(x))
            return real_int(x, *rest)
        with unittest.mock.patch.object(enc, 'data_to_bytes', conv), unittest.mock.patch.object(enc, 'find_mode', lambda d: a['guessed']), \
                unittest.mock.patch.object(enc, 'int', int_of, create=True):
            seg = enc.make_segment(a['data'], a['mode'], a['encoding'])
        return (list(seg.bits), seg.char_count, seg.mode, seg.encoding)

    def digits(xs):
        if not xs or any(not 48 <= b <= 57 for b in xs):
            raise ValueError('x')
        return real_value(xs)

    def real_value(xs):
        v = 0
        for b in xs:
            v = v * 10 + b - 48
        return v
    int_sample = FnSample(digits, '(fun xs => if xs.isEmpty || xs.any (fun b => decide (b < 48 ∨ b > 57)) then Except.error PyExc.valueError '
                          'else Except.ok (xs.foldl (fun acc b => acc * 10 + (b - 48)) 0))')
    datas = [([0x31, 0x32, 0x33, 0x34, 0x35], 1), ([0x41, 0x42, 0x20, 0x39, 0x3a], 2), ([0x41, 0x42, 0x31, 0x24], 2), ([0x61, 0x62, 0xe4], 4),
             ([0x93, 0x5f, 0xe4, 0xaa], 8), ([0xb0, 0xa1, 0xd7, 0xfa], 13), ([], 1), ([0x37], 1), ([0x81, 0x40, 0x31], 4), ([0xa1, 0xa1, 0xaa, 0xff], 13),
             ([0x93, 0x5f, 0xe4, 0x3f], 8), ([0x31, 0x61], 1)]
    specs += [
        dict(module='encoder', path=['make_segment'], params={'data': STR, 'mode': OPT(INT), 'encoding': OPT(STR)},
             ret=TUPLE(BYTEARRAY, INT, INT, OPT(STR)),
             opaque={'data_to_bytes(data, encoding)': ('converted', RAISES(TUPLE(BYTEARRAY, INT, STR))),
                     'find_mode(segment_data)': ('guessed', INT)},
             opaque_calls={'int': ('int_of', FN([BYTEARRAY], INT, raises=True))},
             cases=[('x', md, enc_name, (d, len(d), 'utf-8'), g, int_sample)
                    for d, g in datas for md in (None, g, 4, 1) for enc_name in (None,)] +
                   [('x', None, 'utf-8', ('raise', 'ValueError'), 4, int_sample), ('x', 13, None, ([0xb0, 0xa1, 0xd7], 3, 'gb2312'), 4, int_sample),
                    ('x', 8, None, ([0x93, 0x5f], 2, 'shift_jis'), 8, int_sample), ('x', 2, None, ([0x41, 0x42, 0x43], 3, 'iso-8859-1'), 2, int_sample)],
             nsamples=0, group=13, pycall=make_segment_call),
    ]
    for s in specs:
        s['part'] = 3
        s.setdefault('decide', 'decide +kernel')
    return specs


def segno_specs4(mods, trees, versions, levels):
    """round 4 (Gen/Funcs4.lean): `make_matrix` — the matrix is BUILT here (`tuple(bytearray(row) for i in range(height))`:
    distinct rows), rows are reached through aliases (`row = matrix[i]`, `row_eight = matrix[8]`: views), negative indexes
    (`row[-11]`, `matrix[-i][8]`), and the round-2 translation of `add_timing_pattern` is called on the local matrix."""
    MAT = LIST(BYTEARRAY)
    sizes = [11, 13, 15, 17, 21, 25, 45, 49]
    flags = [(True, True), (True, False), (False, True), (False, False)]
    specs = [
        dict(module='encoder', path=['make_matrix'], params={'width': INT, 'height': INT, 'reserve_regions': BOOL, 'add_timing': BOOL},
             ret=MAT,
             cases=[(n, n, True, True) for n in sizes] + [(n, n, r, t) for n in (11, 21, 45) for (r, t) in flags[1:]] +
                   [(21, 25, r, t) for (r, t) in flags] + [(25, 21, True, True), (43, 43, True, True), (9, 9, True, True), (8, 8, True, True),
                                                           (8, 8, True, False), (7, 7, False, True), (6, 6, False, True), (0, 0, True, True),
                                                           (0, 0, False, False), (5, 0, False, True), (0, 3, False, False), (-2, 3, False, False),
                                                           (3, -2, False, False), (45, 10, True, False), (10, 45, True, False), (12, 9, True, True)],
             nsamples=0, group=4),
    ]
    for s in specs:
        s['part'] = 4
        s.setdefault('decide', 'decide +kernel')
    return specs


def segno_specs5(mods, trees, versions, levels):
    """round 5 (Gen/Funcs5.lean): the composition `_encode` — every step is a call of a translation of rounds 1 – 4; the object
    `segments` is handed on to `boost_error_level` and iterated over (its items go to `write_segment`); the opaque read
    `make_matrix(width, height)` of `find_and_apply_best_mask` is fed with the round-4 translation of `make_matrix`."""
    import types
    enc, consts = mods['encoder'], mods['consts']
    MAT = LIST(BYTEARRAY)
    SEG = OBJ('_Segment', mode=INT, encoding=OPT(STR), char_count=INT, bits=BUFFER, eci_number=RAISES(INT))
    SEGS = OBJ('Segments', __len__=INT, no_eci_indicators=INT, modes=LIST(INT), bit_length=INT, __iter__=LIST(SEG))
    SA = NT(mode=INT, number=INT, total=INT, parity=INT)

    def real_segments(content, mode=None, encoding=None):
        segs = enc.prepare_data(content, mode, encoding)
        items = [(s.mode, s.encoding, s.char_count, list(s.bits), 26) for s in segs]
        return (len(segs), 0, list(segs.modes), segs.bit_length, items)

    class FakeSegments:
        bit_length_with_overhead = enc.Segments.bit_length_with_overhead

        def __init__(self, a):
            self.modes, self.bit_length, self.n = a['modes'], a['bit_length'], a['n_segments']
            self.segments = [types.SimpleNamespace(mode=consts.MODE_BYTE, encoding='x-other')] * a['no_eci_indicators']
            self.items = [enc._Segment(tuple(bits), cc, md, en) for (md, en, cc, bits, _) in a['segments_items']]

        def __len__(self):
            return self.n

        def __iter__(self):
            return iter(self.items)

    def encode_call(a):
        sa = None if a['sa_info'] is None else enc._StructuredAppendInfo(*a['sa_info'][1:])
        c = enc._encode(FakeSegments(a), a['error'], a['version'], a['mask'], a['eci'], a['boost_error'], sa)
        return ([bytearray(r) for r in c.matrix], c.version, c.error, c.mask)

    def case(content, error, version, mask, boost, sa=None, mode=None):
        return real_segments(content, mode) + (error, version, mask, False, boost, sa)
    L, M, Q, H = consts.ERROR_LEVEL_L, consts.ERROR_LEVEL_M, consts.ERROR_LEVEL_Q, consts.ERROR_LEVEL_H
    specs = [
        dict(module='encoder', path=['_encode'],
             params={'segments': SEGS, 'error': OPT(INT), 'version': INT, 'mask': OPT(INT), 'eci': BOOL, 'boost_error': BOOL,
                     'sa_info': OPT(SA)},
             ret=TUPLE(MAT, INT, OPT(INT), INT),
             feeds={'find_and_apply_best_mask': {'function_matrix0': 'make_matrix(width, height)'}},
             cases=[case('123', None, consts.VERSION_M1, None, False),            # M1, the mask is searched
                    case('12345', L, consts.VERSION_M2, None, True),             # M2, boosted to M, mask searched
                    case('segno', Q, consts.VERSION_M4, 3, False),
                    case('HELLO WORLD', M, 1, 5, True),                          # version 1, boosted, requested mask
                    case('123', L, 1, 7, False, (3, 1, 2, 55)),                  # version 1 with a Structured Append header
                    case('https://example.org/', L, 2, 4, True),                 # version 2 (alignment pattern)
                    case('123456789', L, consts.VERSION_M1, 0, False),           # M1 has no level L: KeyError
                    ],
             # (no sample of the mask search over a QR Code: eight `mask_scores` of a 21 x 21 matrix cost the kernel ≈ 50 s; that path
             # is covered by `find_and_apply_best_mask_tie`)
             nsamples=0, group=1, pycall=encode_call),
    ]
    for s in specs:
        s['part'] = 5
        s.setdefault('decide', 'decide +kernel')
    return specs


def segno_specs6(mods, trees, versions, levels):
    """round 6 (Gen/Funcs6.lean): `Segments.add_segment` — a method that UPDATES `self` (`self.segments`, `self.bit_length`,
    `self.modes`): translated as the function from these three values and the segment to their final values (`self_state`)."""
    enc = mods['encoder']
    SEG = NT(bits=BUFFER, char_count=INT, mode=INT, encoding=OPT(STR))

    def add_segment_call(a):
        """the REAL method on a `Segments` object put into the given state; the final state is read back by the caller
        through the (updated in place) lists and, for the integer attribute, through the returned value"""
        segs = enc.Segments()
        segs.segments = a['self_segments']
        segs.bit_length = a['self_bit_length']
        segs.modes = a['self_modes']
        r = segs.add_segment(enc._Segment(*a['segment']))
        assert r is None and segs.segments is a['self_segments'] and segs.modes is a['self_modes']
        a['self_bit_length'] = segs.bit_length
        return None

    def seg(bits, cc, mode, encoding=None):
        return ([int(c) for c in bits], cc, mode, encoding)

    def state(*segs):
        return ([s for s in segs], sum(len(s[0]) for s in segs), [s[2] for s in segs])
    n3, n4, n1 = seg('0001111011', 3, 1), seg('00011110110100', 4, 1), seg('0111', 1, 1)
    a2, a1, a3 = seg('00111001101', 2, 2), seg('001010', 1, 2), seg('00111001101001100', 3, 2)
    b1, b2 = seg('01100001', 1, 4, 'iso-8859-1'), seg('0110000101100010', 2, 4, 'iso-8859-1')
    u1, bn = seg('11000011', 1, 4, 'utf-8'), seg('01100001', 1, 4, None)
    k1, k2, h1 = seg('0110110011111', 1, 8), seg('01101100111111101010101010', 2, 8), seg('0001101011111', 1, 13)
    e0 = seg('', 0, 1)
    cases = []
    for st, sg in [(state(), n3), (state(), b1), (state(), e0),
                   (state(n3), n3), (state(n3), n1), (state(n4), n3), (state(n1), n1), (state(n3, n3), n4), (state(e0), n3),
                   (state(a2), a1), (state(a1), a2), (state(a3), a2), (state(a2, a2), a3),
                   (state(b1), b1), (state(b1), b2), (state(b2), b1), (state(b1), u1), (state(u1), b1), (state(u1), u1), (state(b1), bn),
                   (state(bn), bn), (state(bn), b1),
                   (state(n3), a2), (state(a2), n3), (state(n3), b1), (state(b1), n3), (state(a2), b1), (state(n3, a2), a2),
                   (state(k1), k1), (state(k1), k2), (state(k2), k1), (state(h1), h1), (state(k1), h1), (state(h1), k1), (state(k1), b1),
                   (state(n3, a2, b1), b1), (state(n3, a2, b1), n3), (state(b1, n3), n3), (state(b1, n4), n3),
                   # states that violate the invariant (bit_length / modes unrelated to the segments): the method does not look
                   (([n3], 100, [7]), n3), (([n4, a2], -5, [1]), a2), (([b1], 0, []), b1), (([b1], 8, []), n3)]:
        cases.append((st[0], st[1], st[2], sg))
    # repeated merges: the state the real method reaches from the empty one, one step further
    acc = state()
    for sg in (n3, n3, n1, n3, a2, a2, a1, a2, b1, b1, u1):
        cases.append((acc[0], acc[1], acc[2], sg))
        ss = enc.Segments()
        ss.segments, ss.bit_length, ss.modes = [enc._Segment(*x) for x in acc[0]], acc[1], list(acc[2])
        ss.add_segment(enc._Segment(*sg))
        acc = ([(list(x.bits), x.char_count, x.mode, x.encoding) for x in ss.segments], ss.bit_length, list(ss.modes))
    specs = [
        dict(module='encoder', path=['Segments', 'add_segment'], self_state=['segments', 'bit_length', 'modes'],
             params={'self_segments': LIST(SEG), 'self_bit_length': INT, 'self_modes': LIST(INT), 'segment': SEG},
             ret=NONE, mutates=['self_segments', 'self_bit_length', 'self_modes'],
             cases=cases, nsamples=0, group=9, pycall=add_segment_call),
    ]
    for s in specs:
        s['part'] = 6
        s.setdefault('decide', 'decide +kernel')
    return specs


def parity_with(enc, a):
    """`calc_structured_append_parity(content)` with the three `content.encode(…)` reads replaced by the given outcomes"""
    outcomes = {'iso-8859-1': a['latin1'], 'shift-jis': a['sjis'], 'utf-8': a['utf8']}

    class S(str):
        def encode(self, encoding='utf-8', errors='strict'):
            r = outcomes[encoding]
            if isinstance(r, tuple) and r[0] == 'raise':
                raise {'UnicodeError': UnicodeError, 'LookupError': LookupError}[r[1]]('x')
            return bytes(r)
    return enc.calc_structured_append_parity(S(a['content']))


def find_mode_with(enc, a):
    """`find_mode(data)` with `is_alphanumeric(data)` replaced by the given truth value (the opaque read of the spec)"""
    import unittest.mock
    with unittest.mock.patch.object(enc, 'is_alphanumeric', lambda data: a['is_alnum']):
        return enc.find_mode(bytes(a['data']))


CHECK_SHARDS3 = 2     # Gen/Funcs3Check1.lean, Gen/Funcs3Check2.lean: round 3
CHECK_SHARDS = 4      # Gen/Funcs2Check1.lean … : the validation examples of round 2, built in parallel


def generate(repo, leandir, write_if_changed, modules):
    """writes Gen/Py.lean, Gen/Funcs.lean, Gen/FuncsCheck.lean; returns (changed flags, report)"""
    import os
    trees = {m: ast.parse(open(os.path.join(repo, 'segno', m + '.py')).read()) for m in ('encoder', 'utils', 'writers')}
    aliases = {}
    for m in trees:
        al = {}
        for nm, v in vars(modules[m]).items():
            if isinstance(v, type(ast)) and getattr(v, '__name__', '').startswith('segno'):
                al[nm] = v
        aliases[m] = al
    tr = Translation(modules, trees, aliases)
    for spec in segno_specs(modules, trees):
        tr.add(spec)
    here = os.path.dirname(os.path.abspath(__file__))
    prelude = open(os.path.join(here, 'py_prelude.lean')).read()
    prelude2 = open(os.path.join(here, 'py_prelude2.lean')).read()
    changed = [write_if_changed(os.path.join(leandir, 'Gen', 'Py.lean'), prelude),
               write_if_changed(os.path.join(leandir, 'Gen', 'Py2.lean'), prelude2),
               write_if_changed(os.path.join(leandir, 'Gen', 'Funcs.lean'), tr.funcs_text(1)),
               write_if_changed(os.path.join(leandir, 'Gen', 'FuncsCheck.lean'), tr.check_text(1)),
               write_if_changed(os.path.join(leandir, 'Gen', 'Funcs2.lean'), tr.funcs_text(2)),
               write_if_changed(os.path.join(leandir, 'Gen', 'Funcs2Check.lean'), tr.check_text(2, None, CHECK_SHARDS))]
    for k in range(CHECK_SHARDS):
        changed.append(write_if_changed(os.path.join(leandir, 'Gen', f'Funcs2Check{k + 1}.lean'), tr.check_text(2, k, CHECK_SHARDS)))
    changed += [write_if_changed(os.path.join(leandir, 'Gen', 'Funcs3.lean'), tr.funcs_text(3)),
                write_if_changed(os.path.join(leandir, 'Gen', 'Funcs3Check.lean'), tr.check_text(3, None, CHECK_SHARDS3))]
    for k in range(CHECK_SHARDS3):
        changed.append(write_if_changed(os.path.join(leandir, 'Gen', f'Funcs3Check{k + 1}.lean'), tr.check_text(3, k, CHECK_SHARDS3)))
    changed += [write_if_changed(os.path.join(leandir, 'Gen', 'Funcs4.lean'), tr.funcs_text(4)),
                write_if_changed(os.path.join(leandir, 'Gen', 'Funcs4Check.lean'), tr.check_text(4)),
                write_if_changed(os.path.join(leandir, 'Gen', 'Funcs5.lean'), tr.funcs_text(5)),
                write_if_changed(os.path.join(leandir, 'Gen', 'Funcs5Check.lean'), tr.check_text(5))]
    changed += [write_if_changed(os.path.join(leandir, 'Gen', 'Funcs6.lean'), tr.funcs_text(6)),
                write_if_changed(os.path.join(leandir, 'Gen', 'Funcs6Check.lean'), tr.check_text(6))]
    return changed, tr.report
