"""pytolean — AST translator (Tie A) for a typed integer / boolean / None subset of Python into Lean 4.

Grammar and typing rules: docs/TRANSLATOR.md.  Used by tools/gen.py to write lean/Gen/Funcs.lean (the translated
functions), lean/Gen/FuncsCheck.lean (translation validation: every translated function is evaluated by the Lean
kernel on sample arguments and compared with what the real Python function returned at generation time) and
lean/Gen/Py.lean (a verbatim copy of tools/py_prelude.lean: the Python primitives).

Principles
  * exact or loud: a construct outside the subset raises `Untranslatable`; the caller then emits a deliberately
    ill-typed definition (`untranslatable_<name>`), never an approximation;
  * parameters are typed by the spec (int / bool / Optional[int] / str / tuples of these / a fixed literal); the
    translation is the meaning of the function ON THAT DOMAIN (`int(x)` of an int is x, `x.upper()` of an int
    raises AttributeError, `isinstance(x, float)` of an int is False);
  * exceptions are values: a function that can raise returns `Except PyExc τ`; the message of an exception is not
    modelled (the arguments of `raise X(...)` are not evaluated);
  * module-level constants are read from the imported module at generation time (dumped as tables, in iteration
    order); reads from objects outside the subset (`matrix[i][j]`) can be declared as extra parameters (`opaque`).
"""
import ast
import itertools
import random


class Untranslatable(Exception):
    pass


class _NeedMonad(Exception):
    pass


class _CanRaise(Exception):
    pass


class _PhiFail(Exception):
    pass


# ------------------------------------------------------------------------------------ types
INT, BOOL, STR, NONE = 'int', 'bool', 'str', 'none'


def OPT(t):
    return ('opt', t)


def LIST(t):
    return ('list', t)


def DICT(k, v):
    return ('dict', k, v)


def TUPLE(*ts):
    return ('tuple',) + tuple(ts)


UNION_INT_STR = ('union', INT, STR)


class CONST:
    """parameter fixed to a literal value (specialisation of the function on that argument)"""

    def __init__(self, value):
        self.value = value


def lean_ty(t):
    if t == INT:
        return 'Int'
    if t == BOOL:
        return 'Bool'
    if t == STR:
        return 'String'
    if t == NONE:
        return 'Unit'
    if t[0] == 'opt':
        return f'(Option {lean_ty(t[1])})'
    if t[0] == 'list':
        return f'(List {lean_ty(t[1])})'
    if t[0] == 'dict':
        return f'(List ({lean_ty(t[1])} × {lean_ty(t[2])}))'
    if t[0] == 'tuple':
        return '(' + ' × '.join(lean_ty(x) for x in t[1:]) + ')'
    if t[0] == 'union':
        return f'(Sum {lean_ty(t[1])} {lean_ty(t[2])})'
    raise Untranslatable(f'type {t!r}')


_NC = object()   # "no compile-time constant"


class Val:
    """a pure Lean term with its Python-level type (and its value when it is a compile-time constant)"""

    def __init__(self, term, ty, const=_NC):
        self.term, self.ty, self.const = term, ty, const

    @property
    def is_const(self):
        return self.const is not _NC


LEAN_KEYWORDS = {'at', 'from', 'end', 'open', 'fun', 'do', 'then', 'else', 'if', 'let', 'have', 'show', 'match', 'with', 'in', 'by',
                 'where', 'def', 'instance', 'structure', 'class', 'namespace', 'section', 'import', 'mutual', 'return', 'for',
                 'theorem', 'example', 'abbrev', 'inductive', 'deriving', 'variable', 'universe', 'local', 'private', 'protected',
                 'partial', 'unsafe', 'Type', 'Prop', 'Sort', 'set_option', 'using', 'calc', 'suffices', 'nomatch', 'nofun',
                 'export', 'attribute', 'macro', 'syntax', 'notation', 'infix', 'prefix', 'postfix', 'opaque', 'axiom', 'extends',
                 'try', 'catch', 'finally', 'unless', 'mut', 'break', 'continue', 'true', 'false', 'some', 'none', 'id', 'exc'}


def lean_name(n):
    if not n.isidentifier() or not n.isascii():
        raise Untranslatable(f'identifier {n!r}')
    return f'«{n}»' if n in LEAN_KEYWORDS else n


def ind(s, n=2):
    pad = ' ' * n
    return '\n'.join(pad + line for line in s.split('\n'))


def int_lit(n):
    return f'({n} : Int)'


def str_lit(s):
    out = ['"']
    for ch in s:
        if ch == '"':
            out.append('\\"')
        elif ch == '\\':
            out.append('\\\\')
        elif ch == '\n':
            out.append('\\n')
        elif 32 <= ord(ch) < 127:
            out.append(ch)
        else:
            out.append('\\u{%x}' % ord(ch))
    out.append('"')
    return ''.join(out)


# ------------------------------------------------------------------------------------ exceptions
EXC = {'ValueError': 'valueError', 'KeyError': 'keyError', 'IndexError': 'indexError', 'TypeError': 'typeError',
       'AttributeError': 'attributeError', 'AssertionError': 'assertionError', 'DataOverflowError': 'dataOverflow',
       'UnicodeError': 'unicodeError', 'UnicodeEncodeError': 'unicodeError', 'UnicodeDecodeError': 'unicodeError',
       'LookupError': 'lookupError', 'ZeroDivisionError': 'zeroDivisionError'}
ALL_EXC = ['valueError', 'dataOverflow', 'indexError', 'keyError', 'typeError', 'attributeError', 'assertionError',
           'unicodeError', 'lookupError', 'zeroDivisionError']
# what an `except X` clause catches (X and its subclasses among the modelled classes)
CATCHES = {'Exception': ALL_EXC, 'BaseException': ALL_EXC,
           'ValueError': ['valueError', 'dataOverflow', 'unicodeError'], 'DataOverflowError': ['dataOverflow'],
           'UnicodeError': ['unicodeError'], 'LookupError': ['lookupError', 'keyError', 'indexError'],
           'KeyError': ['keyError'], 'IndexError': ['indexError'], 'TypeError': ['typeError'],
           'AttributeError': ['attributeError'], 'AssertionError': ['assertionError'],
           'ArithmeticError': ['zeroDivisionError'], 'ZeroDivisionError': ['zeroDivisionError']}


def err(name):
    return f'(Except.error PyExc.{name})'


def ok(term):
    return f'(Except.ok {term})'


def const_err(m):
    """name of the exception if the monadic term `m` is a constant `Except.error`, else None"""
    if m.startswith('(Except.error PyExc.') and m.endswith(')') and m.count('(') == 1:
        return m[len('(Except.error PyExc.'):-1]
    return None


def tuple_term(terms):
    return terms[0] if len(terms) == 1 else '(' + ', '.join(terms) + ')'


def proj(term, i, n):
    """component i of an n-tuple (right-nested products)"""
    if n == 1:
        return term
    if i == n - 1:
        return f'{term}' + '.2' * i
    return f'{term}' + '.2' * i + '.1'


def join_types(a, b):
    """least common type of two branches (None joins T to Optional[T]); None if there is none"""
    if a == b:
        return a
    if a == NONE and b in (INT, STR):
        return OPT(b)
    if b == NONE and a in (INT, STR):
        return OPT(a)
    if a == NONE and b[0] == 'opt':
        return b
    if b == NONE and a[0] == 'opt':
        return a
    if a[0] == 'opt' and a[1] == b:
        return a
    if b[0] == 'opt' and b[1] == a:
        return b
    if isinstance(a, tuple) and isinstance(b, tuple) and a[0] == b[0] == 'list':
        t = join_types(a[1], b[1])
        return None if t is None else LIST(t)
    if isinstance(a, tuple) and isinstance(b, tuple) and a[0] == b[0] == 'dict':
        k, v = join_types(a[1], b[1]), join_types(a[2], b[2])
        return None if k is None or v is None or k not in (INT, STR, OPT(INT)) else DICT(k, v)
    if {a, b} == {INT, STR}:
        return UNION_INT_STR
    return None


# ------------------------------------------------------------------------------------ constants of the module
class Tables:
    """module-level constants referred to by translated functions, dumped once each"""

    def __init__(self):
        self.defs = {}      # lean name -> (type, text)
        self.order = []

    def type_of(self, v, where):
        if isinstance(v, bool):
            return BOOL
        if isinstance(v, int):
            return INT
        if isinstance(v, str):
            return STR
        if v is None:
            return NONE
        if isinstance(v, (bytes, bytearray)):
            return LIST(INT)
        if isinstance(v, (tuple, list)):
            if not v:
                return LIST(INT)
            return LIST(self.join_all([self.type_of(x, where) for x in v], where))
        if isinstance(v, dict):
            if not v:
                raise Untranslatable(f'{where}: empty dict')
            kt = self.join_all([self.type_of(k, where) for k in v.keys()], where)
            vt = self.join_all([self.type_of(x, where) for x in v.values()], where)
            if kt == NONE:
                kt = OPT(INT)
            if kt not in (INT, STR, OPT(INT)):
                raise Untranslatable(f'{where}: dict keys of type {kt}')
            return DICT(kt, vt)
        raise Untranslatable(f'{where}: constant of type {type(v).__name__}')

    def join_all(self, ts, where):
        t = ts[0]
        for u in ts[1:]:
            t = join_types(t, u)
            if t is None:
                raise Untranslatable(f'{where}: heterogeneous constant')
        return t

    def literal(self, v, t):
        if t == INT:
            if isinstance(v, bool) or not isinstance(v, int):
                raise Untranslatable(f'value {v!r} is not an int')
            return f'({v})' if v < 0 else str(v)
        if t == BOOL:
            if not isinstance(v, bool):
                raise Untranslatable(f'value {v!r} is not a bool')
            return 'true' if v else 'false'
        if t == STR:
            if not isinstance(v, str):
                raise Untranslatable(f'value {v!r} is not a str')
            return str_lit(v)
        if t == NONE:
            if v is not None:
                raise Untranslatable(f'value {v!r} is not None')
            return '()'
        if t[0] == 'opt':
            return 'none' if v is None else f'(some {self.literal(v, t[1])})'
        if t[0] == 'list':
            return '[' + ', '.join(self.literal(x, t[1]) for x in v) + ']'
        if t[0] == 'dict':
            return '[' + ', '.join(f'({self.literal(k, t[1])}, {self.literal(x, t[2])})' for k, x in v.items()) + ']'
        if t[0] == 'tuple':
            if not isinstance(v, tuple) or len(v) != len(t) - 1:
                raise Untranslatable(f'value {v!r} is not a {len(t) - 1}-tuple')
            return '(' + ', '.join(self.literal(x, u) for x, u in zip(v, t[1:])) + ')'
        if t[0] == 'union':
            if isinstance(v, int) and not isinstance(v, bool):
                return f'(Sum.inl {self.literal(v, INT)})'
            return f'(Sum.inr {self.literal(v, STR)})'
        raise Untranslatable(f'literal of type {t}')

    def table(self, qual, v):
        """register constant `qual` (e.g. consts.FORMAT_INFO) -> Val referring to the dumped table"""
        name = 'T_' + ''.join(ch if ch.isalnum() or ch == '_' else '_' for ch in qual).strip('_')
        if name not in self.defs:
            t = self.type_of(v, qual)
            self.defs[name] = (t, f'/-- `{qual}` (read from the imported module, iteration order kept) -/\n'
                                  f'def {name} : {lean_ty(t)} :=\n  {self.literal(v, t)}')
            self.order.append(name)
        return Val(name, self.defs[name][0], const=v)


# ------------------------------------------------------------------------------------ the translator: expressions
class Ctx:
    """impure sub-expressions hoisted in evaluation order: (name, monadic term, type)"""

    def __init__(self):
        self.binds = []


def BIND(name, m, ty, body):
    return f'(Py.bind ({m} : M {lean_ty(ty)}) (fun {name} =>\n{ind(body)}))'


def seal(binds, final):
    """the hoisted computations `binds` around the monadic term `final`"""
    for k, (name, m, ty) in enumerate(binds):
        if const_err(m):            # a computation that always raises: what follows is dead code (exact)
            binds, final = binds[:k], m
            break
    if binds and final == ok(binds[-1][0]):
        # `match m with | error e => error e | ok t => ok t` is m (right identity of the exception monad)
        name, m, ty = binds[-1]
        binds, final = binds[:-1], f'({m} : M {lean_ty(ty)})'
    for name, m, ty in reversed(binds):
        final = BIND(name, m, ty, final)
    return final


class FnTranslator:
    def __init__(self, spec, module, fn_node, registry, tables, module_aliases):
        self.spec, self.module, self.fn, self.registry, self.tables = spec, module, fn_node, registry, tables
        self.module_aliases = module_aliases   # name in the source -> imported module object (e.g. 'consts')
        self.monadic = False
        self.noraise = False
        self.phi_depth = 0
        self.loop_depth = 0
        self.counter = {}
        self.ret_ty = spec['ret']
        self.opaque = spec.get('opaque', {})   # source text of an expression -> (parameter name, type)
        self.size = 0

    # ------------------------------------------------------------ helpers
    def fresh(self, base):
        k = self.counter.get(base, 0) + 1
        self.counter[base] = k
        return f"{lean_name(base)}'{k}"

    def need_monad(self, why):
        if self.noraise:
            raise _CanRaise(why)
        if self.phi_depth:
            raise _PhiFail(why)
        if self.loop_depth:
            raise Untranslatable(f'{why}: can raise inside a loop body')
        if not self.monadic:
            raise _NeedMonad(why)

    def bind(self, ctx, mterm, ty):
        """hoist a raising computation; returns the Val of its result"""
        self.need_monad(mterm[:40])
        name = self.fresh('t')
        ctx.binds.append((name, mterm, ty))
        return Val(name, ty)

    def const_val(self, qual, v):
        if isinstance(v, bool):
            return Val('true' if v else 'false', BOOL, const=v)
        if isinstance(v, int):
            return Val(int_lit(v), INT, const=v)
        if isinstance(v, str):
            return Val(str_lit(v), STR, const=v)
        if v is None:
            return Val('()', NONE, const=None)
        if isinstance(v, (tuple, list, dict, bytes, bytearray)):
            return self.tables.table(qual, v)
        raise Untranslatable(f'{qual}: constant of type {type(v).__name__}')

    def coerce(self, v, ty):
        if v.ty == ty:
            return v
        if isinstance(ty, tuple) and ty[0] == 'opt':
            if v.ty == NONE:
                return Val('none', ty, const=None)
            if v.ty == ty[1]:
                return Val(f'(some {v.term})', ty, const=v.const)
        if isinstance(ty, tuple) and ty[0] == 'union':
            if v.ty == ty[1]:
                return Val(f'(Sum.inl {v.term})', ty)
            if v.ty == ty[2]:
                return Val(f'(Sum.inr {v.term})', ty)
        raise Untranslatable(f'a value of type {v.ty} where {ty} is expected')

    def truth(self, v):
        """Python truthiness of a value"""
        if v.ty == BOOL:
            return v
        if v.is_const and not isinstance(v.const, (tuple, list, dict, bytes, bytearray)):
            b = bool(v.const)
            return Val('true' if b else 'false', BOOL, const=b)
        if v.ty == INT:
            return Val(f'({v.term} != 0)', BOOL)
        if v.ty == STR:
            return Val(f'({v.term} != "")', BOOL)
        if v.ty == NONE:
            return Val('false', BOOL, const=False)
        if isinstance(v.ty, tuple) and v.ty[0] in ('list', 'dict'):
            return Val(f'(!({v.term}).isEmpty)', BOOL)
        raise Untranslatable(f'truth value of a {v.ty}')

    def none_test(self, e, env):
        """`X is None` / `X is not None` / `not (…)` on a local name -> (name, tests_for_none)"""
        if isinstance(e, ast.UnaryOp) and isinstance(e.op, ast.Not):
            r = self.none_test(e.operand, env)
            return None if r is None else (r[0], not r[1])
        if isinstance(e, ast.Compare) and len(e.ops) == 1 and isinstance(e.ops[0], (ast.Is, ast.IsNot)) \
                and isinstance(e.left, ast.Name) and e.left.id in env \
                and isinstance(e.comparators[0], ast.Constant) and e.comparators[0].value is None \
                and ast.unparse(e.left) not in self.opaque:
            return e.left.id, isinstance(e.ops[0], ast.Is)
        return None

    def narrow(self, env, name):
        """environments for the two cases of an Optional local: (is None, is not None with its Lean name)"""
        v = env[name]
        x = self.fresh(name)
        return {**env, name: Val('()', NONE, const=None)}, {**env, name: Val(x, v.ty[1])}, x

    # ------------------------------------------------------------ expressions
    def ex(self, e, env, ctx):
        src = ast.unparse(e)
        if src in self.opaque:
            name, ty = self.opaque[src]
            return Val(lean_name(name), ty)
        if isinstance(e, ast.Constant):
            if isinstance(e.value, (bool, int, str)) or e.value is None:
                return self.const_val(src, e.value)
            raise Untranslatable(f'literal {src}')
        if isinstance(e, ast.Name):
            if e.id in env:
                return env[e.id]
            if e.id in vars(self.module) and not callable(vars(self.module)[e.id]) and e.id not in self.module_aliases:
                return self.const_val(e.id, vars(self.module)[e.id])
            raise Untranslatable(f'name {e.id}')
        if isinstance(e, ast.Attribute):
            if isinstance(e.value, ast.Name) and e.value.id in self.module_aliases and e.value.id not in env:
                mod = self.module_aliases[e.value.id]
                if not hasattr(mod, e.attr):
                    raise Untranslatable(f'{src} does not exist')
                return self.const_val(src, getattr(mod, e.attr))
            raise Untranslatable(f'attribute {src}')
        if isinstance(e, ast.Tuple):
            vs = [self.ex(x, env, ctx) for x in e.elts]
            return Val('(' + ', '.join(v.term for v in vs) + ')', TUPLE(*[v.ty for v in vs]))
        if isinstance(e, ast.BinOp):
            return self.binop(e, env, ctx)
        if isinstance(e, ast.UnaryOp):
            if isinstance(e.op, ast.Not):
                v = self.truth(self.ex_truth(e.operand, env, ctx))
                if v.is_const:
                    return Val('false' if v.const else 'true', BOOL, const=not v.const)
                return Val(f'(!{v.term})', BOOL)
            v = self.ex(e.operand, env, ctx)
            if v.ty != INT:
                raise Untranslatable(f'unary operator on a {v.ty}')
            if isinstance(e.op, ast.USub):
                return Val(int_lit(-v.const), INT, const=-v.const) if v.is_const else Val(f'(-{v.term})', INT)
            if isinstance(e.op, ast.UAdd):
                return v
            if isinstance(e.op, ast.Invert):
                return Val(f'(-{v.term} - 1)', INT)
        if isinstance(e, ast.BoolOp):
            return self.boolop(isinstance(e.op, ast.And), e.values, env, ctx, False)
        if isinstance(e, ast.Compare):
            return self.compare(e, env, ctx)
        if isinstance(e, ast.IfExp):
            return self.ifexp(e, env, ctx)
        if isinstance(e, ast.Subscript):
            return self.subscript(e, env, ctx)
        if isinstance(e, ast.Call):
            return self.call(e, env, ctx)
        raise Untranslatable(f'expression {src[:60]}')

    def ex_truth(self, e, env, ctx):
        """expression in a truth context (operands of and / or need not be booleans)"""
        if isinstance(e, ast.BoolOp) and ast.unparse(e) not in self.opaque:
            return self.boolop(isinstance(e.op, ast.And), e.values, env, ctx, True)
        return self.truth(self.ex(e, env, ctx))

    def binop(self, e, env, ctx):
        a = self.ex(e.left, env, ctx)
        b = self.ex(e.right, env, ctx)
        if a.ty != INT or b.ty != INT:
            raise Untranslatable(f'{type(e.op).__name__} on {a.ty} and {b.ty}')
        op = type(e.op)
        if op in (ast.Add, ast.Sub, ast.Mult):
            return Val(f'({a.term} {"+" if op is ast.Add else "-" if op is ast.Sub else "*"} {b.term})', INT)
        if op in (ast.FloorDiv, ast.Mod):
            div = op is ast.FloorDiv
            if b.is_const and b.const > 0:      # floor = Euclidean division for a positive divisor
                return Val(f'({a.term} {"/" if div else "%"} {b.term})', INT)
            if b.is_const and b.const < 0:
                return Val(f'(Int.{"fdiv" if div else "fmod"} {a.term} {b.term})', INT)
            return self.bind(ctx, f'(Py.{"floordiv" if div else "mod"} {a.term} {b.term})', INT)
        if op in (ast.LShift, ast.RShift):
            left = op is ast.LShift
            if b.is_const and 0 <= b.const <= 64:
                return Val(f'({a.term} {"*" if left else "/"} {int_lit(2 ** b.const)})', INT)
            return self.bind(ctx, f'(Py.{"shl" if left else "shr"} {a.term} {b.term})', INT)
        if op in (ast.BitAnd, ast.BitOr, ast.BitXor):
            return Val(f'(Py.{"band" if op is ast.BitAnd else "bor" if op is ast.BitOr else "bxor"} {a.term} {b.term})', INT)
        if op is ast.Pow and b.is_const and 0 <= b.const <= 64:
            return Val(f'({a.term} ^ {b.const})', INT)
        raise Untranslatable(f'operator {op.__name__}')

    def boolop(self, is_and, values, env, ctx, truthy):
        first, rest = values[0], values[1:]
        if not rest:
            return self.ex_truth(first, env, ctx) if truthy else self.ex(first, env, ctx)
        absorbing = 'false' if is_and else 'true'
        nt = self.none_test(first, env)
        if nt is not None and isinstance(env[nt[0]].ty, tuple) and env[nt[0]].ty[0] == 'opt':
            name, isnone = nt
            env_none, env_some, x = self.narrow(env, name)
            # `X is not None and C` / `X is None or C`: C is evaluated only when X is not None
            # `X is None and C` / `X is not None or C`: C is evaluated only when X is None
            c_when_some = (is_and and not isnone) or (not is_and and isnone)
            sub = Ctx()
            r = self.boolop(is_and, rest, env_some if c_when_some else env_none, sub, True)
            a_none, a_some = (absorbing, None) if c_when_some else (None, absorbing)
            if sub.binds:
                inner = seal(sub.binds, ok(r.term))
                m = (f'(match {env[name].term} with\n  | none => {ok(a_none) if a_none else inner}\n'
                     f'  | some {x} => {ok(a_some) if a_some else inner})')
                return self.bind(ctx, m, BOOL)
            return Val(f'(match {env[name].term} with | none => {a_none or r.term} | some {x} => {a_some or r.term})', BOOL)
        a = self.ex_truth(first, env, ctx) if truthy else self.ex(first, env, ctx)
        if a.ty != BOOL:
            raise Untranslatable('and / or on non-boolean operands outside a truth context')
        if a.is_const:
            if bool(a.const) != is_and:       # False and … / True or …: the rest is not evaluated
                return Val(absorbing, BOOL, const=not is_and)
            return self.boolop(is_and, rest, env, ctx, truthy)
        sub = Ctx()
        b = self.boolop(is_and, rest, env, sub, truthy)
        if b.ty != BOOL:
            raise Untranslatable('and / or on non-boolean operands outside a truth context')
        if sub.binds:
            inner = seal(sub.binds, ok(b.term))
            m = f'(if {a.term} then {inner} else {ok("false")})' if is_and else f'(if {a.term} then {ok("true")} else {inner})'
            return self.bind(ctx, m, BOOL)
        return Val(f'({a.term} {"&&" if is_and else "||"} {b.term})', BOOL)

    def compare_one(self, op, a, b):
        """one comparison of two evaluated values"""
        if isinstance(op, (ast.Is, ast.IsNot)):
            if not (b.is_const and b.const is None):
                raise Untranslatable('`is` with something else than None')
            if a.ty == NONE:
                r = Val('true', BOOL, const=True)
            elif isinstance(a.ty, tuple) and a.ty[0] == 'opt':
                r = Val(f'({a.term}).isNone', BOOL)
            else:
                r = Val('false', BOOL, const=False)
            return r if isinstance(op, ast.Is) else self.negate(r)
        if isinstance(op, (ast.Eq, ast.NotEq)):
            r = self.equal(a, b)
            return r if isinstance(op, ast.Eq) else self.negate(r)
        sym = {ast.Lt: '<', ast.LtE: '≤', ast.Gt: '>', ast.GtE: '≥'}.get(type(op))
        if sym is None:
            raise Untranslatable(f'comparison {type(op).__name__}')
        if a.ty != INT or b.ty != INT:
            raise Untranslatable(f'order comparison of {a.ty} and {b.ty}')
        if a.is_const and b.is_const:
            r = {'<': a.const < b.const, '≤': a.const <= b.const, '>': a.const > b.const, '≥': a.const >= b.const}[sym]
            return Val('true' if r else 'false', BOOL, const=r)
        return Val(f'(decide ({a.term} {sym} {b.term}))', BOOL)

    def negate(self, v):
        if v.is_const:
            return Val('false' if v.const else 'true', BOOL, const=not v.const)
        return Val(f'(!{v.term})', BOOL)

    def equal(self, a, b):
        scalar = (INT, BOOL, STR)
        if a.ty == b.ty and a.ty in scalar:
            if a.is_const and b.is_const:
                return Val('true' if a.const == b.const else 'false', BOOL, const=(a.const == b.const))
            return Val(f'({a.term} == {b.term})', BOOL)
        if a.ty == NONE and b.ty == NONE:
            return Val('true', BOOL, const=True)
        for x, y in ((a, b), (b, a)):
            if isinstance(x.ty, tuple) and x.ty[0] == 'opt':
                if y.ty == x.ty:
                    return Val(f'({a.term} == {b.term})', BOOL)
                if y.ty == x.ty[1]:
                    return Val(f'({x.term} == some {y.term})', BOOL)
                if y.ty == NONE:
                    return Val(f'({x.term}).isNone', BOOL)
        if NONE in (a.ty, b.ty) and (a.ty in scalar or b.ty in scalar):
            return Val('false', BOOL, const=False)       # an int / str / bool is never equal to None
        if {a.ty, b.ty} == {INT, STR}:
            return Val('false', BOOL, const=False)
        raise Untranslatable(f'== between {a.ty} and {b.ty}')

    def member(self, a, rhs, env, ctx):
        """`a in rhs`"""
        if isinstance(rhs, (ast.Tuple, ast.List)) and ast.unparse(rhs) not in self.opaque:
            parts = [self.equal(a, self.ex(x, env, ctx)) for x in rhs.elts]
            parts = [p for p in parts if not (p.is_const and not p.const)]
            if any(p.is_const and p.const for p in parts):
                return Val('true', BOOL, const=True)
            if not parts:
                return Val('false', BOOL, const=False)
            return Val('(' + ' || '.join(p.term for p in parts) + ')', BOOL)
        c = self.ex(rhs, env, ctx)
        if isinstance(c.ty, tuple) and c.ty[0] == 'list':
            y = self.fresh('y')
            eq = self.equal(a, Val(y, c.ty[1]))
            return Val(f'(({c.term}).any (fun {y} => {eq.term}))', BOOL)
        if isinstance(c.ty, tuple) and c.ty[0] == 'dict':
            return Val(f'(Py.hasKey {c.term} {self.coerce(a, c.ty[1]).term})', BOOL)
        raise Untranslatable(f'`in` on a {c.ty}')

    def compare(self, e, env, ctx):
        left = self.ex(e.left, env, ctx)
        parts = []
        for k, (op, right) in enumerate(zip(e.ops, e.comparators)):
            sub = ctx if k == 0 else Ctx()
            if isinstance(op, (ast.In, ast.NotIn)):
                r = self.member(left, right, env, sub)
                if isinstance(op, ast.NotIn):
                    r = self.negate(r)
                rv = None
            else:
                rv = self.ex(right, env, sub)
                r = self.compare_one(op, left, rv)
            if sub is not ctx and sub.binds:
                raise Untranslatable('a later operand of a chained comparison can raise')
            parts.append(r)
            left = rv
            if rv is None and k + 1 < len(e.ops):
                raise Untranslatable('chained comparison after `in`')
        if any(p.is_const and not p.const for p in parts):
            # (a constant False link makes the chain False; earlier operands are pure here)
            if not ctx.binds:
                return Val('false', BOOL, const=False)
        live = [p for p in parts if not (p.is_const and p.const)]
        if not live:
            return Val('true', BOOL, const=True)
        return live[0] if len(live) == 1 else Val('(' + ' && '.join(p.term for p in live) + ')', BOOL)

    def branch_pair(self, ctx, test_term, ta, tb, suba, subb):
        """conditional expression whose branches (terms ta / tb with hoisted computations suba / subb) may raise"""
        ty = join_types(ta.ty, tb.ty)
        if ty is None:
            raise Untranslatable(f'branches of types {ta.ty} and {tb.ty}')
        ta, tb = self.coerce(ta, ty), self.coerce(tb, ty)
        return ty, ta, tb

    def ifexp(self, e, env, ctx):
        nt = self.none_test(e.test, env)
        if nt is not None and isinstance(env[nt[0]].ty, tuple) and env[nt[0]].ty[0] == 'opt':
            name, isnone = nt
            env_none, env_some, x = self.narrow(env, name)
            sn, ss = Ctx(), Ctx()
            vn = self.ex(e.body if isnone else e.orelse, env_none, sn)
            vs = self.ex(e.orelse if isnone else e.body, env_some, ss)
            ty, vn, vs = self.branch_pair(ctx, None, vn, vs, sn, ss)
            if sn.binds or ss.binds:
                m = (f'(match {env[name].term} with\n  | none => {seal(sn.binds, ok(vn.term))}\n'
                     f'  | some {x} => {seal(ss.binds, ok(vs.term))})')
                return self.bind(ctx, m, ty)
            return Val(f'(match {env[name].term} with | none => {vn.term} | some {x} => {vs.term})', ty)
        c = self.ex_truth(e.test, env, ctx)
        if c.is_const:
            return self.ex(e.body if c.const else e.orelse, env, ctx)
        sa, sb = Ctx(), Ctx()
        va = self.ex(e.body, env, sa)
        vb = self.ex(e.orelse, env, sb)
        ty, va, vb = self.branch_pair(ctx, c.term, va, vb, sa, sb)
        if sa.binds or sb.binds:
            return self.bind(ctx, f'(if {c.term} then {seal(sa.binds, ok(va.term))} else {seal(sb.binds, ok(vb.term))})', ty)
        return Val(f'(if {c.term} then {va.term} else {vb.term})', ty)

    def subscript(self, e, env, ctx):
        if isinstance(e.slice, ast.Slice):
            raise Untranslatable('slice')
        if isinstance(e.value, (ast.Tuple, ast.List)) and ast.unparse(e.value) not in self.opaque:
            vs = [self.ex(x, env, ctx) for x in e.value.elts]
            if not vs:
                raise Untranslatable('index into an empty tuple')
            ty = vs[0].ty
            for v in vs[1:]:
                ty = join_types(ty, v.ty)
                if ty is None:
                    raise Untranslatable('heterogeneous tuple literal')
            idx = self.ex(e.slice, env, ctx)
            if idx.ty != INT:
                raise Untranslatable(f'index of type {idx.ty}')
            items = '[' + ', '.join(self.coerce(v, ty).term for v in vs) + ']'
            return self.bind(ctx, f'(Py.index {items} {idx.term})', ty)
        c = self.ex(e.value, env, ctx)
        k = self.ex(e.slice, env, ctx)
        if isinstance(c.ty, tuple) and c.ty[0] == 'list':
            if k.ty != INT:
                raise Untranslatable(f'index of type {k.ty}')
            return self.bind(ctx, f'(Py.index {c.term} {k.term})', c.ty[1])
        if isinstance(c.ty, tuple) and c.ty[0] == 'dict':
            if k.ty == NONE and c.ty[1] in (INT, STR):
                return self.bind(ctx, err('keyError'), c.ty[2])
            if {k.ty, c.ty[1]} == {INT, STR}:
                return self.bind(ctx, err('keyError'), c.ty[2])
            return self.bind(ctx, f'(Py.lookup {c.term} {self.coerce(k, c.ty[1]).term})', c.ty[2])
        if isinstance(c.ty, tuple) and c.ty[0] == 'tuple' and k.is_const and isinstance(k.const, int):
            n = len(c.ty) - 1
            if not -n <= k.const < n:
                return self.bind(ctx, err('indexError'), INT)
            i = k.const % n
            return Val(proj(c.term, i, n), c.ty[1 + i])
        raise Untranslatable(f'subscript of a {c.ty}')

    # ------------------------------------------------------------ calls
    def call(self, e, env, ctx):
        f = e.func
        if isinstance(f, ast.Name) and f.id not in env:
            nm = f.id
            if nm in self.registry and self.resolves_to(nm, vars(self.module).get(nm, self.registry[nm].get('pyobj'))):
                return self.call_translated(self.registry[nm], e, env, ctx)
            if nm in ('int', 'len', 'min', 'max', 'abs', 'divmod', 'isinstance', 'bool', 'sum') and nm not in vars(self.module):
                return self.builtin(nm, e, env, ctx)
            raise Untranslatable(f'call of {nm}')
        if isinstance(f, ast.Attribute):
            if isinstance(f.value, ast.Name) and f.value.id in self.module_aliases and f.value.id not in env:
                mod = self.module_aliases[f.value.id]
                if f.attr in self.registry and self.resolves_to(f.attr, getattr(mod, f.attr, None)):
                    return self.call_translated(self.registry[f.attr], e, env, ctx)
                raise Untranslatable(f'call of {ast.unparse(f)}')
            recv = self.ex(f.value, env, ctx)
            if e.keywords:
                raise Untranslatable(f'keyword arguments of method {f.attr}')
            if isinstance(recv.ty, tuple) and recv.ty[0] == 'dict' and recv.is_const:
                qual = ast.unparse(f.value)
                if f.attr == 'values' and not e.args:
                    return self.tables.table(qual + '.values()', list(recv.const.values()))
                if f.attr == 'keys' and not e.args:
                    return self.tables.table(qual + '.keys()', list(recv.const.keys()))
                if f.attr == 'get' and len(e.args) == 2:
                    k = self.ex(e.args[0], env, ctx)
                    d = self.ex(e.args[1], env, ctx)
                    return Val(f'(Py.getD {recv.term} {self.coerce(k, recv.ty[1]).term} {self.coerce(d, recv.ty[2]).term})', recv.ty[2])
            if recv.ty in (INT, BOOL, NONE) and f.attr in ('upper', 'lower', 'strip', 'encode', 'decode', 'startswith', 'endswith',
                                                          'replace', 'split', 'join', 'format', 'isdigit', 'find', 'items', 'keys',
                                                          'values', 'get', 'append', 'extend'):
                # the attribute look-up fails before any argument is evaluated
                return self.bind(ctx, err('attributeError'), STR)
            raise Untranslatable(f'method {f.attr} of a {recv.ty}')
        raise Untranslatable(f'call {ast.unparse(e)[:50]}')

    def resolves_to(self, name, obj):
        ent = self.registry[name]
        return ent.get('pyobj') is None or obj is ent['pyobj'] or getattr(obj, '__wrapped__', None) is ent['pyobj']

    def call_translated(self, ent, e, env, ctx):
        names = [p for p, _ in ent['params']]
        given = {}
        if len(e.args) > len(names):
            raise Untranslatable(f'too many arguments for {ent["name"]}')
        for p, a in zip(names, e.args):
            if isinstance(a, ast.Starred):
                raise Untranslatable('*args')
            given[p] = a
        for kw in e.keywords:
            if kw.arg is None or kw.arg not in names or kw.arg in given:
                raise Untranslatable(f'keyword {kw.arg} of {ent["name"]}')
            given[kw.arg] = kw.value
        # Python evaluates the arguments in the order they are written
        vals = {}
        for p in list(given):
            vals[p] = self.ex(given[p], env, ctx)
        args = []
        for p, ty in ent['params']:
            if p in vals:
                v = vals[p]
            elif p in ent['defaults']:
                v = self.const_val(p, ent['defaults'][p])
            else:
                raise Untranslatable(f'argument {p} of {ent["name"]} missing')
            if isinstance(ty, CONST):
                if not (v.is_const and v.const == ty.value and type(v.const) is type(ty.value)):
                    raise Untranslatable(f'{ent["name"]} is translated for {p}={ty.value!r} only')
                continue
            args.append(self.coerce(v, ty).term)
        for p in ent.get('extra', []):
            raise Untranslatable(f'{ent["name"]} has closure / opaque parameters and cannot be called from translated code')
        term = '(' + ' '.join([ent['lean']] + args) + ')' if args else ent['lean']
        if ent['monadic']:
            return self.bind(ctx, term, ent['ret'])
        return Val(term, ent['ret'])

    def builtin(self, nm, e, env, ctx):
        if e.keywords:
            raise Untranslatable(f'keyword arguments of {nm}')
        if nm == 'sum':
            return self.sum_call(e, env, ctx)
        if nm == 'isinstance':
            if len(e.args) != 2:
                raise Untranslatable('isinstance arity')
            v = self.ex(e.args[0], env, ctx)
            classes = e.args[1].elts if isinstance(e.args[1], ast.Tuple) else [e.args[1]]
            if not all(isinstance(c, ast.Name) and c.id in ('int', 'float', 'str', 'bytes', 'bool', 'tuple', 'list', 'dict', 'bytearray')
                       for c in classes):
                raise Untranslatable('isinstance class')
            if v.ty not in (INT, BOOL, STR):
                raise Untranslatable(f'isinstance of a {v.ty}')
            inst = {INT: {'int'}, BOOL: {'bool', 'int'}, STR: {'str'}}[v.ty]
            r = any(c.id in inst for c in classes)
            return Val('true' if r else 'false', BOOL, const=r)
        args = [self.ex(a, env, ctx) for a in e.args]
        if nm == 'int' and len(args) == 1:
            if args[0].ty == INT:
                return args[0]
            if args[0].ty == BOOL:
                return Val(f'(if {args[0].term} then (1 : Int) else (0 : Int))', INT)
            if args[0].ty == NONE:
                return self.bind(ctx, err('typeError'), INT)
        if nm == 'bool' and len(args) == 1:
            return self.truth(args[0])
        if nm == 'len' and len(args) == 1 and isinstance(args[0].ty, tuple) and args[0].ty[0] in ('list', 'dict'):
            return Val(f'(Int.ofNat ({args[0].term}).length)', INT)
        if nm in ('min', 'max') and len(args) == 2 and args[0].ty == INT and args[1].ty == INT:
            return Val(f'({nm} {args[0].term} {args[1].term})', INT)
        if nm == 'abs' and len(args) == 1 and args[0].ty == INT:
            return Val(f'(Int.ofNat (Int.natAbs {args[0].term}))', INT)
        if nm == 'divmod' and len(args) == 2 and args[0].ty == INT and args[1].ty == INT:
            a, b = args
            if b.is_const and b.const > 0:
                return Val(f'(({a.term} / {b.term}), ({a.term} % {b.term}))', TUPLE(INT, INT))
            q = self.bind(ctx, f'(Py.floordiv {a.term} {b.term})', INT)
            r = self.bind(ctx, f'(Py.mod {a.term} {b.term})', INT)
            return Val(f'({q.term}, {r.term})', TUPLE(INT, INT))
        raise Untranslatable(f'{nm}({", ".join(str(a.ty) for a in args)})')

    def sum_call(self, e, env, ctx):
        """`sum(<expr> for x in <list of int> [if <cond>])`"""
        if len(e.args) != 1 or not isinstance(e.args[0], ast.GeneratorExp) or len(e.args[0].generators) != 1:
            raise Untranslatable('sum of something else than one generator expression')
        g = e.args[0].generators[0]
        if not isinstance(g.target, ast.Name) or g.is_async:
            raise Untranslatable('sum: loop target')
        xs = self.ex(g.iter, env, ctx)
        if xs.ty != LIST(INT):
            raise Untranslatable(f'sum over a {xs.ty}')
        x = self.fresh(g.target.id)
        env2 = {**env, g.target.id: Val(x, INT)}
        lst = xs.term
        for cond in g.ifs:
            sub = Ctx()
            c = self.ex_truth(cond, env2, sub)
            if sub.binds:
                raise Untranslatable('sum: a filter condition that can raise')
            lst = f'(({lst}).filter (fun {x} => {c.term}))'
        sub = Ctx()
        v = self.ex(e.args[0].elt, env2, sub)
        if v.ty != INT:
            raise Untranslatable(f'sum of {v.ty}')
        if sub.binds:
            return self.bind(ctx, f'(Py.sumM {lst} (fun {x} =>\n{ind(seal(sub.binds, ok(v.term)), 4)}))', INT)
        return Val(f'(Py.sum {lst} (fun {x} => {v.term}))', INT)

    # ------------------------------------------------------------ statements
    def ret(self, v):
        """the function result for the returned value v"""
        t = self.coerce(v, self.ret_ty).term
        return ok(t) if self.monadic else t

    def k_end(self, env):
        return self.ret(Val('()', NONE, const=None))     # falling off the end returns None

    def assigned(self, stmts):
        names = set()
        for s in stmts:
            if isinstance(s, ast.Assign):
                for t in s.targets:
                    for n in ([t] if isinstance(t, ast.Name) else t.elts if isinstance(t, ast.Tuple) else []):
                        if isinstance(n, ast.Name):
                            names.add(n.id)
            elif isinstance(s, ast.AugAssign) and isinstance(s.target, ast.Name):
                names.add(s.target.id)
            elif isinstance(s, ast.If):
                names |= self.assigned(s.body) | self.assigned(s.orelse)
            elif isinstance(s, ast.For):
                names |= self.assigned(s.body)
        return names

    def let(self, name, v, env, cont, pyname):
        """bind the pure value v to the local `pyname` (atoms are substituted, everything else is let-bound)"""
        atom = v.is_const or v.term.replace("'", '').replace('_', '').replace('«', '').replace('»', '').isalnum()
        if atom:
            return cont({**env, pyname: v})
        x = self.fresh(pyname)
        return f'(let {x} := {v.term};\n{cont({**env, pyname: Val(x, v.ty)})})'

    def assign_targets(self, target, v, env, cont):
        if isinstance(target, ast.Name):
            return self.let(None, v, env, cont, target.id)
        if isinstance(target, ast.Tuple) and all(isinstance(t, ast.Name) for t in target.elts) \
                and isinstance(v.ty, tuple) and v.ty[0] == 'tuple' and len(v.ty) - 1 == len(target.elts):
            n = len(target.elts)
            whole = self.fresh('tup')

            def go(i, env2):
                if i == n:
                    return cont(env2)
                return self.let(None, Val(proj(whole, i, n), v.ty[1 + i]), env2, lambda e3: go(i + 1, e3), target.elts[i].id)
            return f'(let {whole} := {v.term};\n{go(0, env)})'
        raise Untranslatable(f'assignment target {ast.unparse(target)}')

    def block(self, stmts, env, k):
        self.size += 1
        if self.size > 4000:
            raise Untranslatable('translation too large (too many paths)')
        if not stmts:
            return k(env)
        s, rest = stmts[0], stmts[1:]

        def cont(env2):
            return self.block(rest, env2, k)
        if isinstance(s, ast.Expr):
            if isinstance(s.value, ast.Constant) and isinstance(s.value.value, str):
                return cont(env)          # docstring
            if isinstance(s.value, ast.Call):
                ctx = Ctx()
                self.ex(s.value, env, ctx)
                return seal(ctx.binds, cont(env)) if ctx.binds else cont(env)
            raise Untranslatable(f'expression statement {ast.unparse(s)[:50]}')
        if isinstance(s, ast.Pass):
            return cont(env)
        if isinstance(s, ast.Return):
            if self.loop_depth:
                raise Untranslatable('return inside a range loop')
            if self.phi_depth:
                raise _PhiFail('return')
            ctx = Ctx()
            v = Val('()', NONE, const=None) if s.value is None else self.ex(s.value, env, ctx)
            return seal(ctx.binds, self.ret(v)) if ctx.binds else self.ret(v)
        if isinstance(s, ast.Raise):
            if s.exc is None or s.cause is not None:
                raise Untranslatable('bare raise / raise from')
            cls = s.exc.func if isinstance(s.exc, ast.Call) else s.exc
            if not (isinstance(cls, ast.Name) and cls.id in EXC):
                raise Untranslatable(f'raise {ast.unparse(cls)}')
            self.need_monad('raise')
            return err(EXC[cls.id])
        if isinstance(s, ast.Assert):
            ctx = Ctx()
            c = self.ex_truth(s.test, env, ctx)
            self.need_monad('assert')
            body = cont(env) if (c.is_const and c.const) else f'(if {c.term} then\n{ind(cont(env))}\nelse {err("assertionError")})'
            return seal(ctx.binds, body)
        if isinstance(s, ast.Assign):
            if len(s.targets) != 1:
                raise Untranslatable('chained assignment')
            ctx = Ctx()
            v = self.ex(s.value, env, ctx)
            return seal(ctx.binds, self.assign_targets(s.targets[0], v, env, cont))
        if isinstance(s, ast.AugAssign):
            if not isinstance(s.target, ast.Name):
                raise Untranslatable('augmented assignment to a non-name')
            ctx = Ctx()
            v = self.ex(ast.BinOp(left=ast.Name(id=s.target.id, ctx=ast.Load()), op=s.op, right=s.value), env, ctx)
            return seal(ctx.binds, self.let(None, v, env, cont, s.target.id))
        if isinstance(s, ast.If):
            return self.if_stmt(s.test, s.body, s.orelse, env, cont)
        if isinstance(s, ast.Try):
            return self.try_stmt(s, env, cont)
        if isinstance(s, ast.For):
            return self.for_stmt(s, env, cont)
        raise Untranslatable(f'statement {type(s).__name__}')

    def if_stmt(self, test, then, orelse, env, cont):
        def branch(body, env2):
            return self.block(body, env2, cont)
        nt = self.none_test(test, env)
        first_nt = None
        if isinstance(test, ast.BoolOp) and ast.unparse(test) not in self.opaque:
            first_nt = self.none_test(test.values[0], env)
        for which, r in (('whole', nt), ('first', first_nt)):
            if r is None:
                continue
            name, isnone = r
            vt = env[name].ty
            if vt == NONE or not isinstance(vt, tuple):
                # statically known: the local is None / is not None here
                known = (vt == NONE) == isnone
                if which == 'whole':
                    return branch(then if known else orelse, env)
                continue
            if vt[0] != 'opt':
                continue
            env_none, env_some, x = self.narrow(env, name)
            if which == 'whole':
                a = branch(then if isnone else orelse, env_none)
                b = branch(orelse if isnone else then, env_some)
                return f'(match {env[name].term} with\n  | none =>\n{ind(a, 4)}\n  | some {x} =>\n{ind(b, 4)})'
            is_and = isinstance(test.op, ast.And)
            rest_vals = test.values[1:]
            rest_test = rest_vals[0] if len(rest_vals) == 1 else ast.BoolOp(op=test.op, values=rest_vals)
            if is_and and not isnone:       # X is not None and C
                a = branch(orelse, env_none)
                b = self.if_stmt(rest_test, then, orelse, env_some, cont)
            elif not is_and and isnone:     # X is None or C
                a = branch(then, env_none)
                b = self.if_stmt(rest_test, then, orelse, env_some, cont)
            elif is_and and isnone:         # X is None and C
                a = self.if_stmt(rest_test, then, orelse, env_none, cont)
                b = branch(orelse, env_some)
            else:                           # X is not None or C
                a = self.if_stmt(rest_test, then, orelse, env_none, cont)
                b = branch(then, env_some)
            return f'(match {env[name].term} with\n  | none =>\n{ind(a, 4)}\n  | some {x} =>\n{ind(b, 4)})'
        ctx = Ctx()
        c = self.ex_truth(test, env, ctx)
        if c.is_const:
            return seal(ctx.binds, branch(then if c.const else orelse, env))
        phi = None if ctx.binds else self.phi(c, then, orelse, env, cont)
        if phi is not None:
            return phi
        a = branch(then, env)
        b = branch(orelse, env)
        return seal(ctx.binds, f'(if {c.term} then\n{ind(a)}\nelse\n{ind(b)})')

    def tuple_body(self, body, env, names, want):
        """translate `body` and return the values of `names` afterwards, as (term builder, types)"""
        types = []

        def k(env2):
            vs = [env2[n] for n in names]
            types.append([v.ty for v in vs])
            if want is not None:
                vs = [self.coerce(v, t) for v, t in zip(vs, want)]
            return tuple_term([v.term for v in vs])
        term = self.block(body, env, k)
        return term, types

    def phi(self, c, then, orelse, env, cont):
        """`if c: <assignments> else: <assignments>` as a conditional VALUE of the assigned locals (no path
        duplication); None when the branches are not plain assignments"""
        names = sorted(self.assigned(then) | self.assigned(orelse))
        if not names or any(n not in env for n in names):
            return None
        saved = (dict(self.counter), self.size)
        self.phi_depth += 1
        try:
            _, ta = self.tuple_body(then, env, names, None)
            _, tb = self.tuple_body(orelse, env, names, None)
            if len(ta) != 1 or len(tb) != 1:
                return None
            want = []
            for x, y in zip(ta[0], tb[0]):
                t = join_types(x, y)
                if t is None or t == NONE:
                    return None
                want.append(t)
            self.counter = dict(saved[0])
            a, _ = self.tuple_body(then, env, names, want)
            b, _ = self.tuple_body(orelse, env, names, want)
        except _PhiFail:
            self.counter, self.size = dict(saved[0]), saved[1]
            return None
        finally:
            self.phi_depth -= 1
        value = f'(if {c.term} then\n{ind(a)}\nelse\n{ind(b)})'
        return self.rebind(names, want, value, env, cont)

    def rebind(self, names, types, value, env, cont):
        n = len(names)
        if n == 1:
            x = self.fresh(names[0])
            return f'(let {x} := {value};\n{cont({**env, names[0]: Val(x, types[0])})})'
        whole = self.fresh('phi')
        env2 = dict(env)
        lets = []
        for i, (nm, t) in enumerate(zip(names, types)):
            x = self.fresh(nm)
            lets.append(f'let {x} := {proj(whole, i, n)};')
            env2[nm] = Val(x, t)
        return f'(let {whole} := {value};\n' + '\n'.join(lets) + f'\n{cont(env2)})'

    def try_stmt(self, s, env, cont):
        if s.orelse or s.finalbody:
            raise Untranslatable('try … else / finally')
        catches = []
        for h in s.handlers:
            if h.name is not None:
                raise Untranslatable('except … as name')
            if h.type is None:
                classes = ['Exception']
            else:
                ts = h.type.elts if isinstance(h.type, ast.Tuple) else [h.type]
                if not all(isinstance(t, ast.Name) and t.id in CATCHES for t in ts):
                    raise Untranslatable(f'except {ast.unparse(h.type)}')
                classes = [t.id for t in ts]
            caught = []
            for c in classes:
                for x in CATCHES[c]:
                    if x not in caught:
                        caught.append(x)
            catches.append((caught, h.body))
        # (a) a body that cannot raise: the handlers are dead code
        saved_flag, saved = self.noraise, (dict(self.counter), self.size)

        def outside(env2):
            inner = self.noraise
            self.noraise = saved_flag
            try:
                return cont(env2)
            finally:
                self.noraise = inner
        self.noraise = True
        try:
            return self.block(s.body, env, outside)
        except _CanRaise:
            self.counter, self.size = dict(saved[0]), saved[1]
        finally:
            self.noraise = saved_flag
        # (b) / (c): a single `return E` or `x = E`
        if len(s.body) != 1 or not isinstance(s.body[0], (ast.Return, ast.Assign)):
            raise Untranslatable('try body that can raise and is not a single return / assignment')
        st = s.body[0]
        if self.loop_depth or self.phi_depth:
            self.need_monad('try')
        ctx = Ctx()
        if isinstance(st, ast.Return):
            v = Val('()', NONE, const=None) if st.value is None else self.ex(st.value, env, ctx)
            v = self.coerce(v, self.ret_ty)
            vty = self.ret_ty

            def success(x):
                return ok(x)
        else:
            if len(st.targets) != 1:
                raise Untranslatable('chained assignment')
            v = self.ex(st.value, env, ctx)
            vty = v.ty

            def success(x):
                return self.assign_targets(st.targets[0], Val(x, vty), env, cont)
        self.need_monad('try')
        m = seal(ctx.binds, ok(v.term))

        def handler_for(exc):
            for caught, body in catches:
                if exc in caught:
                    return self.block(body, env, cont)
            return err(exc)
        ce = const_err(m)
        if ce is not None:
            return handler_for(ce)       # the body always raises `ce`: resolved statically (exact)
        x = self.fresh('t')
        arms = ''
        for caught, body in catches:
            test = ' || '.join(f"exc'0 == PyExc.{c}" for c in caught)
            arms += f'if {test} then\n{ind(self.block(body, env, cont))}\nelse '
        arms += "Except.error exc'0"
        return (f'(Py.tryExcept ({m} : M {lean_ty(vty)})\n  (fun {x} =>\n{ind(success(x), 4)})\n'
                f"  (fun exc'0 =>\n{ind(arms, 4)}))")

    def for_stmt(self, s, env, cont):
        if s.orelse:
            raise Untranslatable('for … else')
        for node in ast.walk(ast.Module(body=s.body, type_ignores=[])):
            if isinstance(node, (ast.Break, ast.Continue)):
                raise Untranslatable('break / continue')
        it = s.iter
        # (1) loop over a module-level constant (tuple / dict.items() / .values() / .keys()): unrolled
        if not (isinstance(it, ast.Call) and isinstance(it.func, ast.Name) and it.func.id == 'range'):
            items = None
            if isinstance(it, ast.Call) and isinstance(it.func, ast.Attribute) and not it.args and not it.keywords \
                    and it.func.attr in ('items', 'values', 'keys'):
                d = self.ex(it.func.value, env, Ctx())
                if d.is_const and isinstance(d.const, dict):
                    items = list(getattr(d.const, it.func.attr)())
            else:
                c = self.ex(it, env, Ctx())
                if c.is_const and isinstance(c.const, (tuple, list, dict, bytes)):
                    items = list(c.const)
            if items is None:
                raise Untranslatable(f'loop over {ast.unparse(it)[:40]}')
            if len(items) > 16:
                raise Untranslatable(f'loop over a constant with {len(items)} > 16 entries')
            targets = [s.target] if isinstance(s.target, ast.Name) else list(s.target.elts) if isinstance(s.target, ast.Tuple) else None
            if targets is None or not all(isinstance(t, ast.Name) for t in targets):
                raise Untranslatable('loop target')

            def unroll(i, env2):
                if i == len(items):
                    return cont(env2)
                item = items[i]
                vals = [item] if isinstance(s.target, ast.Name) else list(item)
                if len(vals) != len(targets):
                    raise Untranslatable('loop target arity')
                env3 = dict(env2)
                for t, v in zip(targets, vals):
                    if isinstance(v, (tuple, list, dict)):
                        raise Untranslatable('loop over nested constants')
                    env3[t.id] = self.const_val(t.id, v)
                return self.block(s.body, env3, lambda e4: unroll(i + 1, e4))
            return unroll(0, env)
        # (2) for i in range(…): a fold over the locals the body assigns
        if it.keywords or not 1 <= len(it.args) <= 3 or not isinstance(s.target, ast.Name):
            raise Untranslatable('range loop shape')
        ctx = Ctx()
        args = [self.ex(a, env, ctx) for a in it.args]
        if any(a.ty != INT for a in args):
            raise Untranslatable('range of non-integers')
        if len(args) == 1:
            rng = f'(Py.range (0 : Int) {args[0].term})'
        elif len(args) == 2:
            rng = f'(Py.range {args[0].term} {args[1].term})'
        else:
            if not (args[2].is_const and args[2].const > 0):
                raise Untranslatable('range step that is not a positive literal')
            rng = f'(Py.rangeStep {args[0].term} {args[1].term} {args[2].const})'
        names = sorted(self.assigned(s.body))
        if s.target.id in names:
            raise Untranslatable('loop variable assigned in the body')
        if not names:
            raise Untranslatable('range loop without accumulator')
        if any(n not in env for n in names):
            raise Untranslatable('a local first assigned inside a loop body')
        types = [env[n].ty for n in names]
        acc = self.fresh('acc')
        i = self.fresh(s.target.id)
        env_body = dict(env)
        n = len(names)
        for k, nm in enumerate(names):
            env_body[nm] = Val(proj(acc, k, n), types[k])
        env_body[s.target.id] = Val(i, INT)
        self.loop_depth += 1
        try:
            body, got = self.tuple_body(s.body, env_body, names, types)
        finally:
            self.loop_depth -= 1
        init = tuple_term([env[nm].term for nm in names])
        acc_ty = lean_ty(TUPLE(*types)) if n > 1 else lean_ty(types[0])
        value = f'(({rng}).foldl (fun ({acc} : {acc_ty}) ({i} : Int) =>\n{ind(body, 4)}) {init})'
        # the loop variable keeps its last value in Python; it is not available afterwards here
        env_after = {k2: v for k2, v in env.items() if k2 != s.target.id}
        return seal(ctx.binds, self.rebind(names, types, value, env_after, cont))

    # ------------------------------------------------------------ the whole function
    def translate(self):
        """-> (lean parameter list, lean result type, body term, monadic?)"""
        spec = self.spec
        params = []     # (python name, type) in Lean order: closure variables, parameters, opaque reads
        env = {}
        for nm, ty in list(spec.get('closure', {}).items()) + list(spec['params'].items()):
            if isinstance(ty, CONST):
                env[nm] = self.const_val(nm, ty.value)
            else:
                params.append((nm, ty))
                env[nm] = Val(lean_name(nm), ty)
        for src, (nm, ty) in self.opaque.items():
            params.append((nm, ty))
        declared = [a.arg for a in self.fn.args.posonlyargs + self.fn.args.args + self.fn.args.kwonlyargs]
        if self.fn.args.vararg or self.fn.args.kwarg:
            raise Untranslatable('*args / **kwargs')
        want = list(spec['params'].keys())
        if spec.get('method'):
            if not declared or declared[0] != 'self':
                raise Untranslatable('method without self')
            declared = declared[1:]
        if declared != want:
            raise Untranslatable(f'parameters are {declared}, the translation is specified for {want}')
        for mode in (False, True):
            self.monadic, self.counter, self.size = mode, {}, 0
            try:
                term = self.block(self.fn.body, env, self.k_end)
                break
            except _NeedMonad:
                if mode:
                    raise Untranslatable('internal: monadic translation asked for a monad')
        sig = ' '.join(f'({lean_name(nm)} : {lean_ty(ty)})' for nm, ty in params)
        rty = lean_ty(self.ret_ty)
        return params, sig, (f'M {rty}' if self.monadic else rty), term, self.monadic


def find_function(tree, path):
    """`path` = ['outer', 'inner'] / ['Class', 'method'] / ['f']"""
    node = tree
    for nm in path:
        hits = [n for n in ast.iter_child_nodes(node) if isinstance(n, (ast.FunctionDef, ast.ClassDef)) and n.name == nm]
        if len(hits) != 1:
            # nested functions may sit below other statements of the outer function
            hits = [n for n in ast.walk(node) if isinstance(n, (ast.FunctionDef, ast.ClassDef)) and n.name == nm and n is not node]
        if len(hits) != 1:
            raise Untranslatable(f'def {".".join(path)} not found exactly once')
        node = hits[0]
    if not isinstance(node, ast.FunctionDef):
        raise Untranslatable(f'{".".join(path)} is not a function')
    if node.decorator_list:
        raise Untranslatable(f'{".".join(path)} is decorated')
    return node


def literal_defaults(fn):
    """parameter name -> default value, for literal defaults"""
    res = {}
    pos = fn.args.posonlyargs + fn.args.args
    for a, d in zip(pos[len(pos) - len(fn.args.defaults):], fn.args.defaults):
        try:
            res[a.arg] = ast.literal_eval(d)
        except Exception:  # noqa
            pass
    for a, d in zip(fn.args.kwonlyargs, fn.args.kw_defaults):
        if d is not None:
            try:
                res[a.arg] = ast.literal_eval(d)
            except Exception:  # noqa
                pass
    return res


class Translation:
    """translates a list of specs; collects the Lean text of the functions, the tables and the validation file"""

    def __init__(self, modules, trees, module_aliases):
        self.modules, self.trees, self.aliases = modules, trees, module_aliases
        self.tables = Tables()
        self.registry = {}
        self.defs = []        # (name, lean text)
        self.checks = []      # lean text
        self.report = []      # (name, 'ok' | reason)

    def add(self, spec):
        name = spec['name']
        mod = spec['module']
        lean = lean_name(name)
        doc = [f'`{mod}.{".".join(spec["path"])}`']
        try:
            fn = find_function(self.trees[mod], spec['path'])
            tr = FnTranslator(spec, self.modules[mod], fn, self.registry, self.tables, self.aliases[mod])
            params, sig, rty, term, monadic = tr.translate()
            dom = ', '.join(f'{nm}: {describe(ty)}' for nm, ty in list(spec.get('closure', {}).items()) + list(spec['params'].items()))
            doc.append(f'translated for {dom} -> {describe(spec["ret"])}' + (' (can raise)' if monadic else ''))
            for src, (nm, ty) in spec.get('opaque', {}).items():
                doc.append(f'parameter `{nm}` stands for the value of `{src}`')
            text = '/-- ' + '; '.join(doc) + ' -/\n' + f'def {lean} {sig} : {rty} :=\n{ind(term)}'
            pyobj = None
            if len(spec['path']) == 1:
                pyobj = getattr(self.modules[mod], name, None)
            self.registry[name] = dict(name=name, lean=lean, params=list(spec['params'].items()), ret=spec['ret'], monadic=monadic,
                                       defaults=literal_defaults(fn), pyobj=pyobj,
                                       extra=list(spec.get('closure', {})) + [nm for nm, _ in spec.get('opaque', {}).values()])
            self.defs.append((name, text))
            self.report.append((name, 'ok'))
            try:
                self.add_check(spec, params, monadic)
            except Untranslatable as ex:
                self.checks.append(f'example : Unit := unvalidated_{name} -- {str(ex)[:200]}')
                self.report[-1] = (name, 'translated, but the validation failed: ' + str(ex))
        except Untranslatable as ex:
            sig = ''
            self.defs.append((name, f'/-- {doc[0]}: OUTSIDE THE TRANSLATABLE SUBSET -/\n'
                                    f'def {lean} : Unit :=\n  untranslatable_{name} -- {str(ex)[:200]}'))
            self.report.append((name, str(ex)))

    # ---------------------------------------------------------------- translation validation
    def add_check(self, spec, params, monadic):
        """evaluate the real function on sample arguments and state the results as kernel-checked examples"""
        call = spec.get('pycall')
        mod = self.modules[spec['module']]
        if call is None:
            f = getattr(mod, spec['name'])

            def call(a, f=f):
                return f(**a)
        all_params = list(spec.get('closure', {}).items()) + list(spec['params'].items()) \
            + [(nm, ty) for nm, ty in spec.get('opaque', {}).values()]
        pools = []
        for nm, ty in all_params:
            if nm in spec.get('samples', {}):
                pools.append(spec['samples'][nm])
            elif isinstance(ty, CONST):
                pools.append([ty.value])
            else:
                pools.append(sample_pool(ty))
        total = 1
        for p in pools:
            total *= len(p)
        rnd = random.Random(20260930)
        limit = spec.get('nsamples', 96)
        if total <= limit:
            combos = list(itertools.product(*pools))
        else:
            combos = [tuple(rnd.choice(p) for p in pools) for _ in range(limit)]
            combos = list({repr(c): c for c in combos}.values())
        lhs, rhs = [], []
        lean = lean_name(spec['name'])
        for combo in combos:
            kwargs = {nm: v for (nm, ty), v in zip(all_params, combo)}
            if spec.get('precondition') and not spec['precondition'](kwargs):
                continue
            try:
                r = call(dict(kwargs))
                res = self.tables.literal(r, spec['ret'])
                res = ok(res) if monadic else res
            except Untranslatable:
                raise
            except Exception as ex:  # noqa
                cls = type(ex).__name__
                if cls not in EXC or not monadic:
                    raise Untranslatable(f'{spec["name"]}({kwargs}) raised {cls}, which the translation cannot produce')
                res = err(EXC[cls])
            args = [self.tables.literal(v, ty) for (nm, ty), v in zip(all_params, combo) if not isinstance(ty, CONST)]
            lhs.append('(' + ' '.join([lean] + args) + ')' if args else lean)
            rhs.append(res)
        rty = lean_ty(spec['ret'])
        rty = f'M {rty}' if monadic else rty
        for k in range(0, len(lhs), 24):
            self.checks.append(f'example : ([{", ".join(lhs[k:k + 24])}] : List ({rty}))\n    = [{", ".join(rhs[k:k + 24])}] := by decide')
        self.report[-1] = (spec['name'], f'ok ({len(lhs)} sample evaluations)')

    # ---------------------------------------------------------------- output
    def funcs_text(self):
        out = ['-- GENERATED by tools/gen.py (tools/pytolean.py: AST translation of the repository working tree). DO NOT EDIT.',
               'import Gen.Py', '', 'set_option linter.unusedVariables false', '', 'namespace Gen.Funcs', 'open Gen.Py', '']
        for nm in self.tables.order:
            out += [self.tables.defs[nm][1], '']
        for nm, text in self.defs:
            out += [text, '']
        out += ['end Gen.Funcs', '']
        return '\n'.join(out)

    def check_text(self):
        out = ['-- GENERATED by tools/gen.py (tools/pytolean.py). DO NOT EDIT.',
               '-- Translation validation: what the real Python functions returned at generation time on sample arguments,',
               '-- compared by the Lean kernel with what the translated functions compute.',
               'import Gen.Funcs', '', 'namespace Gen.FuncsCheck', 'open Gen.Py Gen.Funcs', '']
        for c in self.checks:
            out += [c, '']
        out += ['end Gen.FuncsCheck', '']
        return '\n'.join(out)


def describe(ty):
    if isinstance(ty, CONST):
        return f'fixed to {ty.value!r}'
    if ty in (INT, BOOL, STR):
        return ty
    if ty == NONE:
        return 'None'
    if ty[0] == 'opt':
        return f'Optional[{describe(ty[1])}]'
    if ty[0] == 'tuple':
        return 'tuple(' + ', '.join(describe(t) for t in ty[1:]) + ')'
    if ty[0] == 'list':
        return f'list of {describe(ty[1])}'
    if ty[0] == 'union':
        return f'{describe(ty[1])} or {describe(ty[2])}'
    return str(ty)


INT_POOL = [-5, -4, -3, -2, -1, 0, 1, 2, 3, 4, 5, 6, 7, 8, 9, 10, 11, 12, 13, 14, 15, 16, 17, 21, 25, 26, 27, 28, 40, 41, 42, 45, 63, 64,
            127, 128, 177, 252, 253, 254, 255, 256, 1000]


def sample_pool(ty):
    if ty == INT:
        return INT_POOL
    if ty == BOOL:
        return [False, True]
    if ty == STR:
        return ['', 'iso-8859-1', 'utf-8', 'shift_jis', 'L', 'numeric']
    if ty[0] == 'opt':
        return [None] + sample_pool(ty[1])
    if ty[0] == 'tuple':
        pools = [sample_pool(t) for t in ty[1:]]
        rnd = random.Random(7)
        return [tuple(rnd.choice(p) for p in pools) for _ in range(24)] + [(21, 21), (17, 17), (11, 11), (18, 18), (177, 177), (21, 22)][:6 if len(pools) == 2 else 0]
    if ty[0] == 'list':
        rnd = random.Random(11)
        inner = sample_pool(ty[1])
        return [[]] + [[rnd.choice(inner) for _ in range(rnd.randint(1, 5))] for _ in range(10)]
    raise Untranslatable(f'no samples for {ty}')


# ------------------------------------------------------------------------------------ segno: what is translated
class _Const2D:
    """stand-in for a matrix whose every cell holds `v` (for the validation of functions with opaque reads)"""

    def __init__(self, v):
        self.v = v

    def __getitem__(self, i):
        return self

    def __repr__(self):
        return f'_Const2D({self.v})'


class _Cell(_Const2D):
    def __getitem__(self, i):
        return _Row(self.v)


class _Row:
    def __init__(self, v):
        self.v = v

    def __getitem__(self, j):
        return self.v


def nested_callable(module, tree, path, closure):
    """the nested function `path` compiled on its own, its free variables taken from `closure`"""
    node = find_function(tree, path)
    code = compile(ast.fix_missing_locations(ast.Module(body=[node], type_ignores=[])), f'<{".".join(path)}>', 'exec')
    g = dict(vars(module))
    g.update(closure)
    exec(code, g)
    return g[path[-1]]


def segno_specs(mods, trees):
    enc, utils, writers, consts = mods['encoder'], mods['utils'], mods['writers'], mods['consts']
    size = TUPLE(INT, INT)

    def get_bit_call(a):
        f = nested_callable(utils, trees['utils'], ['matrix_iter_verbose', 'get_bit'],
                            dict(width=a['width'], height=a['height'], is_square=a['is_square'], is_micro=a['is_micro'],
                                 matrix=_Cell(a['val']), alignment_matrix=_Cell(a['alignment_val'])))
        return f(a['i'], a['j'])

    def bit_length_call(a):
        f = nested_callable(enc, trees['encoder'], ['encode_sequence', 'calc_qrcode_bit_length'], {})
        return f(a['char_count'], a['ver_range'], a['mode'], a['encoding'], a['is_eci'], a['is_sa'])

    def overhead_call(a):
        import types
        segs = [types.SimpleNamespace(mode=consts.MODE_BYTE, encoding='x-other')] * a['no_eci_indicators']
        me = types.SimpleNamespace(segments=segs, modes=a['modes'], bit_length=a['bit_length'])
        return enc.Segments.bit_length_with_overhead(me, a['version'], a['eci'], a['is_sa'])

    versions = [-4, -3, -2, -1, 0, 1, 2, 6, 7, 9, 10, 11, 26, 27, 28, 40, 41, 45]
    modes = [0, 1, 2, 3, 4, 5, 7, 8, 9, 13]
    levels = [None, 0, 1, 2, 3, 4, -1]
    sizes = [(11, 11), (13, 13), (15, 15), (17, 17), (18, 18), (21, 21), (25, 25), (45, 45), (177, 177), (21, 22), (30, 10), (17, 18)]
    specs = [
        dict(module='encoder', path=['version_range'], params={'version': INT}, ret=INT),
        dict(module='encoder', path=['calc_matrix_size'], params={'ver': INT}, ret=INT),
        dict(module='encoder', path=['is_mode_supported'], params={'mode': INT, 'ver': INT}, ret=BOOL,
             samples={'mode': modes, 'ver': versions}, nsamples=200),
        dict(module='encoder', path=['find_minimum_version_for_mode'], params={'mode': INT}, ret=INT, samples={'mode': modes}),
        dict(module='encoder', path=['normalize_version'], params={'version': OPT(INT)}, ret=OPT(INT)),
        dict(module='encoder', path=['normalize_mode'], params={'mode': OPT(INT)}, ret=OPT(INT)),
        dict(module='encoder', path=['normalize_mask'], params={'mask': OPT(INT), 'is_micro': BOOL}, ret=OPT(INT)),
        dict(module='encoder', path=['normalize_errorlevel'], params={'error': OPT(INT), 'accept_none': BOOL}, ret=OPT(INT)),
        dict(module='encoder', path=['get_mode_name'], params={'mode_const': INT}, ret=STR),
        dict(module='encoder', path=['get_error_name'], params={'error_const': INT}, ret=STR),
        dict(module='encoder', path=['get_version_name'], params={'version_const': INT}, ret=UNION_INT_STR),
        dict(module='encoder', path=['_is_shift_jis_trail_byte'], params={'b': INT}, ret=BOOL),
        dict(module='encoder', path=['calc_format_info'], params={'version': INT, 'error': OPT(INT), 'mask_pattern': INT}, ret=INT,
             samples={'version': versions, 'error': levels, 'mask_pattern': [-33, -1, 0, 1, 2, 3, 4, 7, 8, 9, 24, 31, 32]}, nsamples=240),
        dict(module='encoder', path=['encode_sequence', 'calc_qrcode_bit_length'],
             params={'char_count': INT, 'ver_range': INT, 'mode': INT, 'encoding': STR, 'is_eci': BOOL, 'is_sa': BOOL}, ret=INT,
             samples={'mode': modes, 'ver_range': [-3, -2, -1, 0, 1, 2, 3, 4], 'char_count': [0, 1, 2, 3, 4, 5, 6, 7, 100, 1001, -1, -7]},
             nsamples=240, pycall=bit_length_call),
        dict(module='encoder', path=['Segments', 'bit_length_with_overhead'], method=True,
             params={'version': INT, 'eci': BOOL, 'is_sa': BOOL}, ret=INT,
             opaque={"sum((1 for segment in self.segments if segment.mode == consts.MODE_BYTE and segment.encoding != consts.DEFAULT_BYTE_ENCODING))":
                     ('no_eci_indicators', INT), 'self.modes': ('modes', LIST(INT)), 'self.bit_length': ('bit_length', INT)},
             samples={'version': versions, 'no_eci_indicators': [0, 1, 2, 5], 'bit_length': [0, 1, 13, 152, 10000],
                      'modes': [[], [1], [2], [4], [8], [13], [1, 2, 4], [4, 4, 13, 8], [3], [1, 13, 13]]},
             nsamples=240, pycall=overhead_call),
        dict(module='utils', path=['get_default_border_size'], params={'matrix_size': size}, ret=INT, samples={'matrix_size': sizes}),
        dict(module='utils', path=['get_border'], params={'matrix_size': size, 'border': OPT(INT)}, ret=INT, samples={'matrix_size': sizes}),
        dict(module='utils', path=['get_symbol_size'], params={'matrix_size': size, 'scale': INT, 'border': OPT(INT)}, ret=TUPLE(INT, INT),
             samples={'matrix_size': sizes}),
        dict(module='utils', path=['check_valid_scale'], params={'scale': INT}, ret=NONE),
        dict(module='utils', path=['check_valid_border'], params={'border': OPT(INT)}, ret=NONE),
        dict(module='utils', path=['matrix_iter_verbose', 'get_bit'], params={'i': INT, 'j': INT},
             closure={'width': INT, 'height': INT, 'is_square': BOOL, 'is_micro': BOOL},
             opaque={'matrix[i][j]': ('val', INT), 'alignment_matrix[i][j]': ('alignment_val', INT)}, ret=INT,
             samples={'width': [11, 15, 17, 21, 45, 49], 'height': [11, 15, 17, 21, 45, 49, 22],
                      'i': [-1, 0, 1, 5, 6, 7, 8, 9, 10, 12, 13, 14, 16, 20, 33, 34, 36, 37, 38, 40, 41, 44, 45, 48],
                      'j': [-1, 0, 1, 5, 6, 7, 8, 9, 10, 12, 13, 14, 16, 20, 33, 34, 36, 37, 38, 40, 41, 44, 45, 48],
                      'val': [0, 1], 'alignment_val': [0, 1, 2]},
             precondition=lambda a: a['is_square'] == (a['width'] == a['height']) and a['is_micro'] == (a['is_square'] and a['width'] < 21),
             nsamples=1500, pycall=get_bit_call),
        dict(module='writers', path=['_valid_width_height_and_border'], params={'matrix_size': size, 'scale': INT, 'border': OPT(INT)},
             ret=TUPLE(INT, INT, INT), samples={'matrix_size': sizes}, nsamples=200),
        dict(module='writers', path=['_alpha_value'], params={'color': INT, 'alpha_float': CONST(False)}, ret=INT),
    ]
    for s in specs:
        s['name'] = s['path'][-1]
    return specs


def generate(repo, leandir, write_if_changed, modules):
    """writes Gen/Py.lean, Gen/Funcs.lean, Gen/FuncsCheck.lean; returns (changed flags, report)"""
    import os
    trees = {m: ast.parse(open(os.path.join(repo, 'segno', m + '.py')).read()) for m in ('encoder', 'utils', 'writers')}
    aliases = {}
    for m in trees:
        al = {}
        for nm, v in vars(modules[m]).items():
            if isinstance(v, type(ast)) and getattr(v, '__name__', '').startswith('segno'):
                al[nm] = v
        aliases[m] = al
    tr = Translation(modules, trees, aliases)
    for spec in segno_specs(modules, trees):
        tr.add(spec)
    here = os.path.dirname(os.path.abspath(__file__))
    prelude = open(os.path.join(here, 'py_prelude.lean')).read()
    changed = [write_if_changed(os.path.join(leandir, 'Gen', 'Py.lean'), prelude),
               write_if_changed(os.path.join(leandir, 'Gen', 'Funcs.lean'), tr.funcs_text()),
               write_if_changed(os.path.join(leandir, 'Gen', 'FuncsCheck.lean'), tr.check_text())]
    return changed, tr.report
