#!/venv/bin/python
"""Demonstration for Tie A (docs/TRANSLATOR.md): mutations and harmless rewrites of translated functions.

For every entry: fresh scratch copy of the repository, the edit applied, `tools/gen.py`, `lake build Props.TieA` in a
private copy of lean/ (first failing theorem recorded), and — for mutations — `./check <property>` against the scratch
copy (verdict line recorded).  Nothing in /repo or in this clone's lean/ is touched.

usage: tools/tiea_mutations.py <workdir> [-j N] [--only id,id] [--no-check] [--round 2|3|4]
"""
import argparse
import json
import os
import re
import shutil
import subprocess
import sys
import time
from concurrent.futures import ThreadPoolExecutor

TARGET = 'Props.TieA'
HERE = os.path.dirname(os.path.abspath(__file__))
VERIF = os.path.dirname(HERE)
REPO = os.environ.get('SEGNO_REPO', '/repo')

# (id, kind, property, file, old, new, what)
EDITS = [
    ('M01', 'mutation', 'C04', 'segno/encoder.py', 'elif 9 < version < 27:', 'elif 9 < version < 28:',
     'version_range: version 27 counted to the 10-26 range'),
    ('M02', 'mutation', 'C02', 'segno/encoder.py', 'fmt += consts.ERROR_LEVEL_TO_MICRO_MAPPING[version][error] << 2',
     'fmt += consts.ERROR_LEVEL_TO_MICRO_MAPPING[version][error] << 3', 'calc_format_info: Micro symbol number shifted by 3'),
    ('M03', 'mutation', 'C07', 'segno/encoder.py', 'ver = None if ver > 0 else ver', 'ver = None if ver >= 0 else ver',
     'is_mode_supported: M4 (constant 0) treated as a QR Code version'),
    ('M04', 'mutation', 'C14', 'segno/encoder.py', 'if not 0 <= mask < 4:', 'if not 0 <= mask <= 4:',
     'normalize_mask: mask 4 accepted for Micro QR'),
    ('M05', 'mutation', 'C14', 'segno/encoder.py', 'if error or not 0 < version < 41 and', 'if error or not 0 < version < 42 and',
     'normalize_version: version 41 accepted'),
    ('M06', 'mutation', 'C14', 'segno/encoder.py', 'if mode is None or mode in consts.MODE_MAPPING.values():',
     'if mode is None or mode in consts.MODE_MAPPING.values() or mode == consts.MODE_ECI:',
     'normalize_mode: the ECI mode number accepted as a mode'),
    ('M07', 'mutation', 'C09', 'segno/utils.py', 'if border is not None and (int(border) != border or border < 0):',
     'if border is not None and (int(border) != border or border < -1):', 'check_valid_border: border -1 accepted'),
    ('M08', 'mutation', 'C09', 'segno/utils.py', 'if scale <= 0:', 'if scale < 0:', 'check_valid_scale: scale 0 accepted'),
    ('M09', 'mutation', 'C09', 'segno/utils.py', 'return border if border is not None else get_default_border_size(matrix_size)',
     'return border if border else get_default_border_size(matrix_size)',
     'get_border: border=0 replaced by the default (truthiness instead of `is not None`)'),
    ('M10', 'mutation', 'C02', 'segno/utils.py', 'return 4 if width > 17 and width == height else 2',
     'return 4 if width >= 17 and width == height else 2', 'get_default_border_size: M4 (17 modules) gets border 4'),
    ('M11', 'mutation', 'C11', 'segno/utils.py', 'if not is_micro and ((i == 6 and 7 < j < width - 8) or (j == 6 and 7 < i < height - 8))',
     'if not is_micro and ((i == 6 and 7 < j < width - 7) or (j == 6 and 7 < i < height - 8))',
     'get_bit: horizontal timing pattern one module too long'),
    ('M12', 'mutation', 'C04', 'segno/encoder.py', 'overhead += sum(4 for mode in self.modes if mode == consts.MODE_HANZI)',
     'overhead += sum(3 for mode in self.modes if mode == consts.MODE_HANZI)',
     'bit_length_with_overhead: Hanzi subset indicator counted with 3 bits'),
    ('M13', 'mutation', 'C08', 'segno/encoder.py', 'bits += num * 10 + (4 if remainder == 1 else 7)',
     'bits += num * 10 + (4 if remainder == 1 else 7 if remainder == 2 else 0)',
     'calc_qrcode_bit_length: numeric remainder 0 charged 0 bits (changes the estimated symbol count)'),
    ('M14', 'mutation', 'C11', 'segno/writers.py', "        if not isinstance(color, float):\n            if 0 <= color <= 255:\n                return color",
     "        if not isinstance(color, float):\n            if 0 <= color < 255:\n                return color",
     '_alpha_value(alpha_float=False): alpha 255 refused'),
    ('M15', 'mutation', 'C04', 'segno/encoder.py', "        if is_mode_supported(mode, v):\n            return v\n    return 1",
     "        if is_mode_supported(mode, v):\n            return v\n    return 2", 'find_minimum_version_for_mode: 2 instead of 1'),
    ('M16', 'mutation', 'C07', 'segno/encoder.py', 'return 0x40 <= b <= 0xfc and b != 0x7f', 'return 0x40 <= b <= 0xfc',
     '_is_shift_jis_trail_byte: 0x7f accepted as trail byte'),
    ('H01', 'harmless', 'C02', 'segno/encoder.py', None, None, 'calc_format_info: local `fmt` renamed to `fmt_value`'),
    ('H02', 'harmless', 'C09', 'segno/utils.py', 'if scale <= 0:', 'if 0 >= scale:', 'check_valid_scale: `scale <= 0` written `0 >= scale`'),
    ('H03', 'harmless', 'C04', 'segno/encoder.py',
     "    if 0 < version < 10:\n        return consts.VERSION_RANGE_01_09\n    elif 9 < version < 27:\n        return consts.VERSION_RANGE_10_26\n",
     "    if 9 < version < 27:\n        return consts.VERSION_RANGE_10_26\n    elif 0 < version < 10:\n        return consts.VERSION_RANGE_01_09\n",
     'version_range: the first two (disjoint) branches swapped'),
    ('H04', 'harmless', 'C11', 'segno/utils.py', 'if i == height - 8 and j == 8:', 'if j == 8 and i == height - 8:',
     'get_bit: operands of `and` swapped in the dark module test'),
    ('H05', 'harmless', 'C14', 'segno/encoder.py', None, None,
     'normalize_mask: the two range checks merged into `limit = 4 if is_micro else 8; if not 0 <= mask < limit`'),
    ('H06', 'harmless', 'C09', 'segno/utils.py', 'return border if border is not None else get_default_border_size(matrix_size)',
     'return get_default_border_size(matrix_size) if border is None else border', 'get_border: conditional expression inverted'),
]


# ---------------------------------------------------------------- round 2 (Props.TieA2, docs/TRANSLATOR.md)
E = 'segno/encoder.py'
EDITS2 = [
    ('M21', 'mutation', 'C04', E, 'for version in range(min_version, max_version + 1):', 'for version in range(min_version, max_version):',
     'find_version: the last version (40 / M4) is never tried'),
    ('M22', 'mutation', 'C04', E, "        if error is None and version != consts.VERSION_M1:\n            error = consts.ERROR_LEVEL_L",
     "        if error is None and version != consts.VERSION_M2:\n            error = consts.ERROR_LEVEL_L",
     'find_version: the default level L is set for M1 instead of M2'),
    ('M23', 'mutation', 'C04', E, 'if consts.SYMBOL_CAPACITY[version][error] >= segments.bit_length_with_overhead(version, eci, is_sa):',
     'if consts.SYMBOL_CAPACITY[version][error] > segments.bit_length_with_overhead(version, eci, is_sa):',
     'find_version: a symbol that is filled exactly is skipped'),
    ('M24', 'mutation', 'C05', E, "            if version < consts.VERSION_M4:\n                levels.pop()",
     "            if version < consts.VERSION_M3:\n                levels.pop()", 'boost_error_level: level Q allowed for M3'),
    ('M25', 'mutation', 'C05', E, 'if consts.SYMBOL_CAPACITY[version][error_level] >= data_length:',
     'if consts.SYMBOL_CAPACITY[version][error_level] > data_length:', 'boost_error_level: no boost when the data fills the higher level exactly'),
    ('M26', 'mutation', 'C05', E, 'for error_level in levels[levels.index(error) + 1:]:', 'for error_level in levels[levels.index(error) + 2:]:',
     'boost_error_level: the next level is skipped'),
    ('M27', 'mutation', 'C13', E, 'buff.extend([0] * min(capacity - length, consts.TERMINATOR_LENGTH[ver]))',
     'buff.extend([0] * min(capacity - length - 1, consts.TERMINATOR_LENGTH[ver]))', 'write_terminator: one terminator bit less when the symbol is nearly full'),
    ('M28', 'mutation', 'C13', E, 'buff.extend([0] * (8 - (length % 8)))', 'buff.extend([0] * (-length % 8))',
     'write_padding_bits: finding D1 REPAIRED (no padding byte for an aligned stream) — the model describes the code as it is, the tie must break'),
    ('M29', 'mutation', 'C13', E, 'pad_codewords = ((1, 1, 1, 0, 1, 1, 0, 0), (0, 0, 0, 1, 0, 0, 0, 1))',
     'pad_codewords = ((0, 0, 0, 1, 0, 0, 0, 1), (1, 1, 1, 0, 1, 1, 0, 0))', 'write_pad_codewords: pad codewords in the wrong order'),
    ('M30', 'mutation', 'C13', E, 'for i in range(capacity // 8 - length // 8):', 'for i in range(capacity // 8 - length // 8 - 1):',
     'write_pad_codewords: one pad codeword too few'),
    ('M31', 'mutation', 'C06', E, "                if n1_row_counter >= 5:\n                    score_n1 += n1_row_counter - 2\n                n1_row_counter = 1",
     "                if n1_row_counter > 5:\n                    score_n1 += n1_row_counter - 2\n                n1_row_counter = 1",
     'mask_scores: N1 ignores rows runs of exactly 5 modules'),
    ('M32', 'mutation', 'C06', E, 'score_n2 += 3', 'score_n2 += 4', 'mask_scores: N2 weight 4'),
    ('M33', 'mutation', 'C06', E, 'idx = seq.find(n3_pattern, idx + 4)', 'idx = seq.find(n3_pattern, idx + 7)',
     'mask_scores: overlapping 1:1:3:1:1 patterns are not counted'),
    ('M34', 'mutation', 'C06', E, 'score_n4 = 10 * int(abs(percent * 100 - 50) / 5)', 'score_n4 = 10 * int(abs(percent * 100 - 50) / 10)',
     'mask_scores: N4 in steps of 10 %'),
    ('M35', 'mutation', 'C06', E, 'return sum1 * 16 + sum2 if sum1 <= sum2 else sum2 * 16 + sum1', 'return sum1 * 16 + sum2 if sum1 >= sum2 else sum2 * 16 + sum1',
     'evaluate_micro_mask: the larger sum is weighted'),
    ('M36', 'mutation', 'C02', E, 'if i == 6 and not is_micro:  # Timing pattern', 'if i == 7 and not is_micro:  # Timing pattern',
     'add_format_info: the timing pattern is skipped one module too late'),
    ('M37', 'mutation', 'C02', E, "        matrix[-11][i] = bit1\n        matrix[-10][i] = bit2\n        matrix[-9][i] = bit3",
     "        matrix[-11][i] = bit3\n        matrix[-10][i] = bit2\n        matrix[-9][i] = bit1", 'add_version_info: lower left block mirrored'),
    ('M38', 'mutation', 'C02', E, 'offset = 1 if i == 0 else 0', 'offset = 1', 'add_finder_patterns: the bottom left finder pattern is shifted by one row'),
    ('M39', 'mutation', 'C02', E, "        if (x, y) in finder_positions:\n            continue", "        if (x, y) in finder_positions[:2]:\n            continue",
     'add_alignment_patterns: an alignment pattern over the bottom left finder pattern'),
    ('M40', 'mutation', 'C07', E, 'if not (0x8140 <= code <= 0x9ffc or 0xe040 <= code <= 0xebbf):', 'if not (0x8140 <= code <= 0x9ffc or 0xe040 <= code <= 0xeaa4):',
     'is_kanji: the upper Shift JIS range cut at 0xeaa4'),
    ('M41', 'mutation', 'C02', E, "        col[i] = bit\n        bit ^= 0x1", "        col[i] = bit\n        bit = 0x1", 'add_timing_pattern: no alternation'),
    ('M42', 'mutation', 'C03', E, 'error_block[k + n + 1] ^= gen_exp[lcoef + gen[n]]', 'error_block[k + n] ^= gen_exp[lcoef + gen[n]]',
     'make_blocks: the synthetic division is shifted by one position'),
    ('M43', 'mutation', 'C13', E, 'if version in (2, 3, 4, 5, 6):', 'if version in (2, 3, 4, 5):', 'make_final_message: version 6 gets no remainder bits'),
    ('M44', 'mutation', 'C03', E, 'return ((val >> i) & 1 for i in reversed(range(length)))', 'return ((val >> i) & 1 for i in range(length))',
     'make_final_message.to_binary: least significant bit first'),
    ('H21', 'harmless', 'C04', E, None, None, 'find_version: local `micro_allowed` renamed to `allow_micro`'),
    ('H22', 'harmless', 'C04', E, "    min_version = consts.VERSION_M1 if micro_allowed else 1\n    max_version = consts.VERSION_M4 if micro else 40\n",
     "    max_version = consts.VERSION_M4 if micro else 40\n    min_version = consts.VERSION_M1 if micro_allowed else 1\n",
     'find_version: two independent assignments swapped'),
    ('H23', 'harmless', 'C05', E, '        if version < 1:\n            levels.pop()  # H', '        if 1 > version:\n            levels.pop()  # H',
     'boost_error_level: `version < 1` written `1 > version`'),
    ('H24', 'harmless', 'C13', E, None, None, 'write_pad_codewords: local `pad_codewords` renamed to `pads`, `write` to `put`'),
    ('H25', 'harmless', 'C06', E, "        if n1_row_counter >= 5:\n            score_n1 += n1_row_counter - 2\n        if n1_col_counter >= 5:",
     "        if 5 <= n1_row_counter:\n            score_n1 += n1_row_counter - 2\n        if n1_col_counter >= 5:",
     'mask_scores: `n1_row_counter >= 5` written `5 <= n1_row_counter` (after the inner loop)'),
    ('H26', 'harmless', 'C06', E, None, None, 'mask_scores: locals `row_current_bit` / `col_current_bit` renamed to `rbit` / `cbit`'),
    ('H27', 'harmless', 'C07', E, 'if not data_len or data_len % 2:', 'if data_len == 0 or data_len % 2 != 0:',
     'is_kanji: truthiness tests written as comparisons'),
    ('H28', 'harmless', 'C02', E, "        bit1 = (version_info >> (i * 3)) & 0x01\n        bit2 = (version_info >> ((i * 3) + 1)) & 0x01\n",
     "        bit2 = (version_info >> ((i * 3) + 1)) & 0x01\n        bit1 = (version_info >> (i * 3)) & 0x01\n",
     'add_version_info: two independent assignments swapped'),
    ('H29', 'harmless', 'C13', E, 'if version not in (consts.VERSION_M1, consts.VERSION_M3):\n        buff.extend',
     'if version != consts.VERSION_M1 and version != consts.VERSION_M3:\n        buff.extend',
     'write_padding_bits: `not in (a, b)` written as two inequalities'),
]


# ---------------------------------------------------------------- round 3 (Props.TieA3, docs/TRANSLATOR.md)
EDITS3 = [
    ('M51', 'mutation', 'C06', E, '            if is_encoding_region(i, j):\n                row[j] ^= mask_pattern(i, j)',
     '            if not is_encoding_region(i, j):\n                row[j] ^= mask_pattern(i, j)',
     'apply_mask: the function patterns are masked instead of the encoding region'),
    ('M52', 'mutation', 'C06', E, 'row[j] ^= mask_pattern(i, j)', 'row[j] ^= mask_pattern(j, i)',
     'apply_mask: mask condition evaluated with row and column exchanged'),
    ('M53', 'mutation', 'C06', E, 'return function_matrix[i][j] > 0x1', 'return function_matrix[i][j] >= 0x1',
     'is_encoding_region: dark function modules count as encoding region'),
    ('M54', 'mutation', 'C01', E, '        if not is_micro and right <= 6:\n            right -= 1',
     '        if not is_micro and right < 6:\n            right -= 1',
     'add_codewords: the column of the vertical timing pattern is not skipped'),
    ('M55', 'mutation', 'C01', E, 'upwards = ((right + inc) & 2) == 0', 'upwards = ((right + inc) & 2) != 0',
     'add_codewords: every column pair walked in the opposite direction'),
    ('M56', 'mutation', 'C01', E, 'inc = 0 if version not in (consts.VERSION_M1, consts.VERSION_M3) else 2',
     'inc = 0 if version not in (consts.VERSION_M1, consts.VERSION_M3) else 0',
     'add_codewords: segno issue 36 regressed (M1 / M3 start in the wrong direction)'),
    ('M57', 'mutation', 'C01', E, '                if row[j] == 0x2 and idx < codeword_length:', '                if row[j] != 0x1 and idx < codeword_length:',
     'add_codewords: light function modules are overwritten'),
    ('M58', 'mutation', 'C06', E, '        if is_better(score, best_score):', '        if not is_better(best_score, score):',
     'find_and_apply_best_mask: the LAST of several equally good masks wins'),
    ('M59', 'mutation', 'C06', E, '        best_score = -1\n        eval_mask = evaluate_micro_mask', '        best_score = -1\n        eval_mask = evaluate_mask',
     'find_and_apply_best_mask: Micro QR Codes evaluated with the QR Code penalty rules'),
    ('M60', 'mutation', 'C06', E, '        function_matrix[-8][8] = 0x1', '        function_matrix[-8][8] = 0x2',
     'find_and_apply_best_mask: the dark module is masked'),
    ('M61', 'mutation', 'C06', E, '        return fn1, fn4, fn6, fn7', '        return fn1, fn4, fn7, fn6',
     'get_data_mask_functions: Micro QR patterns 10 and 11 exchanged'),
    ('M62', 'mutation', 'C06', E, 'return (i // 2 + j // 3) & 0x1 == 0', 'return (i // 3 + j // 2) & 0x1 == 0',
     'get_data_mask_functions.fn4: divisors exchanged'),
    ('H55', 'harmless', 'C06', E, None, None, 'find_and_apply_best_mask: locals `best_score` / `mask_number` renamed to `top` / `number`'),
    ('H56', 'harmless', 'C06', E, '    is_micro = width == height and width < 21\n    if is_micro:\n        # ISO/IEC 18004:2015(E) - 7.8.3.2',
     '    is_micro = width < 21 and width == height\n    if is_micro:\n        # ISO/IEC 18004:2015(E) - 7.8.3.2',
     'find_and_apply_best_mask: operands of `and` in `is_micro` exchanged'),
    ('M63', 'mutation', 'C13', E, '        append_bits(consts.MODE_ECI, 4)', '        append_bits(consts.MODE_ECI, 8)',
     'write_segment: ECI mode indicator written with 8 bits'),
    ('M64', 'mutation', 'C13', E, '    elif ver > consts.VERSION_M1:  # Micro QR Code', '    elif ver >= consts.VERSION_M1:  # Micro QR Code',
     'write_segment: M1 gets a mode indicator'),
    ('M65', 'mutation', 'C07', E, '            subset = 1  # Indicator for GB2312 subset', '            subset = 0  # Indicator for GB2312 subset',
     'write_segment: Hanzi subset indicator 0'),
    ('M66', 'mutation', 'C13', E, '        for b in segment_data:\n            append_bits(b, 8)', '        for b in segment_data:\n            append_bits(b, 7)',
     'make_segment: bytes written with 7 bits'),
    ('M67', 'mutation', 'C13', E, 'append_bits(int(chunk), len(chunk) * 3 + 1)', 'append_bits(int(chunk), len(chunk) * 3 + 2)',
     'make_segment: numeric groups one bit too long'),
    ('M68', 'mutation', 'C13', E, 'append_bits(to_byte(chunk[0]) * 45 + to_byte(chunk[1]), 11)', 'append_bits(to_byte(chunk[0]) * 44 + to_byte(chunk[1]), 11)',
     'make_segment: alphanumeric pairs weighted with 44'),
    ('M69', 'mutation', 'C07', E, 'diff = code - 0x8140', 'diff = code - 0x8141',
     'make_segment: kanji offset 0x8141 (branch NOT covered by make_segment_tie_partial)'),
    ('H57', 'harmless', 'C13', E, None, None, 'write_segment: local `append_bits` renamed to `put`'),
    ('H58', 'harmless', 'C13', E, None, None, 'make_segment: locals `buff` / `chunk` renamed to `out` / `part`'),
    ('H51', 'harmless', 'C06', E, None, None, 'apply_mask: local `width_range` renamed to `cols`'),
    ('H52', 'harmless', 'C01', E, None, None, 'add_codewords: locals `vertical` / `upwards` / `range_two` renamed to `vert` / `up` / `pair`'),
    ('H53', 'harmless', 'C01', E, '        if not is_micro and right <= 6:\n            right -= 1',
     '        if not is_micro and 6 >= right:\n            right -= 1', 'add_codewords: `right <= 6` written `6 >= right`'),
    ('H54', 'harmless', 'C01', E, None, None, 'add_codewords: `idx = 0` moved below `range_two = range(2)` (independent assignments)'),
]


# ---------------------------------------------------------------- round 4 (Props.TieA4, docs/TRANSLATOR.md)
EDITS4 = [
    ('M71', 'mutation', 'C02', E, '        for i in range(9):\n            matrix[i][8] = 0x0', '        for i in range(8):\n            matrix[i][8] = 0x0',
     'make_matrix: the format-area loop stops one module early'),
    ('M72', 'mutation', 'C02', E, 'if is_square and width > 41:', 'if is_square and width > 45:',
     'make_matrix: version areas reserved from version 8 on only'),
    ('M73', 'mutation', 'C02', E, 'row[-11] = 0x0', 'row[-12] = 0x0', 'make_matrix: upper right version area one module to the left'),
    ('M74', 'mutation', 'C02', E, 'row_eight[-i] = 0x0  # Upper right', 'row_eight[-i - 1] = 0x0  # Upper right',
     'make_matrix: `-i` replaced by `-i - 1` (index 0 no longer reached through -0)'),
    ('H71', 'harmless', 'C02', E, 'row_eight[i] = 0x0  # Upper bottom', 'matrix[8][i] = 0x0  # Upper bottom',
     'make_matrix: the alias row_eight replaced by matrix[8] in one store'),
]


# ---------------------------------------------------------------- round 5 (Props.TieA5, docs/TRANSLATOR.md)
EDITS5 = [
    ('M81', 'mutation', 'C13', E,
     "    write_terminator(buff, capacity, ver, len(buff))\n    # ISO/IEC 18004:2015(E) -- 7.4.10 Bit stream to codeword conversion (page 34)\n    write_padding_bits(buff, version, len(buff))\n",
     "    write_padding_bits(buff, version, len(buff))\n    # ISO/IEC 18004:2015(E) -- 7.4.10 Bit stream to codeword conversion (page 34)\n    write_terminator(buff, capacity, ver, len(buff))\n",
     '_encode: `write_padding_bits` called before `write_terminator`'),
    ('M82', 'mutation', 'C01', E, '    add_version_info(matrix, version)\n    return Code(', '    return Code(',
     '_encode: `add_version_info` dropped'),
    ('H81', 'harmless', 'C13', E, '    height = width\n    matrix = make_matrix(width, height)\n    # ISO/IEC 18004:2015 -- 6.3.3 Finder pattern (page 16)',
     '    height = calc_matrix_size(version)\n    matrix = make_matrix(width, height)\n    # ISO/IEC 18004:2015 -- 6.3.3 Finder pattern (page 16)',
     '_encode: `height = width` written `height = calc_matrix_size(version)`'),
]


def special(eid, src):
    if eid in ('H51', 'H52', 'H55', 'H57', 'H58'):
        fn, pairs = {'H51': ('apply_mask', [('width_range', 'cols')]),
                     'H57': ('write_segment', [('append_bits', 'put')]),
                     'H58': ('make_segment', [('buff', 'out'), ('chunk', 'part')]),
                     'H55': ('find_and_apply_best_mask', [('best_score', 'top'), ('mask_number', 'number')]),
                     'H52': ('add_codewords', [('vertical', 'vert'), ('upwards', 'up'), ('range_two', 'pair')])}[eid]
        a = src.index(f'def {fn}(')
        b = src.index('\ndef ', a + 1)
        body = src[a:b]
        for x, y in pairs:
            if eid == 'H57':     # the local, not the attribute of the same name
                body = body.replace('append_bits = buff.append_bits', 'put = buff.append_bits').replace(' append_bits(', ' put(')
            else:
                body = re.sub(r'\b%s\b' % x, y, body)
        return src[:a] + body + src[b:]
    if eid == 'H54':
        old1 = '    idx = 0  # Pointer to the current codeword\n'
        old2 = '    range_two = range(2)\n'
        assert src.count(old1) == 1 and src.count(old2) == 1, 'H54 anchors'
        return src.replace(old1, '').replace(old2, old2 + old1)
    if eid in ('H21', 'H24', 'H26'):
        fn, pairs = {'H21': ('find_version', [('micro_allowed', 'allow_micro')]),
                     'H24': ('write_pad_codewords', [('pad_codewords', 'pads'), ('write', 'put')]),
                     'H26': ('mask_scores', [('row_current_bit', 'rbit'), ('col_current_bit', 'cbit')])}[eid]
        a = src.index(f'def {fn}(')
        b = src.index('\ndef ', a + 1)
        body = src[a:b]
        for x, y in pairs:
            body = re.sub(r'\b%s\b' % x, y, body)
        return src[:a] + body + src[b:]
    if eid == 'H01':
        a = src.index('def calc_format_info(')
        b = src.index('def add_format_info(')
        body = re.sub(r'\bfmt\b', 'fmt_value', src[a:b])
        return src[:a] + body + src[b:]
    if eid == 'H05':
        old = ("    if is_micro:\n        if not 0 <= mask < 4:\n"
               "            raise ValueError(f'Invalid data mask \"{mask}\" for Micro QR Code. Must be in range 0 .. 3')\n"
               "    else:\n        if not 0 <= mask < 8:\n"
               "            raise ValueError(f'Invalid data mask \"{mask}\". Must be in range 0 .. 7')\n")
        new = ("    limit = 4 if is_micro else 8\n    if not 0 <= mask < limit:\n"
               "        raise ValueError(f'Invalid data mask \"{mask}\". Must be in range 0 .. {limit - 1}')\n")
        assert src.count(old) == 1, 'H05 anchor'
        return src.replace(old, new)
    raise KeyError(eid)


def run(cmd, cwd=None, env=None, timeout=3000):
    p = subprocess.run(cmd, cwd=cwd, env=env, stdout=subprocess.PIPE, stderr=subprocess.STDOUT, timeout=timeout)
    return p.returncode, p.stdout.decode('utf-8', 'replace')


def failing_theorems(out, lean):
    res = []
    for m in re.finditer(r'error: (Props|Proofs|Gen)/(\w+)\.lean:(\d+):', out):
        path = os.path.join(lean, m.group(1), m.group(2) + '.lean')
        ln = int(m.group(3))
        name = None
        for n, line in enumerate(open(path).read().split('\n'), 1):
            mm = re.match(r'\s*(?:theorem|def|example)\s*([A-Za-z_][\w\.\']*)?', line)
            if mm and n <= ln:
                name = mm.group(1) or 'example'
        tag = f'{m.group(1)}/{m.group(2)}:{name}'
        if tag not in res:
            res.append(tag)
    return res


def one(edit, work, do_check):
    eid, kind, prop, rel, old, new, what = edit
    d = os.path.join(work, eid)
    shutil.rmtree(d, ignore_errors=True)
    os.makedirs(d)
    repo = os.path.join(d, 'repo')
    shutil.copytree(REPO, repo, ignore=shutil.ignore_patterns('.git', '__pycache__'))
    path = os.path.join(repo, rel)
    src = open(path).read()
    if old is None:
        src2 = special(eid, src)
    else:
        assert src.count(old) == 1, f'{eid}: anchor found {src.count(old)} times'
        src2 = src.replace(old, new)
    assert src2 != src
    open(path, 'w').write(src2)
    lean = os.path.join(d, 'lean')
    shutil.copytree(os.path.join(VERIF, 'lean'), lean, symlinks=True)
    res = dict(id=eid, kind=kind, property=prop, what=what)
    t0 = time.time()
    rc, out = run(['/venv/bin/python', os.path.join(HERE, 'gen.py'), repo, lean])
    res['gen'] = ' | '.join(l for l in out.strip().split('\n') if l.startswith('gen:'))[-300:]
    rc, out = run(['lake', 'build', TARGET], cwd=lean)
    res['tiea_build'] = 'ok' if rc == 0 else 'FAILS'
    res['tiea_failing'] = failing_theorems(out, lean) if rc else []
    res['tiea_s'] = round(time.time() - t0, 1)
    if do_check and (kind == 'mutation' or rc != 0):
        env = dict(os.environ, SEGNO_REPO=repo, SEGNO_VERIF_LEAN=lean, SEGNO_VERIF_OUT=os.path.join(d, 'out'), VERIF_SEED='3')
        t1 = time.time()
        rc2, out2 = run([os.path.join(VERIF, 'check'), prop], cwd=VERIF, env=env)
        res['check_exit'] = rc2
        lines = out2.strip().split('\n')
        res['check_verdict'] = [l[:400] for l in lines if re.match(r'^(VIOLATION|FAILING-INPUT|CORRESPONDENCE-DIFF|KNOWN)', l)][:4]
        res['check_search'] = sum(1 for l in lines if l.startswith('directed search round'))
        res['check_summary'] = lines[-1][:300] if lines else ''
        res['check_s'] = round(time.time() - t1, 1)
    shutil.rmtree(d, ignore_errors=True)
    print(json.dumps(res), flush=True)
    return res


def main():
    ap = argparse.ArgumentParser()
    ap.add_argument('work')
    ap.add_argument('-j', type=int, default=4)
    ap.add_argument('--only')
    ap.add_argument('--no-check', action='store_true')
    ap.add_argument('--round', type=int, default=1, help='1: Props.TieA (EDITS), 2: Props.TieA2 (EDITS2), 3: Props.TieA3 (EDITS3), 4: Props.TieA4 (EDITS4), 5: Props.TieA5 (EDITS5)')
    a = ap.parse_args()
    global TARGET
    TARGET = {1: 'Props.TieA', 2: 'Props.TieA2', 3: 'Props.TieA3', 4: 'Props.TieA4', 5: 'Props.TieA5'}[a.round]
    edits = [e for e in {1: EDITS, 2: EDITS2, 3: EDITS3, 4: EDITS4, 5: EDITS5}[a.round] if not a.only or e[0] in a.only.split(',')]
    os.makedirs(a.work, exist_ok=True)
    with ThreadPoolExecutor(a.j) as ex:
        results = list(ex.map(lambda e: one(e, a.work, not a.no_check), edits))
    print()
    for r in results:
        line = f"{r['id']} [{r['kind']}, {r['property']}] {r['what']}: {TARGET} {r['tiea_build']}"
        if r['tiea_failing']:
            line += ' at ' + ', '.join(r['tiea_failing'][:4])
        if 'check_exit' in r:
            line += f"; ./check {r['property']} exit={r['check_exit']} after {r['check_search']} directed search round(s): " \
                    + (' || '.join(r['check_verdict'])[:500] or r['check_summary'])
        print(line)


if __name__ == '__main__':
    main()
