#!/venv/bin/python
"""Demonstration for Tie A (docs/TRANSLATOR.md): mutations and harmless rewrites of translated functions.

For every entry: fresh scratch copy of the repository, the edit applied, `tools/gen.py`, `lake build Props.TieA` in a
private copy of lean/ (first failing theorem recorded), and — for mutations — `./check <property>` against the scratch
copy (verdict line recorded).  Nothing in /repo or in this clone's lean/ is touched.

usage: tools/tiea_mutations.py <workdir> [-j N] [--only id,id] [--no-check]
"""
import argparse
import json
import os
import re
import shutil
import subprocess
import sys
import time
from concurrent.futures import ThreadPoolExecutor

HERE = os.path.dirname(os.path.abspath(__file__))
VERIF = os.path.dirname(HERE)
REPO = os.environ.get('SEGNO_REPO', '/repo')

# (id, kind, property, file, old, new, what)
EDITS = [
    ('M01', 'mutation', 'C04', 'segno/encoder.py', 'elif 9 < version < 27:', 'elif 9 < version < 28:',
     'version_range: version 27 counted to the 10-26 range'),
    ('M02', 'mutation', 'C02', 'segno/encoder.py', 'fmt += consts.ERROR_LEVEL_TO_MICRO_MAPPING[version][error] << 2',
     'fmt += consts.ERROR_LEVEL_TO_MICRO_MAPPING[version][error] << 3', 'calc_format_info: Micro symbol number shifted by 3'),
    ('M03', 'mutation', 'C07', 'segno/encoder.py', 'ver = None if ver > 0 else ver', 'ver = None if ver >= 0 else ver',
     'is_mode_supported: M4 (constant 0) treated as a QR Code version'),
    ('M04', 'mutation', 'C14', 'segno/encoder.py', 'if not 0 <= mask < 4:', 'if not 0 <= mask <= 4:',
     'normalize_mask: mask 4 accepted for Micro QR'),
    ('M05', 'mutation', 'C14', 'segno/encoder.py', 'if error or not 0 < version < 41 and', 'if error or not 0 < version < 42 and',
     'normalize_version: version 41 accepted'),
    ('M06', 'mutation', 'C14', 'segno/encoder.py', 'if mode is None or mode in consts.MODE_MAPPING.values():',
     'if mode is None or mode in consts.MODE_MAPPING.values() or mode == consts.MODE_ECI:',
     'normalize_mode: the ECI mode number accepted as a mode'),
    ('M07', 'mutation', 'C09', 'segno/utils.py', 'if border is not None and (int(border) != border or border < 0):',
     'if border is not None and (int(border) != border or border < -1):', 'check_valid_border: border -1 accepted'),
    ('M08', 'mutation', 'C09', 'segno/utils.py', 'if scale <= 0:', 'if scale < 0:', 'check_valid_scale: scale 0 accepted'),
    ('M09', 'mutation', 'C09', 'segno/utils.py', 'return border if border is not None else get_default_border_size(matrix_size)',
     'return border if border else get_default_border_size(matrix_size)',
     'get_border: border=0 replaced by the default (truthiness instead of `is not None`)'),
    ('M10', 'mutation', 'C02', 'segno/utils.py', 'return 4 if width > 17 and width == height else 2',
     'return 4 if width >= 17 and width == height else 2', 'get_default_border_size: M4 (17 modules) gets border 4'),
    ('M11', 'mutation', 'C11', 'segno/utils.py', 'if not is_micro and ((i == 6 and 7 < j < width - 8) or (j == 6 and 7 < i < height - 8))',
     'if not is_micro and ((i == 6 and 7 < j < width - 7) or (j == 6 and 7 < i < height - 8))',
     'get_bit: horizontal timing pattern one module too long'),
    ('M12', 'mutation', 'C04', 'segno/encoder.py', 'overhead += sum(4 for mode in self.modes if mode == consts.MODE_HANZI)',
     'overhead += sum(3 for mode in self.modes if mode == consts.MODE_HANZI)',
     'bit_length_with_overhead: Hanzi subset indicator counted with 3 bits'),
    ('M13', 'mutation', 'C08', 'segno/encoder.py', 'bits += num * 10 + (4 if remainder == 1 else 7)',
     'bits += num * 10 + (4 if remainder == 1 else 7 if remainder == 2 else 0)',
     'calc_qrcode_bit_length: numeric remainder 0 charged 0 bits (changes the estimated symbol count)'),
    ('M14', 'mutation', 'C11', 'segno/writers.py', "        if not isinstance(color, float):\n            if 0 <= color <= 255:\n                return color",
     "        if not isinstance(color, float):\n            if 0 <= color < 255:\n                return color",
     '_alpha_value(alpha_float=False): alpha 255 refused'),
    ('M15', 'mutation', 'C04', 'segno/encoder.py', "        if is_mode_supported(mode, v):\n            return v\n    return 1",
     "        if is_mode_supported(mode, v):\n            return v\n    return 2", 'find_minimum_version_for_mode: 2 instead of 1'),
    ('M16', 'mutation', 'C07', 'segno/encoder.py', 'return 0x40 <= b <= 0xfc and b != 0x7f', 'return 0x40 <= b <= 0xfc',
     '_is_shift_jis_trail_byte: 0x7f accepted as trail byte'),
    ('H01', 'harmless', 'C02', 'segno/encoder.py', None, None, 'calc_format_info: local `fmt` renamed to `fmt_value`'),
    ('H02', 'harmless', 'C09', 'segno/utils.py', 'if scale <= 0:', 'if 0 >= scale:', 'check_valid_scale: `scale <= 0` written `0 >= scale`'),
    ('H03', 'harmless', 'C04', 'segno/encoder.py',
     "    if 0 < version < 10:\n        return consts.VERSION_RANGE_01_09\n    elif 9 < version < 27:\n        return consts.VERSION_RANGE_10_26\n",
     "    if 9 < version < 27:\n        return consts.VERSION_RANGE_10_26\n    elif 0 < version < 10:\n        return consts.VERSION_RANGE_01_09\n",
     'version_range: the first two (disjoint) branches swapped'),
    ('H04', 'harmless', 'C11', 'segno/utils.py', 'if i == height - 8 and j == 8:', 'if j == 8 and i == height - 8:',
     'get_bit: operands of `and` swapped in the dark module test'),
    ('H05', 'harmless', 'C14', 'segno/encoder.py', None, None,
     'normalize_mask: the two range checks merged into `limit = 4 if is_micro else 8; if not 0 <= mask < limit`'),
    ('H06', 'harmless', 'C09', 'segno/utils.py', 'return border if border is not None else get_default_border_size(matrix_size)',
     'return get_default_border_size(matrix_size) if border is None else border', 'get_border: conditional expression inverted'),
]


def special(eid, src):
    if eid == 'H01':
        a = src.index('def calc_format_info(')
        b = src.index('def add_format_info(')
        body = re.sub(r'\bfmt\b', 'fmt_value', src[a:b])
        return src[:a] + body + src[b:]
    if eid == 'H05':
        old = ("    if is_micro:\n        if not 0 <= mask < 4:\n"
               "            raise ValueError(f'Invalid data mask \"{mask}\" for Micro QR Code. Must be in range 0 .. 3')\n"
               "    else:\n        if not 0 <= mask < 8:\n"
               "            raise ValueError(f'Invalid data mask \"{mask}\". Must be in range 0 .. 7')\n")
        new = ("    limit = 4 if is_micro else 8\n    if not 0 <= mask < limit:\n"
               "        raise ValueError(f'Invalid data mask \"{mask}\". Must be in range 0 .. {limit - 1}')\n")
        assert src.count(old) == 1, 'H05 anchor'
        return src.replace(old, new)
    raise KeyError(eid)


def run(cmd, cwd=None, env=None, timeout=3000):
    p = subprocess.run(cmd, cwd=cwd, env=env, stdout=subprocess.PIPE, stderr=subprocess.STDOUT, timeout=timeout)
    return p.returncode, p.stdout.decode('utf-8', 'replace')


def failing_theorems(out, lean):
    res = []
    for m in re.finditer(r'error: (Props|Proofs|Gen)/(\w+)\.lean:(\d+):', out):
        path = os.path.join(lean, m.group(1), m.group(2) + '.lean')
        ln = int(m.group(3))
        name = None
        for n, line in enumerate(open(path).read().split('\n'), 1):
            mm = re.match(r'\s*(?:theorem|def|example)\s*([A-Za-z_][\w\.\']*)?', line)
            if mm and n <= ln:
                name = mm.group(1) or 'example'
        tag = f'{m.group(1)}/{m.group(2)}:{name}'
        if tag not in res:
            res.append(tag)
    return res


def one(edit, work, do_check):
    eid, kind, prop, rel, old, new, what = edit
    d = os.path.join(work, eid)
    shutil.rmtree(d, ignore_errors=True)
    os.makedirs(d)
    repo = os.path.join(d, 'repo')
    shutil.copytree(REPO, repo, ignore=shutil.ignore_patterns('.git', '__pycache__'))
    path = os.path.join(repo, rel)
    src = open(path).read()
    if old is None:
        src2 = special(eid, src)
    else:
        assert src.count(old) == 1, f'{eid}: anchor found {src.count(old)} times'
        src2 = src.replace(old, new)
    assert src2 != src
    open(path, 'w').write(src2)
    lean = os.path.join(d, 'lean')
    shutil.copytree(os.path.join(VERIF, 'lean'), lean, symlinks=True)
    res = dict(id=eid, kind=kind, property=prop, what=what)
    t0 = time.time()
    rc, out = run(['/venv/bin/python', os.path.join(HERE, 'gen.py'), repo, lean])
    res['gen'] = ' | '.join(l for l in out.strip().split('\n') if l.startswith('gen:'))[-300:]
    rc, out = run(['lake', 'build', 'Props.TieA'], cwd=lean)
    res['tiea_build'] = 'ok' if rc == 0 else 'FAILS'
    res['tiea_failing'] = failing_theorems(out, lean) if rc else []
    res['tiea_s'] = round(time.time() - t0, 1)
    if do_check and (kind == 'mutation' or rc != 0):
        env = dict(os.environ, SEGNO_REPO=repo, SEGNO_VERIF_LEAN=lean, SEGNO_VERIF_OUT=os.path.join(d, 'out'), VERIF_SEED='3')
        t1 = time.time()
        rc2, out2 = run([os.path.join(VERIF, 'check'), prop], cwd=VERIF, env=env)
        res['check_exit'] = rc2
        lines = out2.strip().split('\n')
        res['check_verdict'] = [l[:400] for l in lines if re.match(r'^(VIOLATION|FAILING-INPUT|CORRESPONDENCE-DIFF|KNOWN)', l)][:4]
        res['check_search'] = sum(1 for l in lines if l.startswith('directed search round'))
        res['check_summary'] = lines[-1][:300] if lines else ''
        res['check_s'] = round(time.time() - t1, 1)
    shutil.rmtree(d, ignore_errors=True)
    print(json.dumps(res), flush=True)
    return res


def main():
    ap = argparse.ArgumentParser()
    ap.add_argument('work')
    ap.add_argument('-j', type=int, default=4)
    ap.add_argument('--only')
    ap.add_argument('--no-check', action='store_true')
    a = ap.parse_args()
    edits = [e for e in EDITS if not a.only or e[0] in a.only.split(',')]
    os.makedirs(a.work, exist_ok=True)
    with ThreadPoolExecutor(a.j) as ex:
        results = list(ex.map(lambda e: one(e, a.work, not a.no_check), edits))
    print()
    for r in results:
        line = f"{r['id']} [{r['kind']}, {r['property']}] {r['what']}: Props.TieA {r['tiea_build']}"
        if r['tiea_failing']:
            line += ' at ' + ', '.join(r['tiea_failing'][:4])
        if 'check_exit' in r:
            line += f"; ./check {r['property']} exit={r['check_exit']} after {r['check_search']} directed search round(s): " \
                    + (' || '.join(r['check_verdict'])[:500] or r['check_summary'])
        print(line)


if __name__ == '__main__':
    main()
