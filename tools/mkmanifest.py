#!/usr/bin/env python3
"""Writes MANIFEST.json from the table below (one place to keep claims, levels and notes current)."""
import json, os
V = os.path.dirname(os.path.dirname(os.path.abspath(__file__)))
props = [json.loads(l) for l in open(os.path.join(V, 'properties.jsonl'))]
NOTE = ('Trusted: Lean 4.33 kernel; axioms propext, Classical.choice, Quot.sound only (audited per theorem on every run); translator '
        'tools/gen.py; correspondence harness (differential testing on generated inputs, counts in the evidence); frozen ISO tables in '
        'lean/Spec/Tables.lean; Python codecs, zlib, time, file system are parameters. ')
TECH = 'Lean 4 theorems about an executable model + regenerated tables (translator) + model/implementation correspondence + Lean spec judged on implementation output'
CLAIMS = {
 'C01': ('proof', 'segment_roundtrip (every byte string, every mode: reference reader inverts the bit packing), bits/cci lemmas, count_fits_indicator; reference decoder of the Lean spec executed on every symbol the real code returns; model tied to the code by regenerated tables and correspondence on the same inputs', ''),
 'C02': ('proof', 'kernel-checked theorems that the regenerated FORMAT_INFO/VERSION_INFO/ALIGNMENT_POS tables and size arithmetic are the ISO BCH/Golay/Annex-E values; ISO region predicates judged on every (version, level, mask) triple of the real code', ''),
 'C03': ('proof', 'unbounded theorem block_is_codeword / block_valid_for_reference_reader (any data block, every EC length) about the model of make_blocks over GF(256) built from first principles; regenerated GF/generator/Table 9 tables kernel-checked against ISO; syndromes of every block of real symbols judged', 'Correctability (unique decoding within floor(ec/2) errors) follows from the codeword property by the standard distance argument, which is not formalised here.'),
 'C04': ('proof', 'findVersion_is_first_fit, encode_never_truncates, encode_requested_version, bitLength_eq_needed about the model of find_version/encode; ISO bit counts and smallest fitting version recomputed by the Lean spec on real output at both sides of every capacity boundary', ''),
 'C05': ('proof', 'boost_is_highest_fitting, boost_never_below, version_boost_invariant, noboost_exact, capacity_antitone about the model of boost_error_level/encode; expected level recomputed by the Lean spec from decoded segments', ''),
 'C06': ('proof', 'mask_conditions (translated fn0..fn7 = ISO Table 10), score_eq_iso (model of mask_scores = ISO 7.8.3.1 penalty incl. every overlapping 1:1:3:1:1 occurrence), auto_is_first_best (candidate loop returns the first optimum); every candidate of real symbols re-scored by the independent ISO penalty spec', 'N4 is modelled in exact integer arithmetic; equality with the float formula of the code is checked by correspondence.'),
 'C07': ('proof', 'findMode_eq_autoMode, makeSegment_auto, makeSegment_requested_partial (empty content with kanji/hanzi excluded), mode_supported_iff_cci; spec evaluated on exhaustive small scopes of real output', ''),
 'C09': ('proof', 'matrix_iter_pixel (unbounded: the iterator yields exactly the (size+2b)s pixel grid with the module formula), matrix_iter_refused, pack_unpack / pack_unpack_xbm (bit packing inverts for depth 1/2/4 and every width), scanline_unpack, up_filter_zero_row, css3_table; every real PNG/PBM/PAM/PPM/XBM/XPM/TXT/ANSI/compact output read back pixel by pixel by the Lean spec (PNG incl. all chunk CRCs, zlib header and Adler-32)', 'PNG palette / tRNS assembly and the PAM/PPM/XPM colour paths are judged on every output, not proved (def PngStreamRows, png_palette open); zlib inflate is done by the harness, bound to the file by the Adler-32 check in Lean.'),
 'C10': ('proof', 'runs_cover, runs_maximal, raster_row, rel_abs (SVG/EPS), y_flip, page_box, pdf_offsets about the model of matrix_to_lines and the vector emitters; every real SVG/EPS/PDF/TeX document parsed and rasterised on the module grid by the Lean spec with exact rationals', 'XML/PS/PDF tokenising and zlib inflate are done by the Python harness (container parsing); the token-level interpreters of the judge are not proved equal to the model (full statement kept as a def).'),
 'C16': ('proof', 'unescape_escape, escaped_has_no_unescaped_delimiter, wifi_roundtrip, mecard_roundtrip, vcard_one_line, vcard_lines, geo_roundtrip, mailto_roundtrip, epc_amount, epc_layout, epc_fits_13M (all unbounded over strings) about the model of helpers.py with escape tables and EPC constants regenerated from the source; every real payload parsed by the Lean spec; symbols of the make_* factories decoded by the reference decoder', 'epc refusal equivalence is compared and judged, not proved (def epc_refusals_statement). str(float), strftime and codec availability are parameters.'),
 'C11': ('proof', 'types_iso_partial (every version, module and border: the verbose classifier = ISO region type, except the recorded cell D8), not_types_iso (witness), iter_verbose_pixel, align_tie (kernel, all 44 versions), dark_bit, dark_bit_constants; verbose / plain grids of all 44 sizes and colourful PNG/PPM/SVG outputs judged per module by the Lean spec', '_make_colormap / colorful are judged, not modelled. Known finding D8 reported as KNOWN-FINDING; any other cell is a violation.'),
 'C12': ('proof', 'cli_kwargs_eq_api / ext_mapping_sound (kernel checks over serializer signatures, argparse table and _EXT_TO_KW_MAPPING regenerated from the source), dispatch_* and sequence_names theorems (unbounded over strings) about the model of build_config / save / QRCodeSequence.save; byte identity of all routes (path, stream, data URI, inline, svgz, CLI) compared on the real code and judged by the Lean spec after stripping the documented timestamp lines', 'Proof level for option mapping, dispatch and naming; byte identity across routes is exploration on the implementation (it depends on gzip, base64, file system). Known finding D12 reported as KNOWN-FINDING.'),
 'C14': ('proof', 'spelling_invariance and its lemmas (unbounded over case patterns / numeric strings), excluded_refused, mask/version/symbol_count refusal theorems, no_crash_partial (every stage before _encode raises ValueError-family errors only; assert unreachable) about the model of argument normalisation + encode; exception classes, spelling variants, serializer refusals and CLI exit behaviour judged on the real code over pairwise-complete argument products', 'no_crash is partial: _encode itself is covered under proved preconditions by hypothesis EncodeCoreCrashFree; serializer validation and the CLI are judged, not modelled. Known finding D16 (shadow of C08) reported as KNOWN-FINDING.'),
 'C13': ('proof', 'stream_layout_partial_partial / stream_layout_iff / stream_layout_d1 (model of terminator + padding = ISO tail exactly outside the recorded deviation D1, = predicted deviation on it), iso_tail_fills_capacity, remainder_bits_iso; ISO tail recomputed by the Lean spec on data codewords recovered from real symbols', 'Known finding D1 is reported as KNOWN-FINDING, any other deviation is a violation.'),
}
checks = []
for p in props:
    if p['id'] in CLAIMS:
        cat, text, extra = CLAIMS[p['id']]
        checks.append(dict(property_id=p['id'], quick_cmd=f"./check {p['id']} --tier quick", thorough_cmd=f"./check {p['id']} --tier thorough",
                           evidence_file=f"evidence/{p['id']}.json", replay_cmd_template=f"./check {p['id']} --replay {{path}}",
                           engine='lean-proof+judge', level_claimed=dict(category=cat, text=text, design_ref='DESIGN.md section 7 ' + p['id']),
                           level_note=NOTE + extra, technique=TECH))
m = dict(version=1, setup_cmd='./setup.sh',
         hooks=dict(guard='SEGNO_VERIF', enable='no hooks needed: every observation point is public API (guard unused)',
                    baseline_off_cmd='cd /repo && /venv/bin/python -m pytest -ra -q -p no:cacheprovider --timeout=900 --continue-on-collection-errors',
                    source_commits=[], add_only=True),
         engines=[dict(name='lean-proof+judge', path='lean/', serves_properties=sorted(CLAIMS),
                       kind_free_text='Lean 4 project: Spec (ISO reference, judge exe), Gen (regenerated from /repo), Model (executable model, model exe), Proofs, Props (property theorems)'),
                  dict(name='py-harness', path='harness/', serves_properties=sorted(CLAIMS),
                       kind_free_text='drives the real segno in-process, correspondence and judging through line protocols')],
         checks=checks,
         not_applicable=[dict(property_id=p['id'], reason='check under construction in this round (model, theorems and harness not yet merged)')
                         for p in props if p['id'] not in CLAIMS],
         notes='See DESIGN.md. KNOWN_FINDINGS.txt lists recorded defects and fix: commits; seeded/ holds confirmed seeded defects.')
json.dump(m, open(os.path.join(V, 'MANIFEST.json'), 'w'), indent=1)
print('claimed', sorted(CLAIMS))
