/-
  Gen.Py2 — second part of the Python primitives the AST translator (tools/pytolean.py) refers to: sequences
  (lists / bytearrays as `List`), in-place updates as functional updates, slices, loops with early exit,
  `while` with declared fuel, iterators, exact rationals for the float sub-language.  Copied verbatim from
  tools/py_prelude2.lean into lean/Gen/Py2.lean by tools/gen.py on every run.
  DO NOT EDIT lean/Gen/Py2.lean (edit tools/py_prelude2.lean).

  As in Gen.Py everything is total and explicit about refusal: an operation that raises in Python returns
  `Except.error` with the exception class.
-/
import Gen.Py

namespace Gen.Py

/-! ### indexes and slices -/

/-- position of the Python index `i` in a sequence of length `n` (negative indexes count from the end);
    `none` = IndexError -/
def normIndex (n : Nat) (i : Int) : Option Nat :=
  if 0 ≤ i ∧ i < (n : Int) then some i.toNat
  else if -(n : Int) ≤ i ∧ i < 0 then some ((n : Int) + i).toNat
  else none

/-- bound of a slice: negative values count from the end, everything is clipped to `0 … n` -/
def clip (n : Nat) (i : Int) : Nat :=
  if i < 0 then ((n : Int) + i).toNat else min i.toNat n

def sliceLo (n : Nat) : Option Int → Nat
  | none => 0
  | some i => clip n i

def sliceHi (n : Nat) : Option Int → Nat
  | none => n
  | some i => clip n i

/-- `xs[lo:hi]` (step 1; a missing bound is `none`); never raises -/
def slice {α : Type} (xs : List α) (lo hi : Option Int) : List α :=
  (xs.take (sliceHi xs.length hi)).drop (sliceLo xs.length lo)

/-- `xs[lo:hi] = ys` (step 1): the slice is replaced, the length may change; never raises -/
def setSlice {α : Type} (xs : List α) (lo hi : Option Int) (ys : List α) : List α :=
  let a := sliceLo xs.length lo
  let b := sliceHi xs.length hi
  xs.take a ++ ys ++ xs.drop (max a b)

/-- `xs[i] = v` -/
def setItem {α : Type} (xs : List α) (i : Int) (v : α) : M (List α) :=
  match normIndex xs.length i with
  | some k => .ok (xs.set k v)
  | none => .error .indexError

/-- `m[i][j] = v` on a list of (distinct) rows -/
def setItem2 {α : Type} (m : List (List α)) (i j : Int) (v : α) : M (List (List α)) :=
  bind (index m i) (fun row => bind (setItem row j v) (fun row' => setItem m i row'))

/-- `m[i][lo:hi] = ys` on a list of (distinct) rows -/
def setSlice2 {α : Type} (m : List (List α)) (i : Int) (lo hi : Option Int) (ys : List α) : M (List (List α)) :=
  bind (index m i) (fun row => setItem m i (setSlice row lo hi ys))

/-- a value stored into a `bytearray` must be in `range(256)` (checked before the index) -/
def checkByte (v : Int) : M Unit := if 0 ≤ v ∧ v < 256 then .ok () else .error .valueError

/-- `bytearray.extend(ys)` / `bytearray(ys)` / slice assignment: every element must be in `range(256)` -/
def checkBytes (ys : List Int) : M Unit := if ys.all (fun v => decide (0 ≤ v ∧ v < 256)) then .ok () else .error .valueError

/-- `bytearray(n)` -/
def zeros (n : Int) : M (List Int) := if n < 0 then .error .valueError else .ok (List.replicate n.toNat 0)

/-- `xs * n` -/
def «repeat» {α : Type} (xs : List α) (n : Int) : List α := (List.replicate n.toNat xs).flatten

/-- `xs.pop(i)`: the element and the rest; IndexError when out of range (or empty) -/
def popAt {α : Type} (xs : List α) (i : Int) : M (α × List α) :=
  match normIndex xs.length i with
  | some k =>
    match xs[k]? with
    | some v => .ok (v, xs.eraseIdx k)
    | none => .error .indexError
  | none => .error .indexError

/-- `xs.index(v)` with the equality test `p`: ValueError when absent -/
def indexOf {α : Type} (xs : List α) (p : α → Bool) : M Int :=
  match xs.findIdx? p with
  | some k => .ok (Int.ofNat k)
  | none => .error .valueError

/-- `next(it)` on an iterator over a list (the remaining items) -/
def next {α : Type} (it : List α) : M (α × List α) :=
  match it with
  | [] => .error .stopIteration
  | x :: rest => .ok (x, rest)

/-- `islice(it, n)` consumed at once: the next n items and the advanced iterator (`ValueError` for a negative n) -/
def isliceN {α : Type} (it : List α) (n : Int) : M (List α × List α) :=
  if n < 0 then .error .valueError else .ok (it.take n.toNat, it.drop n.toNat)

/-- `zip_longest(*xss)`: the columns of the rows `xss`, `none` where a row is too short -/
def zipLongest {α : Type} (xss : List (List α)) : List (List (Option α)) :=
  (List.range ((xss.map List.length).foldl max 0)).map (fun r => xss.map (fun xs => xs[r]?))

/-- `enumerate(xs)` -/
def enumerate {α : Type} (xs : List α) : List (Int × α) := xs.zipIdx.map (fun p => (Int.ofNat p.2, p.1))

/-- `itertools.product(xs, repeat=2)` -/
def product2 {α : Type} (xs : List α) : List (α × α) := xs.flatMap (fun x => xs.map (fun y => (x, y)))

/-- `range(lo, hi, step)` for a negative literal step `-k` -/
def rangeDown (lo hi : Int) (k : Nat) : List Int :=
  (List.range (((lo - hi).toNat + k - 1) / k)).map (fun (j : Nat) => lo - Int.ofNat j * Int.ofNat k)

/-- `max(xs)` / `min(xs)` of a sequence: ValueError when empty -/
def maxOf : List Int → M Int
  | [] => .error .valueError
  | x :: xs => .ok (xs.foldl max x)

def minOf : List Int → M Int
  | [] => .error .valueError
  | x :: xs => .ok (xs.foldl min x)

/-- `sum(xs)` -/
def sumL (xs : List Int) : Int := xs.foldl (· + ·) 0

/-- `functools.reduce(operator.xor, xs)`: TypeError when empty -/
def reduceXor : List Int → M Int
  | [] => .error .typeError
  | x :: xs => .ok (xs.foldl bxor x)

/-- `[f(x) for x in xs]` with an element expression that can raise (left to right, the first exception wins) -/
def mapM {α β : Type} (xs : List α) (f : α → M β) : M (List β) :=
  match xs with
  | [] => .ok []
  | x :: rest => bind (f x) (fun y => bind (mapM rest f) (fun ys => .ok (y :: ys)))

/-- `any(f(x) for x in xs)` with short circuit -/
def anyM {α : Type} (xs : List α) (f : α → M Bool) : M Bool :=
  match xs with
  | [] => .ok false
  | x :: rest => bind (f x) (fun b => if b then .ok true else anyM rest f)

/-- `all(f(x) for x in xs)` with short circuit -/
def allM {α : Type} (xs : List α) (f : α → M Bool) : M Bool :=
  match xs with
  | [] => .ok true
  | x :: rest => bind (f x) (fun b => if b then allM rest f else .ok false)

/-- `seq.find(pat, start)` on bytes / bytearray: the lowest index ≥ start, −1 when absent -/
def find (xs pat : List Int) (start : Int) : Int :=
  let s := clip xs.length start
  if start > (xs.length : Int) then -1 else
  match (List.range (xs.length + 1 - pat.length - s)).find? (fun k => (xs.drop (s + k)).take pat.length == pat) with
  | some k => Int.ofNat (s + k)
  | none => -1

/-- `data.isdigit()` on bytes: non-empty and only ASCII digits -/
def isDigit (xs : List Int) : Bool := !xs.isEmpty && xs.all (fun b => decide (48 ≤ b ∧ b ≤ 57))

/-- `Buffer.append_bits(val, length)`: `((val >> i) & 1 for i in reversed(range(length)))`, most significant bit first -/
def appendBits (val length : Int) : List Int :=
  ((range 0 length).reverse).map (fun i => band (Int.fdiv val (2 ^ i.toNat)) 1)

/-- `Buffer.toints()`: groups of 8 bits (the last one zero-filled) read as binary numbers -/
def toInts : Nat → List Int → List Int
  | 0, _ => []
  | _, [] => []
  | f + 1, bs =>
    let g := bs.take 8
    (g ++ List.replicate (8 - g.length) 0).foldl (fun acc b => acc * 2 + b) 0 :: toInts f (bs.drop 8)

/-- read of a local that may be unbound (first assigned inside a loop that may not have assigned it): `none` = unbound -/
def unbound {α : Type} : Option α → M α
  | some a => .ok a
  | none => .error .unboundLocalError

/-- `xs[:]` of every row: a copy (values have no identity) -/
@[simp] theorem slice_all {α : Type} (xs : List α) : slice xs none none = xs := by
  simp [slice, sliceHi, sliceLo]

/-! ### loops -/

/-- what one execution of a loop body ends with -/
inductive Step (σ ρ : Type) where
  | next (s : σ)     -- end of the body / `continue`
  | brk (s : σ)      -- `break`
  | ret (r : ρ)      -- `return r`

/-- what a loop ends with -/
inductive Done (σ ρ : Type) where
  | fin (s : σ)      -- exhausted or left by `break`
  | ret (r : ρ)      -- left by `return r`

/-- `for x in xs: body` with `break` / `continue` / `return`, body cannot raise -/
def forP {α σ ρ : Type} (xs : List α) (init : σ) (body : σ → α → Step σ ρ) : Done σ ρ :=
  match xs with
  | [] => .fin init
  | x :: rest =>
    match body init x with
    | .next s => forP rest s body
    | .brk s => .fin s
    | .ret r => .ret r

/-- `for x in xs: body` with `break` / `continue` / `return`, body can raise -/
def forM {α σ ρ : Type} (xs : List α) (init : σ) (body : σ → α → M (Step σ ρ)) : M (Done σ ρ) :=
  match xs with
  | [] => .ok (.fin init)
  | x :: rest =>
    match body init x with
    | .error e => .error e
    | .ok (.next s) => forM rest s body
    | .ok (.brk s) => .ok (.fin s)
    | .ok (.ret r) => .ok (.ret r)

/-- `for x in xs: body` without early exit, body can raise -/
def foldlM {α σ : Type} (xs : List α) (init : σ) (body : σ → α → M σ) : M σ :=
  match xs with
  | [] => .ok init
  | x :: rest =>
    match body init x with
    | .error e => .error e
    | .ok s => foldlM rest s body

/-- `while cond: body` — `body` is the test followed by the loop body (`brk` when the test fails).  Python has no
    bound on the number of iterations; the translation declares one (`fuel`) and fails with the artificial
    `fuelExhausted` (which no Python code raises or catches) if it does not suffice.  A theorem that shows the
    translation equal to a model that never fails thereby shows that the declared fuel suffices. -/
def whileM {σ ρ : Type} (fuel : Nat) (s : σ) (body : σ → M (Step σ ρ)) : M (Done σ ρ) :=
  match fuel with
  | 0 => .error .fuelExhausted
  | f + 1 =>
    match body s with
    | .error e => .error e
    | .ok (.next s') => whileM f s' body
    | .ok (.brk s') => .ok (.fin s')
    | .ok (.ret r) => .ok (.ret r)

@[simp] theorem forM_nil {α σ ρ : Type} (init : σ) (body : σ → α → M (Step σ ρ)) : forM [] init body = .ok (.fin init) := rfl
@[simp] theorem forP_nil {α σ ρ : Type} (init : σ) (body : σ → α → Step σ ρ) : forP [] init body = .fin init := rfl
@[simp] theorem foldlM_nil {α σ : Type} (init : σ) (body : σ → α → M σ) : foldlM [] init body = .ok init := rfl

/-! ### exact rationals: the model of the float sub-language (`float(int)`, `+ - * /`, `abs`, `int`)
    ASSUMPTION (stated in docs/TRANSLATOR.md): IEEE double arithmetic is replaced by exact rational arithmetic. -/

structure Q where
  num : Int
  den : Nat          -- 0 never occurs in a result (`qdiv` raises instead)
  deriving Repr

def Q.ofInt (a : Int) : Q := ⟨a, 1⟩
def Q.add (a b : Q) : Q := ⟨a.num * b.den + b.num * a.den, a.den * b.den⟩
def Q.sub (a b : Q) : Q := ⟨a.num * b.den - b.num * a.den, a.den * b.den⟩
def Q.mul (a b : Q) : Q := ⟨a.num * b.num, a.den * b.den⟩
def Q.abs (a : Q) : Q := ⟨Int.ofNat a.num.natAbs, a.den⟩
/-- `a / b`: ZeroDivisionError for b = 0 -/
def Q.div (a b : Q) : M Q :=
  if b.num = 0 then .error .zeroDivisionError
  else .ok ⟨(if b.num < 0 then -a.num else a.num) * b.den, a.den * b.num.natAbs⟩
/-- `int(x)`: truncation towards zero -/
def Q.toInt (a : Q) : Int := Int.tdiv a.num a.den

end Gen.Py
