#!/bin/bash
# usage: run_seeded.sh <seed-id> [property ...]   e.g. run_seeded.sh C03-1 C03
# Runs the given checks (default: the seeded property's check) against a scratch copy of /repo with the
# seeded patch applied, using a private copy of the lean project, and prints the outcome. Nothing in
# /repo or /verif/lean is touched; the scratch directory is removed afterwards.
ID=$1; shift; PROPS=${@:-${ID:0:3}}
S=/var/tmp/segno-seedrun/$ID; rm -rf $S; mkdir -p $S
cp -r /repo $S/repo; rm -rf $S/repo/.git
(cd $S/repo && patch -p1 -s < /verif/seeded/$ID/patch.diff) || { echo "$ID PATCH-FAILED"; rm -rf $S; exit 0; }
mkdir -p $S/v; cp -r /verif/lean $S/v/lean
for P in $PROPS; do
  out=$(cd /verif && SEGNO_REPO=$S/repo SEGNO_VERIF_LEAN=$S/v/lean SEGNO_VERIF_OUT=$S/out timeout 1500 ./check $P --tier ${TIER:-quick} 2>&1)
  rc=$?
  echo "$ID $P exit=$rc :: $(echo "$out" | grep -E '^VIOLATION|^FAILING-INPUT|^CORRESPONDENCE-DIFF' | head -3 | cut -c1-400 | tr '\n' ' ')"
  if [ -n "$KEEP_REPLAY" ]; then mkdir -p /verif/seeded/$ID/detected; cp $S/out/replays/* /verif/seeded/$ID/detected/ 2>/dev/null; fi
done
rm -rf $S
