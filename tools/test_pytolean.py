#!/venv/bin/python
"""Self-test of the translator tools/pytolean.py on synthetic functions that exercise every construct of the subset
(docs/TRANSLATOR.md), including those no translated segno function uses today (range loops, `//` and `%` with negative
operands, shifts, bit operations on negative numbers, nested try / except, assert).  Each function is translated, and
the Lean kernel (`by decide`) compares the translation with what Python returned on sample arguments.  A second group
checks that constructs outside the subset are refused (loud failure).

usage: tools/test_pytolean.py [lean-dir]        (exit 0 = all good)"""
import ast
import os
import subprocess
import sys
import tempfile
import types

HERE = os.path.dirname(os.path.abspath(__file__))
sys.path.insert(0, HERE)
import pytolean as P  # noqa: E402

SRC = '''
LIMIT = 10
TABLE = (3, 1, 4, 1, 5, 9, 2, 6)
NAMES = {'a': 1, 'b': 2}
LEVELS = {None: 0, 1: 10, 2: 20}

def floor_ops(a, b):
    return a // 3 + a % 3 + a // -3 + a % -3 + (a // b if b else 0) + (a % b if b != 0 else 7)

def div_raises(a, b):
    return a // b

def shifts(a, k):
    return (a << 3) + (a >> 2) + (a << k) + (a >> k)

def bits(a, b):
    return (a & b) + 2 * (a | b) + 3 * (a ^ b) + (~a)

def tri(n):
    total = 0
    for i in range(n):
        total += i
    return total

def two_acc(lo, hi):
    s = 0
    p = 1
    for i in range(lo, hi):
        if i % 2 == 0:
            s += i
        else:
            p = p * 2 + s
    return s * 1000 + p

def stepped(n):
    acc = 0
    for i in range(1, n, 3):
        acc = acc * 2 + i
    return acc

def chained(a, b, c):
    if a < b <= c:
        return 1
    elif a == b == c:
        return 2
    elif not a > b >= c and a != c:
        return 3
    return 4

def opt(x, y):
    if x is None and y is not None:
        return y
    if x is not None and x > LIMIT:
        return None
    return x if x is not None else -1

def lookup(i, k):
    try:
        v = TABLE[i]
    except IndexError:
        v = -1
    try:
        return v + LEVELS[k]
    except KeyError:
        raise ValueError('no such level')

def name_of(v):
    for name, val in NAMES.items():
        if val == v:
            return name
    raise KeyError(v)

def guarded(a):
    assert a != 3
    if a in (1, 2, LIMIT):
        raise TypeError('x')
    return min(a, 5) * max(a, -5) + abs(a)

def power(a):
    return a ** 3 - 2 ** 5

def mixed(flag, a):
    q, r = divmod(a, 7)
    return (q, r, flag and a > 0 or not flag and a < 0)

# ---- outside the subset
def bad_while(n):
    while n > 0:
        n -= 1
    return n

def bad_float(a):
    return a / 2

def bad_str(s):
    return s.upper()

def bad_break(n):
    t = 0
    for i in range(n):
        if i > 3:
            break
        t += i
    return t

def bad_return_in_loop(n):
    for i in range(n):
        if i == 3:
            return i
    return -1

def bad_global_call(a):
    return len(str(a))

def bad_listcomp(n):
    return sum([i for i in range(n)])

def bad_late_raise(a, b):
    return a < b < TABLE[a]
'''

I, B, S, N = P.INT, P.BOOL, P.STR, P.NONE
SMALL = [-9, -8, -7, -4, -3, -2, -1, 0, 1, 2, 3, 4, 5, 7, 8, 9, 11, 12]
GOOD = [
    dict(path=['floor_ops'], params={'a': I, 'b': I}, ret=I, samples={'a': SMALL, 'b': SMALL}, nsamples=150),
    dict(path=['div_raises'], params={'a': I, 'b': I}, ret=I, samples={'a': SMALL, 'b': [-2, 0, 3]}),
    dict(path=['shifts'], params={'a': I, 'k': I}, ret=I, samples={'a': SMALL, 'k': [-1, 0, 1, 5]}),
    dict(path=['bits'], params={'a': I, 'b': I}, ret=I, samples={'a': SMALL + [255, -256], 'b': SMALL + [170]}, nsamples=200),
    dict(path=['tri'], params={'n': I}, ret=I, samples={'n': SMALL}),
    dict(path=['two_acc'], params={'lo': I, 'hi': I}, ret=I, samples={'lo': SMALL, 'hi': SMALL}, nsamples=120),
    dict(path=['stepped'], params={'n': I}, ret=I, samples={'n': SMALL + [20]}),
    dict(path=['chained'], params={'a': I, 'b': I, 'c': I}, ret=I, samples={'a': [0, 1, 2, 3], 'b': [0, 1, 2, 3], 'c': [0, 1, 2, 3]}),
    dict(path=['opt'], params={'x': P.OPT(I), 'y': P.OPT(I)}, ret=P.OPT(I), samples={'x': [None] + SMALL, 'y': [None, 5]}),
    dict(path=['lookup'], params={'i': I, 'k': P.OPT(I)}, ret=I, samples={'i': SMALL, 'k': [None, 1, 2, 3]}),
    dict(path=['name_of'], params={'v': I}, ret=S, samples={'v': [0, 1, 2, 3]}),
    dict(path=['guarded'], params={'a': I}, ret=I, samples={'a': SMALL + [10]}),
    dict(path=['power'], params={'a': I}, ret=I, samples={'a': SMALL}),
    dict(path=['mixed'], params={'flag': B, 'a': I}, ret=P.TUPLE(I, I, B), samples={'a': SMALL}),
]
BAD = [
    dict(path=['bad_while'], params={'n': I}, ret=I),
    dict(path=['bad_float'], params={'a': I}, ret=I),
    dict(path=['bad_str'], params={'s': S}, ret=S),
    dict(path=['bad_break'], params={'n': I}, ret=I),
    dict(path=['bad_return_in_loop'], params={'n': I}, ret=I),
    dict(path=['bad_global_call'], params={'a': I}, ret=I),
    dict(path=['bad_listcomp'], params={'n': I}, ret=I),
    dict(path=['bad_late_raise'], params={'a': I, 'b': I}, ret=B),
]


def main():
    leandir = sys.argv[1] if len(sys.argv) > 1 else os.path.join(HERE, '..', 'lean')
    mod = types.ModuleType('sample')
    exec(compile(SRC, '<sample>', 'exec'), mod.__dict__)
    tree = ast.parse(SRC)
    tr = P.Translation({'sample': mod}, {'sample': tree}, {'sample': {}})
    for spec in GOOD + BAD:
        spec['module'] = 'sample'
        spec['name'] = spec['path'][-1]
        tr.add(spec)
    failed = False
    status = dict(tr.report)
    for spec in GOOD:
        if not status[spec['name']].startswith('ok'):
            print('FAIL (should translate):', spec['name'], status[spec['name']])
            failed = True
    for spec in BAD:
        if status[spec['name']].startswith('ok'):
            print('FAIL (should be refused):', spec['name'])
            failed = True
        else:
            print('refused as expected:', spec['name'], '--', status[spec['name']])
    good_names = {s['name'] for s in GOOD}
    tr.defs = [(n, t) for n, t in tr.defs if n in good_names]
    text = tr.funcs_text().replace('namespace Gen.Funcs', 'namespace Gen.TestFuncs').replace('end Gen.Funcs', 'end Gen.TestFuncs')
    checks = '\n\n'.join(tr.checks)
    with tempfile.TemporaryDirectory() as d:
        path = os.path.join(d, 'TestFuncs.lean')
        with open(path, 'w') as f:
            f.write(text + '\nnamespace Gen.TestCheck\nopen Gen.Py Gen.TestFuncs\n\n' + checks + '\n\nend Gen.TestCheck\n')
        p = subprocess.run(['lake', 'env', 'lean', path], cwd=leandir, stdout=subprocess.PIPE, stderr=subprocess.STDOUT)
        out = p.stdout.decode()
        if p.returncode != 0:
            print(out[-3000:])
            keep = os.path.join(tempfile.gettempdir(), 'TestFuncs.lean')
            open(keep, 'w').write(open(path).read())
            print('FAIL: Lean rejected the translation or a sample evaluation differs; file kept at', keep)
            failed = True
    n = sum(int(status[s['name']].split('(')[1].split()[0]) for s in GOOD if '(' in status[s['name']])
    print(f'{len(GOOD)} functions translated, {n} sample evaluations compared by the kernel, {len(BAD)} refusals')
    sys.exit(1 if failed else 0)


if __name__ == '__main__':
    main()
