#!/venv/bin/python
"""Self-test of the translator tools/pytolean.py on synthetic functions that exercise every construct of the subset
(docs/TRANSLATOR.md), including those no translated segno function uses today (range loops, `//` and `%` with negative
operands, shifts, bit operations on negative numbers, nested try / except, assert).  Each function is translated, and
the Lean kernel (`by decide`) compares the translation with what Python returned on sample arguments.  A second group
checks that constructs outside the subset are refused (loud failure).

usage: tools/test_pytolean.py [lean-dir]        (exit 0 = all good)"""
import ast
import os
import subprocess
import sys
import tempfile
import types

HERE = os.path.dirname(os.path.abspath(__file__))
sys.path.insert(0, HERE)
import pytolean as P  # noqa: E402

SRC = '''
from operator import lt, gt
ALPHABET = b'0123456789ABCDEF $'
LIMIT = 10
TABLE = (3, 1, 4, 1, 5, 9, 2, 6)
NAMES = {'a': 1, 'b': 2}
LEVELS = {None: 0, 1: 10, 2: 20}

def floor_ops(a, b):
    return a // 3 + a % 3 + a // -3 + a % -3 + (a // b if b else 0) + (a % b if b != 0 else 7)

def div_raises(a, b):
    return a // b

def shifts(a, k):
    return (a << 3) + (a >> 2) + (a << k) + (a >> k)

def bits(a, b):
    return (a & b) + 2 * (a | b) + 3 * (a ^ b) + (~a)

def tri(n):
    total = 0
    for i in range(n):
        total += i
    return total

def two_acc(lo, hi):
    s = 0
    p = 1
    for i in range(lo, hi):
        if i % 2 == 0:
            s += i
        else:
            p = p * 2 + s
    return s * 1000 + p

def stepped(n):
    acc = 0
    for i in range(1, n, 3):
        acc = acc * 2 + i
    return acc

def chained(a, b, c):
    if a < b <= c:
        return 1
    elif a == b == c:
        return 2
    elif not a > b >= c and a != c:
        return 3
    return 4

def opt(x, y):
    if x is None and y is not None:
        return y
    if x is not None and x > LIMIT:
        return None
    return x if x is not None else -1

def lookup(i, k):
    try:
        v = TABLE[i]
    except IndexError:
        v = -1
    try:
        return v + LEVELS[k]
    except KeyError:
        raise ValueError('no such level')

def name_of(v):
    for name, val in NAMES.items():
        if val == v:
            return name
    raise KeyError(v)

def guarded(a):
    assert a != 3
    if a in (1, 2, LIMIT):
        raise TypeError('x')
    return min(a, 5) * max(a, -5) + abs(a)

def power(a):
    return a ** 3 - 2 ** 5

def mixed(flag, a):
    q, r = divmod(a, 7)
    return (q, r, flag and a > 0 or not flag and a < 0)

# ---- round 2: loops with early exit, sequences, in-place updates, views, while, floats
from itertools import product, chain, zip_longest
from functools import reduce
from operator import xor

PAIRS = ((1, 10), (2, 20), (3, 30))
ROWS = ((0, 1, 1, 0), (1, 0, 0, 1), (1, 1, 1, 1))


class Buffer:
    def __init__(self, iterable=()):
        self._data = bytearray(iterable)

    def extend(self, iterable):
        self._data.extend(iterable)

    def append_bits(self, val, length):
        self._data.extend((val >> i) & 1 for i in reversed(range(length)))

    def getbits(self):
        return self._data

    def toints(self):
        from itertools import zip_longest
        return (int(''.join(map(str, g)), 2) for g in zip_longest(*[iter(self._data)] * 8, fillvalue=0))

    def __len__(self):
        return len(self._data)

    def __getitem__(self, item):
        return self._data[item]


class Box:
    def __init__(self, items, weight):
        self.items = items
        self.weight = weight

    def __len__(self):
        return len(self.items)

    def cost(self, k):
        return sum(i * k for i in self.items) + self.weight


def first_multiple(n, k):
    for i in range(1, n):
        if i % k == 0:
            return i
    return -1

def break_sum(n):
    t = 0
    for i in range(n):
        if i > 3:
            break
        t += i
    return t

def skip_odd(n):
    t = 0
    for i in range(n):
        if i % 2:
            continue
        if i > 8:
            break
        t += i
    return t * 2

def down(n):
    acc = 0
    for i in range(n, 0, -2):
        acc = acc * 10 + i
    return acc

def const_break(v):
    t = 0
    for k in TABLE:
        if k == v:
            break
        t += k
    return t

def pair_lookup(v):
    for a, b in PAIRS:
        if a == v:
            return b
    return 0

def first_fit(need, lo, hi):
    for v in range(lo, hi + 1):
        try:
            if LEVELS[v] >= need:
                return v
        except KeyError:
            pass
    raise ValueError('no fit')

def try_state(i, k):
    r = 0
    try:
        a = TABLE[i]
        r = a + TABLE[k]
        if r > 9:
            return -r
    except IndexError:
        return 100
    return r

def build(n):
    out = []
    for i in range(n):
        out.append(i * i)
    out.extend([7, 8])
    out.extend(x + 1 for x in out[:2])
    return out

def pops(a):
    levels = [1, 0, 3, 2]
    if a < 1:
        levels.pop()
        if a < 0:
            levels.pop()
    return levels[levels.index(a) + 1:]

def pop_value(xs):
    ys = list(xs)
    last = ys.pop()
    first = ys.pop(0)
    return (first, last, len(ys))

def slices(xs):
    return (xs[1:3], xs[:-1], xs[-2:])

def slices2(xs, a):
    return (xs[2:], xs[5:2], xs[a:], xs[a:-a])

def neg_index(xs):
    return xs[-1] * 100 + xs[0]

def set_items(xs, i, v):
    xs[i] = v
    xs[-1] += 1

def set_byte(ba, i, v):
    ba[i] = v
    ba[0] ^= 1

def set_cell(m, i, j, v):
    m[i][j] = v
    m[-1][0] = 1

def set_row_slice(m, i, j):
    m[i][j:j + 3] = ROWS[2][1:4]
    m[0][1:2] = (9, 9, 9)

def set_slice(xs, a, b):
    xs[a:b] = [5, 6]

def view_write(m, i):
    row = m[i]
    row[0] = 7
    m[i][1] = 8
    return row[0] + row[1]

def view_loop(m):
    last = m[-1]
    for i in range(len(m)):
        row = m[i]
        row[-1] = i
        last[i] = 1

def aug_cells(m):
    for i in range(len(m)):
        row = m[i]
        for j in range(len(row)):
            if (i + j) % 2 == 0:
                row[j] ^= 1

def row_sums(m):
    out = []
    for row in m:
        out.append(sum(row))
    return out

def enum_zip(xs, ys):
    t = 0
    for k, x in enumerate(xs):
        t += k * x
    for x, y in zip(xs, ys):
        t += x * y
    for x in reversed(xs):
        t = t * 2 + x
    return t

def aggregates(xs):
    if not xs:
        return (0, 0, 0, False, True)
    return (sum(x * x for x in xs), min(x + 1 for x in xs), max([abs(x) for x in xs]), any(x > 3 for x in xs), all(xs))

def min_empty(xs):
    return max(xs) - min(xs)

def cond_tuple(flag, n):
    a, b = (0, n) if flag else (6, n - 8)
    return a * 1000 + b

def grid(xs):
    t = 0
    for x, y in product(xs, repeat=2):
        if (x, y) in ((1, 1), (2, 3)):
            continue
        t += x * 10 + y
    return t

def count_pattern(seq):
    pat = bytearray((1, 0, 1))
    count = 0
    idx = seq.find(pat)
    while idx != -1:
        count += 1
        idx = seq.find(pat, idx + 2)
    return count

def collatz(n):
    steps = 0
    while n > 1:
        if n % 2:
            n = 3 * n + 1
        else:
            n //= 2
        steps += 1
    return steps

def pad(buff, capacity, length):
    write = buff.extend
    codewords = ((1, 1, 1, 0, 1, 1, 0, 0), (0, 0, 0, 1, 0, 0, 0, 1))
    write([0] * min(-length % 8, capacity - length))
    for i in range((capacity - len(buff)) // 8):
        write(codewords[i % 2])
    buff.append_bits(5, 4)
    return len(buff)

def bits_of(val, length):
    b = Buffer()
    b.append_bits(val, length)
    return b.getbits()

def to_ints(buff):
    return list(buff.toints())

def pairs_of(data):
    n = len(data)
    if not n or n % 2:
        return -1
    it = iter(data)
    t = 0
    for i in range(0, n, 2):
        code = (next(it) << 8) | next(it)
        if code > 0x9000:
            return -2
        t += code
    return t

def next_too_far(data):
    it = iter(data)
    a = next(it)
    return a + next(it)

def percent(dark, size):
    p = float(dark) / (size ** 2)
    return 10 * int(abs(p * 100 - 50) / 5)

def outer(xs, k):
    limit = k * 2

    def inner(x):
        return x + limit if x < limit else -1
    t = 0
    for x in xs:
        t += inner(x)
    return t

def opt_rows(m):
    last_row = None
    score = 0
    for i in range(len(m)):
        row = m[i]
        prev = -1
        for j in range(len(row)):
            cur = row[j]
            if last_row and j and cur == prev == last_row[j] == last_row[j - 1]:
                score += 3
            prev = cur
        last_row = row
    return score

def late_raise(a, b):
    return a < b < TABLE[a]

def micro_or(micro, error):
    allowed = micro or micro is None
    top = 0 if micro else 40
    if error is not None and allowed:
        return top + 1
    return top

def box_cost(box, k):
    if len(box) == 1:
        return box.cost(k) + box.weight
    return sum(box.items)

def parity(data):
    return reduce(xor, data)

def digits(data):
    return data.isdigit()

def interleaved(blocks):
    return list(x for x in chain.from_iterable(zip_longest(*blocks)) if x is not None)

def final_bits(blocks, short):
    def to_binary(val, length=8):
        return ((val >> i) & 1 for i in reversed(range(length)))
    four = None
    if short:
        four = to_binary(blocks[0].pop(-1) >> 4, 4)
    res = Buffer()
    res.extend(chain(*map(to_binary, (x for x in chain.from_iterable(zip_longest(*blocks)) if x is not None))))
    if four is not None:
        res.extend(four)
    res.extend(b'\\0' * 3)
    return res

def xor_of(content):
    try:
        data = content.encode('latin-1')
    except UnicodeError:
        data = content.encode('utf-8')
    return reduce(xor, data)

def bool_xor(a, j):
    up = (a & 2) == 0
    up ^= j < 6
    return 1 if up else 0

# ---- outside the subset (round 2)
def bad_while_nofuel(n):
    while n > 10:
        n -= 3
    return n

def bad_param_store(xs):
    xs[0] = 1
    return xs[0]

def bad_alias(xs):
    ys = xs
    ys.append(1)
    return len(xs)

def bad_for_else(n):
    for i in range(n):
        pass
    else:
        return 1
    return 0

def bad_step_slice(xs):
    return xs[::2]

def bad_rebind_base(m):
    row = m[0]
    m = [[1]]
    row[0] = 2
    return m

def bad_lambda(xs):
    return sorted(xs, key=lambda x: -x)

def bad_cond_update(xs, flag):
    return flag and xs.pop() > 0

def bad_grow_while_iterating(xs):
    for x in xs:
        if x > 100:
            xs.append(1)
    return len(xs)

def bad_tuple_list_eq(xs):
    return xs == (1, 2)

def bad_loop_local(n):
    for i in range(n):
        last = i
    return last

# ---- outside the subset
def apply_fn(m, f, g, w, h):
    cols = range(w)
    for i in range(h):
        row = m[i]
        for j in cols:
            if g(i, j):
                row[j] ^= f(i, j)

def rebinding(n, flag):
    acc = 0
    for r in range(n - 1, 0, -2):
        if flag and r <= 6:
            r -= 1
        for z in range(2):
            acc = acc * 3 + (r - z)
    return acc

def int_bool_ops(a, b):
    return (a ^ (b > 2)) + (a & (b > 0)) * 10 + ((a < 3) | b) * 100

def pick_cmp(flag, a, b):
    better = lt
    best = 100
    if flag:
        better = gt
        best = -1
    return better(a, best) and better(a, b)

def conds(is_small):
    def c0(i, j):
        return (i + j) & 1 == 0

    def c1(i, j):
        return i % 3 == 0

    if is_small:
        return c1,
    return c0, c1

def c0(i, j):
    return (i + j) & 1 == 0

def c1(i, j):
    return i % 3 == 0

def search(xs):
    best = -1
    score_fn = tri
    for k, x in enumerate(xs):
        s = score_fn(x)
        if s > best:
            best = s
            spot = k
    return spot * 1000 + best

def hex_value(data):
    pos = ALPHABET.find
    total = 0
    for b in data:
        total = total * 20 + pos(b)
    return total

def parse3(data):
    total = 0
    for i in range(0, len(data), 3):
        total = total * 1000 + int(data[i:i + 3])
    return total

def grid_marks(w, h, flag):
    row = [7] * w
    m = tuple(bytearray(row) for i in range(h))
    r2 = m[2]
    for i in range(3):
        row = m[i]
        row[-2] = 0
        m[i][1] = 1
        r2[i] = 5
        if flag:
            m[-i][0] = 3
            r2[-i] = 4
    return m

def bad_iter_local_after(m, n):
    row = [1]
    for i in range(n):
        row = m[i]
        row[0] = 0
    return len(row)

def bad_unbound_none(xs):
    for x in xs:
        last = None if x else x
    return last

def bad_call_kw(f, a):
    return f(a, j=1)

def bad_fn_arity(f, a):
    return f(a)

def bad_rebind_pair(xs, ys):
    acc = 0
    for a, b in zip(xs, ys):
        a -= 1
        acc += a * b
    return acc

def bad_while(n):
    while n > 0:
        n -= 1
    return n

def bad_float(a):
    return a / 2

def bad_str(s):
    return s.upper()

def bad_global_call(a):
    return len(str(a))

def listcomp_sum(n):
    return sum([i for i in range(n)])
'''

I, B, S, N = P.INT, P.BOOL, P.STR, P.NONE
L, BA, BUF, MAT, LMAT = P.LIST(P.INT), P.BYTEARRAY, P.BUFFER, P.LIST(P.BYTEARRAY), P.LIST(P.LIST(P.INT))
LISTS = [[], [4], [1, 2], [3, 1, 2], [0, 0, 7, 5], [5, 4, 3, 2, 1, 0], [2, 3, 5, 7, 11, 13, 17]]
BYTES = [[], [1], [1, 0, 1], [49, 50], [1, 0, 1, 0, 1, 1, 0, 1, 0, 1], [0x81, 0x40, 0x9f, 0xfc], [200, 100, 50, 25], [255, 255, 1, 0, 1]]
BITS = [[], [1], [1, 0, 1], [1, 0, 1, 1, 0, 0, 1, 0], [1, 1, 1, 1, 1, 1, 1, 1, 1], [0, 1, 0, 0, 0, 0, 0, 1, 1, 0, 1, 0, 1, 1, 1, 1, 0, 0, 1]]
MATS = [[[0, 1], [1, 0]], [[1, 1, 1], [1, 1, 1], [0, 0, 0]], [[0, 0, 0, 0], [0, 1, 1, 0], [0, 1, 1, 0], [1, 1, 1, 1]], [[5]], []]
SMALL = [-9, -8, -7, -4, -3, -2, -1, 0, 1, 2, 3, 4, 5, 7, 8, 9, 11, 12]
GOOD = [
    dict(path=['floor_ops'], params={'a': I, 'b': I}, ret=I, samples={'a': SMALL, 'b': SMALL}, nsamples=150),
    dict(path=['div_raises'], params={'a': I, 'b': I}, ret=I, samples={'a': SMALL, 'b': [-2, 0, 3]}),
    dict(path=['shifts'], params={'a': I, 'k': I}, ret=I, samples={'a': SMALL, 'k': [-1, 0, 1, 5]}),
    dict(path=['bits'], params={'a': I, 'b': I}, ret=I, samples={'a': SMALL + [255, -256], 'b': SMALL + [170]}, nsamples=200),
    dict(path=['tri'], params={'n': I}, ret=I, samples={'n': SMALL}),
    dict(path=['two_acc'], params={'lo': I, 'hi': I}, ret=I, samples={'lo': SMALL, 'hi': SMALL}, nsamples=120),
    dict(path=['stepped'], params={'n': I}, ret=I, samples={'n': SMALL + [20]}),
    dict(path=['chained'], params={'a': I, 'b': I, 'c': I}, ret=I, samples={'a': [0, 1, 2, 3], 'b': [0, 1, 2, 3], 'c': [0, 1, 2, 3]}),
    dict(path=['opt'], params={'x': P.OPT(I), 'y': P.OPT(I)}, ret=P.OPT(I), samples={'x': [None] + SMALL, 'y': [None, 5]}),
    dict(path=['lookup'], params={'i': I, 'k': P.OPT(I)}, ret=I, samples={'i': SMALL, 'k': [None, 1, 2, 3]}),
    dict(path=['name_of'], params={'v': I}, ret=S, samples={'v': [0, 1, 2, 3]}),
    dict(path=['guarded'], params={'a': I}, ret=I, samples={'a': SMALL + [10]}),
    dict(path=['power'], params={'a': I}, ret=I, samples={'a': SMALL}),
    dict(path=['mixed'], params={'flag': B, 'a': I}, ret=P.TUPLE(I, I, B), samples={'a': SMALL}),
    dict(path=['listcomp_sum'], params={'n': I}, ret=I, samples={'n': SMALL}),
    # ---- round 2
    dict(path=['first_multiple'], params={'n': I, 'k': I}, ret=I, samples={'n': SMALL + [30], 'k': [-2, 0, 1, 3, 7]}),
    dict(path=['break_sum'], params={'n': I}, ret=I, samples={'n': SMALL}),
    dict(path=['skip_odd'], params={'n': I}, ret=I, samples={'n': SMALL + [20]}),
    dict(path=['down'], params={'n': I}, ret=I, samples={'n': SMALL}),
    dict(path=['const_break'], params={'v': I}, ret=I, samples={'v': SMALL}),
    dict(path=['pair_lookup'], params={'v': I}, ret=I, samples={'v': SMALL}),
    dict(path=['first_fit'], params={'need': I, 'lo': I, 'hi': I}, ret=I, samples={'need': [0, 5, 10, 15, 20, 25], 'lo': [-1, 0, 1, 2, 3], 'hi': [0, 1, 2, 5]}),
    dict(path=['try_state'], params={'i': I, 'k': I}, ret=I, samples={'i': SMALL, 'k': SMALL}, nsamples=150),
    dict(path=['build'], params={'n': I}, ret=L, samples={'n': [-1, 0, 1, 2, 5]}),
    dict(path=['pops'], params={'a': I}, ret=L, samples={'a': SMALL}),
    dict(path=['pop_value'], params={'xs': L}, ret=P.TUPLE(I, I, I), samples={'xs': LISTS}),
    dict(path=['slices'], params={'xs': L}, ret=P.TUPLE(L, L, L), samples={'xs': LISTS}),
    dict(path=['slices2'], params={'xs': L, 'a': I}, ret=P.TUPLE(L, L, L, L), samples={'xs': LISTS, 'a': [-7, -2, 0, 1, 3, 9]}),
    dict(path=['neg_index'], params={'xs': L}, ret=I, samples={'xs': LISTS}),
    dict(path=['set_items'], params={'xs': L, 'i': I, 'v': I}, ret=N, mutates=['xs'], samples={'xs': LISTS, 'i': [-8, -3, -1, 0, 1, 2, 6], 'v': [-1, 300]}),
    dict(path=['set_byte'], params={'ba': BA, 'i': I, 'v': I}, ret=N, mutates=['ba'], samples={'ba': BYTES, 'i': [-5, -1, 0, 2, 9], 'v': [-1, 0, 255, 256]}),
    dict(path=['set_cell'], params={'m': MAT, 'i': I, 'j': I, 'v': I}, ret=N, mutates=['m'],
         samples={'m': MATS, 'i': [-3, -1, 0, 1, 3], 'j': [-4, -1, 0, 2, 3], 'v': [0, 7, 256]}, nsamples=150),
    dict(path=['set_row_slice'], params={'m': MAT, 'i': I, 'j': I}, ret=N, mutates=['m'], samples={'m': MATS, 'i': [-2, 0, 1, 3, 5], 'j': [-2, 0, 1, 2, 6]}),
    dict(path=['set_slice'], params={'xs': L, 'a': I, 'b': I}, ret=N, mutates=['xs'], samples={'xs': LISTS, 'a': [-9, -2, 0, 1, 3, 9], 'b': [-9, -1, 0, 2, 4, 9]}),
    dict(path=['view_write'], params={'m': MAT, 'i': I}, ret=I, mutates=['m'], samples={'m': MATS, 'i': [-2, -1, 0, 1, 2, 4]}),
    dict(path=['view_loop'], params={'m': MAT}, ret=N, mutates=['m'], samples={'m': MATS}),
    dict(path=['aug_cells'], params={'m': MAT}, ret=N, mutates=['m'], samples={'m': MATS}),
    dict(path=['row_sums'], params={'m': MAT}, ret=L, samples={'m': MATS}),
    dict(path=['enum_zip'], params={'xs': L, 'ys': L}, ret=I, samples={'xs': LISTS, 'ys': LISTS}),
    dict(path=['aggregates'], params={'xs': L}, ret=P.TUPLE(I, I, I, B, B), samples={'xs': LISTS + [[-4, 2], [-1, -2, -3]]}),
    dict(path=['min_empty'], params={'xs': L}, ret=I, samples={'xs': LISTS}),
    dict(path=['cond_tuple'], params={'flag': B, 'n': I}, ret=I, samples={'n': SMALL}),
    dict(path=['grid'], params={'xs': L}, ret=I, samples={'xs': LISTS}),
    dict(path=['count_pattern'], params={'seq': BA}, ret=I, samples={'seq': BYTES + [[1, 0, 1, 0, 1, 0, 1], [1, 0, 1, 1, 0, 1]]},
         fuel={'idx != -1': 'len(seq) + 1'}),
    dict(path=['collatz'], params={'n': I}, ret=I, samples={'n': [-3, 0, 1, 2, 3, 6, 7]}, fuel={'n > 1': '20'}),
    dict(path=['pad'], params={'buff': BUF, 'capacity': I, 'length': I}, ret=I, mutates=['buff'],
         samples={'buff': BITS, 'capacity': [0, 8, 20, 36, 40], 'length': [0, 3, 8, 19]}, nsamples=100),
    dict(path=['bits_of'], params={'val': I, 'length': I}, ret=BA, samples={'val': [-5, 0, 1, 5, 255, 1000], 'length': [-1, 0, 1, 4, 8, 11]}),
    dict(path=['to_ints'], params={'buff': BUF}, ret=L, samples={'buff': BITS}),
    dict(path=['pairs_of'], params={'data': BA}, ret=I, samples={'data': BYTES}),
    dict(path=['next_too_far'], params={'data': BA}, ret=I, samples={'data': BYTES}),
    dict(path=['percent'], params={'dark': I, 'size': I}, ret=I, samples={'dark': [0, 1, 100, 200, 220, 221, 242, 243, 441], 'size': [0, 1, 21, 25]}),
    dict(path=['outer', 'inner'], params={'x': I}, closure={'limit': I}, ret=I, samples={'x': SMALL, 'limit': [0, 4]},
         pycall=lambda a: (a['x'] + a['limit'] if a['x'] < a['limit'] else -1)),
    dict(path=['outer'], params={'xs': L, 'k': I}, ret=I, samples={'xs': LISTS, 'k': [-1, 0, 2, 5]}),
    dict(path=['opt_rows'], params={'m': MAT}, ret=I, samples={'m': MATS}),
    dict(path=['late_raise'], params={'a': I, 'b': I}, ret=B, samples={'a': SMALL, 'b': SMALL}),
    dict(path=['micro_or'], params={'micro': P.OPT(B), 'error': P.OPT(I)}, ret=I, samples={'micro': [None, False, True], 'error': [None, 0, 1]}),
    dict(path=['Box', 'cost'], method=True, params={'k': I}, ret=I, opaque={'self.items': ('items', L), 'self.weight': ('weight', I)},
         samples={'items': LISTS, 'k': [-1, 0, 3], 'weight': [0, 5]}, pycall='box_cost_method'),
    dict(path=['box_cost'], params={'box': P.OBJ('Box', items=L, weight=I, __len__=I), 'k': I}, ret=I,
         samples={'items': LISTS, 'k': [-1, 0, 3], 'weight': [0, 5], 'n_box': [0, 1, 2]}, pycall='box_cost_call'),
    dict(path=['parity'], params={'data': BA}, ret=I, samples={'data': BYTES}),
    dict(path=['digits'], params={'data': BA}, ret=B, samples={'data': BYTES}),
    dict(path=['bool_xor'], params={'a': I, 'j': I}, ret=I, samples={'a': SMALL, 'j': SMALL}),
    dict(path=['interleaved'], params={'blocks': MAT}, ret=L, samples={'blocks': MATS + [[[1, 2, 3], [4], [5, 6]], [[], [7]]]}),
    dict(path=['final_bits', 'to_binary'], params={'val': I, 'length': I}, ret=L, samples={'val': [0, 5, 255, 256, -3], 'length': [-1, 0, 4, 8]},
         pycall=lambda a: [(a['val'] >> i) & 1 for i in reversed(range(a['length']))]),
    dict(path=['final_bits'], params={'blocks': MAT, 'short': B}, ret=BUF, mutates=['blocks'],
         samples={'blocks': [[[1, 2, 3], [4], [5, 6]], [[200, 17]], [[], [7]], [], [[0x5f]]]}),
    dict(path=['xor_of'], params={'content': S}, ret=I,
         opaque={"content.encode('latin-1')": ('latin1', P.RAISES(BA)), "content.encode('utf-8')": ('utf8', P.RAISES(BA))},
         samples={'content': ['x'], 'latin1': [[1, 2, 7], [], ('raise', 'UnicodeError'), ('raise', 'LookupError')],
                  'utf8': [[0xe2, 0x82, 0xac], [], ('raise', 'UnicodeError')]}, pycall='xor_of_call'),
    # round 3: callable parameters (one that cannot raise, one that can), `int ^= bool`, a loop variable rebound in the body
    dict(path=['apply_fn'], params={'m': MAT, 'f': P.FN([I, I], B), 'g': P.FN([I, I], B, raises=True), 'w': I, 'h': I}, ret=N, mutates=['m'],
         part=3, nsamples=0,
         cases=[(mm, P.FnSample(lambda i, j: (i + j) % 2 == 0, '(fun i j => decide ((i + j) % 2 = 0))'),
                 P.FnSample(lambda i, j, t=tt: t[i][j] > 1, '(fun i j => Py.bind (Py.index %s i) (fun r => Py.bind (Py.index r j) (fun c => Except.ok (decide (c > 1)))))'
                            % ('[' + ', '.join('[' + ', '.join(map(str, r)) + ']' for r in tt) + ']')), w, h)
                for mm in ([[1, 2, 3], [4, 5, 6]], [[0, 1], [1, 0], [7, 7]], [])
                for tt in ([[2, 0, 2], [1, 2, 2]], [[2, 2], [0, 2]])
                for (w, h) in ((2, 2), (3, 2), (2, 3), (0, 0))]),
    dict(path=['rebinding'], params={'n': I, 'flag': B}, ret=I, part=3, samples={'n': [-1, 0, 1, 2, 5, 8, 9, 12]}),
    dict(path=['int_bool_ops'], params={'a': I, 'b': I}, ret=I, part=3, samples={'a': SMALL, 'b': SMALL}),
    # round 3, second part: functions as values, tuples of nested functions, a local first assigned inside a loop, a bound method of
    # a constant byte string, the builtin `int` on bytes as a declared opaque call
    dict(path=['pick_cmp'], params={'flag': B, 'a': I, 'b': I}, ret=B, part=3, samples={'a': SMALL, 'b': SMALL}),
    dict(path=['conds', 'c0'], params={'i': I, 'j': I}, ret=B, part=3, samples={'i': SMALL, 'j': SMALL},
         pycall=lambda a: (a['i'] + a['j']) & 1 == 0),
    dict(path=['conds', 'c1'], params={'i': I, 'j': I}, ret=B, part=3, samples={'i': SMALL, 'j': SMALL}, pycall=lambda a: a['i'] % 3 == 0),
    dict(path=['conds'], params={'is_small': B}, ret=P.LIST(P.FN([I, I], B)), part=3,
         check_wrap='(fun fs => fs.map (fun f => [f 0 0, f 1 2, f 3 4, f (-3) 5]))', check_ret=P.LIST(P.LIST(B)), pycall='conds_call'),
    dict(path=['search'], params={'xs': L}, ret=I, part=3, samples={'xs': LISTS + [[5, 5, 2], [0, 0]]}),
    dict(path=['hex_value'], params={'data': BA}, ret=I, part=3, samples={'data': BYTES + [[0x31, 0x41], [0x20, 0x24, 0x7a]]}),
    dict(path=['parse3'], params={'data': BA}, ret=I, part=3, nsamples=0,
         opaque_calls={'int': ('int_of', P.FN([BA], I, raises=True))}, pycall='parse3_call',
         cases=[(d, P.FnSample(lambda xs: sum(xs) if xs and xs[0] != 0x61 else (_ for _ in ()).throw(ValueError('x')),
                               '(fun xs => if xs.isEmpty || xs.head? == some 97 then Except.error PyExc.valueError else Except.ok (xs.foldl (· + ·) 0))'))
                for d in ([], [0x31], [0x31, 0x32, 0x33, 0x34], [0x61, 0x31], [0x31, 0x32, 0x33, 0x61])]),
    # round 4: a matrix built in the function, a name that is a plain value before the loop and a view in every iteration,
    # a view created before the loop and written in the same iteration as `m[i][…]` (i = 2: the same row), `-i` with i = 0
    dict(path=['grid_marks'], params={'w': I, 'h': I, 'flag': B}, ret=MAT, part=4, samples={'w': [0, 1, 2, 3, 4, 5], 'h': [0, 2, 3, 4, 5]}),
]
BAD = [
    dict(path=['bad_iter_local_after'], params={'m': MAT, 'n': I}, ret=I, mutates=['m'], part=4),
    dict(path=['bad_unbound_none'], params={'xs': L}, ret=I, part=3),
    dict(path=['bad_call_kw'], params={'f': P.FN([I, I], I), 'a': I}, ret=I, part=3),
    dict(path=['bad_fn_arity'], params={'f': P.FN([I, I], I), 'a': I}, ret=I, part=3),
    dict(path=['bad_rebind_pair'], params={'xs': L, 'ys': L}, ret=I, part=3),

    dict(path=['bad_while'], params={'n': I}, ret=I),
    dict(path=['bad_float'], params={'a': I}, ret=I),
    dict(path=['bad_str'], params={'s': S}, ret=S),
    dict(path=['bad_global_call'], params={'a': I}, ret=I),
    dict(path=['bad_while_nofuel'], params={'n': I}, ret=I),
    dict(path=['bad_param_store'], params={'xs': L}, ret=I),
    dict(path=['bad_alias'], params={'xs': L}, ret=I),
    dict(path=['bad_for_else'], params={'n': I}, ret=I),
    dict(path=['bad_step_slice'], params={'xs': L}, ret=L),
    dict(path=['bad_rebind_base'], params={'m': MAT}, ret=MAT, mutates=['m']),
    dict(path=['bad_lambda'], params={'xs': L}, ret=L),
    dict(path=['bad_cond_update'], params={'xs': L, 'flag': B}, ret=B, mutates=['xs']),
    dict(path=['bad_loop_local'], params={'n': I}, ret=I),
    dict(path=['bad_grow_while_iterating'], params={'xs': L}, ret=I, mutates=['xs']),
    dict(path=['bad_tuple_list_eq'], params={'xs': L}, ret=B),
]

# ---- round 6: a method that updates `self` (`self_state`), `del xs[i]`, `{…}.get(key, default)` on a dict display
SRC += '''
class Tally:
    def __init__(self):
        self.items = []
        self.total = 0
        self.other = 0

    def push(self, item):
        if self.items:
            step = {1: 3, 2: 2}.get(item, 1)
            if self.items[-1] % step == 0:
                item = self.items[-1] + item
                self.total -= self.items[-1]
                del self.items[-1]
        self.items.append(item)
        self.total += item

    def bad_self_other(self, item):
        self.items.append(item + self.other)

    def bad_self_call(self, item):
        self.push(item)

def del_item(xs, i):
    del xs[i]
    return len(xs)

def group_of(m, d):
    return {1: 3, 2: 2, -4: m}.get(m, d) + {}.get(m, 0)

def bad_del_slice(xs):
    del xs[1:2]
    return len(xs)

def bad_del_name(xs):
    ys = [1]
    del ys
    return len(xs)

def bad_display_str_keys(m):
    return {'a': 1}.get(m, 0)

def bad_display_dup_keys(m):
    return {1: 1, 1: 2}.get(m, 0)

def bad_display_method(m):
    return len({1: 2}.keys())
'''


def _tally_push(a):
    import types as _t
    m = _t.ModuleType('tally')
    exec(compile(SRC, '<sample>', 'exec'), m.__dict__)
    t = m.Tally()
    t.items, t.total = a['self_items'], a['self_total']
    t.push(a['item'])
    assert t.items is a['self_items']
    a['self_total'] = t.total


GOOD += [
    dict(path=['Tally', 'push'], self_state=['items', 'total'], params={'self_items': L, 'self_total': I, 'item': I}, ret=N,
         mutates=['self_items', 'self_total'], part=6, samples={'self_items': LISTS, 'self_total': [0, 7], 'item': [-3, 0, 1, 2, 3, 6]},
         pycall=_tally_push),
    dict(path=['del_item'], params={'xs': L, 'i': I}, ret=I, mutates=['xs'], part=6, samples={'xs': LISTS, 'i': [-8, -3, -1, 0, 1, 2, 6, 7]}),
    dict(path=['group_of'], params={'m': I, 'd': I}, ret=I, part=6, samples={'m': SMALL, 'd': [0, 5]}),
]
BAD += [
    dict(path=['Tally', 'bad_self_other'], self_state=['items', 'total'], params={'self_items': L, 'self_total': I, 'item': I}, ret=N,
         mutates=['self_items', 'self_total'], part=6),
    dict(path=['Tally', 'bad_self_call'], self_state=['items', 'total'], params={'self_items': L, 'self_total': I, 'item': I}, ret=N,
         mutates=['self_items', 'self_total'], part=6),
    dict(path=['bad_del_slice'], params={'xs': L}, ret=I, mutates=['xs'], part=6),
    dict(path=['bad_del_name'], params={'xs': L}, ret=I, part=6),
    dict(path=['bad_display_str_keys'], params={'m': I}, ret=I, part=6),
    dict(path=['bad_display_dup_keys'], params={'m': I}, ret=I, part=6),
    dict(path=['bad_display_method'], params={'m': I}, ret=I, part=6),
]


def main():
    leandir = sys.argv[1] if len(sys.argv) > 1 else os.path.join(HERE, '..', 'lean')
    mod = types.ModuleType('sample')
    exec(compile(SRC, '<sample>', 'exec'), mod.__dict__)
    tree = ast.parse(SRC)
    tr = P.Translation({'sample': mod}, {'sample': tree}, {'sample': {}})

    class FakeBox:
        def __init__(self, items, weight, n):
            self.items, self.weight, self.n = items, weight, n

        def __len__(self):
            return self.n
        cost = mod.Box.cost
    def xor_of_call(a):
        outcomes = {'latin-1': a['latin1'], 'utf-8': a['utf8']}

        class Str(str):
            def encode(self, encoding='utf-8', errors='strict'):
                r = outcomes[encoding]
                if isinstance(r, tuple) and r[0] == 'raise':
                    raise {'UnicodeError': UnicodeError, 'LookupError': LookupError}[r[1]]('x')
                return bytes(r)
        return mod.xor_of(Str(a['content']))
    def parse3_call(a):
        real_int = int
        mod.int = lambda x, *r: a['int_of'](list(x)) if isinstance(x, (bytes, bytearray)) and not r else real_int(x, *r)
        try:
            return mod.parse3(bytes(a['data']))
        finally:
            del mod.int
    calls = {'parse3_call': parse3_call, 'conds_call': lambda a: [[f(i, j) for i, j in ((0, 0), (1, 2), (3, 4), (-3, 5))] for f in mod.conds(a['is_small'])],
             'xor_of_call': xor_of_call, 'box_cost_method': lambda a: mod.Box(a['items'], a['weight']).cost(a['k']),
             'box_cost_call': lambda a: mod.box_cost(FakeBox(a['items'], a['weight'], a['n_box']), a['k'])}
    for spec in GOOD + BAD:
        spec['module'] = 'sample'
        spec['name'] = spec['path'][-1]
        if isinstance(spec.get('pycall'), str):
            spec['pycall'] = calls[spec['pycall']]
        tr.add(spec)
    # everything goes into ONE test file, whatever round (`part`) a spec asks the semantics of
    tr.part_of_def = {k: 1 for k in tr.part_of_def}
    tr.part_of_table = {k: 1 for k in tr.part_of_table}
    failed = False
    status = dict(tr.report)
    for spec in GOOD:
        if not status[spec['name']].startswith('ok'):
            print('FAIL (should translate):', spec['name'], status[spec['name']])
            failed = True
    for spec in BAD:
        if status[spec['name']].startswith('ok'):
            print('FAIL (should be refused):', spec['name'])
            failed = True
        else:
            print('refused as expected:', spec['name'], '--', status[spec['name']])
    good_names = {s['name'] for s in GOOD}
    tr.defs = [(n, t) for n, t in tr.defs if n in good_names]
    text = tr.funcs_text().replace('namespace Gen.Funcs', 'namespace Gen.TestFuncs').replace('end Gen.Funcs', 'end Gen.TestFuncs') \
        .replace('import Gen.Py\n', 'import Gen.Py2\n')
    checks = '\n\n'.join(tr.checks)
    with tempfile.TemporaryDirectory() as d:
        path = os.path.join(d, 'TestFuncs.lean')
        with open(path, 'w') as f:
            f.write(text + '\nnamespace Gen.TestCheck\nopen Gen.Py Gen.TestFuncs\n\n' + checks + '\n\nend Gen.TestCheck\n')
        p = subprocess.run(['lake', 'env', 'lean', path], cwd=leandir, stdout=subprocess.PIPE, stderr=subprocess.STDOUT)
        out = p.stdout.decode()
        if p.returncode != 0:
            print(out[-3000:])
            keep = os.path.join(tempfile.gettempdir(), 'TestFuncs.lean')
            open(keep, 'w').write(open(path).read())
            print('FAIL: Lean rejected the translation or a sample evaluation differs; file kept at', keep)
            failed = True
    n = sum(int(status[s['name']].split('(')[1].split()[0]) for s in GOOD if status[s['name']].startswith('ok ('))
    print(f'{len(GOOD)} functions translated, {n} sample evaluations compared by the kernel, {len(BAD)} refusals')
    sys.exit(1 if failed else 0)


if __name__ == '__main__':
    main()
