import Gen.Tables
import Gen.Arith
