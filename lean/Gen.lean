import Gen.Tables
import Gen.Arith
import Gen.Helpers
import Gen.Sigs
import Gen.Align
import Gen.Effects
import Gen.Colors
import Gen.Writers
