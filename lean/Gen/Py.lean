/-
  Gen.Py — the Python primitives the AST translator (tools/pytolean.py) refers to.  This file is
  copied verbatim from tools/py_prelude.lean into lean/Gen/Py.lean by tools/gen.py on every run.
  DO NOT EDIT lean/Gen/Py.lean (edit tools/py_prelude.lean).

  Everything is total and explicit about refusal: an operation that raises in Python returns
  `Except.error` with the exception class; nothing is totalised silently (`x // 0`, `t[i]` out of
  range, `d[k]` without the key are errors, not default values).
-/
namespace Gen.Py

/-- the exception classes the translated subset can raise or catch -/
inductive PyExc where
  | valueError | dataOverflow | indexError | keyError | typeError | attributeError | assertionError
  | unicodeError | lookupError | zeroDivisionError
  | stopIteration    -- `next()` on an exhausted iterator
  | unboundLocalError  -- read of a local that no executed statement has assigned (round 3: a local first assigned inside a loop)
  | fuelExhausted    -- NOT a Python exception: a translated `while` ran out of its declared fuel (Gen.Py.whileM)
  deriving DecidableEq, Repr, Inhabited

deriving instance DecidableEq for Except

/-- result of a translated function that can raise -/
abbrev M := Except PyExc

/-- sequencing: the first exception wins -/
def bind {α β : Type} (x : M α) (f : α → M β) : M β :=
  match x with
  | .error e => .error e
  | .ok a => f a

@[simp] theorem bind_ok {α β : Type} (a : α) (f : α → M β) : bind (.ok a) f = f a := rfl
@[simp] theorem bind_error {α β : Type} (e : PyExc) (f : α → M β) : bind (.error e : M α) f = .error e := rfl

theorem bind_assoc {α β γ : Type} (x : M α) (f : α → M β) (g : β → M γ) :
    bind (bind x f) g = bind x (fun a => bind (f a) g) := by
  cases x <;> rfl

/-- `try: x = <m> … except …:` — `onOk` continues with the value, `onErr` decides what a raised exception does -/
def tryExcept {α β : Type} (x : M α) (onOk : α → M β) (onErr : PyExc → M β) : M β :=
  match x with
  | .ok a => onOk a
  | .error e => onErr e

@[simp] theorem tryExcept_ok {α β : Type} (a : α) (f : α → M β) (g : PyExc → M β) : tryExcept (.ok a) f g = f a := rfl
@[simp] theorem tryExcept_error {α β : Type} (e : PyExc) (f : α → M β) (g : PyExc → M β) :
    tryExcept (.error e : M α) f g = g e := rfl

/-- `xs[i]` on a tuple / list: negative indexes count from the end, out of range = IndexError -/
def index {α : Type} (xs : List α) (i : Int) : M α :=
  let n : Int := xs.length
  if 0 ≤ i ∧ i < n then
    match xs[i.toNat]? with
    | some v => .ok v
    | none => .error .indexError
  else if -n ≤ i ∧ i < 0 then
    match xs[(n + i).toNat]? with
    | some v => .ok v
    | none => .error .indexError
  else .error .indexError

/-- `d[k]` on a dict (association list in iteration order): missing key = KeyError -/
def lookup {κ ν : Type} [BEq κ] (d : List (κ × ν)) (k : κ) : M ν :=
  match d.find? (fun kv => kv.1 == k) with
  | some kv => .ok kv.2
  | none => .error .keyError

/-- `d.get(k, default)` -/
def getD {κ ν : Type} [BEq κ] (d : List (κ × ν)) (k : κ) (dflt : ν) : ν :=
  match d.find? (fun kv => kv.1 == k) with
  | some kv => kv.2
  | none => dflt

/-- `k in d` -/
def hasKey {κ ν : Type} [BEq κ] (d : List (κ × ν)) (k : κ) : Bool := d.any (fun kv => kv.1 == k)

/-- `range(lo, hi)` -/
def range (lo hi : Int) : List Int := (List.range (hi - lo).toNat).map (fun (k : Nat) => lo + Int.ofNat k)

/-- `range(lo, hi, step)` for a positive literal step -/
def rangeStep (lo hi : Int) (step : Nat) : List Int :=
  (List.range (((hi - lo).toNat + step - 1) / step)).map (fun (k : Nat) => lo + Int.ofNat k * Int.ofNat step)

/-- `a // b` (floor division; `b = 0` raises) -/
def floordiv (a b : Int) : M Int := if b = 0 then .error .zeroDivisionError else .ok (Int.fdiv a b)

/-- `a % b` (sign of the divisor; `b = 0` raises) -/
def mod (a b : Int) : M Int := if b = 0 then .error .zeroDivisionError else .ok (Int.fmod a b)

/-- `a << b` (`b < 0` raises ValueError) -/
def shl (a b : Int) : M Int := if b < 0 then .error .valueError else .ok (a * 2 ^ b.toNat)

/-- `a >> b` (arithmetic shift = floor division by 2^b; `b < 0` raises ValueError) -/
def shr (a b : Int) : M Int := if b < 0 then .error .valueError else .ok (Int.fdiv a (2 ^ b.toNat))

/-- `a & b` on Python integers (two's complement with infinitely many sign bits) -/
def band : Int → Int → Int
  | .ofNat a, .ofNat b => Int.ofNat (a &&& b)
  | .ofNat a, .negSucc b => Int.ofNat (a ^^^ (a &&& b))          -- a & ~b
  | .negSucc a, .ofNat b => Int.ofNat (b ^^^ (a &&& b))          -- ~a & b
  | .negSucc a, .negSucc b => .negSucc (a ||| b)                  -- ~a & ~b = ~(a | b)

/-- `a | b` -/
def bor : Int → Int → Int
  | .ofNat a, .ofNat b => Int.ofNat (a ||| b)
  | .ofNat a, .negSucc b => .negSucc (b ^^^ (a &&& b))            -- a | ~b = ~(b & ~a)
  | .negSucc a, .ofNat b => .negSucc (a ^^^ (a &&& b))            -- ~a | b = ~(a & ~b)
  | .negSucc a, .negSucc b => .negSucc (a &&& b)                  -- ~a | ~b = ~(a & b)

/-- `a ^ b` -/
def bxor : Int → Int → Int
  | .ofNat a, .ofNat b => Int.ofNat (a ^^^ b)
  | .ofNat a, .negSucc b => .negSucc (a ^^^ b)
  | .negSucc a, .ofNat b => .negSucc (a ^^^ b)
  | .negSucc a, .negSucc b => Int.ofNat (a ^^^ b)

/-- `sum(f(x) for x in xs)` with an element expression that can raise -/
def sumM (xs : List Int) (f : Int → M Int) : M Int :=
  xs.foldl (fun acc x => bind acc (fun s => bind (f x) (fun v => .ok (s + v)))) (.ok 0)

/-- `sum(f(x) for x in xs)` -/
def sum (xs : List Int) (f : Int → Int) : Int := xs.foldl (fun acc x => acc + f x) 0

end Gen.Py
