/-
  Proofs.RoutesCodec — lemmas about the post-processing of the data-URI routes (Model/Routes.lean) and
  the reference decoders (Spec/Decoders.lean): base64, percent-encoding, `_replace_quotes`.
-/
import Model.Routes
import Spec.Decoders
import Spec.Routes

namespace Proofs.RoutesCodec
open Model.Routes Spec.Decoders

/-! ### base64 -/

theorem b64Val_b64Char : ∀ n, n < 64 → b64Val (b64Char n) = some n := by decide +kernel
theorem b64Char_ne_pad : ∀ n, n < 64 → b64Char n ≠ '=' := by decide +kernel

theorem b64_roundtrip : (bs : List Nat) → (∀ b ∈ bs, b < 256) → b64decode (b64encode bs) = some bs
  | [], _ => by simp [b64encode, b64decode]
  | [a], h => by
    have ha : a < 256 := h a (by simp)
    simp only [b64encode, b64decode]
    rw [b64Val_b64Char _ (by omega), b64Val_b64Char _ (by omega)]
    simp only [and_self, if_true, Option.some.injEq, List.cons.injEq, and_true]
    omega
  | [a, b], h => by
    have ha : a < 256 := h a (by simp)
    have hb : b < 256 := h b (by simp)
    simp only [b64encode, b64decode]
    rw [b64Val_b64Char _ (by omega), b64Val_b64Char _ (by omega)]
    have h3 : b64Char (b % 16 * 4) ≠ '=' := b64Char_ne_pad _ (by omega)
    simp only [h3, false_and, if_false]
    rw [b64Val_b64Char _ (by omega)]
    simp only [and_self, if_true, Option.some.injEq, List.cons.injEq, and_true]
    omega
  | a :: b :: c :: rest, h => by
    have ha : a < 256 := h a (by simp)
    have hb : b < 256 := h b (by simp)
    have hc : c < 256 := h c (by simp)
    have ih := b64_roundtrip rest (fun x hx => h x (by simp [hx]))
    simp only [b64encode, b64decode]
    rw [b64Val_b64Char _ (by omega), b64Val_b64Char _ (by omega)]
    have h3 : b64Char (b % 16 * 4 + c / 64) ≠ '=' := b64Char_ne_pad _ (by omega)
    have h4 : b64Char (c % 64) ≠ '=' := b64Char_ne_pad _ (by omega)
    simp only [h3, h4, false_and, if_false]
    rw [b64Val_b64Char _ (by omega), b64Val_b64Char _ (by omega), ih]
    simp only [Option.map_some, Option.some.injEq, List.cons.injEq, and_true]
    omega

/-! ### percent-encoding -/

theorem hexVal_hexUpper : ∀ n, n < 16 → hexVal? (hexUpper n) = some n := by decide +kernel
theorem toNat_ofNat : ∀ b, b < 256 → (Char.ofNat b).toNat = b := by decide +kernel
theorem ofNat_ne_pct : ∀ b, b < 256 → b ≠ 37 → Char.ofNat b ≠ '%' := by decide +kernel

theorem pctDecodeGo_skip : ∀ (k : Nat) (l : List Char), pctDecodeGo k l = pctDecodeGo 0 (l.drop k)
  | 0, l => by simp
  | k + 1, [] => by simp [pctDecodeGo]
  | k + 1, _ :: cs => by
    simp only [pctDecodeGo, List.drop_succ_cons]
    exact pctDecodeGo_skip k cs

/-- one byte: whatever follows, the reader gives the byte back and continues after its encoding -/
theorem pct_byte (safe : List Nat) (h37 : isSafe safe 37 = false) (b : Nat) (hb : b < 256) (rest : List Char) :
    pctDecodeGo 0 (pctByte safe b ++ rest) = b :: pctDecodeGo 0 rest := by
  unfold pctByte
  by_cases hs : isSafe safe b = true
  · have hne : b ≠ 37 := by
      intro h
      rw [h, h37] at hs
      exact absurd hs (by simp)
    simp only [hs, if_true, List.cons_append, List.nil_append, pctDecodeGo, ofNat_ne_pct b hb hne, if_false, toNat_ofNat b hb]
  · simp only [hs, Bool.false_eq_true, if_false, List.cons_append, List.nil_append, pctDecodeGo, if_true,
      hexVal_hexUpper _ (show b / 16 < 16 by omega), hexVal_hexUpper _ (show b % 16 < 16 by omega)]
    simp only [List.cons.injEq, and_true]
    omega

theorem pct_roundtrip (safe : List Nat) (h37 : isSafe safe 37 = false) :
    (bs : List Nat) → (∀ b ∈ bs, b < 256) → pctDecode (pctEncode safe bs) = bs
  | [], _ => by simp [pctEncode, pctDecode, pctDecodeGo]
  | b :: bs, h => by
    have ih := pct_roundtrip safe h37 bs (fun x hx => h x (by simp [hx]))
    simp only [pctEncode, pctDecode, List.flatMap_cons] at ih ⊢
    rw [pct_byte safe h37 b (h b (by simp)), ih]

/-- the encoded text consists of ASCII letters, digits, `_.-~`, the safe characters and `%` -/
theorem pctByte_chars (safe : List Nat) (b : Nat) (hb : b < 256) :
    ∀ c ∈ pctByte safe b, c = '%' ∨ (∃ n, n < 16 ∧ c = hexUpper n) ∨ (isSafe safe c.toNat = true) := by
  intro c hc
  unfold pctByte at hc
  by_cases hs : isSafe safe b = true
  · simp only [hs, if_true, List.mem_singleton] at hc
    right; right
    rw [hc, toNat_ofNat b hb]; exact hs
  · simp only [hs, Bool.false_eq_true, if_false, List.mem_cons, List.not_mem_nil, or_false] at hc
    rcases hc with h | h | h
    · left; exact h
    · right; left; exact ⟨b / 16, by omega, h⟩
    · right; left; exact ⟨b % 16, by omega, h⟩

/-! ### `_replace_quotes` -/

theorem rq_skip : ∀ (k : Nat) (l : List Nat), replaceQuotesGo k l = replaceQuotesGo 0 (l.drop k)
  | 0, l => by simp
  | k + 1, [] => by simp [replaceQuotesGo]
  | k + 1, _ :: bs => by
    simp only [replaceQuotesGo, List.drop_succ_cons]
    exact rq_skip k bs

theorem of_mem_takeWhile (p : Nat → Bool) : ∀ (l : List Nat) (x : Nat), x ∈ l.takeWhile p → p x = true
  | [], _, h => by simp at h
  | y :: ys, x, h => by
    by_cases hy : p y = true
    · simp only [List.takeWhile_cons, hy, if_true, List.mem_cons] at h
      rcases h with h | h
      · rw [h]; exact hy
      · exact of_mem_takeWhile p ys x h
    · simp [List.takeWhile_cons, hy] at h

theorem takeWhile_body (body post : List Nat) (h : 34 ∉ body) :
    (body ++ 34 :: post).takeWhile (· != 34) = body := by
  induction body with
  | nil => simp
  | cons x xs ih =>
    have hx : x ≠ 34 := fun e => h (by simp [e])
    have hxs : 34 ∉ xs := fun e => h (by simp [e])
    simp [List.takeWhile_cons, hx, ih hxs]

/-- at an attribute value the two quotes become `'` and the scan continues after the closing quote -/
theorem rq_attr (body post : List Nat) (hne : body ≠ []) (h : 34 ∉ body) :
    replaceQuotesGo 0 (61 :: 34 :: (body ++ 34 :: post)) = 61 :: 39 :: (body ++ 39 :: replaceQuotesGo 0 post) := by
  simp only [replaceQuotesGo, if_true, takeWhile_body body post h]
  have h1 : (body.isEmpty) = false := by cases body <;> simp_all
  have h2 : ((body ++ 34 :: post).drop body.length).head? = some 34 := by simp
  simp only [h1, h2, Bool.not_false, beq_self_eq_true, Bool.and_self, if_true]
  rw [rq_skip]
  simp

/-- the condition the scan tests is exactly `StartsAttr` -/
theorem startsAttr_of_cond (rest : List Nat)
    (h : (!(rest.takeWhile (· != 34)).isEmpty && ((rest.drop (rest.takeWhile (· != 34)).length).head? == some 34)) = true) :
    StartsAttr (61 :: 34 :: rest) := by
  simp only [Bool.and_eq_true, Bool.not_eq_eq_eq_not, Bool.not_true, beq_iff_eq] at h
  obtain ⟨hne, hhead⟩ := h
  refine ⟨rest.takeWhile (· != 34), (rest.drop (rest.takeWhile (· != 34)).length).tail, ?_, ?_, ?_⟩
  · have hd : rest.drop (rest.takeWhile (· != 34)).length = 34 :: (rest.drop (rest.takeWhile (· != 34)).length).tail := by
      cases hdr : rest.drop (rest.takeWhile (· != 34)).length with
      | nil => rw [hdr] at hhead; simp at hhead
      | cons x xs => rw [hdr] at hhead; simp at hhead; simp [hhead]
    have := List.take_append_drop (rest.takeWhile (· != 34)).length rest
    rw [hd] at this
    have htake : rest.take (rest.takeWhile (· != 34)).length = rest.takeWhile (· != 34) := by
      clear this hd hhead hne
      induction rest with
      | nil => simp
      | cons x xs ih =>
        by_cases hx : (x != 34) = true
        · simp [List.takeWhile_cons, hx, ih]
        · simp [List.takeWhile_cons, hx]
    rw [htake] at this
    rw [this]
  · intro e; rw [e] at hne; simp at hne
  · intro hm
    have := of_mem_takeWhile (· != 34) rest 34 hm
    simp at this

theorem rq_noattr (b : Nat) (bs : List Nat) (h : ¬ StartsAttr (b :: bs)) :
    replaceQuotesGo 0 (b :: bs) = b :: replaceQuotesGo 0 bs := by
  by_cases hb : b = 61
  · subst hb
    cases bs with
    | nil => simp [replaceQuotesGo]
    | cons q rest =>
      by_cases hq : q = 34
      · subst hq
        by_cases hc : (!(rest.takeWhile (· != 34)).isEmpty && ((rest.drop (rest.takeWhile (· != 34)).length).head? == some 34)) = true
        · exact absurd (startsAttr_of_cond rest hc) h
        · simp only [replaceQuotesGo, if_true]
          simp only [hc, Bool.false_eq_true, if_false]
      · simp only [replaceQuotesGo, if_true]
        split
        · rename_i heq; simp at heq; exact absurd heq.1 hq
        · rfl
  · simp only [replaceQuotesGo, hb, if_false]

theorem forall₂_refl_append (body : List Nat) {l1 l2 : List Nat} (h : Pointwise QuoteStep l1 l2) :
    Pointwise QuoteStep (body ++ l1) (body ++ l2) := by
  induction body with
  | nil => exact h
  | cons x xs ih => exact Pointwise.cons (Or.inl rfl) ih

theorem rq_pointwise_aux : ∀ (n : Nat) (d : List Nat), d.length ≤ n → Pointwise QuoteStep d (replaceQuotesGo 0 d)
  | _, [], _ => by simp only [replaceQuotesGo]; exact Pointwise.nil
  | 0, _ :: _, h => by simp at h
  | n + 1, b :: bs, h => by
    by_cases hs : StartsAttr (b :: bs)
    · obtain ⟨body, post, he, hne, hq⟩ := hs
      rw [he, rq_attr body post hne hq]
      have hl : post.length ≤ n := by
        have := congrArg List.length he
        simp at this h
        omega
      exact Pointwise.cons (Or.inl rfl) (Pointwise.cons (Or.inr ⟨rfl, rfl⟩)
        (forall₂_refl_append body (Pointwise.cons (Or.inr ⟨rfl, rfl⟩) (rq_pointwise_aux n post hl))))
    · rw [rq_noattr b bs hs]
      exact Pointwise.cons (Or.inl rfl) (rq_pointwise_aux n bs (by simp at h; omega))

theorem rq_pointwise (d : List Nat) : Pointwise QuoteStep d (replaceQuotes d) :=
  rq_pointwise_aux d.length d (Nat.le_refl _)

theorem pointwise_lt : ∀ {d d' : List Nat}, Pointwise QuoteStep d d' → (∀ b ∈ d, b < 256) → ∀ b ∈ d', b < 256
  | _, _, .nil, _ => by intro b hb'; simp at hb'
  | _, _, @Pointwise.cons _ a c l1 l2 hr ht, hb => by
    intro x hx
    simp only [List.mem_cons] at hx
    rcases hx with rfl | hx
    · rcases hr with h1 | ⟨_, h2⟩
      · rw [← h1]; exact hb a (by simp)
      · rw [h2]; decide
    · exact pointwise_lt ht (fun y hy => hb y (by simp [hy])) x hx

theorem rq_fixed_of_no_attr : ∀ d : List Nat, ¬ HasQuotedAttr d → replaceQuotesGo 0 d = d
  | [], _ => by simp [replaceQuotesGo]
  | b :: bs, h => by
    have hs : ¬ StartsAttr (b :: bs) := fun hs => h ⟨[], b :: bs, rfl, hs⟩
    have ht : ¬ HasQuotedAttr bs := fun ⟨pre, l, he, hl⟩ => h ⟨b :: pre, l, by simp [he], hl⟩
    rw [rq_noattr b bs hs, rq_fixed_of_no_attr bs ht]

theorem rq_changed_of_attr : ∀ d : List Nat, HasQuotedAttr d → replaceQuotesGo 0 d ≠ d
  | [], ⟨pre, l, he, body, post, hl, _, _⟩ => by
    subst hl
    cases pre <;> simp at he
  | b :: bs, hh => by
    by_cases hs : StartsAttr (b :: bs)
    · obtain ⟨body, post, he, hne, hq⟩ := hs
      rw [he, rq_attr body post hne hq]
      simp
    · rw [rq_noattr b bs hs]
      obtain ⟨pre, l, he, hl⟩ := hh
      have ht : HasQuotedAttr bs := by
        cases pre with
        | nil => simp at he; rw [← he] at hl; exact absurd hl hs
        | cons p ps => simp at he; exact ⟨ps, l, he.2, hl⟩
      intro e
      simp at e
      exact rq_changed_of_attr bs ht e

/-- the judge's D12 rewriting (Spec/Routes.lean, with fuel) is the model's `replaceQuotes` -/
theorem judge_rewrite_eq : ∀ (f : Nat) (d : List Nat), d.length < f → Spec.Routes.rewriteQuotes f d = replaceQuotesGo 0 d
  | 0, _, h => by simp at h
  | f + 1, [], _ => by simp [Spec.Routes.rewriteQuotes, replaceQuotesGo]
  | f + 1, b :: bs, h => by
    by_cases hs : StartsAttr (b :: bs)
    · obtain ⟨body, post, he, hne, hq⟩ := hs
      rw [he, rq_attr body post hne hq]
      have hl : post.length < f := by
        have := congrArg List.length he
        simp at this h
        omega
      have h1 : (body.isEmpty) = false := by cases body <;> simp_all
      simp only [Spec.Routes.rewriteQuotes, takeWhile_body body post hq, h1]
      simp [judge_rewrite_eq f post hl]
    · rw [rq_noattr b bs hs]
      have hl : bs.length < f := by simp at h; omega
      by_cases hb : b = 61
      · subst hb
        cases bs with
        | nil =>
          have : Spec.Routes.rewriteQuotes (f + 1) [61] = 61 :: Spec.Routes.rewriteQuotes f [] := by
            rw [Spec.Routes.rewriteQuotes.eq_def]
            split <;> simp_all
          rw [this, judge_rewrite_eq f [] hl]
        | cons q rest =>
          by_cases hq : q = 34
          · subst hq
            have hc : ¬ ((!(rest.takeWhile (· != 34)).isEmpty && ((rest.drop (rest.takeWhile (· != 34)).length).head? == some 34)) = true) :=
              fun hc => hs (startsAttr_of_cond rest hc)
            simp only [Spec.Routes.rewriteQuotes]
            simp only [hc, Bool.false_eq_true, if_false]
            rw [judge_rewrite_eq f (34 :: rest) hl]
          · have : Spec.Routes.rewriteQuotes (f + 1) (61 :: q :: rest) = 61 :: Spec.Routes.rewriteQuotes f (q :: rest) := by
              rw [Spec.Routes.rewriteQuotes.eq_def]
              split <;> simp_all
            rw [this, judge_rewrite_eq f (q :: rest) hl]
      · have : Spec.Routes.rewriteQuotes (f + 1) (b :: bs) = b :: Spec.Routes.rewriteQuotes f bs := by
          rw [Spec.Routes.rewriteQuotes.eq_def]
          split <;> simp_all
        rw [this, judge_rewrite_eq f bs hl]

end Proofs.RoutesCodec
