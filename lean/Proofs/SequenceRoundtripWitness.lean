/-
  Proofs.SequenceRoundtripWitness — kernel-evaluated witnesses for Props/C08Roundtrip.lean (kept in a
  file of their own because each evaluation takes 10–40 s).
-/
import Spec.Decode
import Model.Sequence

namespace Proofs.SequenceRoundtrip
open Model

/-- the ten digits "1234567890" -/
def tenDigits : List Nat := [49, 50, 51, 52, 53, 54, 55, 56, 57, 48]

/-- `make_sequence('1234567890', version=1, symbol_count=3)` returns ONE symbol -/
theorem version_and_count_witness :
    (match encodeSequenceAux [⟨tenDigits, none, "iso-8859-1"⟩] tenDigits "iso-8859-1" none (some 1) (some 0) false false
        (some 3) (fun _ => none) with
     | .ok (true, cs) => cs.length == 1
     | _ => false) = true := by decide +kernel

/-- kanji content 点 (93 5F) with message bytes 93 5F 93 (not the content): one symbol, which carries
    the two bytes 93 5F only -/
theorem foreign_message_witness :
    (match encodeSequenceAux [⟨[0x93, 0x5f], none, "shift_jis"⟩] [0x93, 0x5f, 0x93] "shift_jis" none none (some 0) false false
        (some 1) (fun _ => none) with
     | .ok (true, [c]) =>
       (match Spec.decode c.matrix with
        | .ok d => (match d.parsed with
          | .ok p => (p.segments.map (·.bytes)).flatten == [0x93, 0x5f]
          | .error _ => false)
        | .error _ => false)
     | _ => false) = true := by decide +kernel

/-- "123" in 2 symbols: accepted, two symbols, the second one decodes (valid blocks) to the header
    (1, 1, parity 48 = 49 ^ 50 ^ 51) and the digit 3 -/
def twoSymbolsCheck : Bool :=
  match encodeSequenceAux [⟨[49, 50, 51], none, "iso-8859-1"⟩] [49, 50, 51] "iso-8859-1" none none (some 0) false false
      (some 2) (fun _ => none) with
  | .ok (true, [_, c]) =>
    (match Spec.decode c.matrix with
     | .ok d => d.badBlocks == 0 && (match d.parsed with
       | .ok p => p.sa == some (1, 1, 48) && (p.segments.map (·.bytes)).flatten == [51]
       | .error _ => false)
     | .error _ => false)
  | _ => false

theorem two_symbols_witness : twoSymbolsCheck = true := by decide +kernel

end Proofs.SequenceRoundtrip
