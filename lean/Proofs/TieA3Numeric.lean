/-
  Proofs.TieA3Numeric — `make_segment`, numeric mode: the loop `for i in range(0, n, 3): chunk = data[i:i + 3];
  append_bits(int(chunk), len(chunk) * 3 + 1)` against `Model.chunks 3` / `Model.digitsVal`.
-/
import Proofs.TieA3Segment
import Proofs.TieA3Place

namespace Proofs.TieA3
open Gen.Py Proofs.TieA Proofs.TieA2 Model

theorem rangeStep3 (len : Nat) :
    rangeStep 0 (len : Int) 3 = (List.range ((len + 2) / 3)).map (fun (j : Nat) => (0 : Int) + Int.ofNat j * Int.ofNat 3) := by
  unfold rangeStep
  have e : (((len : Int) - 0).toNat + 3 - 1) / 3 = (len + 2) / 3 := by omega
  rw [e]

theorem take_drop_window (l : List Nat) (a k : Nat) :
    (l.take (min (a + k) l.length)).drop (min a l.length) = (l.drop a).take k := by
  apply List.ext_getElem?
  intro i
  simp only [List.getElem?_drop, List.getElem?_take]
  by_cases h1 : i < k
  · by_cases h2 : a + i < l.length
    · have : min a l.length + i < min (a + k) l.length := by omega
      have e : min a l.length + i = a + i := by omega
      simp [h1, this, e]
    · have h3 : l[a + i]? = none := by simp; omega
      by_cases h4 : min a l.length + i < min (a + k) l.length
      · omega
      · simp [h1, h4, h3]
  · have : ¬ min a l.length + i < min (a + k) l.length := by omega
    simp [h1, this]

theorem slice_chunk3 (data : List Nat) (j : Nat) :
    Gen.Py.slice (toI data) (some ((0 : Int) + Int.ofNat j * Int.ofNat 3)) (some ((0 : Int) + Int.ofNat j * Int.ofNat 3 + (3 : Int)))
      = toI ((data.drop (j * 3)).take 3) := by
  unfold Gen.Py.slice sliceHi sliceLo clip
  have h1 : ¬ ((0 : Int) + Int.ofNat j * Int.ofNat 3 + 3 < 0) := by simp only [Int.ofNat_eq_natCast]; omega
  have h2 : ¬ ((0 : Int) + Int.ofNat j * Int.ofNat 3 < 0) := by simp only [Int.ofNat_eq_natCast]; omega
  have e1 : ((0 : Int) + Int.ofNat j * Int.ofNat 3 + 3).toNat = j * 3 + 3 := by simp only [Int.ofNat_eq_natCast]; omega
  have e2 : ((0 : Int) + Int.ofNat j * Int.ofNat 3).toNat = j * 3 := by simp only [Int.ofNat_eq_natCast]; omega
  simp only [h1, h2, if_false, e1, e2, toI_length]
  unfold toI
  rw [← List.map_take, ← List.map_drop, take_drop_window]

theorem chunks3_eq : ∀ (fuel : Nat) (l : List Nat), l.length ≤ fuel →
    chunks 3 fuel l = (List.range ((l.length + 2) / 3)).map (fun j => (l.drop (j * 3)).take 3) := by
  intro fuel
  induction fuel with
  | zero =>
    intro l h
    have : l = [] := List.eq_nil_of_length_eq_zero (by omega)
    subst this
    rfl
  | succ f ih =>
    intro l h
    cases l with
    | nil => rfl
    | cons x t =>
      have hc : chunks 3 (f + 1) (x :: t) = (x :: t).take 3 :: chunks 3 f ((x :: t).drop 3) := rfl
      have h' : t.length + 1 ≤ f + 1 := by simpa using h
      rw [hc, ih ((x :: t).drop 3) (by simp only [List.length_drop, List.length_cons]; omega)]
      have e : ((x :: t).length + 2) / 3 = (((x :: t).drop 3).length + 2) / 3 + 1 := by
        simp only [List.length_drop, List.length_cons]; omega
      rw [e, List.range_succ_eq_map, List.map_cons, List.map_map]
      congr 1
      apply List.map_congr_left
      intro j _
      simp only [Function.comp, List.drop_drop]
      congr 2
      omega

theorem foldl_append_flatten {α β : Type} (L : List α) (h : α → List β) (a : List β) :
    L.foldl (fun acc j => acc ++ h j) a = a ++ (L.map h).flatten := by
  induction L generalizing a with
  | nil => simp
  | cons x t ih => simp [ih, List.append_assoc]

theorem numeric_loop (data : List Nat) (intOf : List Int → M Int)
    (hint : ∀ c : List Nat, c ≠ [] → (∀ b ∈ c, 48 ≤ b ∧ b ≤ 57) → intOf (toI c) = .ok (Int.ofNat (digitsVal c)))
    (hd : ∀ b ∈ data, 48 ≤ b ∧ b ≤ 57) :
    foldlM (rangeStep 0 (data.length : Int) 3) ([] : List Int) (fun acc i =>
        Gen.Py.bind (intOf (Gen.Py.slice (toI data) (some i) (some (i + (3 : Int))))) (fun t =>
          Except.ok (acc ++ Gen.Py.appendBits t
            (Int.ofNat (Gen.Py.slice (toI data) (some i) (some (i + (3 : Int)))).length * (3 : Int) + (1 : Int)))))
      = .ok (toI (((chunks 3 data.length data).map (fun c => Model.appendBits (digitsVal c) (c.length * 3 + 1))).flatten)) := by
  rw [rangeStep3, chunks3_eq data.length data (Nat.le_refl _), List.map_map]
  have key := foldlM_map_inv (σ := List Int) (τ := List Nat) toI (fun _ => True)
    (fun acc j => acc ++ Model.appendBits (digitsVal ((data.drop (j * 3)).take 3)) (((data.drop (j * 3)).take 3).length * 3 + 1))
    (fun (j : Nat) => (0 : Int) + Int.ofNat j * Int.ofNat 3) (fun j => j < (data.length + 2) / 3)
    (fun acc i =>
        Gen.Py.bind (intOf (Gen.Py.slice (toI data) (some i) (some (i + (3 : Int))))) (fun t =>
          Except.ok (acc ++ Gen.Py.appendBits t
            (Int.ofNat (Gen.Py.slice (toI data) (some i) (some (i + (3 : Int)))).length * (3 : Int) + (1 : Int)))))
    (by
      intro acc j hj _
      refine ⟨?_, trivial⟩
      rw [slice_chunk3]
      have hne : (data.drop (j * 3)).take 3 ≠ [] := by
        intro h
        have := congrArg List.length h
        simp only [List.length_take, List.length_drop, List.length_nil] at this
        omega
      have hdig : ∀ b ∈ (data.drop (j * 3)).take 3, 48 ≤ b ∧ b ≤ 57 :=
        fun b hb => hd b (List.mem_of_mem_drop (List.mem_of_mem_take hb))
      rw [hint _ hne hdig, bind_ok, toI_length]
      rw [appendBits_lit (digitsVal ((data.drop (j * 3)).take 3)) (((data.drop (j * 3)).take 3).length * 3 + 1)
        (Int.ofNat (digitsVal ((data.drop (j * 3)).take 3))) (Int.ofNat ((data.drop (j * 3)).take 3).length * 3 + 1) rfl
        (by simp only [Int.ofNat_eq_natCast]; push_cast; rfl)]
      rw [toI_append])
    (List.range ((data.length + 2) / 3)) (fun x hx => List.mem_range.mp hx) [] [] rfl trivial
  rw [key.1, foldl_append_flatten, List.nil_append]
  rfl

theorem findMode_numeric (data : List Nat) (h : findMode data = 1) : ∀ b ∈ data, 48 ≤ b ∧ b ≤ 57 := by
  unfold findMode at h
  split at h
  · rename_i hc
    simp only [Bool.and_eq_true, List.all_eq_true] at hc
    intro b hb
    have := hc.2 b hb
    simp only [isDigitByte, Bool.and_eq_true, decide_eq_true_eq] at this
    exact this
  · split at h
    · simp [Gen.MODE_ALPHANUMERIC] at h
    · split at h
      · simp [Gen.MODE_KANJI] at h
      · simp [Gen.MODE_BYTE] at h

theorem make_segment_numeric_py (raw : String) (data : List Nat) (mode : Option Nat) (enc : Option String) (encName : String)
    (intOf : List Int → M Int)
    (hint : ∀ c : List Nat, c ≠ [] → (∀ b ∈ c, 48 ≤ b ∧ b ≤ 57) → intOf (toI c) = .ok (Int.ofNat (digitsVal c)))
    (hg : findMode data = 1) (hmode : mode = none ∨ mode = some 1) :
    Gen.Funcs3.make_segment raw (mode.map Int.ofNat) enc (.ok (toI data, (data.length : Int), encName)) (findMode data : Int) intOf
      = .ok (toI (((chunks 3 data.length data).map (fun c => Model.appendBits (digitsVal c) (c.length * 3 + 1))).flatten),
          (data.length : Int), 1, none) := by
  have hl := numeric_loop data intOf hint (findMode_numeric data hg)
  rcases hmode with h | h
  · subst h
    unfold Gen.Funcs3.make_segment
    simp only [hg, Option.map_none, bind_ok]
    rw [hl]
    simp
  · subst h
    unfold Gen.Funcs3.make_segment
    simp only [hg, Option.map_some, bind_ok]
    rw [hl]
    simp

/-- the model in numeric mode -/
theorem make_segment_numeric_model (data : List Nat) (mode : Option Nat) (encName : String)
    (hg : findMode data = 1) (hmode : mode = none ∨ mode = some 1) :
    Model.makeSegment data mode encName
      = .ok { bits := ((chunks 3 data.length data).map (fun c => Model.appendBits (digitsVal c) (c.length * 3 + 1))).flatten,
              charCount := data.length, mode := 1, encoding := none } := by
  rcases hmode with h | h
  · subst h
    unfold Model.makeSegment
    simp [hg, Gen.MODE_BYTE, Gen.MODE_KANJI, Gen.MODE_HANZI, Gen.MODE_NUMERIC, Gen.MODE_ALPHANUMERIC, Bind.bind, Except.bind, Pure.pure, Except.pure]
  · subst h
    unfold Model.makeSegment
    simp [hg, Gen.MODE_BYTE, Gen.MODE_KANJI, Gen.MODE_HANZI, Gen.MODE_NUMERIC, Gen.MODE_ALPHANUMERIC, Bind.bind, Except.bind, Pure.pure, Except.pure]

/-- a requested mode below the mode `find_mode` finds: `ValueError` on both sides -/
theorem make_segment_refused (raw : String) (data : List Nat) (md : Nat) (enc : Option String) (encName : String)
    (intOf : List Int → M Int) (hmd : md ≠ 4) (hlt : md < findMode data) :
    Gen.Funcs3.make_segment raw (some (md : Int)) enc (.ok (toI data, (data.length : Int), encName)) (findMode data : Int) intOf
      = .error .valueError
    ∧ Model.makeSegment data (some md) encName = .error .valueError := by
  constructor
  · unfold Gen.Funcs3.make_segment
    have h4 : ((some (md : Int)) == some (4 : Int)) = false := by
      simp only [beq_eq_false_iff_ne, ne_eq, Option.some.injEq]; omega
    have hlt' : ((md : Int) < (findMode data : Int)) := by omega
    simp [h4, hlt']
  · unfold Model.makeSegment
    have h4 : (some md != some Gen.MODE_BYTE) = true := by simp [Gen.MODE_BYTE, hmd]
    simp [h4, hlt, Bind.bind, Except.bind, throw, throwThe, MonadExceptOf.throw]

end Proofs.TieA3
