/-
  Tie A, round 5 — helpers for `Props/TieA5.lean`: the regenerated composition `Gen.Funcs5._encode`.

  The translator duplicates the rest of the function into the branches of every `if` (`if not is_micro`, `if boost_error`,
  `if sa_mode`): the generated term has eight copies of the pipeline.  `encode_factor` folds them back into ONE pipeline of
  named stages (`boostPy`, `headerPy`, `segmentsPy`, `capacityPy`, `finishStreamPy` of round 2, `make_final_message`,
  `matrixPy`); the stages are then rewritten one by one with the tie theorems of rounds 1 – 4.
-/
import Gen.Funcs5
import Proofs.TieA2Stream
import Proofs.TieA2Boost
import Proofs.TieA2Capacity
import Proofs.TieA3Segment

set_option linter.unusedSimpArgs false
set_option linter.unusedVariables false

namespace Proofs.TieA5
open Gen.Py Gen.Funcs Gen.Funcs2 Gen.Funcs3 Gen.Funcs4 Proofs.TieA Proofs.TieA2 Proofs.TieA3 Model

/-- one item of `segments` as the translation reads it: mode, encoding, char_count, bits, the ECI assignment number -/
abbrev Item := Int × Option String × Int × List Int × M Int
/-- `Code(matrix, version, error, mask, segments)` without the object `segments` -/
abbrev Res := List (List Int) × Int × Option Int × Int

/-- `if boost_error: error = boost_error_level(version, error, segments, eci, is_sa=sa_mode)` -/
def boostPy (boost : Bool) (version : Int) (error : Option Int) (nSeg nEci : Int) (modes : List Int) (bitLength : Int) (eci isSa : Bool) :
    M (Option Int) :=
  if boost then boost_error_level version error nSeg nEci modes bitLength eci isSa else .ok error

/-- the Structured Append header: `for i in sa_info[:3]: buff.append_bits(i, 4)`, `buff.append_bits(sa_info.parity, 8)` -/
def headerPy (sa : Option (Int × Int × Int × Int)) (buff : List Int) : List Int :=
  match sa with
  | none => buff
  | some t => ((Gen.Py.slice [t.1, t.2.1, t.2.2.1, t.2.2.2] none (some (3 : Int))).foldl
      (fun (acc : List Int) (i : Int) => acc ++ Gen.Py.appendBits i (4 : Int)) buff) ++ Gen.Py.appendBits t.2.2.2 (8 : Int)

/-- `for segment in segments: write_segment(buff, segment, ver, ver_range, eci)` -/
def segmentsPy (items : List Item) (ver : Option Int) (vr : Int) (eci : Bool) (buff : List Int) : M (List Int) :=
  Gen.Py.foldlM items buff (fun (acc : List Int) (s : Item) => write_segment acc s.1 s.2.1 s.2.2.1 s.2.2.2.1 ver vr eci s.2.2.2.2)

/-- `consts.SYMBOL_CAPACITY[version][error]` -/
def capacityPy (version : Int) (error : Option Int) : M Int :=
  Gen.Py.bind (Gen.Py.lookup T_consts_SYMBOL_CAPACITY version) (fun t => Gen.Py.lookup t error)

/-- terminator, padding bits, pad codewords (`ver` as `_encode` passes it) -/
def finishPy (buff : List Int) (version : Int) (ver : Option Int) (cap : Int) : M (List Int) :=
  Gen.Py.bind (write_terminator buff cap ver (Int.ofNat buff.length)) (fun b1 =>
    let b2 := write_padding_bits b1 version (Int.ofNat b1.length)
    write_pad_codewords b2 version cap (Int.ofNat b2.length))

/-- from `width = calc_matrix_size(version)` to `return Code(…)` -/
def matrixPy (version : Int) (error : Option Int) (mask : Option Int) (final : List Int) : M Res :=
  let width := calc_matrix_size version
  Gen.Py.bind (make_matrix width width true true) (fun t11 =>
  Gen.Py.bind (add_finder_patterns t11 width width) (fun t12 =>
  Gen.Py.bind (add_alignment_patterns t12 width width) (fun t13 =>
  Gen.Py.bind (add_codewords t13 final version) (fun t14 =>
  Gen.Py.bind (make_matrix width width true true) (fun t15 =>
  Gen.Py.bind (find_and_apply_best_mask t14 width width mask t15) (fun t16 =>
  Gen.Py.bind ((match t16.2.2 with | some x => Except.ok x | none => Except.error PyExc.typeError) : M (List (List Int))) (fun t17 =>
  Gen.Py.bind (add_format_info t17 version error t16.2.1) (fun t18 =>
  Gen.Py.bind (add_version_info t18 version) (fun t19 =>
  Except.ok (t19, version, error, t16.2.1))))))))))

/-- everything after the Structured Append header -/
def tailPy (items : List Item) (ver : Option Int) (vr : Int) (eci : Bool) (version : Int) (mask : Option Int) (error : Option Int)
    (buff : List Int) : M Res :=
  Gen.Py.bind (segmentsPy items ver vr eci buff) (fun b =>
  Gen.Py.bind (capacityPy version error) (fun cap =>
  Gen.Py.bind (finishPy b version ver cap) (fun s =>
  Gen.Py.bind (make_final_message version error s) (fun final =>
  matrixPy version error mask final))))

/-- `ver` / `ver_range`: the version for a Micro QR Code, `None` / `version_range(version)` for a QR Code -/
def rangePy (version : Int) : M (Option Int × Int) :=
  if version < 1 then .ok (some version, version) else Gen.Py.bind (version_range version) (fun r => .ok (none, r))

/-- the eight copies of the pipeline in the generated term are one pipeline -/
theorem encode_factor (nSeg nEci : Int) (modes : List Int) (bitLength : Int) (items : List Item) (error : Option Int) (version : Int)
    (mask : Option Int) (eci boost : Bool) (sa : Option (Int × Int × Int × Int)) :
    Gen.Funcs5._encode nSeg nEci modes bitLength items error version mask eci boost sa =
      Gen.Py.bind (rangePy version) (fun vr =>
      Gen.Py.bind (boostPy boost version error nSeg nEci modes bitLength eci (!sa.isNone)) (fun error' =>
      tailPy items vr.1 vr.2 eci version mask error' (headerPy sa []))) := by
  unfold Gen.Funcs5._encode rangePy boostPy tailPy matrixPy finishPy capacityPy segmentsPy headerPy
  by_cases hv : version < 1 <;> cases boost <;> cases sa <;>
    simp [hv, Gen.Py.bind_assoc] <;> rfl

end Proofs.TieA5
