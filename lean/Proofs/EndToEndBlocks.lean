/-
  Proofs.EndToEndBlocks — helper lemmas for Props/EndToEnd.lean, part 4: all stream bits are 0/1, and
  the final message splits into valid Reed-Solomon blocks carrying the data stream.
-/
import Spec.Decode
import Model.Encoder
import Props.C03Message
import Proofs.EndToEndStream

namespace Proofs.EndToEnd
open Model Proofs.Modes
set_option linter.unusedVariables false
set_option linter.unusedSimpArgs false

/-- all elements are bits -/
def Bin (l : List Nat) : Prop := ∀ b ∈ l, b ≤ 1

theorem Bin_nil : Bin [] := fun _ h => by cases h

theorem Bin_append {a b : List Nat} (ha : Bin a) (hb : Bin b) : Bin (a ++ b) := by
  intro x hx
  rcases List.mem_append.1 hx with h | h
  · exact ha x h
  · exact hb x h

theorem Bin_appendBits (x w : Nat) : Bin (appendBits x w) := by
  intro b hb
  unfold appendBits at hb
  simp only [List.mem_map, List.mem_range] at hb
  obtain ⟨k, _, rfl⟩ := hb
  omega

theorem Bin_flatten {L : List (List Nat)} (h : ∀ l ∈ L, Bin l) : Bin L.flatten := by
  intro b hb
  simp only [List.mem_flatten] at hb
  obtain ⟨l, hl, hbl⟩ := hb
  exact h l hl b hbl

theorem Bin_replicate_zero (n : Nat) : Bin (List.replicate n 0) := by
  intro b hb
  rw [List.mem_replicate] at hb
  omega

theorem Bin_padCodewords (k : Nat) : Bin (Spec.padCodewords k) := by
  induction k with
  | zero => exact Bin_nil
  | succ n ih =>
    unfold Spec.padCodewords
    refine Bin_append ih ?_
    split <;> (intro b hb; simp at hb; omega)

theorem Bin_flatten_map {α : Type} (l : List α) (g : α → List Nat) (h : ∀ a, Bin (g a)) : Bin (l.map g).flatten := by
  apply Bin_flatten
  intro x hx
  simp only [List.mem_map] at hx
  obtain ⟨a, _, rfl⟩ := hx
  exact h a

theorem Bin_segment (data : List Nat) (s : Segment) (h : SegShape data s) : Bin s.bits := by
  unfold SegShape at h
  rcases h with ⟨-, -, hb, -⟩ | ⟨-, -, hb, -⟩ | ⟨-, -, hb⟩ | ⟨-, -, hb, -⟩ | ⟨-, -, hb, -⟩ <;> rw [hb]
  · exact Bin_flatten_map _ _ (fun _ => Bin_appendBits _ _)
  · refine Bin_flatten_map _ _ (fun c => ?_)
    split
    · exact Bin_appendBits _ _
    · exact Bin_appendBits _ _
    · exact Bin_nil
  · exact Bin_flatten_map _ _ (fun _ => Bin_appendBits _ _)
  · exact Bin_flatten_map _ _ (fun _ => Bin_appendBits _ _)
  · exact Bin_flatten_map _ _ (fun _ => Bin_appendBits _ _)

theorem Bin_written (s : Segment) (v : Int) (eci : Bool) (f : String → Option Nat) (bits : List Nat)
    (h1 : -3 ≤ v) (h2 : v ≤ 40) (hmode : s.mode ∈ [1, 2, 4, 8, 13]) (hs : Bin s.bits)
    (hw : writeSegment s v eci f = .ok bits) : Bin bits := by
  obtain ⟨e, m, cl, he, hm, hc, hb⟩ := Proofs.StreamParse.writeSegment_ok s v eci f bits h1 h2 hw
  obtain ⟨mi, hmi, -⟩ := Proofs.StreamParse.modePart_spec s.mode v m cl h1 h2 hmode hm hc
  rw [hb, hmi]
  refine Bin_append (Bin_append (Bin_append ?_ (Bin_append (Bin_appendBits _ _) ?_)) (Bin_appendBits _ _)) hs
  · rcases Proofs.StreamParse.eciPart_ok s eci f e he with ⟨-, rfl⟩ | ⟨-, n, -, rfl⟩
    · exact Bin_nil
    · exact Bin_append (Bin_appendBits _ _) (Bin_appendBits _ _)
  · split
    · exact Bin_appendBits _ _
    · exact Bin_nil

theorem Bin_written_all (v : Int) (eci : Bool) (f : String → Option Nat) (h1 : -3 ≤ v) (h2 : v ≤ 40) :
    ∀ (segs : List Segment) (segBits : List (List Nat)),
      (∀ s ∈ segs, s.mode ∈ [1, 2, 4, 8, 13] ∧ Bin s.bits) →
      segs.mapM (fun s => writeSegment s v eci f) = .ok segBits → Bin segBits.flatten
  | [], segBits, _, hw => by cases hw; exact Bin_nil
  | s :: rest, segBits, hs, hw => by
    obtain ⟨b, bs, hwb, hwr, rfl⟩ := Proofs.StreamParse.mapM_ok_cons _ _ _ _ hw
    rw [List.flatten_cons]
    obtain ⟨hm, hb⟩ := hs s (List.mem_cons_self ..)
    exact Bin_append (Bin_written s v eci f b h1 h2 hm hb hwb)
      (Bin_written_all v eci f h1 h2 rest bs (fun x hx => hs x (List.mem_cons_of_mem _ hx)) hwr)

theorem Bin_finish (buff stream : List Nat) (v : Int) (cap : Nat) (h1 : -3 ≤ v) (h2 : v ≤ 40) (hb : Bin buff)
    (h : finishStream buff v cap = .ok stream) : Bin stream := by
  cases hf : Spec.fourBitFinal v with
  | false =>
    rw [Proofs.Stream.finish_qr buff v cap h1 h2 hf] at h
    rw [← Except.ok.inj h]
    exact Bin_append (Bin_append hb (Bin_replicate_zero _)) (Bin_padCodewords _)
  | true =>
    rw [Proofs.Stream.finish_m13 buff v cap h1 h2 hf] at h
    rw [← Except.ok.inj h]
    exact Bin_append (Bin_append (Bin_append hb (Bin_replicate_zero _)) (Bin_padCodewords _)) (Bin_replicate_zero _)

theorem Bin_final (v : Int) (e : Option Nat) (stream final : List Nat)
    (h : makeFinalMessage v e stream = .ok final) : Bin final := by
  unfold makeFinalMessage at h
  simp only [bind, Except.bind, pure, Except.pure, throw, throwThe, MonadExceptOf.throw] at h
  repeat' split at h
  all_goals first | (cases h; done) | skip
  · rw [← Except.ok.inj h]
    exact Bin_append (Bin_append (Bin_append (Bin_flatten_map _ _ (fun _ => Bin_appendBits _ _)) (Bin_appendBits _ _))
      (Bin_flatten_map _ _ (fun _ => Bin_appendBits _ _))) (Bin_replicate_zero _)
  · rw [← Except.ok.inj h]
    exact Bin_append (Bin_append (Bin_append (Bin_flatten_map _ _ (fun _ => Bin_appendBits _ _)) Bin_nil)
      (Bin_flatten_map _ _ (fun _ => Bin_appendBits _ _))) (Bin_replicate_zero _)

/-- the segments of an accepted input consist of bits -/
theorem Bin_segs (parts : List Part) (segs : List Segment)
    (hp : ∀ p ∈ parts, (∀ b ∈ p.data, b < 256) ∧ p.data ≠ [] ∧ p.mode ∈ [none, some 1, some 2, some 4, some 8, some 13])
    (hprep : prepareData parts = .ok segs) : ∀ s ∈ segs, s.mode ∈ [1, 2, 4, 8, 13] ∧ Bin s.bits := by
  obtain ⟨ps, hsegs, -, hok⟩ := prepareData_pairs parts segs hp hprep
  intro s hs
  rw [hsegs] at hs
  simp only [List.mem_map] at hs
  obtain ⟨x, hx, rfl⟩ := hs
  obtain ⟨-, -, hm, enc, hk⟩ := hok x hx
  exact ⟨hm, Bin_segment x.1 x.2 (makeSegment_ok_cases _ _ _ _ (some_mode_mem _ hm) hk)⟩

/-- **step 4** (internal form): the final message consists of valid RS blocks carrying the stream -/
theorem blocks_valid (parts : List Part) (segs : List Segment) (v : Int) (mask : Option Nat) (eci : Bool)
    (f : String → Option Nat) (c : Code) (st : Stages segs v mask eci f c)
    (hp : ∀ p ∈ parts, (∀ b ∈ p.data, b < 256) ∧ p.data ≠ [] ∧ p.mode ∈ [none, some 1, some 2, some 4, some 8, some 13])
    (hprep : prepareData parts = .ok segs) (h1 : -3 ≤ v) (h2 : v ≤ 40)
    (hfit : st.segBits.flatten.length ≤ st.cap) (hcl : st.cap ≤ st.stream.length) :
    Bin st.final ∧
    ∃ b, Spec.splitBlocks v (lvlKey c.error) st.final = .ok b ∧ Spec.badBlocks b = 0
      ∧ Spec.allZero b.remainder = true ∧ Spec.dataStream v b = st.stream.take st.cap := by
  have hbuff := Bin_written_all v eci f h1 h2 segs st.segBits (Bin_segs parts segs hp hprep) st.hw
  have hstream := Bin_finish _ _ v st.cap h1 h2 hbuff st.hstream
  have hz : Spec.fourBitFinal v = true → ∀ b ∈ (st.stream.drop st.cap).take 4, b = 0 := by
    intro hf b hb
    have := Props.C03.m13_stream_has_capacity_length v c.error st.cap _ _ st.hcap hfit hf st.hstream
    rw [List.drop_of_length_le (by omega)] at hb
    simp at hb
  obtain ⟨b, hsplit, hbad, hrem, hds⟩ := Props.C03.final_message_blocks_valid_partial v c.error st.cap st.stream st.final
    h1 h2 st.hcap hcl hstream hz st.hfinal
  exact ⟨Bin_final v c.error st.stream st.final st.hfinal, b, hsplit, hbad, hrem, hds⟩

end Proofs.EndToEnd
