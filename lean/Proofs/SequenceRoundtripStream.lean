/-
  Proofs.SequenceRoundtripStream — helper lemmas for Props/C08Roundtrip.lean, part 1: the reference
  stream parser `Spec.parseStream` applied to a data bit stream that starts with the Structured
  Append header 0011 ‖ i₄ ‖ total₄ ‖ parity₈ followed by one written segment.
-/
import Spec.Decode
import Model.Sequence
import Proofs.StreamParse
import Proofs.Sequence

namespace Proofs.SequenceRoundtrip
open Model Spec Proofs.StreamParse

/-! ### bit fields written one after the other -/

/-- two fields written one after the other are one field -/
theorem appendBits_append (a w1 : Nat) : ∀ (w2 b : Nat), b < 2 ^ w2 →
    appendBits a w1 ++ appendBits b w2 = appendBits (a * 2 ^ w2 + b) (w1 + w2)
  | 0, b, h => by
    have : b = 0 := by simpa using h
    subst this
    simp [appendBits]
  | w2 + 1, b, h => by
    have h2 : b / 2 < 2 ^ w2 := by rw [Nat.pow_succ] at h; omega
    rw [show w1 + (w2 + 1) = (w1 + w2) + 1 from rfl, Proofs.Roundtrip.appendBits_succ b w2,
      Proofs.Roundtrip.appendBits_succ (a * 2 ^ (w2 + 1) + b) (w1 + w2), ← List.append_assoc,
      appendBits_append a w1 w2 (b / 2) h2]
    have e0 : a * 2 ^ (w2 + 1) = (a * 2 ^ w2) * 2 := by rw [Nat.pow_succ, Nat.mul_assoc]
    have e1 : (a * 2 ^ (w2 + 1) + b) / 2 = a * 2 ^ w2 + b / 2 := by rw [e0]; omega
    have e2 : (a * 2 ^ (w2 + 1) + b) % 2 = b % 2 := by rw [e0]; omega
    rw [e1, e2]

/-- the 16 bits after the mode indicator 0011 of the Structured Append header are one 16 bit field -/
theorem sa_fields (i total parity : Nat) (ht : total < 16) (hp : parity < 256) :
    appendBits i 4 ++ appendBits total 4 ++ appendBits parity 8 = appendBits (i * 4096 + total * 256 + parity) 16 := by
  rw [appendBits_append i 4 4 total (by omega), appendBits_append (i * 2 ^ 4 + total) (4 + 4) 8 parity (by omega)]
  have e : (i * 2 ^ 4 + total) * 2 ^ 8 + parity = i * 4096 + total * 256 + parity := by omega
  rw [e]

theorem saHeader_eq (i total parity : Nat) (ht : total < 16) (hp : parity < 256) :
    saHeader (some (i, total, parity)) = appendBits 3 4 ++ appendBits (i * 4096 + total * 256 + parity) 16 := by
  unfold saHeader
  rw [← sa_fields i total parity ht hp]
  simp only [List.append_assoc]
  rfl

theorem saHeader_length (i total parity : Nat) : (saHeader (some (i, total, parity))).length = 20 := by
  simp [saHeader, Proofs.Roundtrip.appendBits_length]

/-! ### the parser iteration that reads the Structured Append header -/

/-- Structured Append header (QR only, before any segment): mode indicator 3, then 16 bits -/
theorem go_sa (v : Int) (st : List Nat) (tlen mb f pos : Nat) (eci : Option Nat) (p x p2 : Nat)
    (h : (st.length - pos == 0 || allZero ((st.drop pos).take (min (st.length - pos) tlen))) = false)
    (hv : v > 0)
    (hmi : takeBits st pos mb = some (3, p))
    (hx : takeBits st p 16 = some (x, p2)) :
    parseStream.go v st tlen mb (f + 1) pos eci none []
      = parseStream.go v st tlen mb f p2 eci (some (x / 4096, (x / 256) % 16, x % 256)) [] := by
  rw [parseStream.go]
  simp only [h, hmi, hx, hv, decide_true, Bool.true_and]
  simp

/-- the header as `_encode` writes it, anywhere in the stream (nothing parsed before it): one
    iteration consumes exactly its 20 bits and records (i, total, parity) -/
theorem go_sa_hdr (v : Int) (st pre post : List Nat) (i total parity fuel : Nat) (eci : Option Nat)
    (hv : v > 0) (hi : i < 16) (ht : total < 16) (hp : parity < 256)
    (hst : st = pre ++ saHeader (some (i, total, parity)) ++ post) :
    parseStream.go v st (terminatorLen v) (modeBits v) (fuel + 1) pre.length eci none []
      = parseStream.go v st (terminatorLen v) (modeBits v) fuel (pre.length + 20) eci (some (i, total, parity)) [] := by
  have htl : terminatorLen v = 4 := by unfold terminatorLen; rw [if_pos hv]
  have hb : modeBits v = 4 := by unfold modeBits; rw [if_pos hv]
  rw [htl, hb]
  generalize hX : i * 4096 + total * 256 + parity = x
  have hx16 : x < 2 ^ 16 := by omega
  rw [saHeader_eq i total parity ht hp, hX] at hst
  have hst' : st = pre ++ (appendBits 3 4 ++ [] ++ appendBits x 16 ++ post) := by
    rw [hst]; simp only [List.append_assoc, List.append_nil]
  have hlen : st.length - pre.length = 20 + post.length := by
    rw [hst]; simp only [List.length_append, Proofs.Roundtrip.appendBits_length]; omega
  have h : (st.length - pre.length == 0 ||
      allZero ((st.drop pre.length).take (min (st.length - pre.length) 4))) = false := by
    rw [hlen]
    have : (20 + post.length == 0) = false := by simp
    rw [this, Bool.false_or, hst', List.drop_left]
    exact not_allZero_header 3 4 x 16 _ [] post (by decide) hx16 (by omega) (Or.inl (by decide))
  have t1 := Proofs.Roundtrip.takeBits_at st pre (appendBits x 16 ++ post) 3 4 pre.length
    (by rw [hst]; simp only [List.append_assoc]) rfl (by decide)
  have t2 := Proofs.Roundtrip.takeBits_at st (pre ++ appendBits 3 4) post x 16 (pre.length + 4)
    (by rw [hst]; simp only [List.append_assoc])
    (by rw [List.length_append, Proofs.Roundtrip.appendBits_length]) hx16
  rw [go_sa v st 4 4 fuel pre.length eci (pre.length + 4) x (pre.length + 4 + 16) h hv t1 t2]
  have e1 : x / 4096 = i := by omega
  have e2 : x / 256 % 16 = total := by omega
  have e3 : x % 256 = parity := by omega
  rw [e1, e2, e3]

/-! ### one written segment of a QR Code symbol (the content may be empty) -/

/-- `Proofs.StreamParse.go_body` for QR Code versions; the mode indicator is never zero there, so the
    content need not be non-empty -/
theorem go_body_qr (data : List Nat) (mode : Option Nat) (enc : String) (s : Model.Segment) (v : Int)
    (m : List Nat) (cl : Nat) (pre post st : List Nat) (fuel : Nat) (eci : Option Nat)
    (sa : Option (Nat × Nat × Nat)) (acc : List Spec.Segment)
    (h1 : 1 ≤ v) (h2 : v ≤ 40) (hd : ∀ b ∈ data, b < 256)
    (hm : mode ∈ [none, some 1, some 2, some 4, some 8, some 13])
    (hs : Model.makeSegment data mode enc = .ok s)
    (hmp : modePart s.mode v = .ok m) (hc : cciBits s.mode v = some cl) (hcount : s.charCount < 2 ^ cl)
    (hst : st = pre ++ (m ++ appendBits s.charCount cl ++ s.bits) ++ post) :
    parseStream.go v st (terminatorLen v) (modeBits v) (fuel + 1) pre.length eci sa acc
      = parseStream.go v st (terminatorLen v) (modeBits v) fuel
          (pre.length + (m ++ appendBits s.charCount cl ++ s.bits).length) none sa
          (acc ++ [{ mode := s.mode, eci := eci, count := s.charCount, bytes := data }]) := by
  have hshape := Proofs.Modes.makeSegment_ok_cases data mode enc s hm hs
  have hmode := shape_mode data s hshape
  obtain ⟨mi, hmeq, hmi, hmq, h3, h7, hmt, -⟩ := modePart_spec s.mode v m cl (by omega) h2 hmode hmp hc
  have hmi0 : mi ≠ 0 := by
    rw [if_pos (by omega)] at hmq
    intro h0
    rw [← hmq, h0] at hmode
    exact absurd hmode (by decide)
  generalize hsubdef : (if s.mode = 13 then appendBits 1 4 else []) = sub at hmeq
  have hsublen : (s.mode = 13 ∧ sub = appendBits 1 4) ∨ (s.mode ≠ 13 ∧ sub = []) := by
    by_cases h13 : s.mode = 13
    · rw [if_pos h13] at hsubdef; exact Or.inl ⟨h13, hsubdef.symm⟩
    · rw [if_neg h13] at hsubdef; exact Or.inr ⟨h13, hsubdef.symm⟩
  subst hmeq
  have hst' : st = pre ++ (appendBits mi (modeBits v) ++ sub ++ appendBits s.charCount cl ++ (s.bits ++ post)) := by
    rw [hst]; simp only [List.append_assoc]
  -- not a terminator
  have hz : allZero (((st.drop pre.length).take (min (st.length - pre.length) (terminatorLen v)))) = false := by
    rw [hst', List.drop_left]
    have hlen : (pre ++ (appendBits mi (modeBits v) ++ sub ++ appendBits s.charCount cl ++ (s.bits ++ post))).length
        - pre.length = modeBits v + sub.length + cl + (s.bits ++ post).length := by
      simp only [List.length_append, Proofs.Roundtrip.appendBits_length]; omega
    rw [hlen]
    exact not_allZero_header mi (modeBits v) s.charCount cl _ sub (s.bits ++ post) hmi hcount (by omega) (Or.inl hmi0)
  have h : (st.length - pre.length == 0 ||
      allZero ((st.drop pre.length).take (min (st.length - pre.length) (terminatorLen v)))) = false := by
    rw [hz, Bool.or_false]
    cases hr : (st.length - pre.length == 0) with
    | false => rfl
    | true =>
      rw [beq_iff_eq] at hr
      rw [hr] at hz
      simp [allZero] at hz
  -- the fields
  have tmi := Proofs.Roundtrip.takeBits_at st pre (sub ++ appendBits s.charCount cl ++ (s.bits ++ post))
    mi (modeBits v) pre.length (by rw [hst']; simp only [List.append_assoc]) rfl hmi
  have tsub : (s.mode = 13 ∧ takeBits st (pre.length + modeBits v) 4 = some (1, pre.length + modeBits v + sub.length))
      ∨ (s.mode ≠ 13 ∧ pre.length + modeBits v + sub.length = pre.length + modeBits v) := by
    rcases hsublen with ⟨h13, hsub⟩ | ⟨h13, hsub⟩
    · left
      refine ⟨h13, ?_⟩
      have := Proofs.Roundtrip.takeBits_at st (pre ++ appendBits mi (modeBits v))
        (appendBits s.charCount cl ++ (s.bits ++ post)) 1 4 (pre.length + modeBits v)
        (by rw [hst', hsub]; simp only [List.append_assoc])
        (by rw [List.length_append, Proofs.Roundtrip.appendBits_length]) (by decide)
      rw [this, hsub, Proofs.Roundtrip.appendBits_length]
    · right
      exact ⟨h13, by rw [hsub]; rfl⟩
  have tcnt := Proofs.Roundtrip.takeBits_at st (pre ++ appendBits mi (modeBits v) ++ sub) (s.bits ++ post)
    s.charCount cl (pre.length + modeBits v + sub.length)
    (by rw [hst']; simp only [List.append_assoc])
    (by simp only [List.length_append, Proofs.Roundtrip.appendBits_length]) hcount
  have tpc := Proofs.Roundtrip.segment_roundtrip data mode enc s
    (pre ++ appendBits mi (modeBits v) ++ sub ++ appendBits s.charCount cl) post hd hm hs
  have hst'' : pre ++ appendBits mi (modeBits v) ++ sub ++ appendBits s.charCount cl ++ s.bits ++ post = st := by
    rw [hst']; simp only [List.append_assoc]
  rw [hst''] at tpc
  have hpos : (pre ++ appendBits mi (modeBits v) ++ sub ++ appendBits s.charCount cl).length
      = pre.length + modeBits v + sub.length + cl := by
    simp only [List.length_append, Proofs.Roundtrip.appendBits_length]
  rw [hpos] at tpc
  rw [go_segment v st (terminatorLen v) (modeBits v) fuel pre.length eci sa acc mi s.mode
    (pre.length + modeBits v) (pre.length + modeBits v + sub.length) cl s.charCount
    (pre.length + modeBits v + sub.length + cl) (pre.length + modeBits v + sub.length + cl + s.bits.length) data
    h tmi h3 h7 hmq tsub hc tcnt tpc]
  congr 1
  simp only [List.length_append, Proofs.Roundtrip.appendBits_length]
  omega

/-! ### a whole stream: header, one segment, tail -/

/-- Structured Append header, one written segment (no ECI), then any tail that starts like a
    terminator: the reference parser returns the header triple and exactly that segment, and stops
    where the segment ends -/
theorem sa_single_tail (data : List Nat) (mode : Option Nat) (enc : String) (s : Model.Segment)
    (v : Int) (bits tail : List Nat) (f : String → Option Nat) (i total parity : Nat)
    (h1 : 1 ≤ v) (h2 : v ≤ 40) (hd : ∀ b ∈ data, b < 256)
    (hm : mode ∈ [none, some 1, some 2, some 4, some 8, some 13])
    (hi : i < 16) (ht : total < 16) (hp : parity < 256)
    (hs : Model.makeSegment data mode enc = .ok s)
    (hw : Model.writeSegment s v false f = .ok bits)
    (hcount : ∀ w, Spec.cciBits s.mode v = some w → s.charCount < 2 ^ w)
    (htail : allZero (tail.take (min tail.length (terminatorLen v))) = true) :
    Spec.parseStream v (saHeader (some (i, total, parity)) ++ bits ++ tail)
      = .ok { sa := some (i, total, parity),
              segments := [{ mode := s.mode, eci := none, count := s.charCount, bytes := data }],
              endPos := (saHeader (some (i, total, parity)) ++ bits).length } := by
  obtain ⟨e, m, cl, he, hmp, hc, hb⟩ := writeSegment_ok s v false f bits (by omega) h2 hw
  rw [eciPart_false] at he
  cases he
  rw [List.nil_append] at hb
  generalize hH : saHeader (some (i, total, parity)) = hdr
  have hHl : hdr.length = 20 := by rw [← hH]; exact saHeader_length i total parity
  generalize hST : hdr ++ bits ++ tail = st
  have hlen : st.length = 20 + bits.length + tail.length := by
    rw [← hST]; simp only [List.length_append, hHl]
  have step1 := go_sa_hdr v st [] (bits ++ tail) i total parity (st.length + 1) none (by omega) hi ht hp
    (by rw [← hST, hH]; simp only [List.nil_append, List.append_assoc])
  have step2 := go_body_qr data mode enc s v m cl hdr tail st st.length none (some (i, total, parity)) []
    h1 h2 hd hm hs hmp hc (hcount cl hc) (by rw [← hST, hb])
  rw [← hb] at step2
  simp only [List.length_nil, Nat.zero_add, List.nil_append] at step1 step2
  rw [hHl] at step2
  unfold parseStream
  dsimp only
  refine Eq.trans step1 (Eq.trans step2 ?_)
  have hpos : st.length = (st.length - 1) + 1 := by omega
  rw [hpos]
  have := go_stop_tail v st (terminatorLen v) (modeBits v) (st.length - 1) (some (i, total, parity))
    [{ mode := s.mode, eci := none, count := s.charCount, bytes := data }] (hdr ++ bits) tail hST.symm htail
  rw [List.length_append, hHl] at this
  rw [← hpos]
  rw [← hpos] at this
  rw [List.length_append, hHl]
  exact this

end Proofs.SequenceRoundtrip
