/-
  Proofs.Placement2 — generic helper lemmas for Props/C01Placement.lean (placement layer).
  Part A: a list-of-rows mirror of the matrix construction of the model,
  Part B: the ISO skeleton by rows, with a cheap evaluation scheme for "plain" rows / columns,
  Part C: the two-module strips (order of add_codewords, Nodup, counting),
  Part D: add_codewords as a fold, masking, read-back,
  Part P: the matrix packed into ONE natural number (2 bits per module): a write is a constant number of
          GMP-accelerated kernel steps, a comparison is one step — this is what the kernel evaluates.
  The per-version kernel checks are in Proofs/Geometry*.lean.
-/
import Spec.Decode
import Model.Encoder
import Proofs.Mask
import Props.C03Tables

namespace Proofs.Placement2

/-! ## Part A: list mirror of make_matrix / add_finder_patterns / add_alignment_patterns -/

abbrev Rows := List (List Nat)

def toRows (m : Model.Matrix) : Rows := m.toList.map Array.toList

def setL (m : Rows) (i j v : Nat) : Rows := m.modify i (fun r => r.set j v)

theorem map_modify {α β : Type} (g : α → β) (f : α → α) (f' : β → β) (h : ∀ a, g (f a) = f' (g a)) :
    ∀ (l : List α) (i : Nat), (l.modify i f).map g = (l.map g).modify i f' := by
  intro l
  induction l with
  | nil => intro i; simp
  | cons a t ih =>
    intro i
    cases i with
    | zero => simp [h]
    | succ k => simp [ih k]

theorem toRows_set2 (m : Model.Matrix) (i j x : Nat) : toRows (Model.set2 m i j x) = setL (toRows m) i j x := by
  unfold toRows Model.set2 setL
  rw [Array.toList_modify]
  exact map_modify _ _ _ (fun a => by simp) _ _

def makeMatrixL (n : Nat) : Rows :=
  let isMicro := n < 21
  let m0 : Rows := List.replicate n (List.replicate n 2)
  let m1 := if n > 41 then
      (List.range 6).foldl (fun m i =>
        let m := setL (setL (setL m i (n - 11) 0) i (n - 10) 0) i (n - 9) 0
        setL (setL (setL m (n - 11) i 0) (n - 10) i 0) (n - 9) i 0) m0
    else m0
  let m2 := (List.range 9).foldl (fun m i =>
      let m := setL (setL m i 8 0) 8 i 0
      if !isMicro then
        let ni := if i == 0 then 0 else n - i
        setL (setL m ni 8 0) 8 ni 0
      else m) m1
  let (j, stop) := if isMicro then (0, n) else (6, n - 8)
  (List.range (stop - 8)).foldl (fun m k =>
    let i := 8 + k
    let bit := (k + 1) % 2
    setL (setL m i j bit) j i bit) m2

def addFinderPatternsL (m : Rows) (n : Nat) : Rows :=
  let corners : List (Nat × Nat × Nat × Nat) :=
    if n < 21 then [(0, 0, 1, 1)] else [(0, 0, 1, 1), (0, n - 8, 1, 0), (n - 8, 0, 0, 1)]
  corners.foldl (fun m (i, j, off, sep) =>
    (List.range 8).foldl (fun m r =>
      (List.range 8).foldl (fun m c =>
        setL m (i + r) (j + c) ((Gen.FINDER_PATTERN.getD (off + r) []).getD (sep + c) 0)) m) m) m

open Model in
def addAlignmentPatternsL (m : Rows) (n : Nat) : R Rows := do
  let version : Int := Int.fdiv ((n : Int) - 17) 4
  if version < 2 then return m
  let some positions := Gen.ALIGNMENT_POS[(version - 2).toNat]? | throw PyErr.indexError
  let some minPos := positions.head? | throw PyErr.indexError
  let some maxPos := positions.getLast? | throw PyErr.indexError
  let cells := (positions.map (fun x => positions.map (fun y => (x, y)))).flatten
  pure (cells.foldl (fun m (x, y) =>
    if (x, y) == (minPos, minPos) || (x, y) == (minPos, maxPos) || (x, y) == (maxPos, minPos) then m
    else
      (List.range 5).foldl (fun m r =>
        (List.range 5).foldl (fun m c =>
          setL m (x - 2 + r) (y - 2 + c) (alignmentPattern.getD (r * 5 + c) 0)) m) m) m)

/-- the skeleton without the dark module, as rows -/
def m0L (n : Nat) : Model.R Rows := addAlignmentPatternsL (addFinderPatternsL (makeMatrixL n) n) n

theorem foldl_toRows {β : Type} {g : Model.Matrix → β → Model.Matrix} {g' : Rows → β → Rows}
    {l : List β} {m : Model.Matrix} {r : Rows}
    (h : ∀ m b, toRows (g m b) = g' (toRows m) b) (hm : toRows m = r) :
    toRows (l.foldl g m) = l.foldl g' r := by
  subst hm
  exact (List.foldl_hom toRows (g₁ := g) (g₂ := g') (fun x y => (h x y).symm)).symm

theorem toRows_replicate (n : Nat) :
    toRows (Array.replicate n (Array.replicate n 2)) = List.replicate n (List.replicate n 2) := by
  simp [toRows]

theorem toRows_makeMatrix (n : Nat) : toRows (Model.makeMatrix n) = makeMatrixL n := by
  unfold Model.makeMatrix makeMatrixL
  by_cases hmicro : n < 21 <;> by_cases h41 : n > 41 <;>
    simp only [hmicro, h41, if_true, if_false, decide_true, decide_false, Bool.not_true, Bool.not_false,
      Bool.false_eq_true] <;>
    apply foldl_toRows (fun m b => by simp only [toRows_set2]) <;>
    apply foldl_toRows (fun m b => by simp only [toRows_set2])
  · omega
  · exact toRows_replicate n
  · apply foldl_toRows (fun m b => by simp only [toRows_set2])
    exact toRows_replicate n
  · exact toRows_replicate n

theorem toRows_addFinder (m : Model.Matrix) (n : Nat) :
    toRows (Model.addFinderPatterns m n) = addFinderPatternsL (toRows m) n := by
  unfold Model.addFinderPatterns addFinderPatternsL
  apply foldl_toRows _ rfl
  intro m b
  apply foldl_toRows _ rfl
  intro m r
  apply foldl_toRows _ rfl
  intro m c
  simp only [toRows_set2]

theorem map_addAlignment (m : Model.Matrix) (n : Nat) :
    (Model.addAlignmentPatterns m n).map toRows = addAlignmentPatternsL (toRows m) n := by
  unfold Model.addAlignmentPatterns addAlignmentPatternsL
  simp only [pure, Except.pure]
  split
  · rfl
  · generalize Gen.ALIGNMENT_POS[((n : Int) - 17).fdiv 4 - 2 |>.toNat]? = o
    cases o with
    | none => rfl
    | some positions =>
      dsimp only
      generalize positions.head? = o1
      cases o1 with
      | none => rfl
      | some minPos =>
        dsimp only
        generalize positions.getLast? = o2
        cases o2 with
        | none => rfl
        | some maxPos =>
          simp only [Except.map]
          congr 1
          apply foldl_toRows _ rfl
          intro m x
          split
          · rfl
          · apply foldl_toRows _ rfl
            intro m r
            apply foldl_toRows _ rfl
            intro m c
            simp only [toRows_set2]

/-- the model's skeleton without the dark module, read as rows, is the list mirror -/
theorem map_m0 (n : Nat) :
    (Model.addAlignmentPatterns (Model.addFinderPatterns (Model.makeMatrix n) n) n).map toRows = m0L n := by
  rw [map_addAlignment, toRows_addFinder, toRows_makeMatrix]; rfl

/-! ## Part B: the ISO skeleton by rows -/

open Spec in
/-- value of a module of the skeleton: fixed function modules have their ISO value, reserved format /
    version cells are light, the dark module holds `d`, data cells hold 2 -/
def skelCell (d : Nat) (v : Int) (i j : Nat) : Nat :=
  match Spec.kind v i j with
  | .data => 2
  | .format => 0
  | .version => 0
  | .darkmodule => d
  | _ => (Spec.fixedValue v i j).getD 9

def skelRows (d : Nat) (v : Int) : Rows :=
  let n := Spec.size v
  (List.range n).map (fun i => (List.range n).map (fun j => skelCell d v i j))

/-- coordinate in one of the border bands (finder / format / version information side) -/
def edge (v : Int) (k : Nat) : Bool := k ≤ 8 || k + 11 ≥ Spec.size v

/-- coordinate within 2 of an alignment pattern centre coordinate -/
def near (v : Int) (k : Nat) : Bool :=
  ((Spec.annexE v.toNat).find? (fun x => Spec.inRange k (x - 2) (x + 2))).isSome

def colSp (v : Int) (j : Nat) : Bool := edge v j || near v j

def plainRow (n b : Nat) : List Nat := (List.range n).map (fun j => if j == 6 then b else 2)

/-- cheap evaluation scheme for one skeleton row -/
def fastRow (d : Nat) (v : Int) (n i : Nat) : List Nat :=
  if Spec.isMicro v then (List.range n).map (fun j => skelCell d v i j)
  else if edge v i then
    (List.range n).map (fun j => if colSp v j then skelCell d v i j else if i == 6 then (j + 1) % 2 else 2)
  else if near v i then (List.range n).map (fun j => if colSp v j then skelCell d v i j else 2)
  else if (i + 1) % 2 == 0 then plainRow n 0 else plainRow n 1   -- closed terms: evaluated once

def fastRows (d : Nat) (v : Int) : Rows :=
  let n := Spec.size v
  (List.range n).map (fun i => fastRow d v n i)

theorem near_false {v : Int} {k : Nat} (h : near v k = false) :
    (Spec.annexE v.toNat).find? (fun x => Spec.inRange k (x - 2) (x + 2)) = none := by
  unfold near at h
  cases hf : (Spec.annexE v.toNat).find? (fun x => Spec.inRange k (x - 2) (x + 2)) with
  | none => rfl
  | some x => rw [hf] at h; simp at h

theorem inAlignment_row {v : Int} {n i j : Nat} (h : near v i = false) : Spec.inAlignment v.toNat n i j = false := by
  unfold Spec.inAlignment
  simp only [near_false h]

theorem inAlignment_col {v : Int} {n i j : Nat} (h : near v j = false) : Spec.inAlignment v.toNat n i j = false := by
  unfold Spec.inAlignment
  simp only [near_false h]
  split <;> simp_all

theorem kind_plain (v : Int) (i j : Nat) (hm : Spec.isMicro v = false)
    (he : edge v i = false) (hn : near v i = false) :
    Spec.kind v i j = if j = 6 then .timing else .data := by
  unfold Spec.kind
  unfold edge at he
  simp only [Bool.or_eq_false_iff, decide_eq_false_iff_not] at he
  simp only [hm, inAlignment_row hn, Bool.false_eq_true, if_false]
  generalize Spec.size v = n at *
  repeat' split
  all_goals simp_all
  all_goals omega

set_option linter.unusedVariables false in
theorem kind_offcol (v : Int) (i j : Nat) (hm : Spec.isMicro v = false)
    (he : edge v j = false) (hn : near v j = false) (hi : i < Spec.size v) :
    Spec.kind v i j = if i = 6 then .timing else .data := by
  unfold Spec.kind
  unfold edge at he
  simp only [Bool.or_eq_false_iff, decide_eq_false_iff_not] at he
  simp only [hm, inAlignment_col hn, Bool.false_eq_true, if_false]
  generalize Spec.size v = n at *
  repeat' split
  all_goals simp_all
  all_goals omega

theorem skelCell_plain (d : Nat) (v : Int) (i j : Nat) (hm : Spec.isMicro v = false)
    (he : edge v i = false) (hn : near v i = false) :
    skelCell d v i j = if j == 6 then (i + 1) % 2 else 2 := by
  have hk := kind_plain v i j hm he hn
  have hi : i ≠ 6 := by
    unfold edge at he
    simp only [Bool.or_eq_false_iff, decide_eq_false_iff_not] at he
    omega
  unfold skelCell Spec.fixedValue
  rw [hk]
  by_cases h6 : j = 6 <;> simp [h6, hm, hi]

theorem skelCell_offcol (d : Nat) (v : Int) (i j : Nat) (hm : Spec.isMicro v = false)
    (he : edge v j = false) (hn : near v j = false) (hi : i < Spec.size v) :
    skelCell d v i j = if i == 6 then (j + 1) % 2 else 2 := by
  have hk := kind_offcol v i j hm he hn hi
  unfold skelCell Spec.fixedValue
  rw [hk]
  by_cases h6 : i = 6 <;> simp [h6, hm]

theorem fastRow_eq (d : Nat) (v : Int) (i : Nat) (hi : i < Spec.size v) :
    fastRow d v (Spec.size v) i = (List.range (Spec.size v)).map (fun j => skelCell d v i j) := by
  unfold fastRow
  cases hm : Spec.isMicro v with
  | true => simp
  | false =>
    simp only [Bool.false_eq_true, if_false]
    cases he : edge v i with
    | true =>
      simp only [if_true]
      apply List.map_congr_left
      intro j _
      cases hc : colSp v j with
      | true => simp
      | false =>
        simp only [colSp, Bool.or_eq_false_iff] at hc
        simp only [Bool.false_eq_true, if_false]
        exact (skelCell_offcol d v i j hm hc.1 hc.2 hi).symm
    | false =>
      simp only [Bool.false_eq_true, if_false]
      cases hn : near v i with
      | true =>
        simp only [if_true]
        apply List.map_congr_left
        intro j _
        cases hc : colSp v j with
        | true => simp
        | false =>
          simp only [colSp, Bool.or_eq_false_iff] at hc
          simp only [Bool.false_eq_true, if_false]
          rw [skelCell_offcol d v i j hm hc.1 hc.2 hi]
          have : i ≠ 6 := by
            unfold edge at he
            simp only [Bool.or_eq_false_iff, decide_eq_false_iff_not] at he
            omega
          simp [this]
      | false =>
        simp only [Bool.false_eq_true, if_false]
        have hrow : (if ((i + 1) % 2 == 0) = true then plainRow (Spec.size v) 0 else plainRow (Spec.size v) 1)
            = plainRow (Spec.size v) ((i + 1) % 2) := by
          have : (i + 1) % 2 = 0 ∨ (i + 1) % 2 = 1 := by omega
          rcases this with h | h <;> simp [h]
        rw [hrow]
        unfold plainRow
        apply List.map_congr_left
        intro j _
        exact (skelCell_plain d v i j hm he hn).symm

theorem fastRows_eq (d : Nat) (v : Int) : fastRows d v = skelRows d v := by
  unfold fastRows skelRows
  apply List.map_congr_left
  intro i hi
  exact fastRow_eq d v i (List.mem_range.mp hi)

/-! ### the dark module -/

theorem size_qr (v : Int) (hv : 1 ≤ v) : 21 ≤ Spec.size v := by
  unfold Spec.size
  split <;> omega

theorem kind_dark_iff (v : Int) (hv : 1 ≤ v) (i j : Nat) :
    Spec.kind v i j = .darkmodule ↔ (i + 8 = Spec.size v ∧ j = 8) := by
  have hn := size_qr v hv
  have hm : Spec.isMicro v = false := by simp [Spec.isMicro]; omega
  unfold Spec.kind
  simp only [hm, Bool.false_eq_true, if_false]
  generalize Spec.size v = n at *
  repeat' split
  all_goals simp_all
  all_goals omega

theorem kind_micro_not_dark (v : Int) (hv : v < 1) (i j : Nat) : Spec.kind v i j ≠ .darkmodule := by
  have hm : Spec.isMicro v = true := by simp [Spec.isMicro]; omega
  unfold Spec.kind
  simp only [hm, if_true]
  repeat' split
  all_goals simp

theorem skelCell_dark (v : Int) (hv : 1 ≤ v) (i j : Nat) :
    skelCell 1 v i j = if i + 8 = Spec.size v ∧ j = 8 then 1 else skelCell 0 v i j := by
  have h := kind_dark_iff v hv i j
  unfold skelCell
  by_cases hd : Spec.kind v i j = .darkmodule
  · rw [if_pos (h.mp hd), hd]
  · rw [if_neg (fun hc => hd (h.mpr hc))]
    cases hk : Spec.kind v i j <;> simp_all

theorem skelCell_micro (v : Int) (hv : v < 1) (d : Nat) (i j : Nat) : skelCell d v i j = skelCell 0 v i j := by
  have h := kind_micro_not_dark v hv i j
  unfold skelCell
  cases hk : Spec.kind v i j <;> simp_all

theorem skelRows_micro (v : Int) (hv : v < 1) (d : Nat) : skelRows d v = skelRows 0 v := by
  unfold skelRows
  apply List.map_congr_left; intro i _
  apply List.map_congr_left; intro j _
  exact skelCell_micro v hv d i j

theorem skelRows_dark (v : Int) (hv : 1 ≤ v) :
    skelRows 1 v = setL (skelRows 0 v) (Spec.size v - 8) 8 1 := by
  have hn := size_qr v hv
  unfold skelRows setL
  apply List.ext_getElem
  · simp
  · intro i h1 h2
    simp only [List.length_map, List.length_range] at h1
    rw [List.getElem_modify]
    simp only [List.getElem_map, List.getElem_range]
    apply List.ext_getElem
    · split <;> simp
    · intro j h3 h4
      simp only [List.length_map, List.length_range] at h3
      rw [List.getElem_map, List.getElem_range, skelCell_dark v hv]
      by_cases hi : Spec.size v - 8 = i
      · simp only [hi, if_true, List.getElem_set, List.getElem_map, List.getElem_range]
        have : i + 8 = Spec.size v := by omega
        by_cases hj : 8 = j
        · simp [this, hj.symm]
        · have hj' : ¬ j = 8 := fun h => hj h.symm
          simp [hj, hj']
      · have : ¬ (i + 8 = Spec.size v) := by omega
        simp [hi, this]

/-! ### from rows to cells -/

/-- square matrix of size n -/
def Sq (n : Nat) (m : Model.Matrix) : Prop := m.size = n ∧ ∀ i, i < n → (m.getD i #[]).size = n

theorem get2_toRows (m : Model.Matrix) (i j : Nat) :
    Model.get2 m i j = ((toRows m).getD i []).getD j 0 := by
  unfold Model.get2 toRows
  simp only [Array.getD_eq_getD_getElem?, List.getD_eq_getElem?_getD, List.getElem?_map,
    Array.getElem?_toList]
  cases m[i]? <;> simp

theorem skelRows_getD (d : Nat) (v : Int) (i j : Nat) (hi : i < Spec.size v) (hj : j < Spec.size v) :
    ((skelRows d v).getD i []).getD j 0 = skelCell d v i j := by
  unfold skelRows
  simp [List.getD_eq_getElem?_getD, hi, hj]

theorem sq_of_toRows (d : Nat) (v : Int) (m : Model.Matrix) (h : toRows m = skelRows d v) :
    Sq (Spec.size v) m := by
  have hlen : m.size = Spec.size v := by
    have := congrArg List.length h
    simpa [toRows, skelRows] using this
  refine ⟨hlen, ?_⟩
  intro i hi
  have h2 := congrArg (fun r => (r.getD i []).length) h
  simp only [toRows, skelRows, List.getD_eq_getElem?_getD, List.getElem?_map, Array.getElem?_toList] at h2
  simp only [Array.getD_eq_getD_getElem?]
  have hi' : i < m.size := by omega
  simp [hi, hi'] at h2 ⊢
  exact h2

theorem cells_of_toRows (d : Nat) (v : Int) (m : Model.Matrix) (h : toRows m = skelRows d v)
    (i j : Nat) (hi : i < Spec.size v) (hj : j < Spec.size v) :
    Model.get2 m i j = skelCell d v i j := by
  rw [get2_toRows, h, skelRows_getD d v i j hi hj]

/-! ## Part C: two-module strips -/

/-- the zig-zag walk over the strips with right columns `cols` -/
def zz (cols : List Nat) (n : Nat) : List (Nat × Nat) :=
  (cols.zipIdx.map (fun (c, k) =>
    let rows := if k % 2 == 0 then (List.range n).reverse else List.range n
    (rows.map (fun i => [(i, c), (i, c - 1)])).flatten)).flatten

def rights (n : Nat) : List Nat := (List.range (n / 2)).map (fun k => n - 1 - 2 * k)

def adjRight (v : Int) (right0 : Nat) : Nat :=
  if !(decide (v < 1)) && right0 ≤ 6 then right0 - 1 else right0

def upOf (v : Int) (right z : Nat) : Bool :=
  let inc := if Model.isM1M3 v then 2 else 0
  let j := right - z
  let up0 := ((right + inc) &&& 2) == 0
  if !(decide (v < 1)) then (up0 != decide (j < 6)) else up0

theorem codewordCoords_eq (n : Nat) (v : Int) :
    Model.codewordCoords n v =
      ((rights n).map (fun right0 =>
        ((List.range n).map (fun vertical =>
          [0, 1].map (fun z =>
            ((if upOf v (adjRight v right0) z then n - 1 - vertical else vertical), adjRight v right0 - z)))).flatten)).flatten := by
  rfl

/-- per-version strip check (linear in the symbol size): the model's strip columns are those of the
    reference reader, and both modules of strip k run upwards iff k is even -/
def orderOK (v : Int) : Bool :=
  let n := Spec.size v
  (Spec.stripColumns v == (rights n).map (adjRight v)) &&
  (rights n).zipIdx.all (fun (right0, k) =>
    upOf v (adjRight v right0) 0 == (k % 2 == 0) && upOf v (adjRight v right0) 1 == (k % 2 == 0))

theorem reverse_range_eq (n : Nat) : (List.range n).reverse = (List.range n).map (fun k => n - 1 - k) := by
  rw [List.range_eq_range', List.reverse_range', ← List.range_eq_range']
  simp

theorem order_of_ok (v : Int) (h : orderOK v = true) :
    Model.codewordCoords (Spec.size v) v = zz (Spec.stripColumns v) (Spec.size v) := by
  unfold orderOK at h
  simp only [Bool.and_eq_true, beq_iff_eq, List.all_eq_true] at h
  obtain ⟨h1, h2⟩ := h
  rw [codewordCoords_eq, zz, h1, List.zipIdx_map, List.map_map]
  congr 1
  conv => lhs; rw [← List.zipIdx_map_fst 0 (rights (Spec.size v))]
  rw [List.map_map]
  apply List.map_congr_left
  intro p hp
  obtain ⟨right0, k⟩ := p
  obtain ⟨u0, u1⟩ := h2 (right0, k) hp
  simp only [Function.comp, List.map_cons, List.map_nil, u0, u1, Nat.sub_zero]
  by_cases hk : k % 2 = 0
  · simp [hk, reverse_range_eq, List.map_map, Function.comp_def]
  · simp [hk]

/-! ### every module is visited once -/

def strip (c : Nat) (rows : List Nat) : List (Nat × Nat) := (rows.map (fun i => [(i, c), (i, c - 1)])).flatten

def expandCols (cols : List Nat) : List Nat := (cols.map (fun c => [c, c - 1])).flatten

theorem mem_strip {c : Nat} {rows : List Nat} {p : Nat × Nat} (h : p ∈ strip c rows) :
    p.1 ∈ rows ∧ (p.2 = c ∨ p.2 = c - 1) := by
  unfold strip at h
  simp only [List.mem_flatten, List.mem_map] at h
  obtain ⟨l, ⟨i, hi, rfl⟩, hp⟩ := h
  simp only [List.mem_cons, List.not_mem_nil, or_false] at hp
  rcases hp with rfl | rfl <;> simp [hi]

theorem strip_nodup (c : Nat) (rows : List Nat) (hr : rows.Nodup) (hc : c ≠ c - 1) : (strip c rows).Nodup := by
  unfold strip List.Nodup
  rw [List.pairwise_flatten]
  constructor
  · intro l hl
    simp only [List.mem_map] at hl
    obtain ⟨i, _, rfl⟩ := hl
    simp [hc]
  · rw [List.pairwise_map]
    apply List.Pairwise.imp _ hr
    intro a b hab x hx y hy
    simp only [List.mem_cons, List.not_mem_nil, or_false] at hx hy
    rcases hx with rfl | rfl <;> rcases hy with rfl | rfl <;> simp [hab]

theorem nodup_reverse_range (n : Nat) : (List.range n).reverse.Nodup := by
  unfold List.Nodup
  rw [List.pairwise_reverse]
  exact List.Pairwise.imp (fun h => Ne.symm h) List.nodup_range

theorem zz_eq (cols : List Nat) (n : Nat) :
    zz cols n = (cols.zipIdx.map (fun p =>
      strip p.1 (if p.2 % 2 == 0 then (List.range n).reverse else List.range n))).flatten := rfl

theorem zz_nodup (cols : List Nat) (n : Nat) (h : (expandCols cols).Nodup) : (zz cols n).Nodup := by
  unfold expandCols List.Nodup at h
  rw [List.pairwise_flatten, List.pairwise_map] at h
  obtain ⟨h1, h2⟩ := h
  rw [zz_eq]
  unfold List.Nodup
  rw [List.pairwise_flatten]
  constructor
  · intro l hl
    simp only [List.mem_map] at hl
    obtain ⟨⟨c, k⟩, hp, rfl⟩ := hl
    have hc : c ∈ cols := by
      have := List.mem_map_of_mem (f := Prod.fst) hp
      rwa [List.zipIdx_map_fst] at this
    have hcc : c ≠ c - 1 := by
      have := h1 [c, c - 1] (List.mem_map_of_mem hc)
      simpa using this
    apply strip_nodup _ _ _ hcc
    split
    · exact nodup_reverse_range n
    · exact List.nodup_range
  · rw [List.pairwise_map]
    have h3 : List.Pairwise (fun a b : Nat × Nat => ∀ x ∈ [a.1, a.1 - 1], ∀ y ∈ [b.1, b.1 - 1], x ≠ y) cols.zipIdx := by
      have := (List.pairwise_map (f := Prod.fst) (l := cols.zipIdx)
        (R := fun a b : Nat => ∀ x ∈ [a, a - 1], ∀ y ∈ [b, b - 1], x ≠ y)).mp
      apply this
      rw [List.zipIdx_map_fst]
      exact h2
    apply List.Pairwise.imp _ h3
    intro a b hab x hx y hy hxy
    have hx' := mem_strip hx
    have hy' := mem_strip hy
    subst hxy
    have := hab x.2 (by simp; exact hx'.2) x.2 (by simp; exact hy'.2)
    exact this rfl

theorem zz_range (cols : List Nat) (n : Nat) (h : ∀ c ∈ expandCols cols, c < n) :
    ∀ p ∈ zz cols n, p.1 < n ∧ p.2 < n := by
  intro p hp
  rw [zz_eq] at hp
  simp only [List.mem_flatten, List.mem_map] at hp
  obtain ⟨l, ⟨⟨c, k⟩, hck, rfl⟩, hp⟩ := hp
  have hc : c ∈ cols := by
    have := List.mem_map_of_mem (f := Prod.fst) hck
    rwa [List.zipIdx_map_fst] at this
  have hm := mem_strip hp
  constructor
  · have := hm.1
    split at this <;> simp at this <;> exact this
  · have h1 : c < n := h c (by unfold expandCols; simp only [List.mem_flatten, List.mem_map]; exact ⟨[c, c - 1], ⟨c, hc, rfl⟩, by simp⟩)
    rcases hm.2 with h2 | h2 <;> omega

/-! ### data cells of the skeleton -/

theorem finderBit_le (a b : Nat) : Spec.finderBit a b ≤ 1 := by
  unfold Spec.finderBit
  split
  · omega
  · split <;> omega

theorem skelCell_eq_two_iff (d : Nat) (hd : d ≠ 2) (v : Int) (i j : Nat) :
    skelCell d v i j = 2 ↔ Spec.isData v i j = true := by
  unfold skelCell Spec.isData Spec.fixedValue
  cases hk : Spec.kind v i j <;> simp [hd]
  · have := finderBit_le (if i < 7 then i else i - (Spec.size v - 7)) (if j < 7 then j else j - (Spec.size v - 7))
    omega
  · split <;> split <;> omega
  · split <;> omega

theorem skelCell_le_one_of_not_data (d : Nat) (hd : d ≤ 1) (v : Int) (i j : Nat)
    (h : Spec.isData v i j = false) : skelCell d v i j ≤ 1 := by
  unfold skelCell Spec.fixedValue
  unfold Spec.isData at h
  cases hk : Spec.kind v i j <;> simp [hd] <;> simp [hk] at h
  · exact finderBit_le _ _
  · split <;> split <;> omega
  · split <;> omega

/-! ### counting the data cells along the strips -/

theorem countP_strip (D : Nat → Nat → Bool) (c : Nat) (rows : List Nat) :
    (strip c rows).countP (fun p => D p.1 p.2)
      = rows.countP (fun i => D i c) + rows.countP (fun i => D i (c - 1)) := by
  induction rows with
  | nil => simp [strip]
  | cons i t ih =>
    have : strip c (i :: t) = (i, c) :: (i, c - 1) :: strip c t := by simp [strip]
    rw [this, List.countP_cons, List.countP_cons, ih, List.countP_cons, List.countP_cons]
    simp only
    omega

def colCount (D : Nat → Nat → Bool) (n j : Nat) : Nat := (List.range n).countP (fun i => D i j)
def rowCount (D : Nat → Nat → Bool) (n i : Nat) : Nat := (List.range n).countP (fun j => D i j)

theorem sum_expandCols (f : Nat → Nat) (cols : List Nat) :
    ((expandCols cols).map f).sum = (cols.map (fun c => f c + f (c - 1))).sum := by
  unfold expandCols
  induction cols with
  | nil => rfl
  | cons c t ih =>
    simp only [List.map_cons, List.sum_cons, List.flatten_cons, List.map_append, List.sum_append,
      List.map_nil, List.sum_nil, ih]
    omega

theorem countP_zz (D : Nat → Nat → Bool) (cols : List Nat) (n : Nat) :
    (zz cols n).countP (fun p => D p.1 p.2) = ((expandCols cols).map (colCount D n)).sum := by
  rw [zz_eq, List.countP_flatten, List.map_map]
  have h1 : (fun p : Nat × Nat => List.countP (fun p => D p.1 p.2)
        (strip p.1 (if p.2 % 2 == 0 then (List.range n).reverse else List.range n)))
      = (fun c => colCount D n c + colCount D n (c - 1)) ∘ Prod.fst := by
    funext p
    simp only [Function.comp, countP_strip, colCount]
    split <;> simp only [List.countP_reverse]
  rw [Function.comp_def] at h1 ⊢
  rw [h1]
  have h2 : List.map (fun x : Nat × Nat => colCount D n x.fst + colCount D n (x.fst - 1)) cols.zipIdx
      = List.map (fun c => colCount D n c + colCount D n (c - 1)) cols := by
    conv => rhs; rw [← List.zipIdx_map_fst 0 cols, List.map_map]
    rfl
  rw [h2, sum_expandCols]

theorem sum_map_filter_ne (f : Nat → Nat) (s : Nat) (hs : f s = 0) (l : List Nat) :
    ((l.filter (· != s)).map f).sum = (l.map f).sum := by
  induction l with
  | nil => rfl
  | cons a t ih =>
    by_cases ha : a = s
    · subst ha; simp [ih, hs]
    · simp [ha, ih]

theorem sum_map_add (l : List Nat) (f g : Nat → Nat) :
    (l.map (fun j => f j + g j)).sum = (l.map f).sum + (l.map g).sum := by
  induction l with
  | nil => rfl
  | cons a t ih => simp [ih]; omega

theorem countP_eq_sum (p : Nat → Bool) (l : List Nat) : l.countP p = (l.map (fun x => if p x then 1 else 0)).sum := by
  induction l with
  | nil => rfl
  | cons a t ih => rw [List.countP_cons, ih]; simp; omega

theorem sum_swap (l1 l2 : List Nat) (f : Nat → Nat → Nat) :
    (l1.map (fun i => (l2.map (fun j => f i j)).sum)).sum = (l2.map (fun j => (l1.map (fun i => f i j)).sum)).sum := by
  induction l1 with
  | nil =>
    have : ∀ l : List Nat, (l.map (fun _ => 0)).sum = 0 := by
      intro l; induction l with
      | nil => rfl
      | cons a t ih => simp [ih]
    simp [this]
  | cons a t ih =>
    simp only [List.map_cons, List.sum_cons, ih]
    rw [sum_map_add]

theorem sum_colCount_eq_rowCount (D : Nat → Nat → Bool) (n : Nat) :
    ((List.range n).map (colCount D n)).sum = ((List.range n).map (rowCount D n)).sum := by
  unfold colCount rowCount
  simp only [countP_eq_sum]
  exact sum_swap (List.range n) (List.range n) (fun j i => if D i j then 1 else 0)

/-- the number of selected cells along the strips = the number of selected cells of the whole grid,
    when the strips cover every column except `s` and no cell of column `s` is selected -/
theorem countP_zz_grid (D : Nat → Nat → Bool) (cols : List Nat) (n s : Nat)
    (hc : expandCols cols = (List.range n).reverse.filter (· != s)) (hs : ∀ i, D i s = false) :
    (zz cols n).countP (fun p => D p.1 p.2) = ((List.range n).map (rowCount D n)).sum := by
  rw [countP_zz, hc, sum_map_filter_ne _ _ _, List.map_reverse, List.sum_reverse_nat, sum_colCount_eq_rowCount]
  unfold colCount
  simp [hs]

/-- the column that no strip covers: the vertical timing column -/
def skipCol (v : Int) : Nat := if v < 1 then 0 else 6

/-- per-version check (linear): the strips cover all columns but the timing column, right to left -/
def colsOK (v : Int) : Bool :=
  expandCols (Spec.stripColumns v) == (List.range (Spec.size v)).reverse.filter (· != skipCol v)

theorem isData_skip (v : Int) (i : Nat) : Spec.isData v i (skipCol v) = false := by
  unfold Spec.isData Spec.kind skipCol Spec.isMicro
  by_cases hv : v < 1
  · simp only [hv, decide_true, if_true]
    repeat' split
    all_goals simp_all
  · simp only [hv, decide_false, if_false, Bool.false_eq_true]
    repeat' split
    all_goals simp_all

def count2 (rows : Rows) : Nat := (rows.map (fun r => r.count 2)).sum

theorem count2_skelRows (d : Nat) (hd : d ≠ 2) (v : Int) :
    count2 (skelRows d v) = ((List.range (Spec.size v)).map (rowCount (Spec.isData v) (Spec.size v))).sum := by
  unfold count2 skelRows rowCount
  rw [List.map_map]
  congr 1
  apply List.map_congr_left
  intro i _
  simp only [Function.comp, List.count_eq_countP, List.countP_map]
  apply List.countP_congr
  intro j _
  simp only [Function.comp, beq_iff_eq]
  exact skelCell_eq_two_iff d hd v i j

theorem dataCoords_eq (v : Int) :
    Spec.dataCoords v = (zz (Spec.stripColumns v) (Spec.size v)).filter (fun p => Spec.isData v p.1 p.2) := rfl

theorem dataCoords_length (v : Int) (hc : colsOK v = true) (d : Nat) (hd : d ≠ 2) :
    (Spec.dataCoords v).length = count2 (skelRows d v) := by
  unfold colsOK at hc
  rw [dataCoords_eq, ← List.countP_eq_length_filter, count2_skelRows d hd,
    countP_zz_grid (Spec.isData v) _ _ (skipCol v) (beq_iff_eq.mp hc) (isData_skip v)]

theorem cols_nodup_range (v : Int) (hc : colsOK v = true) :
    (expandCols (Spec.stripColumns v)).Nodup ∧ ∀ c ∈ expandCols (Spec.stripColumns v), c < Spec.size v := by
  unfold colsOK at hc
  rw [beq_iff_eq.mp hc]
  constructor
  · exact List.Pairwise.filter _ (nodup_reverse_range _)
  · intro c hcm
    simp only [List.mem_filter, List.mem_reverse, List.mem_range] at hcm
    exact hcm.1

theorem zigzag_nodup_range (v : Int) (hc : colsOK v = true) :
    (zz (Spec.stripColumns v) (Spec.size v)).Nodup ∧
      ∀ p ∈ zz (Spec.stripColumns v) (Spec.size v), p.1 < Spec.size v ∧ p.2 < Spec.size v := by
  obtain ⟨h1, h2⟩ := cols_nodup_range v hc
  exact ⟨zz_nodup _ _ h1, zz_range _ _ h2⟩

/-! ## Part D: add_codewords, masking, reading back -/

theorem get2_set2 (m : Model.Matrix) (i j x a b : Nat) :
    Model.get2 (Model.set2 m i j x) a b =
      if a = i ∧ b = j ∧ i < m.size ∧ j < (m.getD i #[]).size then x else Model.get2 m a b := by
  unfold Model.get2 Model.set2
  simp only [Array.getD_eq_getD_getElem?, Array.getElem?_modify]
  by_cases hia : i = a
  · subst hia
    by_cases hi : i < m.size
    · simp only [hi, Array.getElem?_eq_getElem, Option.map_some, Option.getD_some, if_true, true_and,
        Array.getElem?_setIfInBounds]
      by_cases hjb : j = b
      · subst hjb
        by_cases hj : j < m[i].size <;> simp [hj]
      · have : ¬ b = j := fun h => hjb h.symm
        simp [hjb, this]
    · simp [hi]
  · have : ¬ a = i := fun h => hia h.symm
    simp [hia, this]

theorem sq_set2 {n : Nat} {m : Model.Matrix} (h : Sq n m) (i j x : Nat) : Sq n (Model.set2 m i j x) := by
  obtain ⟨h1, h2⟩ := h
  unfold Model.set2
  refine ⟨by simp [h1], ?_⟩
  intro a ha
  have := h2 a ha
  simp only [Array.getD_eq_getD_getElem?, Array.getElem?_modify] at this ⊢
  by_cases hia : i = a
  · subst hia
    have hi : i < m.size := by omega
    simp [hi] at this ⊢
    exact this
  · simp [hia]; exact this

/-- one step of the loop of `add_codewords` -/
def placeStep (acc : Model.Matrix × List Nat) (p : Nat × Nat) : Model.Matrix × List Nat :=
  match acc.2 with
  | [] => acc
  | b :: bs => if Model.get2 acc.1 p.1 p.2 == 2 then (Model.set2 acc.1 p.1 p.2 b, bs) else acc

theorem addCodewords_eq (m : Model.Matrix) (bits : List Nat) (v : Int) :
    Model.addCodewords m bits v =
      (let r := (Model.codewordCoords m.size v).foldl placeStep (m, bits)
       if r.2.isEmpty then pure r.1 else throw Model.PyErr.valueError) := by
  unfold Model.addCodewords
  have : (fun (acc : Model.Matrix × List Nat) (x : Nat × Nat) =>
      match x with
      | (i, j) =>
        match acc.2 with
        | [] => acc
        | b :: bs => if (Model.get2 acc.1 i j == 2) = true then (Model.set2 acc.1 i j b, bs) else acc) = placeStep := by
    funext acc x
    obtain ⟨i, j⟩ := x
    rfl
  rw [← this]
  rfl

theorem foldl_placeStep_nil (coords : List (Nat × Nat)) (m : Model.Matrix) :
    coords.foldl placeStep (m, []) = (m, []) := by
  induction coords with
  | nil => rfl
  | cons p t ih => simp [List.foldl_cons, placeStep, ih]

def is2 (m : Model.Matrix) (p : Nat × Nat) : Bool := Model.get2 m p.1 p.2 == 2

/-- the loop of `add_codewords` over pairwise distinct in-range coordinates: the cells holding 2
    receive the bits in order, all other cells are unchanged, nothing is left over -/
theorem place_spec (n : Nat) : ∀ (coords : List (Nat × Nat)) (m : Model.Matrix) (bits : List Nat),
    Sq n m → coords.Nodup → (∀ p ∈ coords, p.1 < n ∧ p.2 < n) →
    bits.length = (coords.filter (is2 m)).length →
    (coords.foldl placeStep (m, bits)).2 = [] ∧
    Sq n (coords.foldl placeStep (m, bits)).1 ∧
    (coords.filter (is2 m)).map (fun p => Model.get2 (coords.foldl placeStep (m, bits)).1 p.1 p.2) = bits ∧
    ∀ a b, (a, b) ∉ coords.filter (is2 m) →
      Model.get2 (coords.foldl placeStep (m, bits)).1 a b = Model.get2 m a b := by
  intro coords
  induction coords with
  | nil =>
    intro m bits hs _ _ hl
    simp at hl
    subst hl
    simp [hs]
  | cons p t ih =>
    intro m bits hs hnd hr hl
    obtain ⟨i, j⟩ := p
    have hnd' := List.nodup_cons.mp hnd
    have hr' : ∀ p ∈ t, p.1 < n ∧ p.2 < n := fun p hp => hr p (List.mem_cons_of_mem _ hp)
    have hij := hr (i, j) (List.mem_cons_self)
    cases bits with
    | nil =>
      have hf : (List.filter (is2 m) ((i, j) :: t)) = [] := by
        apply List.eq_nil_of_length_eq_zero; simpa using hl.symm
      rw [foldl_placeStep_nil, hf]
      simp [hs]
    | cons b bs =>
      by_cases h2 : Model.get2 m i j = 2
      · have hstep : placeStep (m, b :: bs) (i, j) = (Model.set2 m i j b, bs) := by
          simp [placeStep, h2]
        have hsame : ∀ q ∈ t, is2 (Model.set2 m i j b) q = is2 m q := by
          intro q hq
          unfold is2
          rw [get2_set2]
          have : ¬ (q.1 = i ∧ q.2 = j ∧ i < m.size ∧ j < (m.getD i #[]).size) := by
            intro hc
            apply hnd'.1
            have : q = (i, j) := Prod.ext hc.1 hc.2.1
            rw [← this]; exact hq
          rw [if_neg this]
        have hfilt : t.filter (is2 (Model.set2 m i j b)) = t.filter (is2 m) := List.filter_congr hsame
        have hhead : List.filter (is2 m) ((i, j) :: t) = (i, j) :: t.filter (is2 m) := by
          simp [is2, h2]
        rw [hhead] at hl ⊢
        have hl' : bs.length = (t.filter (is2 (Model.set2 m i j b))).length := by
          rw [hfilt]; simpa using hl
        obtain ⟨r1, r2, r3, r4⟩ := ih (Model.set2 m i j b) bs (sq_set2 hs i j b) hnd'.2 hr' hl'
        rw [List.foldl_cons, hstep]
        rw [hfilt] at r3 r4
        have hnot : (i, j) ∉ t.filter (is2 m) := fun h => hnd'.1 (List.mem_filter.mp h).1
        have hb : Model.get2 (Model.set2 m i j b) i j = b := by
          rw [get2_set2]
          have : i < m.size ∧ j < (m.getD i #[]).size := by
            rw [hs.1, hs.2 i hij.1]; exact hij
          rw [if_pos ⟨rfl, rfl, this⟩]
        refine ⟨r1, r2, ?_, ?_⟩
        · rw [List.map_cons, r3, r4 i j hnot, hb]
        · intro a c hac
          have hac' : (a, c) ∉ t.filter (is2 m) := fun h => hac (List.mem_cons_of_mem _ h)
          rw [r4 a c hac', get2_set2]
          have : ¬ (a = i ∧ c = j ∧ i < m.size ∧ j < (m.getD i #[]).size) := by
            intro hc
            apply hac
            rw [hc.1, hc.2.1]
            exact List.mem_cons_self
          rw [if_neg this]
      · have hstep : placeStep (m, b :: bs) (i, j) = (m, b :: bs) := by
          simp [placeStep, h2]
        have hhead : List.filter (is2 m) ((i, j) :: t) = t.filter (is2 m) := by
          simp [is2, h2]
        rw [hhead] at hl ⊢
        rw [List.foldl_cons, hstep]
        exact ih m (b :: bs) hs hnd'.2 hr' hl

/-! ### the function matrix -/

theorem map_functionMatrix (n : Nat) :
    (Model.functionMatrix n).map toRows = (m0L n).map (fun r => if n < 21 then r else setL r (n - 8) 8 1) := by
  unfold Model.functionMatrix
  rw [← map_m0]
  cases Model.addAlignmentPatterns (Model.addFinderPatterns (Model.makeMatrix n) n) n with
  | error e => rfl
  | ok m =>
    simp only [bind, Except.bind, pure, Except.pure, Except.map]
    congr 1
    split
    · rfl
    · exact toRows_set2 _ _ _ _

theorem size_micro (v : Int) (hv : v < 1) : Spec.size v < 21 := by
  unfold Spec.size
  split <;> omega

/-- rows of the function matrix, given the kernel-checked rows of the skeleton without dark module -/
theorem functionMatrix_rows (v : Int) (h : m0L (Spec.size v) = .ok (skelRows 0 v)) :
    (Model.functionMatrix (Spec.size v)).map toRows = .ok (skelRows 1 v) := by
  rw [map_functionMatrix, h]
  simp only [Except.map]
  congr 1
  by_cases hv : v < 1
  · rw [if_pos (size_micro v hv), skelRows_micro v hv 1]
  · have hv' : 1 ≤ v := by omega
    have := size_qr v hv'
    rw [if_neg (by omega), skelRows_dark v hv']

theorem mask_pattern_eq (v : Int) (mk : Nat) (hmk : mk < (Model.maskPatterns (decide (v < 1))).length) :
    (Model.maskPatterns (decide (v < 1))).getD mk 0 = (if Spec.isMicro v then Spec.microMaskToQR mk else mk)
      ∧ (Model.maskPatterns (decide (v < 1))).getD mk 0 < 8 := by
  obtain ⟨h1, h2⟩ := Proofs.Mask.mask_order
  unfold Model.maskPatterns Spec.isMicro at *
  by_cases hv : v < 1
  · simp only [hv, decide_true, if_true, h1] at hmk ⊢
    have : mk = 0 ∨ mk = 1 ∨ mk = 2 ∨ mk = 3 := by simp at hmk; omega
    rcases this with rfl | rfl | rfl | rfl <;> simp [Spec.microMaskToQR]
  · simp only [hv, decide_false, if_false, h2, Bool.false_eq_true] at hmk ⊢
    have : mk = 0 ∨ mk = 1 ∨ mk = 2 ∨ mk = 3 ∨ mk = 4 ∨ mk = 5 ∨ mk = 6 ∨ mk = 7 := by simp at hmk; omega
    rcases this with rfl | rfl | rfl | rfl | rfl | rfl | rfl | rfl <;> simp

/-- **placement round trip**, given the per-version facts -/
theorem roundtrip_core (v : Int) (bits : List Nat) (fm m0 m1 : Model.Matrix) (mk : Nat)
    (hgeo : m0L (Spec.size v) = .ok (skelRows 0 v)) (hord : orderOK v = true) (hcols : colsOK v = true)
    (hb : ∀ b ∈ bits, b ≤ 1)
    (hlen : bits.length = (Spec.dataCoords v).length)
    (hfm : Model.functionMatrix (Spec.size v) = .ok fm)
    (hm0 : Model.addAlignmentPatterns (Model.addFinderPatterns (Model.makeMatrix (Spec.size v)) (Spec.size v)) (Spec.size v) = .ok m0)
    (hm1 : Model.addCodewords m0 bits v = .ok m1)
    (hmk : mk < (Model.maskPatterns (decide (v < 1))).length) :
    Spec.readDataBits v mk (Model.applyMask m1 fm ((Model.maskPatterns (decide (v < 1))).getD mk 0)) = bits := by
  -- rows and cells of m0 and fm
  have hr0 : toRows m0 = skelRows 0 v := by
    have := map_m0 (Spec.size v)
    rw [hm0, hgeo] at this
    simpa [Except.map] using this
  have hrf : toRows fm = skelRows 1 v := by
    have := functionMatrix_rows v hgeo
    rw [hfm] at this
    simpa [Except.map] using this
  have hsq0 := sq_of_toRows 0 v m0 hr0
  obtain ⟨hnd, hrange⟩ := zigzag_nodup_range v hcols
  -- the cells holding 2 are the data cells
  have hfilter : (zz (Spec.stripColumns v) (Spec.size v)).filter (is2 m0) = Spec.dataCoords v := by
    rw [dataCoords_eq]
    apply List.filter_congr
    intro p hp
    obtain ⟨h1, h2⟩ := hrange p hp
    unfold is2
    rw [cells_of_toRows 0 v m0 hr0 p.1 p.2 h1 h2]
    have := skelCell_eq_two_iff 0 (by decide) v p.1 p.2
    cases hd : Spec.isData v p.1 p.2
    · have : ¬ skelCell 0 v p.1 p.2 = 2 := fun h => by rw [this.mp h] at hd; cases hd
      simp [this]
    · simp [this.mpr hd]
  -- add_codewords
  rw [addCodewords_eq, hsq0.1, order_of_ok v hord] at hm1
  have hspec := place_spec (Spec.size v) _ m0 bits hsq0 hnd hrange (by rw [hfilter]; exact hlen)
  obtain ⟨_, hsq1, hmap, _⟩ := hspec
  have hm1' : (List.foldl placeStep (m0, bits) (zz (Spec.stripColumns v) (Spec.size v))).1 = m1 := by
    simp only at hm1
    split at hm1
    · simp only [pure, Except.pure] at hm1
      exact Except.ok.inj hm1
    · cases hm1
  rw [hm1'] at hsq1
  rw [hm1', hfilter] at hmap
  -- masking and reading back
  obtain ⟨hpat, hpat8⟩ := mask_pattern_eq v mk hmk
  unfold Spec.readDataBits
  conv => rhs; rw [← hmap]
  apply List.map_congr_left
  intro p hp
  have hpz : p ∈ zz (Spec.stripColumns v) (Spec.size v) ∧ Spec.isData v p.1 p.2 = true := by
    rw [dataCoords_eq] at hp
    exact List.mem_filter.mp hp
  obtain ⟨h1, h2⟩ := hrange p hpz.1
  have hbit : Model.get2 m1 p.1 p.2 ≤ 1 := by
    apply hb
    rw [← hmap]
    exact List.mem_map_of_mem (f := fun p => Model.get2 m1 p.1 p.2) hp
  have hfmc : Model.get2 fm p.1 p.2 > 1 := by
    rw [cells_of_toRows 1 v fm hrf p.1 p.2 h1 h2, (skelCell_eq_two_iff 1 (by decide) v p.1 p.2).mpr hpz.2]
    decide
  have hcell : Spec.cell (Model.applyMask m1 fm ((Model.maskPatterns (decide (v < 1))).getD mk 0)) p.1 p.2
      = Model.get2 m1 p.1 p.2 ^^^ (if Spec.maskCond ((Model.maskPatterns (decide (v < 1))).getD mk 0) p.1 p.2 then 1 else 0) := by
    show Model.get2 _ _ _ = _
    rw [Proofs.Mask.get2_applyMask, if_pos ⟨by rw [hsq1.1]; exact h1, by rw [hsq1.2 p.1 h1]; exact h2⟩,
      if_pos hfmc, Proofs.Mask.maskFn_eq_maskCond _ _ _ hpat8]
  rw [hcell]
  unfold Spec.maskBit
  rw [← hpat]
  generalize Model.get2 m1 p.1 p.2 = b at hbit ⊢
  generalize Spec.maskCond _ p.1 p.2 = c
  have hb' : b = 0 ∨ b = 1 := by omega
  rcases hb' with rfl | rfl <;> cases c <;> rfl

/-! ## Part P: the whole matrix packed into one natural number (2 bits per module) -/

def getP (M n i j : Nat) : Nat := (M >>> (2 * (i * n + j))) &&& 3

def setP (M n i j x : Nat) : Nat :=
  if i < n && j < n then
    let s := 2 * (i * n + j)
    M ^^^ ((((M >>> s) &&& 3) ^^^ x) <<< s)
  else M

theorem testBit_three (b : Nat) : Nat.testBit 3 b = decide (b < 2) := by
  have := Nat.testBit_two_pow_sub_one 2 b
  simpa using this

theorem testBit_lt_four {x b : Nat} (hx : x < 4) (hb : 2 ≤ b) : x.testBit b = false := by
  apply Nat.testBit_lt_two_pow
  calc x < 2 ^ 2 := hx
    _ ≤ 2 ^ b := Nat.pow_le_pow_right (by decide) hb

theorem field_same (M s x : Nat) (hx : x < 4) :
    ((M ^^^ ((((M >>> s) &&& 3) ^^^ x) <<< s)) >>> s) &&& 3 = x := by
  apply Nat.eq_of_testBit_eq
  intro b
  simp only [Nat.testBit_and, Nat.testBit_shiftRight, Nat.testBit_xor, Nat.testBit_shiftLeft, testBit_three]
  by_cases hb : b < 2
  · have h1 : s + b ≥ s := by omega
    have h2 : s + b - s = b := by omega
    simp [hb, h1, h2]
  · have := testBit_lt_four hx (by omega : 2 ≤ b)
    simp [hb, this]

theorem field_other (M s s' x : Nat) (hx : x < 4) (h : s + 2 ≤ s' ∨ s' + 2 ≤ s) :
    ((M ^^^ ((((M >>> s) &&& 3) ^^^ x) <<< s)) >>> s') &&& 3 = (M >>> s') &&& 3 := by
  apply Nat.eq_of_testBit_eq
  intro b
  simp only [Nat.testBit_and, Nat.testBit_shiftRight, Nat.testBit_xor, Nat.testBit_shiftLeft, testBit_three]
  by_cases hb : b < 2
  · rcases h with h | h
    · have h1 : s' + b ≥ s := by omega
      have h2 : ¬ (s' + b - s < 2) := by omega
      have h3 := testBit_lt_four hx (by omega : 2 ≤ s' + b - s)
      simp [hb, h1, h2, h3]
    · have h1 : ¬ (s' + b ≥ s) := by omega
      simp [hb, h1]
  · simp [hb]

theorem getP_setP (M n i j x a b : Nat) (hx : x < 4) (hi : i < n) (hj : j < n) (ha : a < n) (hb : b < n) :
    getP (setP M n i j x) n a b = if a = i ∧ b = j then x else getP M n a b := by
  unfold getP setP
  simp only [hi, hj, decide_true, Bool.and_self, if_true]
  by_cases h : a = i ∧ b = j
  · obtain ⟨rfl, rfl⟩ := h
    simp only [and_self, if_true]
    exact field_same _ _ _ hx
  · rw [if_neg h]
    apply field_other _ _ _ _ hx
    -- positions differ by at least one cell
    have key : i * n + j ≠ a * n + b := by
      intro heq
      apply h
      have h1 : i = a := by
        rcases Nat.lt_trichotomy i a with hlt | heq' | hgt
        · have : (i + 1) * n ≤ a * n := Nat.mul_le_mul_right n hlt
          rw [Nat.succ_mul] at this
          omega
        · exact heq'
        · have : (a + 1) * n ≤ i * n := Nat.mul_le_mul_right n hgt
          rw [Nat.succ_mul] at this
          omega
      subst h1
      exact ⟨rfl, by omega⟩
    omega

theorem setP_oob (M n i j x : Nat) (h : ¬ (i < n ∧ j < n)) : setP M n i j x = M := by
  unfold setP
  have : (decide (i < n) && decide (j < n)) = false := by
    simp only [Bool.and_eq_false_iff, decide_eq_false_iff_not]
    by_cases hi : i < n
    · exact Or.inr (fun hj => h ⟨hi, hj⟩)
    · exact Or.inl hi
  simp [this]

/-- the model matrix `m` (square, size n) is represented by the packed number `M` -/
def Rel (n : Nat) (m : Model.Matrix) (M : Nat) : Prop :=
  Sq n m ∧ ∀ i j, i < n → j < n → Model.get2 m i j = getP M n i j

theorem rel_set2 {n : Nat} {m : Model.Matrix} {M : Nat} (h : Rel n m M) (i j x : Nat) (hx : x < 4) :
    Rel n (Model.set2 m i j x) (setP M n i j x) := by
  obtain ⟨hs, hc⟩ := h
  refine ⟨sq_set2 hs i j x, ?_⟩
  intro a b ha hb
  rw [get2_set2]
  by_cases hij : i < n ∧ j < n
  · have hb' : i < m.size ∧ j < (m.getD i #[]).size := by rw [hs.1, hs.2 i hij.1]; exact hij
    rw [getP_setP M n i j x a b hx hij.1 hij.2 ha hb]
    by_cases hab : a = i ∧ b = j
    · rw [if_pos ⟨hab.1, hab.2, hb'⟩, if_pos hab]
    · rw [if_neg (fun hc' => hab ⟨hc'.1, hc'.2.1⟩), if_neg hab]
      exact hc a b ha hb
  · rw [setP_oob M n i j x hij]
    have : ¬ (a = i ∧ b = j ∧ i < m.size ∧ j < (m.getD i #[]).size) := by
      intro hc'
      apply hij
      obtain ⟨h1, h2, _, _⟩ := hc'
      subst h1; subst h2
      exact ⟨ha, hb⟩
    rw [if_neg this]
    exact hc a b ha hb

theorem rel_foldl {β : Type} {n : Nat} {g : Model.Matrix → β → Model.Matrix} {g' : Nat → β → Nat}
    (h : ∀ m M b, Rel n m M → Rel n (g m b) (g' M b)) :
    ∀ (l : List β) (m : Model.Matrix) (M : Nat), Rel n m M → Rel n (l.foldl g m) (l.foldl g' M) := by
  intro l
  induction l with
  | nil => intro m M hr; exact hr
  | cons b t ih => intro m M hr; exact ih _ _ (h m M b hr)

/-! ### packing lists of rows -/

def packList : List Nat → Nat
  | [] => 0
  | x :: t => x ||| (packList t <<< 2)

def pack2 (n : Nat) : List (List Nat) → Nat
  | [] => 0
  | r :: t => packList r ||| (pack2 n t <<< (2 * n))

theorem testBit_packList (l : List Nat) (hl : ∀ x ∈ l, x < 4) (k b : Nat) (hb : b < 2) :
    (packList l).testBit (2 * k + b) = (l.getD k 0).testBit b := by
  induction l generalizing k with
  | nil => simp [packList]
  | cons x t ih =>
    have hx : x < 4 := hl x List.mem_cons_self
    have ht : ∀ y ∈ t, y < 4 := fun y hy => hl y (List.mem_cons_of_mem _ hy)
    unfold packList
    rw [Nat.testBit_or, Nat.testBit_shiftLeft]
    cases k with
    | zero =>
      have : ¬ (b ≥ 2) := by omega
      simp [this]
    | succ k =>
      have h1 : 2 * (k + 1) + b ≥ 2 := by omega
      have h2 : 2 * (k + 1) + b - 2 = 2 * k + b := by omega
      rw [testBit_lt_four hx (by omega), h2, ih ht k]
      simp [h1]

theorem packList_lt (l : List Nat) (hl : ∀ x ∈ l, x < 4) : packList l < 2 ^ (2 * l.length) := by
  induction l with
  | nil => simp [packList]
  | cons x t ih =>
    have hx : x < 4 := hl x List.mem_cons_self
    have ht : ∀ y ∈ t, y < 4 := fun y hy => hl y (List.mem_cons_of_mem _ hy)
    unfold packList
    apply Nat.or_lt_two_pow
    · calc x < 2 ^ 2 := hx
        _ ≤ 2 ^ (2 * (x :: t).length) := Nat.pow_le_pow_right (by decide) (by simp; omega)
    · rw [Nat.shiftLeft_eq]
      have := ih ht
      calc packList t * 2 ^ 2 < 2 ^ (2 * t.length) * 2 ^ 2 := Nat.mul_lt_mul_of_pos_right this (by decide)
        _ = 2 ^ (2 * (x :: t).length) := by rw [← Nat.pow_add]; congr 1

theorem testBit_pack2 (n : Nat) (rows : List (List Nat)) (hlen : ∀ r ∈ rows, r.length = n)
    (hl : ∀ r ∈ rows, ∀ x ∈ r, x < 4) (i j b : Nat) (hj : j < n) (hb : b < 2) :
    (pack2 n rows).testBit (2 * (i * n + j) + b) = ((rows.getD i []).getD j 0).testBit b := by
  induction rows generalizing i with
  | nil => simp [pack2]
  | cons r t ih =>
    have hr : ∀ x ∈ r, x < 4 := hl r List.mem_cons_self
    have hrl : r.length = n := hlen r List.mem_cons_self
    have ht : ∀ r' ∈ t, ∀ x ∈ r', x < 4 := fun r' hr' => hl r' (List.mem_cons_of_mem _ hr')
    have htl : ∀ r' ∈ t, r'.length = n := fun r' hr' => hlen r' (List.mem_cons_of_mem _ hr')
    unfold pack2
    rw [Nat.testBit_or, Nat.testBit_shiftLeft]
    cases i with
    | zero =>
      have h1 : ¬ (2 * (0 * n + j) + b ≥ 2 * n) := by omega
      have h2 : 2 * (0 * n + j) + b = 2 * j + b := by omega
      rw [h2] at h1 ⊢
      rw [testBit_packList r hr j b hb]
      simp [h1]
    | succ i =>
      have h0 : (i + 1) * n = i * n + n := Nat.succ_mul i n
      have h1 : 2 * ((i + 1) * n + j) + b ≥ 2 * n := by rw [h0]; omega
      have h2 : 2 * ((i + 1) * n + j) + b - 2 * n = 2 * (i * n + j) + b := by rw [h0]; omega
      have h3 : (packList r).testBit (2 * ((i + 1) * n + j) + b) = false := by
        apply Nat.testBit_lt_two_pow
        calc packList r < 2 ^ (2 * r.length) := packList_lt r hr
          _ ≤ 2 ^ (2 * ((i + 1) * n + j) + b) := Nat.pow_le_pow_right (by decide) (by rw [hrl]; omega)
      rw [h3, h2, ih htl ht i]
      simp [h1]

theorem getP_pack2 (n : Nat) (rows : List (List Nat)) (hlen : ∀ r ∈ rows, r.length = n)
    (hl : ∀ r ∈ rows, ∀ x ∈ r, x < 4) (i j : Nat) (hj : j < n) :
    getP (pack2 n rows) n i j = (rows.getD i []).getD j 0 := by
  unfold getP
  apply Nat.eq_of_testBit_eq
  intro b
  rw [Nat.testBit_and, Nat.testBit_shiftRight, testBit_three]
  by_cases hb : b < 2
  · rw [testBit_pack2 n rows hlen hl i j b hj hb]
    simp [hb]
  · have hx : (rows.getD i []).getD j 0 < 4 := by
      rw [List.getD_eq_getElem?_getD, List.getD_eq_getElem?_getD]
      cases h1 : rows[i]? with
      | none => simp
      | some r =>
        have hr := List.mem_of_getElem? h1
        simp only [Option.getD_some]
        cases h2 : r[j]? with
        | none => simp
        | some x => exact hl r hr x (List.mem_of_getElem? h2)
    rw [testBit_lt_four hx (by omega)]
    simp [hb]

/-! ### the packed mirror of the matrix construction -/

def makeMatrixP (n : Nat) : Nat :=
  let isMicro := n < 21
  let m0 : Nat := pack2 n (List.replicate n (List.replicate n 2))
  let m1 := if n > 41 then
      (List.range 6).foldl (fun m i =>
        let m := setP (setP (setP m n i (n - 11) 0) n i (n - 10) 0) n i (n - 9) 0
        setP (setP (setP m n (n - 11) i 0) n (n - 10) i 0) n (n - 9) i 0) m0
    else m0
  let m2 := (List.range 9).foldl (fun m i =>
      let m := setP (setP m n i 8 0) n 8 i 0
      if !isMicro then
        let ni := if i == 0 then 0 else n - i
        setP (setP m n ni 8 0) n 8 ni 0
      else m) m1
  let (j, stop) := if isMicro then (0, n) else (6, n - 8)
  (List.range (stop - 8)).foldl (fun m k =>
    let i := 8 + k
    let bit := (k + 1) % 2
    setP (setP m n i j bit) n j i bit) m2

def addFinderPatternsP (m : Nat) (n : Nat) : Nat :=
  let corners : List (Nat × Nat × Nat × Nat) :=
    if n < 21 then [(0, 0, 1, 1)] else [(0, 0, 1, 1), (0, n - 8, 1, 0), (n - 8, 0, 0, 1)]
  corners.foldl (fun m (i, j, off, sep) =>
    (List.range 8).foldl (fun m r =>
      (List.range 8).foldl (fun m c =>
        setP m n (i + r) (j + c) ((Gen.FINDER_PATTERN.getD (off + r) []).getD (sep + c) 0)) m) m) m

open Model in
def addAlignmentPatternsP (m : Nat) (n : Nat) : R Nat := do
  let version : Int := Int.fdiv ((n : Int) - 17) 4
  if version < 2 then return m
  let some positions := Gen.ALIGNMENT_POS[(version - 2).toNat]? | throw PyErr.indexError
  let some minPos := positions.head? | throw PyErr.indexError
  let some maxPos := positions.getLast? | throw PyErr.indexError
  let cells := (positions.map (fun x => positions.map (fun y => (x, y)))).flatten
  pure (cells.foldl (fun m (x, y) =>
    if (x, y) == (minPos, minPos) || (x, y) == (minPos, maxPos) || (x, y) == (maxPos, minPos) then m
    else
      (List.range 5).foldl (fun m r =>
        (List.range 5).foldl (fun m c =>
          setP m n (x - 2 + r) (y - 2 + c) (alignmentPattern.getD (r * 5 + c) 0)) m) m) m)

/-- the skeleton without the dark module, packed -/
def m0P (n : Nat) : Model.R Nat := addAlignmentPatternsP (addFinderPatternsP (makeMatrixP n) n) n

theorem getD_getD_lt (t : List (List Nat)) (h : t.all (fun r => r.all (· < 4)) = true) (a b : Nat) :
    (t.getD a []).getD b 0 < 4 := by
  rw [List.all_eq_true] at h
  rw [List.getD_eq_getElem?_getD, List.getD_eq_getElem?_getD]
  cases h1 : t[a]? with
  | none => simp
  | some r =>
    have hr := h r (List.mem_of_getElem? h1)
    rw [List.all_eq_true] at hr
    simp only [Option.getD_some]
    cases h2 : r[b]? with
    | none => simp
    | some x => simpa using hr x (List.mem_of_getElem? h2)

theorem finder_lt (a b : Nat) : (Gen.FINDER_PATTERN.getD a []).getD b 0 < 4 :=
  getD_getD_lt _ (by decide) a b

theorem alignment_lt (k : Nat) : Model.alignmentPattern.getD k 0 < 4 := by
  have h : Model.alignmentPattern.all (· < 4) = true := by decide
  rw [List.all_eq_true] at h
  rw [List.getD_eq_getElem?_getD]
  cases h2 : Model.alignmentPattern[k]? with
  | none => simp
  | some x => simpa using h x (List.mem_of_getElem? h2)

theorem rel_init (n : Nat) :
    Rel n (Array.replicate n (Array.replicate n 2)) (pack2 n (List.replicate n (List.replicate n 2))) := by
  refine ⟨⟨by simp, ?_⟩, ?_⟩
  · intro i hi
    simp [Array.getD_eq_getD_getElem?, hi]
  · intro i j hi hj
    rw [getP_pack2 n _ (fun r hr => by rw [(List.mem_replicate.mp hr).2]; simp)
      (fun r hr x hx => by
        rw [(List.mem_replicate.mp hr).2] at hx
        rw [(List.mem_replicate.mp hx).2]; decide) i j hj]
    simp [Model.get2, Array.getD_eq_getD_getElem?, List.getD_eq_getElem?_getD, hi, hj]

theorem rel_makeMatrix (n : Nat) : Rel n (Model.makeMatrix n) (makeMatrixP n) := by
  unfold Model.makeMatrix makeMatrixP
  have hbit : ∀ k, (k + 1) % 2 < 4 := fun k => by omega
  by_cases hmicro : n < 21 <;> by_cases h41 : n > 41 <;>
    simp only [hmicro, h41, if_true, if_false, decide_true, decide_false, Bool.not_true, Bool.not_false,
      Bool.false_eq_true]
  · omega
  · refine rel_foldl ?_ _ _ _ ?_
    · intro m M b h; exact rel_set2 (rel_set2 h _ _ _ (hbit b)) _ _ _ (hbit b)
    refine rel_foldl ?_ _ _ _ ?_
    · intro m M b h; exact rel_set2 (rel_set2 h _ _ _ (by decide)) _ _ _ (by decide)
    exact rel_init n
  · refine rel_foldl ?_ _ _ _ ?_
    · intro m M b h; exact rel_set2 (rel_set2 h _ _ _ (hbit b)) _ _ _ (hbit b)
    refine rel_foldl ?_ _ _ _ ?_
    · intro m M b h
      exact rel_set2 (rel_set2 (rel_set2 (rel_set2 h _ _ _ (by decide)) _ _ _ (by decide)) _ _ _ (by decide)) _ _ _ (by decide)
    refine rel_foldl ?_ _ _ _ ?_
    · intro m M b h
      exact rel_set2 (rel_set2 (rel_set2 (rel_set2 (rel_set2 (rel_set2 h _ _ _ (by decide)) _ _ _ (by decide)) _ _ _ (by decide))
        _ _ _ (by decide)) _ _ _ (by decide)) _ _ _ (by decide)
    exact rel_init n
  · refine rel_foldl ?_ _ _ _ ?_
    · intro m M b h; exact rel_set2 (rel_set2 h _ _ _ (hbit b)) _ _ _ (hbit b)
    refine rel_foldl ?_ _ _ _ ?_
    · intro m M b h
      exact rel_set2 (rel_set2 (rel_set2 (rel_set2 h _ _ _ (by decide)) _ _ _ (by decide)) _ _ _ (by decide)) _ _ _ (by decide)
    exact rel_init n

theorem rel_addFinder {n : Nat} {m : Model.Matrix} {M : Nat} (h : Rel n m M) :
    Rel n (Model.addFinderPatterns m n) (addFinderPatternsP M n) := by
  unfold Model.addFinderPatterns addFinderPatternsP
  apply rel_foldl _ _ _ _ h
  intro m M b h
  apply rel_foldl _ _ _ _ h
  intro m M r h
  apply rel_foldl _ _ _ _ h
  intro m M c h
  exact rel_set2 h _ _ _ (finder_lt _ _)

/-- both results are errors (the same), or both are values in relation -/
def RelR (n : Nat) : Model.R Model.Matrix → Model.R Nat → Prop
  | .ok m, .ok M => Rel n m M
  | .error e, .error e' => e = e'
  | _, _ => False

theorem rel_addAlignment {n : Nat} {m : Model.Matrix} {M : Nat} (h : Rel n m M) :
    RelR n (Model.addAlignmentPatterns m n) (addAlignmentPatternsP M n) := by
  unfold Model.addAlignmentPatterns addAlignmentPatternsP
  simp only [pure, Except.pure]
  split
  · exact h
  · generalize Gen.ALIGNMENT_POS[((n : Int) - 17).fdiv 4 - 2 |>.toNat]? = o
    cases o with
    | none => exact rfl
    | some positions =>
      dsimp only
      generalize positions.head? = o1
      cases o1 with
      | none => exact rfl
      | some minPos =>
        dsimp only
        generalize positions.getLast? = o2
        cases o2 with
        | none => exact rfl
        | some maxPos =>
          show Rel n _ _
          apply rel_foldl _ _ _ _ h
          intro m M x h
          split
          · exact h
          · apply rel_foldl _ _ _ _ h
            intro m M r h
            apply rel_foldl _ _ _ _ h
            intro m M c h
            exact rel_set2 h _ _ _ (alignment_lt _)

theorem rel_m0 (n : Nat) :
    RelR n (Model.addAlignmentPatterns (Model.addFinderPatterns (Model.makeMatrix n) n) n) (m0P n) :=
  rel_addAlignment (rel_addFinder (rel_makeMatrix n))

/-! ### from the packed skeleton back to rows -/

theorem toRows_of_cells (n : Nat) (m : Model.Matrix) (f : Nat → Nat → Nat) (hs : Sq n m)
    (hc : ∀ i j, i < n → j < n → Model.get2 m i j = f i j) :
    toRows m = (List.range n).map (fun i => (List.range n).map (fun j => f i j)) := by
  apply List.ext_getElem
  · simp [toRows, hs.1]
  · intro i h1 h2
    have hi : i < n := by simpa using h2
    have hrow : ((toRows m)[i]).length = n := by
      have := hs.2 i hi
      simp only [toRows, List.getElem_map, Array.getElem_toList, Array.length_toList]
      simp only [Array.getD_eq_getD_getElem?] at this
      have hi' : i < m.size := by rw [hs.1]; exact hi
      simpa [hi'] using this
    apply List.ext_getElem
    · simp [hrow]
    · intro j h3 h4
      have hj : j < n := by simpa using h4
      have := hc i j hi hj
      rw [get2_toRows, List.getD_eq_getElem?_getD, List.getD_eq_getElem?_getD] at this
      simp only [List.getElem?_eq_getElem h1, Option.getD_some, List.getElem?_eq_getElem h3] at this
      simp [this]

theorem skelCell_lt (d : Nat) (hd : d < 4) (v : Int) (i j : Nat) : skelCell d v i j < 4 := by
  unfold skelCell Spec.fixedValue
  cases hk : Spec.kind v i j <;> simp [hd]
  · have := finderBit_le (if i < 7 then i else i - (Spec.size v - 7)) (if j < 7 then j else j - (Spec.size v - 7))
    omega
  · split <;> split <;> omega
  · split <;> omega

theorem rows_of_packed (v : Int) (h : m0P (Spec.size v) = .ok (pack2 (Spec.size v) (skelRows 0 v))) :
    m0L (Spec.size v) = .ok (skelRows 0 v) := by
  have hrel := rel_m0 (Spec.size v)
  rw [h, ← map_m0] at *
  cases hm : Model.addAlignmentPatterns (Model.addFinderPatterns (Model.makeMatrix (Spec.size v)) (Spec.size v)) (Spec.size v) with
  | error e => rw [hm] at hrel; exact absurd hrel (by simp [RelR])
  | ok m0 =>
    rw [hm] at hrel
    obtain ⟨hs, hc⟩ : Rel (Spec.size v) m0 _ := hrel
    simp only [Except.map]
    congr 1
    unfold skelRows
    apply toRows_of_cells _ _ _ hs
    intro i j hi hj
    rw [hc i j hi hj, getP_pack2 _ _ _ _ i j hj, skelRows_getD 0 v i j hi hj]
    · intro r hr
      unfold skelRows at hr
      simp only [List.mem_map] at hr
      obtain ⟨a, _, rfl⟩ := hr
      simp
    · intro r hr x hx
      unfold skelRows at hr
      simp only [List.mem_map] at hr
      obtain ⟨a, _, rfl⟩ := hr
      simp only [List.mem_map] at hx
      obtain ⟨b, _, rfl⟩ := hx
      exact skelCell_lt 0 (by decide) v a b

/-! ## the per-version kernel check and its consequences -/

/-- number of modules of the encoding region according to Table 9 (first entry of the version) -/
def expectedModules (v : Int) : Nat :=
  match Spec.eccTable.find? (fun e => e.1 == v) with
  | some e => 8 * (e.2.2.map (fun b => b.1 * b.2.1)).foldl (· + ·) 0 + Spec.remainderBits v
  | none => 0

/-- THE per-version check (evaluated by the kernel in Proofs/Geometry*.lean): the packed mirror of
    make_matrix + add_finder_patterns + add_alignment_patterns equals the ISO skeleton (cheap
    evaluation scheme) — both packed into one number, 2 bits per module —, and the number of data
    cells is the Table 9 number -/
def geomOK (v : Int) : Bool :=
  (match m0P (Spec.size v) with
   | .ok r => r == pack2 (Spec.size v) (fastRows 0 v)
   | .error _ => false) &&
  (count2 (fastRows 0 v) + (if Spec.fourBitFinal v then 4 else 0) == expectedModules v)

theorem geom_rows (v : Int) (h : geomOK v = true) : m0L (Spec.size v) = .ok (skelRows 0 v) := by
  unfold geomOK at h
  simp only [Bool.and_eq_true] at h
  have h1 := h.1
  cases hm : m0P (Spec.size v) with
  | error e => rw [hm] at h1; cases h1
  | ok r =>
    rw [hm] at h1
    simp only [beq_iff_eq] at h1
    rw [h1, fastRows_eq] at hm
    exact rows_of_packed v hm

theorem geom_count (v : Int) (h : geomOK v = true) (hc : colsOK v = true) (lvl : Int)
    (ecc : List (Nat × Nat × Nat)) (hecc : Spec.eccOf v lvl = some ecc) :
    (Spec.dataCoords v).length + (if Spec.fourBitFinal v then 4 else 0)
      = 8 * (ecc.map (fun b => b.1 * b.2.1)).foldl (· + ·) 0 + Spec.remainderBits v := by
  unfold geomOK at h
  simp only [Bool.and_eq_true, beq_iff_eq] at h
  have h2 := h.2
  rw [fastRows_eq, ← dataCoords_length v hc 0 (by decide)] at h2
  rw [h2]
  -- the entry found for (v, lvl) and the first entry of v have the same total
  unfold Spec.eccOf Spec.lookup2 at hecc
  cases hx : Spec.eccTable.find? (fun x => x.1 == v && x.2.1 == lvl) with
  | none => rw [hx] at hecc; cases hecc
  | some x =>
    rw [hx] at hecc
    simp only [Option.map_some, Option.some.injEq] at hecc
    have hxm := List.mem_of_find?_eq_some hx
    have hxp := List.find?_some hx
    simp only [Bool.and_eq_true, beq_iff_eq] at hxp
    unfold expectedModules
    cases he : Spec.eccTable.find? (fun e => e.1 == v) with
    | none =>
      have := List.find?_eq_none.mp he x hxm
      simp [hxp.1] at this
    | some e =>
      have hem := List.mem_of_find?_eq_some he
      have hep := List.find?_some he
      simp only [beq_iff_eq] at hep
      have := Props.C03.table9_total_constant_per_version
      rw [List.all_eq_true] at this
      have := this e hem
      rw [List.all_eq_true] at this
      have := this x hxm
      simp only [Bool.or_eq_true, bne_iff_ne, ne_eq, beq_iff_eq] at this
      rcases this with h3 | h3
      · exact absurd (hep.trans hxp.1.symm) h3
      · simp only [h3, hecc]

/-! ## version lists -/

/-- all 44 version constants -/
def allVersions : List Int := (List.range 44).map (fun k => Int.ofNat k - 3)

theorem mem_allVersions (v : Int) (h1 : -3 ≤ v) (h2 : v ≤ 40) : v ∈ allVersions := by
  unfold allVersions
  rw [List.mem_map]
  refine ⟨(v + 3).toNat, List.mem_range.mpr (by omega), ?_⟩
  simp only [Int.ofNat_eq_natCast]
  omega

theorem range_of_mem_allVersions (v : Int) (h : v ∈ allVersions) : -3 ≤ v ∧ v ≤ 40 := by
  unfold allVersions at h
  rw [List.mem_map] at h
  obtain ⟨k, hk, rfl⟩ := h
  have := List.mem_range.mp hk
  simp only [Int.ofNat_eq_natCast]
  omega

/-- per-version strip checks (linear in the symbol size) -/
def stripsOK (v : Int) : Bool := orderOK v && colsOK v

end Proofs.Placement2
