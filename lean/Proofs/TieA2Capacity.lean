/-
  Proofs.TieA2Capacity — `consts.SYMBOL_CAPACITY[version][error]` as the translated code reads it (nested dicts in
  iteration order, `Py.lookup` twice) against `Model.capacity` (flat sorted table of `Gen.Tables`), for EVERY version
  number and every error level (or `None`), inside and outside the tables.
-/
import Proofs.TieA2
import Model.Encoder

namespace Proofs.TieA2
open Gen.Py Proofs.TieA

/-- `SYMBOL_CAPACITY[v][e]` of the translated code -/
def capLookup (v : Int) (e : Option Int) : M Int :=
  Gen.Py.bind (lookup Gen.Funcs2.T_consts_SYMBOL_CAPACITY v) (fun d => lookup d e)

theorem lookup_absent {κ ν : Type} [BEq κ] (d : List (κ × ν)) (k : κ) (h : ∀ kv ∈ d, (kv.1 == k) = false) :
    lookup d k = .error .keyError := by
  unfold lookup
  have : d.find? (fun kv => kv.1 == k) = none := by
    rw [List.find?_eq_none]
    intro x hx
    simp [h x hx]
  rw [this]

def versions44 : List Int := (List.range 44).map (fun (k : Nat) => (k : Int) - 3)
def levels5 : List (Option Nat) := [none, some 0, some 1, some 2, some 3]

theorem cap_inside : ∀ v ∈ versions44, ∀ e ∈ levels5,
    capLookup v (e.map Int.ofNat) = ofOption .keyError ((Model.capacity v e).map Int.ofNat) := by
  decide +kernel

theorem cap_outer_keys : ∀ p ∈ Gen.Funcs2.T_consts_SYMBOL_CAPACITY, (-3 ≤ p.1 ∧ p.1 ≤ 40) := by decide +kernel

theorem cap_inner_keys : ∀ p ∈ Gen.Funcs2.T_consts_SYMBOL_CAPACITY, ∀ kv ∈ p.2,
    kv.1 = none ∨ kv.1 = some 0 ∨ kv.1 = some 1 ∨ kv.1 = some 2 ∨ kv.1 = some 3 := by decide +kernel

theorem gen_cap_keys : ∀ x ∈ Gen.SYMBOL_CAPACITY, (-3 ≤ x.1 ∧ x.1 ≤ 40) ∧ (-1 ≤ x.2.1 ∧ x.2.1 ≤ 3) := by decide +kernel

theorem model_capacity_none (v : Int) (e : Option Nat)
    (h : ¬ (-3 ≤ v ∧ v ≤ 40) ∨ (∃ n, e = some n ∧ 4 ≤ n)) : Model.capacity v e = none := by
  unfold Model.capacity Model.lookup2
  have : Gen.SYMBOL_CAPACITY.find? (fun x => x.1 == v && x.2.1 == Model.lvlKey e) = none := by
    rw [List.find?_eq_none]
    intro x hx
    have hk := gen_cap_keys x hx
    rcases h with h | ⟨n, rfl, hn⟩
    · have : ¬ (x.1 = v) := by omega
      simp [this]
    · have : ¬ (x.2.1 = (n : Int)) := by omega
      simp [Model.lvlKey, this]
  rw [this]; rfl

theorem lookup_mem {κ ν : Type} [BEq κ] (d : List (κ × ν)) (k : κ) (r : ν) (h : lookup d k = .ok r) : ∃ p ∈ d, p.2 = r := by
  unfold lookup at h
  cases hf : d.find? (fun kv => kv.1 == k) with
  | none => rw [hf] at h; cases h
  | some kv =>
    rw [hf] at h
    refine ⟨kv, List.mem_of_find?_eq_some hf, ?_⟩
    injection h

/-- `consts.SYMBOL_CAPACITY[version][error]` for every version number and every error level / `None` -/
theorem capacity_lookup (v : Int) (e : Option Nat) :
    capLookup v (e.map Int.ofNat) = ofOption .keyError ((Model.capacity v e).map Int.ofNat) := by
  by_cases hv : -3 ≤ v ∧ v ≤ 40
  · by_cases he : e ∈ levels5
    · refine cap_inside v ?_ e he
      simp only [versions44, List.mem_map, List.mem_range]
      exact ⟨(v + 3).toNat, by omega, by omega⟩
    · have hn : ∃ n, e = some n ∧ 4 ≤ n := by
        cases e with
        | none => exact absurd (by simp [levels5]) he
        | some n =>
          refine ⟨n, rfl, ?_⟩
          by_cases hlt : 4 ≤ n
          · exact hlt
          · exfalso
            have : n = 0 ∨ n = 1 ∨ n = 2 ∨ n = 3 := by omega
            rcases this with h | h | h | h <;> subst h <;> simp [levels5] at he
      rw [model_capacity_none v e (Or.inr hn)]
      obtain ⟨n, rfl, hn4⟩ := hn
      unfold capLookup
      cases hl : lookup Gen.Funcs2.T_consts_SYMBOL_CAPACITY v with
      | error ex =>
        unfold lookup at hl
        cases hf : List.find? (fun kv => kv.1 == v) Gen.Funcs2.T_consts_SYMBOL_CAPACITY with
        | none => rw [hf] at hl; cases hl; rfl
        | some kv => rw [hf] at hl; cases hl
      | ok d =>
        obtain ⟨p, hp, rfl⟩ := lookup_mem _ _ _ hl
        simp only [bind_ok, Option.map_some, Option.map_none, ofOption_none]
        apply lookup_absent
        intro kv hkv
        have := cap_inner_keys p hp kv hkv
        rcases this with h | h | h | h | h <;> rw [h] <;> simp <;> omega
  · rw [model_capacity_none v e (Or.inl hv)]
    unfold capLookup
    rw [lookup_absent]
    · rfl
    · intro p hp
      have := cap_outer_keys p hp
      simp; omega

end Proofs.TieA2
