/-
  Proofs.PngTwoTone — the colour map of a call without per-type options (`dark` / `light` only): it
  is two-tone, has at most two colours, so `write_png` uses the cheap iterator (helpers for
  `png_model_picture`, Props/C09Png.lean).
-/
import Proofs.PngPicture
import Proofs.Colormap

namespace Proofs.Png

open Model Spec Proofs.Raster Proofs.Colormap

theorem parseColormap_map (cm : List (Nat × ColorArg)) (f : ColorArg → PColor)
    (hf : ∀ e ∈ cm, pngColor e.2 = .ok (f e.2)) :
    parseColormap cm = .ok (cm.map (fun e => (e.1, f e.2))) := by
  induction cm with
  | nil => rfl
  | cons e cm ih =>
    have h1 := hf e (by simp)
    have h2 := ih (fun e' he' => hf e' (List.mem_cons_of_mem _ he'))
    unfold parseColormap
    rw [List.mapM_cons]
    change (do let b ← (do let c ← pngColor e.2; pure (e.1, c)); let bs ← parseColormap cm; pure (b :: bs)) = _
    rw [h1, h2]; rfl

theorem map_makeColormap_default {α β : Type} (w h : Nat) (D L : α) (f : α → β) :
    (makeColormap w h D L {}).map (fun e => (e.1, f e.2)) = makeColormap w h (f D) (f L) {} := by
  rw [makeColormap_eq, makeColormap_eq]
  cases lacks w h .version <;> cases lacks w h .alignment <;> cases lacks w h .darkmodule <;> simp

theorem default_values {α : Type} (w h : Nat) (D L : α) : ∀ e ∈ makeColormap w h D L {}, e.2 = D ∨ e.2 = L := by
  intro e he
  rw [makeColormap_eq] at he
  cases hlv : lacks w h .version <;> cases hla : lacks w h .alignment <;> cases hld : lacks w h .darkmodule <;>
    simp only [hlv, hla, hld, if_true, if_false, Bool.false_eq_true, List.mem_append, List.mem_cons, List.not_mem_nil, or_false,
      or_assoc] at he <;>
    (repeat' (first | (rcases he with he' | he; subst he') | subst he)) <;> simp

theorem default_finder_dark {α : Type} (w h : Nat) (D L : α) :
    cmGet (makeColormap w h D L {}) Gen.TYPE_FINDER_PATTERN_DARK = some D := by
  rw [makeColormap_eq]
  simp [cmGet, typeCode, Gen.TYPE_FINDER_PATTERN_DARK]

theorem default_quiet_zone {α : Type} (w h : Nat) (D L : α) :
    cmGet (makeColormap w h D L {}) Gen.TYPE_QUIET_ZONE = some L := by
  rw [makeColormap_eq]
  cases lacks w h .version <;> cases lacks w h .alignment <;> cases lacks w h .darkmodule <;>
    simp [cmGet, typeCode, typeQuietZone, Gen.TYPE_QUIET_ZONE]

/-- parsing the colour map of a call without per-type options -/
theorem parse_default (w h : Nat) (D L : ColorArg) (clrMap : List (Nat × PColor))
    (hp : parseColormap (makeColormap w h D L {}) = .ok clrMap) :
    ∃ dC lC, pngColor D = .ok dC ∧ pngColor L = .ok lC ∧ clrMap = makeColormap w h dC lC {} := by
  obtain ⟨dC, hD, _⟩ := (parseColormap_get _ _ hp Gen.TYPE_FINDER_PATTERN_DARK).1 D (default_finder_dark w h D L)
  obtain ⟨lC, hL, _⟩ := (parseColormap_get _ _ hp Gen.TYPE_QUIET_ZONE).1 L (default_quiet_zone w h D L)
  refine ⟨dC, lC, hD, hL, ?_⟩
  let f : ColorArg → PColor := fun a => if a = D then dC else lC
  have hf : ∀ e ∈ makeColormap w h D L {}, pngColor e.2 = .ok (f e.2) := by
    intro e he
    rcases default_values w h D L e he with h | h
    · rw [h]; simp [f, hD]
    · rw [h]
      by_cases hLD : L = D
      · simp [f, hLD, hD]
      · simp [f, hLD, hL]
  have := parseColormap_map _ f hf
  rw [hp] at this
  have h2 : clrMap = (makeColormap w h D L {}).map (fun e => (e.1, f e.2)) := by
    injection this
  rw [h2, map_makeColormap_default]
  have fD : f D = dC := by simp [f]
  have fL : f L = lC := by
    by_cases hLD : L = D
    · have : dC = lC := by
        rw [hLD, hD] at hL; injection hL
      simp [f, hLD, this]
    · simp [f, hLD]
  rw [fD, fL]

theorem paletteFrom_clrMap (P0 : List PColor) (clrMap : List (Nat × PColor)) (p : PaletteInfo)
    (hp : paletteFrom P0 clrMap = .ok p) :
    p.clrMap = clrMap ∨ ∃ T, p.clrMap = clrMap.map (fun e => (e.1, if e.2 == PColor.transparent then T else e.2)) := by
  unfold paletteFrom at hp
  simp only [bind, Except.bind, pure, Except.pure] at hp
  split at hp
  · split at hp
    · split at hp
      · cases hp
      · rename_i T _
        cases hp
        right
        refine ⟨T, ?_⟩
        apply List.map_congr_left
        intro e _
        by_cases h : (e.2 == PColor.transparent) = true <;> simp [h]
    · cases hp; exact Or.inl rfl
  · split at hp <;> (cases hp; exact Or.inl rfl)

theorem isTwoTone_default (w h : Nat) (a b : PColor) : isTwoTone (makeColormap w h a b {}) = true := by
  rw [makeColormap_eq]
  cases lacks w h .version <;> cases lacks w h .alignment <;> cases lacks w h .darkmodule <;>
    simp [isTwoTone, typeCode, typeQuietZone, List.eraseDups_cons, List.filter_cons, Nat.shiftRight_eq_div_pow]

/-- without per-type options `write_png` takes the cheap iterator -/
theorem useVerbose_default (setOrder : List PColor → List PColor) (hset : SetOrderOK setOrder) (w h : Nat) (dC lC : PColor)
    (p : PaletteInfo) (hp : buildPalette setOrder (makeColormap w h dC lC {}) = .ok p) : useVerbose p = false := by
  have hlen15 : (makeColormap w h dC lC {}).length ≤ 16 := by
    unfold makeColormap
    exact Nat.le_trans (List.length_filter_le _ _) (by simp [mt2color])
  obtain ⟨_, _, _, hn⟩ := buildPalette_facts setOrder hset _ p hp hlen15
  have hn2 : p.n ≤ 2 := by
    rw [hn]
    apply nodup_length_le _ [dC, lC] (nodup_palette0 setOrder hset _)
    intro x hx
    have := (mem_palette0 setOrder hset _ x).1 hx
    obtain ⟨e, he, rfl⟩ := List.mem_map.1 this
    rcases default_values w h dC lC e he with h' | h' <;> simp [h']
  have htt : isTwoTone p.clrMap = true := by
    rcases paletteFrom_clrMap _ _ p hp with h' | ⟨T, h'⟩
    · rw [h']; exact isTwoTone_default w h dC lC
    · rw [h', map_makeColormap_default w h dC lC (fun c => if c == PColor.transparent then T else c)]
      exact isTwoTone_default w h _ _
  unfold useVerbose
  have : ¬ p.n > 2 := by omega
  simp [this, htt]

/-! ### two-tone maps -/

theorem eraseDups_singleton_all_eq (l : List PColor) (h : l.eraseDups.length = 1) (x y : PColor) (hx : x ∈ l) (hy : y ∈ l) : x = y := by
  match hl : l.eraseDups, h with
  | [a], _ =>
    have hx' : x ∈ l.eraseDups := List.mem_eraseDups.2 hx
    have hy' : y ∈ l.eraseDups := List.mem_eraseDups.2 hy
    rw [hl] at hx' hy'
    simp at hx' hy'
    rw [hx', hy']

theorem cmGet_mem_filter (cm : List (Nat × PColor)) (q : Nat → Bool) (t : Nat) (c : PColor) (h : cmGet cm t = some c) (hq : q t = true) :
    c ∈ (cm.filter (fun e => q e.1)).map (·.2) := by
  unfold cmGet at h
  cases hf : cm.find? (fun e => e.1 == t) with
  | none => simp [hf] at h
  | some e =>
    simp [hf] at h
    have hmem := List.mem_of_find?_eq_some hf
    have hkey : e.1 = t := by simpa using List.find?_some hf
    exact List.mem_map.2 ⟨e, List.mem_filter.2 ⟨hmem, by rw [hkey]; exact hq⟩, h⟩

/-- in a two-tone map all dark module types share one colour and all light ones share one colour -/
theorem isTwoTone_uniform (cm : List (Nat × PColor)) (h : isTwoTone cm = true) (t1 t2 : Nat) (c1 c2 : PColor)
    (h1 : cmGet cm t1 = some c1) (h2 : cmGet cm t2 = some c2) (hsame : isDarkType t1 = isDarkType t2) : c1 = c2 := by
  unfold isTwoTone at h
  rw [Bool.and_eq_true] at h
  obtain ⟨hd, hl⟩ := h
  cases hdk : isDarkType t1 with
  | true =>
    have hdk2 : isDarkType t2 = true := by rw [← hsame, hdk]
    exact eraseDups_singleton_all_eq _ (by simpa using hd) c1 c2
      (cmGet_mem_filter cm (fun t => t >>> 8 != 0) t1 c1 h1 hdk) (cmGet_mem_filter cm (fun t => t >>> 8 != 0) t2 c2 h2 hdk2)
  | false =>
    have hdk2 : isDarkType t2 = false := by rw [← hsame, hdk]
    exact eraseDups_singleton_all_eq _ (by simpa using hl) c1 c2
      (cmGet_mem_filter cm (fun t => !(t >>> 8 != 0)) t1 c1 h1 (by unfold isDarkType at hdk; simp [hdk]))
      (cmGet_mem_filter cm (fun t => !(t >>> 8 != 0)) t2 c2 h2 (by unfold isDarkType at hdk2; simp [hdk2]))

theorem paletteFrom_clrMap' (P0 : List PColor) (clrMap : List (Nat × PColor)) (p : PaletteInfo)
    (hp : paletteFrom P0 clrMap = .ok p) :
    p.clrMap = clrMap ∨ ∃ T, T ∉ P0 ∧ p.clrMap = clrMap.map (fun e => (e.1, if e.2 == PColor.transparent then T else e.2)) := by
  unfold paletteFrom at hp
  simp only [bind, Except.bind, pure, Except.pure] at hp
  split at hp
  · split at hp
    · split at hp
      · cases hp
      · rename_i T hT
        cases hp
        right
        refine ⟨T, fun hin => (standIn_spec _ _ hT).1 ((mem_plteOrder P0 T).2 hin), ?_⟩
        apply List.map_congr_left
        intro e _
        by_cases h : (e.2 == PColor.transparent) = true <;> simp [h]
    · cases hp; exact Or.inl rfl
  · split at hp <;> (cases hp; exact Or.inl rfl)

/-- with the cheap iterator (`useVerbose p = false`) the colour map is two-tone: all dark module
    types are configured with one colour, all light ones (separator and quiet zone included) with one -/
theorem two_tone_uniform (setOrder : List PColor → List PColor) (hset : SetOrderOK setOrder) (clrMap : List (Nat × PColor))
    (p : PaletteInfo) (hp : buildPalette setOrder clrMap = .ok p) (hv : useVerbose p = false)
    (t1 t2 : Nat) (c1 c2 : PColor) (h1 : cmGet clrMap t1 = some c1) (h2 : cmGet clrMap t2 = some c2)
    (hsame : isDarkType t1 = isDarkType t2) : c1 = c2 := by
  have htt : isTwoTone p.clrMap = true := by
    unfold useVerbose at hv
    rw [Bool.or_eq_false_iff] at hv
    simpa using hv.2
  rcases paletteFrom_clrMap' _ _ p hp with h' | ⟨T, hT, h'⟩
  · rw [h'] at htt
    exact isTwoTone_uniform clrMap htt t1 t2 c1 c2 h1 h2 hsame
  · rw [h'] at htt
    have g1 := cmGet_map clrMap (fun c => if c == PColor.transparent then T else c) t1
    have g2 := cmGet_map clrMap (fun c => if c == PColor.transparent then T else c) t2
    rw [h1] at g1; rw [h2] at g2
    have := isTwoTone_uniform _ htt t1 t2 _ _ g1 g2 hsame
    have m1 : c1 ∈ palette0 setOrder clrMap := (mem_palette0 setOrder hset clrMap c1).2 (cmGet_mem _ _ _ h1)
    have m2 : c2 ∈ palette0 setOrder clrMap := (mem_palette0 setOrder hset clrMap c2).2 (cmGet_mem _ _ _ h2)
    by_cases e1 : c1 = PColor.transparent <;> by_cases e2 : c2 = PColor.transparent
    · rw [e1, e2]
    · simp [e1, e2] at this; rw [this] at hT; exact absurd m2 hT
    · simp [e1, e2] at this; rw [← this] at hT; exact absurd m1 hT
    · simpa [e1, e2] using this

/-! ### a concrete iteration order (non-vacuity of `SetOrderOK`; the default of the `model` driver) -/

theorem nodup_eraseDups (l : List PColor) : l.eraseDups.Nodup := by
  generalize hn : l.length = n
  induction n using Nat.strongRecOn generalizing l with
  | _ n ih =>
    cases l with
    | nil => simp
    | cons a l =>
      rw [List.eraseDups_cons, List.nodup_cons]
      refine ⟨?_, ih _ ?_ _ rfl⟩
      · intro h
        have := (List.mem_filter.1 (List.mem_eraseDups.1 h)).2
        simp at this
      · have : (List.filter (fun b => !b == a) l).length ≤ l.length := List.length_filter_le _ _
        simp at hn; omega

/-- the order of first occurrence is a possible iteration order of the set -/
theorem setOrderOK_eraseDups : SetOrderOK (fun l => l.eraseDups) :=
  fun l => ⟨nodup_eraseDups l, fun _ => List.mem_eraseDups⟩

end Proofs.Png
