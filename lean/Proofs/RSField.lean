/-
  Proofs.RSField — the executable Reed-Solomon encoder of the model (`Model.rsRemainder`, synthetic
  division on segno's log / antilog tables) produces valid codewords.

  Route: K := (ZMod 2)[X] / (X^8+X^4+X^3+X^2+1) as a commutative ring of characteristic 2
  (`AdjoinRoot`; only nontriviality is used, not irreducibility).  `φ : Nat → K` reads a natural
  number as a polynomial in ρ (bit i ↦ ρ^i).  φ turns xor into +, `Spec.xtime` into ρ·, table
  multiplication into ·, and is injective on bytes.  Under `List.map φ` the model's `rsLoop` is
  `Proofs.RSGeneric.divLoop`, so `Proofs.RSGeneric.codeword_root` applies.
-/
import Mathlib.RingTheory.AdjoinRoot
import Mathlib.Algebra.Field.ZMod
import Mathlib.Algebra.Polynomial.Degree.Lemmas
import Mathlib.Data.Nat.Bitwise
import Proofs.RSGeneric
import Props.C03Tables
import Model.Encoder

namespace Proofs.RSField

open Polynomial Proofs.RSGeneric

/-! ### the ring K and the element ρ -/

noncomputable def f : (ZMod 2)[X] := X^8 + X^4 + X^3 + X^2 + 1

abbrev K := AdjoinRoot f

noncomputable def ρ : K := AdjoinRoot.root f

theorem rho_rel : ρ^8 + ρ^4 + ρ^3 + ρ^2 + 1 = 0 := by
  have h : eval₂ (AdjoinRoot.of f) (AdjoinRoot.root f)
      (X^8 + X^4 + X^3 + X^2 + 1 : (ZMod 2)[X]) = 0 := AdjoinRoot.eval₂_root f
  simp only [eval₂_add, eval₂_pow, eval₂_X, eval₂_one] at h
  exact h

instance instNontrivialK : Nontrivial K := by
  apply AdjoinRoot.nontrivial
  have h8 : f.natDegree = 8 := by unfold f; compute_degree!
  intro h
  have := natDegree_eq_of_degree_eq_some (n := 0) h
  omega

theorem two_eq_zero : (2 : K) = 0 := by
  have h : (2 : K) = AdjoinRoot.of f (2 : ZMod 2) := (map_ofNat _ 2).symm
  have h2 : (2 : ZMod 2) = 0 := by decide
  rw [h, h2, map_zero]

theorem add_self (a : K) : a + a = 0 := by rw [← two_mul, two_eq_zero, zero_mul]

theorem neg_eq (a : K) : -a = a := neg_eq_of_add_eq_zero_left (add_self a)

theorem sub_eq (a b : K) : a - b = a + b := by rw [sub_eq_add_neg, neg_eq]

/-! ### φ : Nat → K, bit i ↦ ρ^i -/

noncomputable def φ (n : Nat) : K :=
  if _h : n = 0 then 0 else ((n % 2 : Nat) : K) + ρ * φ (n / 2)
termination_by n
decreasing_by omega

theorem φ_zero : φ 0 = 0 := by rw [φ]; simp

theorem φ_eq (n : Nat) : φ n = ((n % 2 : Nat) : K) + ρ * φ (n / 2) := by
  by_cases hn : n = 0
  · subst hn; simp [φ_zero]
  · rw [φ, dif_neg hn]

theorem xor_mod_two (a b : Nat) : (a ^^^ b) % 2 = (a % 2 + b % 2) % 2 := by
  have := @Nat.xor_mod_two_eq_one a b
  omega

theorem cast_bits (a b : Nat) :
    (((a % 2 + b % 2) % 2 : Nat) : K) = ((a % 2 : Nat) : K) + ((b % 2 : Nat) : K) := by
  rcases Nat.mod_two_eq_zero_or_one a with ha | ha <;>
  rcases Nat.mod_two_eq_zero_or_one b with hb | hb <;> rw [ha, hb] <;> norm_num
  exact two_eq_zero.symm

theorem φ_xor : ∀ a b : Nat, φ (a ^^^ b) = φ a + φ b := by
  intro a
  induction a using Nat.strong_induction_on with
  | _ a ih =>
    intro b
    by_cases h : a = 0
    · subst h; simp [φ_zero]
    · have h1 := φ_eq (a ^^^ b)
      rw [Nat.xor_div_two, ih (a / 2) (by omega) (b / 2), xor_mod_two, cast_bits] at h1
      rw [h1, φ_eq a, φ_eq b]
      ring

theorem φ_one : φ 1 = 1 := by rw [φ_eq]; simp [φ_zero]

theorem φ_two_mul (a : Nat) : φ (2 * a) = ρ * φ a := by
  rw [φ_eq (2 * a), Nat.mul_mod_right, Nat.mul_div_cancel_left a (by decide : 0 < 2)]
  simp

theorem φ_two_pow (k : Nat) : φ (2 ^ k) = ρ ^ k := by
  induction k with
  | zero => simpa using φ_one
  | succ k ih => rw [pow_succ, Nat.mul_comm, φ_two_mul, ih, pow_succ, mul_comm]

theorem φ_11d : φ 0x11d = 0 := by
  have h : (0x11d : Nat) = 2 ^ 8 ^^^ (2 ^ 4 ^^^ (2 ^ 3 ^^^ (2 ^ 2 ^^^ 1))) := by decide
  rw [h]
  simp only [φ_xor, φ_two_pow, φ_one]
  rw [← rho_rel]; ring

theorem φ_xtime (a : Nat) : φ (Spec.xtime a) = ρ * φ a := by
  unfold Spec.xtime
  split
  · rw [φ_xor, φ_11d, add_zero, Nat.mul_comm, φ_two_mul]
  · rw [Nat.mul_comm, φ_two_mul]

/-! ### the antilog / log tables under φ -/

theorem φ_alphaPowers : ∀ (n a i : Nat), i < n →
    φ ((Props.C03.alphaPowers n a).getD i 0) = ρ ^ i * φ a := by
  intro n
  induction n with
  | zero => intro a i hi; omega
  | succ n ih =>
    intro a i hi
    cases i with
    | zero => simp [Props.C03.alphaPowers]
    | succ j =>
      simp only [Props.C03.alphaPowers, List.getD_cons_succ]
      rw [ih (Spec.xtime a) j (by omega), φ_xtime, pow_succ]; ring

/-- φ (exp[i]) = ρ^i -/
theorem φ_exp (i : Nat) (hi : i < 510) : φ (Gen.GALIOS_EXP.getD i 0) = ρ ^ i := by
  rw [Props.C03.exp_table_is_alpha_powers, φ_alphaPowers 510 1 i hi, φ_one, mul_one]

theorem exp_all_bytes : Gen.GALIOS_EXP.all (· < 256) = true := by decide +kernel

theorem exp_lt (i : Nat) : Gen.GALIOS_EXP.getD i 0 < 256 := by
  rw [List.getD_eq_getElem?_getD]
  cases h : Gen.GALIOS_EXP[i]? with
  | none => simp
  | some v =>
    have hm := List.mem_of_getElem? h
    have := List.all_eq_true.mp exp_all_bytes v hm
    simpa using this

theorem exp_255 : Gen.GALIOS_EXP.getD 255 0 = 1 := by decide +kernel

theorem rho_pow_255 : ρ ^ 255 = 1 := by
  rw [← φ_exp 255 (by omega), exp_255, φ_one]

/-- for a nonzero byte a: log a < 255 and exp[log a] = a -/
theorem log_spec (a : Nat) (h0 : a ≠ 0) (ha : a < 256) :
    Gen.GALIOS_LOG.getD a 0 < 255 ∧ Gen.GALIOS_EXP.getD (Gen.GALIOS_LOG.getD a 0) 0 = a := by
  obtain ⟨k, rfl⟩ : ∃ k, a = k + 1 := ⟨a - 1, by omega⟩
  have hall := Props.C03.log_table_is_inverse.1
  have hlen := Props.C03.log_table_is_inverse.2
  have hk := List.all_eq_true.mp hall k (List.mem_range.mpr (by omega))
  have hd : Gen.GALIOS_LOG.getD (k + 1) 999 = Gen.GALIOS_LOG.getD (k + 1) 0 := by
    rw [← List.getElem_eq_getD (l := Gen.GALIOS_LOG) (i := k + 1) (h := by omega) 999,
      ← List.getElem_eq_getD (l := Gen.GALIOS_LOG) (i := k + 1) (h := by omega) 0]
  simp only [hd, Bool.and_eq_true, decide_eq_true_eq, beq_iff_eq] at hk
  exact hk

theorem φ_byte (a : Nat) (h0 : a ≠ 0) (ha : a < 256) : φ a = ρ ^ (Gen.GALIOS_LOG.getD a 0) := by
  obtain ⟨h1, h2⟩ := log_spec a h0 ha
  rw [← φ_exp _ (by omega), h2]

theorem φ_ne_zero (a : Nat) (h0 : a ≠ 0) (ha : a < 256) : φ a ≠ 0 := by
  obtain ⟨h1, _⟩ := log_spec a h0 ha
  rw [φ_byte a h0 ha]
  intro hz
  have h : ρ ^ 255 = ρ ^ (Gen.GALIOS_LOG.getD a 0) * ρ ^ (255 - Gen.GALIOS_LOG.getD a 0) := by
    rw [← pow_add]; congr 1; omega
  rw [rho_pow_255, hz, zero_mul] at h
  exact one_ne_zero h

theorem φ_eq_zero (a : Nat) (ha : a < 256) (hz : φ a = 0) : a = 0 := by
  by_contra h0
  exact φ_ne_zero a h0 ha hz

/-- φ is injective on bytes -/
theorem φ_inj (a b : Nat) (ha : a < 256) (hb : b < 256) (h : φ a = φ b) : a = b := by
  have hx : a ^^^ b < 256 := Nat.xor_lt_two_pow (n := 8) ha hb
  have : φ (a ^^^ b) = 0 := by rw [φ_xor, h, add_self]
  exact Nat.eq_of_xor_eq_zero (φ_eq_zero _ hx this)

/-! ### table multiplication -/

/-- multiplication exactly as the encoder performs it: through the log / antilog tables -/
def tmul (a b : Nat) : Nat :=
  if a == 0 || b == 0 then 0 else Gen.GALIOS_EXP.getD (Gen.GALIOS_LOG.getD a 0 + Gen.GALIOS_LOG.getD b 0) 0

/-- Horner evaluation with table multiplication, highest coefficient first -/
def tevalPoly (cs : List Nat) (x : Nat) : Nat := cs.foldl (fun acc c => tmul acc x ^^^ c) 0

theorem tmul_lt (a b : Nat) : tmul a b < 256 := by
  unfold tmul
  split
  · omega
  · exact exp_lt _

theorem φ_tmul (a b : Nat) (ha : a < 256) (hb : b < 256) : φ (tmul a b) = φ a * φ b := by
  unfold tmul
  by_cases h0 : a = 0
  · subst h0; simp [φ_zero]
  by_cases h1 : b = 0
  · subst h1; simp [φ_zero]
  have hc : (a == 0 || b == 0) = false := by simp [h0, h1]
  rw [hc]
  simp only [Bool.false_eq_true, if_false]
  obtain ⟨ha1, _⟩ := log_spec a h0 ha
  obtain ⟨hb1, _⟩ := log_spec b h1 hb
  rw [φ_exp _ (by omega), pow_add, ← φ_byte a h0 ha, ← φ_byte b h1 hb]

/-- byte lists -/
def Bytes (l : List Nat) : Prop := ∀ x ∈ l, x < 256

theorem bytes_cons {x : Nat} {l : List Nat} : Bytes (x :: l) ↔ x < 256 ∧ Bytes l := by
  simp [Bytes]

theorem bytes_nil : Bytes [] := by simp [Bytes]

theorem bytes_append {l m : List Nat} (hl : Bytes l) (hm : Bytes m) : Bytes (l ++ m) := by
  intro x hx
  rcases List.mem_append.mp hx with h | h
  · exact hl x h
  · exact hm x h

theorem bytes_replicate_zero (n : Nat) : Bytes (List.replicate n 0) := by
  intro x hx
  rw [List.eq_of_mem_replicate hx]; omega

theorem teval_aux (x : Nat) (hx : x < 256) : ∀ (cs : List Nat) (acc : Nat), Bytes cs → acc < 256 →
    φ (cs.foldl (fun acc c => tmul acc x ^^^ c) acc) = evalAux (φ x) (φ acc) (cs.map φ)
    ∧ cs.foldl (fun acc c => tmul acc x ^^^ c) acc < 256 := by
  intro cs
  induction cs with
  | nil => intro acc _ hacc; exact ⟨rfl, hacc⟩
  | cons c cs ih =>
    intro acc hcs hacc
    obtain ⟨hc, hcs'⟩ := bytes_cons.mp hcs
    have hlt : tmul acc x ^^^ c < 256 := Nat.xor_lt_two_pow (n := 8) (tmul_lt _ _) hc
    have := ih (tmul acc x ^^^ c) hcs' hlt
    simp only [List.foldl_cons, List.map_cons, evalAux]
    rw [← φ_tmul acc x hacc hx, ← φ_xor]
    exact this

theorem φ_tevalPoly (cs : List Nat) (x : Nat) (hcs : Bytes cs) (hx : x < 256) :
    φ (tevalPoly cs x) = evalP (φ x) (cs.map φ) := by
  have := (teval_aux x hx cs 0 hcs (by omega)).1
  rw [φ_zero] at this
  exact this

theorem tevalPoly_lt (cs : List Nat) (x : Nat) (hcs : Bytes cs) (hx : x < 256) :
    tevalPoly cs x < 256 := (teval_aux x hx cs 0 hcs (by omega)).2

/-! ### the model's synthetic division under φ -/

/-- generator coefficients (logarithms) as ring elements -/
noncomputable def gK (gen : List Nat) : List K := gen.map (fun l => ρ ^ l)

theorem gK_length (gen : List Nat) : (gK gen).length = gen.length := by simp [gK]

theorem subScaled_zero : ∀ (g r : List K), subScaled 0 g r = r := by
  intro g
  induction g with
  | nil => intro r; simp [subScaled]
  | cons a g ih =>
    intro r
    cases r with
    | nil => simp [subScaled]
    | cons b r => simp [subScaled, ih r]

theorem zip_map (c : K) (m : Nat → Nat) : ∀ (gen rest : List Nat), (∀ g ∈ gen, φ (m g) = c * ρ ^ g) →
    (List.zipWith (fun r g => r ^^^ m g) rest gen
      ++ rest.drop (List.zipWith (fun r g => r ^^^ m g) rest gen).length).map φ
    = subScaled c (gK gen) (rest.map φ) := by
  intro gen
  induction gen with
  | nil => intro rest _; simp [subScaled, gK]
  | cons g gs ih =>
    intro rest hm
    cases rest with
    | nil => simp [subScaled, gK]
    | cons r rs =>
      have ih' := ih rs (fun g hg => hm g (List.mem_cons_of_mem _ hg))
      simp only [List.zipWith_cons_cons, List.length_cons, List.cons_append, List.drop_succ_cons,
        List.map_cons, gK, subScaled] at ih' ⊢
      rw [ih', φ_xor, hm g (List.mem_cons_self), sub_eq]

theorem zip_bytes (m : Nat → Nat) (hm : ∀ g, m g < 256) : ∀ (gen rest : List Nat), Bytes rest →
    Bytes (List.zipWith (fun r g => r ^^^ m g) rest gen
      ++ rest.drop (List.zipWith (fun r g => r ^^^ m g) rest gen).length) := by
  intro gen
  induction gen with
  | nil => intro rest h; simpa using h
  | cons g gs ih =>
    intro rest h
    cases rest with
    | nil => simpa using bytes_nil
    | cons r rs =>
      obtain ⟨hr, hrs⟩ := bytes_cons.mp h
      simp only [List.zipWith_cons_cons, List.length_cons, List.cons_append, List.drop_succ_cons]
      exact bytes_cons.mpr ⟨Nat.xor_lt_two_pow (n := 8) hr (hm g), ih rs hrs⟩

theorem zip_length (m : Nat → Nat) (gen rest : List Nat) :
    (List.zipWith (fun r g => r ^^^ m g) rest gen
      ++ rest.drop (List.zipWith (fun r g => r ^^^ m g) rest gen).length).length = rest.length := by
  simp only [List.length_append, List.length_zipWith, List.length_drop]
  omega

theorem logArr_getD (a : Nat) : Model.logArr.getD a 0 = Gen.GALIOS_LOG.getD a 0 := by
  simp [Model.logArr, List.getD_eq_getElem?_getD]

theorem expArr_getD (a : Nat) : Model.expArr.getD a 0 = Gen.GALIOS_EXP.getD a 0 := by
  simp [Model.expArr, List.getD_eq_getElem?_getD]

theorem rsStep_eq (gen : List Nat) (coef : Nat) (rest : List Nat) (h : coef ≠ 0) :
    Model.rsStep gen coef rest =
      List.zipWith (fun r g => r ^^^ Model.expArr.getD (Model.logArr.getD coef 0 + g) 0) rest gen
      ++ rest.drop (List.zipWith
          (fun r g => r ^^^ Model.expArr.getD (Model.logArr.getD coef 0 + g) 0) rest gen).length := by
  unfold Model.rsStep
  have : (coef == 0) = false := by simp [h]
  rw [this]
  rfl

theorem rsStep_zero (gen : List Nat) (rest : List Nat) : Model.rsStep gen 0 rest = rest := by
  unfold Model.rsStep; rfl

theorem rsStep_map (gen : List Nat) (coef : Nat) (rest : List Nat) (hc : coef < 256)
    (hgen : ∀ g ∈ gen, g < 255) :
    (Model.rsStep gen coef rest).map φ = subScaled (φ coef) (gK gen) (rest.map φ) := by
  by_cases h : coef = 0
  · subst h; rw [rsStep_zero, φ_zero, subScaled_zero]
  · rw [rsStep_eq gen coef rest h]
    apply zip_map
    intro g hg
    obtain ⟨h1, _⟩ := log_spec coef h hc
    have := hgen g hg
    rw [expArr_getD, logArr_getD, φ_exp _ (by omega), pow_add, ← φ_byte coef h hc]

theorem rsStep_bytes (gen : List Nat) (coef : Nat) (rest : List Nat) (hr : Bytes rest) :
    Bytes (Model.rsStep gen coef rest) := by
  by_cases h : coef = 0
  · subst h; rw [rsStep_zero]; exact hr
  · rw [rsStep_eq gen coef rest h]
    exact zip_bytes _ (fun g => by rw [expArr_getD]; exact exp_lt _) gen rest hr

theorem rsStep_length (gen : List Nat) (coef : Nat) (rest : List Nat) :
    (Model.rsStep gen coef rest).length = rest.length := by
  by_cases h : coef = 0
  · subst h; rw [rsStep_zero]
  · rw [rsStep_eq gen coef rest h]; exact zip_length _ gen rest

theorem rsLoop_map (gen : List Nat) (hgen : ∀ g ∈ gen, g < 255) : ∀ (k : Nat) (l : List Nat), Bytes l →
    (Model.rsLoop gen k l).map φ = divLoop (gK gen) k (l.map φ) := by
  intro k
  induction k with
  | zero => intro l _; rfl
  | succ k ih =>
    intro l hl
    cases l with
    | nil => rfl
    | cons c rest =>
      obtain ⟨hc, hrest⟩ := bytes_cons.mp hl
      simp only [Model.rsLoop, List.map_cons, divLoop]
      rw [ih _ (rsStep_bytes gen c rest hrest), rsStep_map gen c rest hc hgen]

theorem rsLoop_bytes (gen : List Nat) : ∀ (k : Nat) (l : List Nat), Bytes l →
    Bytes (Model.rsLoop gen k l) := by
  intro k
  induction k with
  | zero => intro l h; exact h
  | succ k ih =>
    intro l hl
    cases l with
    | nil => exact bytes_nil
    | cons c rest =>
      simp only [Model.rsLoop]
      exact ih _ (rsStep_bytes gen c rest (bytes_cons.mp hl).2)

theorem rsLoop_length (gen : List Nat) : ∀ (k : Nat) (l : List Nat),
    (Model.rsLoop gen k l).length = l.length - k := by
  intro k
  induction k with
  | zero => intro l; rfl
  | succ k ih =>
    intro l
    cases l with
    | nil => simp [Model.rsLoop]
    | cons c rest =>
      simp only [Model.rsLoop]
      rw [ih, rsStep_length]; simp

theorem rsRemainder_length (gen data : List Nat) (n : Nat) :
    (Model.rsRemainder gen data n).length = n := by
  unfold Model.rsRemainder
  rw [rsLoop_length]; simp

theorem rsRemainder_bytes (gen data : List Nat) (n : Nat) (hd : Bytes data) :
    Bytes (Model.rsRemainder gen data n) := by
  unfold Model.rsRemainder
  exact rsLoop_bytes gen _ _ (bytes_append hd (bytes_replicate_zero n))

theorem rsRemainder_map (gen data : List Nat) (hgen : ∀ g ∈ gen, g < 255) (hd : Bytes data) :
    (Model.rsRemainder gen data gen.length).map φ
      = divLoop (gK gen) (data.map φ).length (data.map φ ++ List.replicate (gK gen).length 0) := by
  unfold Model.rsRemainder
  rw [rsLoop_map gen hgen _ _ (bytes_append hd (bytes_replicate_zero _))]
  simp [gK_length, φ_zero]

/-! ### the generator polynomials vanish at α^0 … α^(n-1) -/

theorem gen_roots_check :
    Gen.GEN_POLY.all (fun (n, g) => (List.range n).all (fun i =>
      tevalPoly (1 :: g.map (fun l => Gen.GALIOS_EXP.getD l 0)) (Gen.GALIOS_EXP.getD i 0) == 0)) = true := by
  decide +kernel

theorem gen_small : Gen.GEN_POLY.all (fun (n, _) => n < 255) = true := by decide +kernel

theorem gen_facts (n : Nat) (gen : List Nat) (hg : (n, gen) ∈ Gen.GEN_POLY) :
    (∀ g ∈ gen, g < 255) ∧ gen.length = n ∧ n < 255 := by
  have h := List.all_eq_true.mp Props.C03.gen_poly_is_product_of_roots (n, gen) hg
  have h2 := List.all_eq_true.mp gen_small (n, gen) hg
  simp only [Bool.and_eq_true, List.all_eq_true, decide_eq_true_eq, beq_iff_eq] at h h2
  exact ⟨h.1.2, h.2, h2⟩

theorem gen_root (n : Nat) (gen : List Nat) (hg : (n, gen) ∈ Gen.GEN_POLY) (i : Nat) (hi : i < n) :
    evalP (ρ ^ i) (1 :: gK gen) = 0 := by
  obtain ⟨hlt, _, hn⟩ := gen_facts n gen hg
  have h := List.all_eq_true.mp gen_roots_check (n, gen) hg
  simp only [List.all_eq_true, List.mem_range, beq_iff_eq] at h
  have h0 := h i hi
  have hb : Bytes (1 :: gen.map (fun l => Gen.GALIOS_EXP.getD l 0)) := by
    apply bytes_cons.mpr
    refine ⟨by omega, ?_⟩
    intro x hx
    obtain ⟨l, _, rfl⟩ := List.mem_map.mp hx
    exact exp_lt l
  have h1 := φ_tevalPoly _ _ hb (exp_lt i)
  rw [h0, φ_zero, φ_exp i (by omega)] at h1
  have e : (1 :: gK gen) = List.map φ (1 :: gen.map (fun l => Gen.GALIOS_EXP.getD l 0)) := by
    simp only [List.map_cons, φ_one, List.map_map, gK]
    congr 1
    apply List.map_congr_left
    intro l hl
    simp only [Function.comp_apply]
    rw [φ_exp l (by have := hlt l hl; omega)]
  rw [e]
  exact h1.symm

/-! ### main theorems -/

theorem block_is_codeword (n : Nat) (gen : List Nat) (hg : (n, gen) ∈ Gen.GEN_POLY)
    (data : List Nat) (hd : ∀ d ∈ data, d < 256) (i : Nat) (hi : i < n) :
    tevalPoly (data ++ Model.rsRemainder gen data n) (Gen.GALIOS_EXP.getD i 0) = 0 := by
  obtain ⟨hlt, hlen, hn⟩ := gen_facts n gen hg
  subst hlen
  have hcw : Bytes (data ++ Model.rsRemainder gen data gen.length) :=
    bytes_append hd (rsRemainder_bytes gen data _ hd)
  apply φ_eq_zero _ (tevalPoly_lt _ _ hcw (exp_lt i))
  rw [φ_tevalPoly _ _ hcw (exp_lt i), φ_exp i (by omega), List.map_append,
    rsRemainder_map gen data hlt hd]
  have h := codeword_root (ρ ^ i) (gK gen) (data.map φ) (gen_root _ gen hg i hi)
  have hneg : (fun r : K => -r) = id := by funext r; exact neg_eq r
  rw [hneg, List.map_id] at h
  exact h

/-! ### table multiplication is the field multiplication of `Spec.gmul` -/

theorem φ_gmulAux : ∀ (k a b acc : Nat),
    φ (Spec.gmulAux k a b acc) = φ acc + φ a * φ (b % 2 ^ k) := by
  intro k
  induction k with
  | zero => intro a b acc; simp [Spec.gmulAux, Nat.mod_one, φ_zero]
  | succ k ih =>
    intro a b acc
    simp only [Spec.gmulAux]
    rw [ih, φ_xtime, φ_eq (b % 2 ^ (k + 1))]
    have e1 : b % 2 ^ (k + 1) % 2 = b % 2 := by
      rw [pow_succ, Nat.mul_comm]; exact Nat.mod_mul_right_mod b 2 (2 ^ k)
    have e2 : b % 2 ^ (k + 1) / 2 = b / 2 % 2 ^ k := by
      rw [pow_succ, Nat.mul_comm]; exact Nat.mod_mul_right_div_self b 2 (2 ^ k)
    rw [e1, e2]
    rcases Nat.mod_two_eq_zero_or_one b with hb | hb
    · rw [hb]; simp only [Nat.zero_ne_one, if_false, Nat.cast_zero]; ring
    · rw [hb]; simp only [if_true, Nat.cast_one, φ_xor]; ring

theorem φ_gmul (a b : Nat) (hb : b < 256) : φ (Spec.gmul a b) = φ a * φ b := by
  unfold Spec.gmul
  rw [φ_gmulAux, φ_zero, zero_add, Nat.mod_eq_of_lt (by omega : b < 2 ^ 8)]

theorem xtime_lt : ∀ a, a < 256 → Spec.xtime a < 256 := by decide +kernel

theorem gmulAux_lt : ∀ (k a b acc : Nat), a < 256 → acc < 256 → Spec.gmulAux k a b acc < 256 := by
  intro k
  induction k with
  | zero => intro a b acc _ h; exact h
  | succ k ih =>
    intro a b acc ha hacc
    simp only [Spec.gmulAux]
    apply ih _ _ _ (xtime_lt a ha)
    split
    · exact Nat.xor_lt_two_pow (n := 8) hacc ha
    · exact hacc

theorem gmul_lt (a b : Nat) (ha : a < 256) : Spec.gmul a b < 256 :=
  gmulAux_lt 8 a b 0 ha (by omega)

theorem table_mul_is_field_mul (a b : Nat) (ha : a < 256) (hb : b < 256) : tmul a b = Spec.gmul a b :=
  φ_inj _ _ (tmul_lt a b) (gmul_lt a b ha) (by rw [φ_tmul a b ha hb, φ_gmul a b hb])

theorem φ_alphaPow (i : Nat) : φ (Spec.alphaPow i) = ρ ^ i := by
  induction i with
  | zero => simpa [Spec.alphaPow] using φ_one
  | succ i ih => rw [Spec.alphaPow, φ_xtime, ih, pow_succ, mul_comm]

theorem alphaPow_lt (i : Nat) : Spec.alphaPow i < 256 := by
  induction i with
  | zero => simp [Spec.alphaPow]
  | succ i ih => exact xtime_lt _ ih

theorem alphaPow_eq_exp (i : Nat) (hi : i < 510) : Spec.alphaPow i = Gen.GALIOS_EXP.getD i 0 :=
  φ_inj _ _ (alphaPow_lt i) (exp_lt i) (by rw [φ_alphaPow, φ_exp i hi])

theorem evalPoly_aux (x : Nat) (hx : x < 256) : ∀ (cs : List Nat) (acc : Nat), Bytes cs → acc < 256 →
    cs.foldl (fun acc c => Spec.gmul acc x ^^^ c) acc = cs.foldl (fun acc c => tmul acc x ^^^ c) acc := by
  intro cs
  induction cs with
  | nil => intro acc _ _; rfl
  | cons c cs ih =>
    intro acc hcs hacc
    obtain ⟨hc, hcs'⟩ := bytes_cons.mp hcs
    simp only [List.foldl_cons]
    rw [← table_mul_is_field_mul acc x hacc hx]
    exact ih _ hcs' (Nat.xor_lt_two_pow (n := 8) (tmul_lt _ _) hc)

theorem evalPoly_eq_tevalPoly (cs : List Nat) (x : Nat) (hcs : Bytes cs) (hx : x < 256) :
    Spec.evalPoly cs x = tevalPoly cs x := evalPoly_aux x hx cs 0 hcs (by omega)

theorem block_valid_for_reference_reader (n : Nat) (gen : List Nat) (hg : (n, gen) ∈ Gen.GEN_POLY)
    (data : List Nat) (hd : ∀ d ∈ data, d < 256) :
    Spec.validCodeword (data ++ Model.rsRemainder gen data n) n = true := by
  obtain ⟨_, _, hn⟩ := gen_facts n gen hg
  have hcw : Bytes (data ++ Model.rsRemainder gen data n) :=
    bytes_append hd (rsRemainder_bytes gen data _ hd)
  unfold Spec.validCodeword Spec.syndromes
  simp only [List.all_eq_true, List.mem_map, List.mem_range, beq_iff_eq]
  rintro s ⟨i, hi, rfl⟩
  rw [alphaPow_eq_exp i (by omega), evalPoly_eq_tevalPoly _ _ hcw (exp_lt i)]
  exact block_is_codeword n gen hg data hd i hi

end Proofs.RSField
